"""C14 — graph files round trip in every supported format; bad files are rejected.

Correspondence (model vs real code)
  write   the text `writeGraph` produces for an in-house format equals the model's text, and
          the model's lexer maps it to the rows of the model's row-level writer
  rtrip   in-house formats: view of the graph read back;  gml / dot (`rtrip3p`): the real
          third-party parser's nodes/edges are sent through the model's `relabel` / `bipnx`
  read    arbitrary / mutated texts of the in-house formats: outcome class and resulting graph
  readf   the same through a real text-mode FILE (universal newlines) against the model's character-level
          reader `readText true` (the function the character-level theorems of Props/C14/Text.lean speak about)
  rtripf  write to a real file, read the file back: view of the graph vs the model's `rtripf`
  relabel `from_networkx` on networkx graphs with arbitrary integer or string labels
  dotread hand-made dot texts with arbitrary node names: real pydot parse -> the model's dot-branch relabelling
  read3p  mutated gml / dot texts (no model: the third-party parsers are not modelled)
  rtripbig  1 MiB files (thorough tier; no model: its list-based edge set is quadratic there), round-trip oracle only
  objects (write / rtrip / rtrip3p with an `origin`): graph OBJECTS of every class of cnfgen.graphs (found by
          introspection), of every constructor function, of every command-line construction (+ modifiers), reached
          by update histories or read from another format — sent to the model as what their views say
  reread  one graph file read several times in one process (every reader entry point), with in-place changes of the
          returned objects / command-line modifiers / rewrites of the file in between: the LAST read against the
          model's read of the current text; the oracle compares EVERY plain read with the graph in the file

Oracle (independent of the model)
  round trip on the real code preserves (type, n or (l,r), edge set, numbering, dag flag);
  for arbitrary text the real reader returns a graph equal to the one an independent reference
  reader (written from www/KTHlistFormat.txt, www/graphformats.org, the DIMACS edge format and
  the reader docstrings) extracts from the text, or raises ValueError.  Anything else (other
  exception, inconsistent graph, malformed file accepted) is a failure.
"""
import atexit
import inspect
import io
import os
import random as _code_random      # the generator of the code under test: only ever SEEDED here (reproducible objects)
import re
import shutil
import sys
import tempfile

import networkx

from harness import common
from harness.common import Case, req, enc_list, enc_str, enc_pairs, ok

from cnfgen.graphs import readGraph, writeGraph, Graph, DirectedGraph, BipartiteGraph
from cnfgen.clitools.graph_fileinput import read_graph_from_input
import cnfgen.graphs as _graphs
from cnfgen.clitools import graph_args
from cnfgen.clitools.graph_args import make_graph_from_spec

FMT = {"kthlist": 0, "gml": 1, "dot": 2, "dimacs": 3, "matrix": 4}
TY = {"simple": 0, "digraph": 1, "dag": 2, "bipartite": 3}
SUPPORTED = {"simple": ["kthlist", "gml", "dot", "dimacs"], "digraph": ["kthlist", "gml", "dot", "dimacs"],
             "dag": ["kthlist", "gml", "dot", "dimacs"], "bipartite": ["kthlist", "gml", "dot", "matrix"]}
INHOUSE = ("kthlist", "dimacs", "matrix")
CLASSES = {"simple": Graph, "digraph": DirectedGraph, "dag": DirectedGraph, "bipartite": BipartiteGraph}

RULE = ("graphs: four types x shapes (empty, isolated vertices, paths, stars, complete, random, 10-15 vertices, "
        "empty sides, self-loops and 2-cycles for digraphs) x every format supported for the type x names; "
        "texts: written files with 1-3 mutations (truncation, blank/comment lines anywhere, duplicated/deleted/swapped "
        "rows, out-of-range ids, wrong counts, non-numeric and odd-integer tokens, repeated/out-of-order left vertices, "
        "backward edges) + hand-written corpus + random token soups; objects of every graph class / constructor / "
        "command-line construction (+ modifier) / update history / other format through every writer and reader entry "
        "point incl. `save`; one file read 2-6 times in one process with in-place changes, modifiers and rewrites in "
        "between; distinct = distinct request line; "
        "non-trivial = graph with an edge / text with a digit")
ASSUMPTIONS = [
    "decimal digits are ASCII (Python's int() also accepts non-ASCII decimal digits; outside the lexer model); other non-ASCII "
    "characters (blanks, line separators, letters) occur in the generated names and texts",
    "numbers of 7..4300 digits are not sent to the model as sizes (list-based model; the real classes would allocate as much)",
    "streams are io.StringIO or files of a private temp dir; a text-mode file translates \\r\\n to \\n before the reader",
]
TRUSTED_EXTRA = [
    "gml / dot: networkx.read_gml / write_gml, networkx.nx_pydot.read_dot / write_dot (pydot) are third party and not "
    "modelled; the model covers normalize_networkx_labels + from_networkx on the node/edge lists they return",
    "the lexer (model of Python readlines/str.split/strip/int, ASCII decimal digits) is proven to invert the in-house writers on "
    "their own output (Props/C14/Text.lean); on every other text it is compared on every read / readf request, not proven",
]
NOTES = []

_TMP = tempfile.mkdtemp(prefix="c14-")
atexit.register(shutil.rmtree, _TMP, True)
_counter = [0]


# ---------------------------------------------------------------- graphs
def build_origin(o, ty):
    """the graph OBJECT described by the recipe `o` (JSON-able)"""
    how = o["how"]
    _code_random.seed(o.get("rseed", 0))
    if how == "class":
        return getattr(_graphs, o["name"])(*o["args"])
    if how == "ctor":
        f = _graphs
        for part in o["name"].split("."):
            f = getattr(f, part)
        return f(*o["args"])
    if how == "spec":
        return quiet(make_graph_from_spec, o["kind"], [str(x) for x in o["spec"]])
    if how == "history":
        return common.graph_by_some_history(o["n"], o["edges"])
    if how == "other-format":
        G = build_origin(o["of"], ty)
        return read_text(write_text(G, ty, o["fmt"]), ty, o["fmt"])
    if how == "modified":
        G = build_origin(o["of"], ty)
        _code_random.seed(o.get("rseed", 0))
        apply_inplace(G, o["ops"])
        return G
    raise ValueError(how)


def apply_inplace(G, ops):
    """the in-place modifiers of the library, applied to an object by its owner (steps that the object refuses — no such
    vertex, not enough edges, no such method for the class — are skipped: the recipe is replayed identically every time)"""
    for op in ops:
        try:
            if op[0] == "upd":
                G.update_vertex_number(G.number_of_vertices() + op[1])
            elif op[0] == "add":
                G.add_edge(op[1], op[2])
            elif op[0] == "rem":
                G.remove_edge(op[1], op[2])
            elif op[0] == "addlast":
                # an edge between the (op[1]+1)-th and the (op[2]+1)-th vertex counted from the LAST one
                n = G.number_of_vertices()
                G.add_edge(n - op[1], n - op[2])
            elif op[0] == "split":
                _graphs.split_random_edges(G, op[1])
            elif op[0] == "addrand":
                _graphs.add_random_missing_edges(G, op[1])
            elif op[0] == "clique":
                vs = _code_random.sample(list(G.vertices()), op[1])
                for i, u in enumerate(vs):
                    for v in vs[i + 1:]:
                        G.add_edge(u, v)
        except (ValueError, TypeError, AttributeError, IndexError, KeyError):
            pass


def type_of(G):
    if isinstance(G, _graphs.BaseBipartiteGraph):
        return "bipartite"
    return "digraph" if isinstance(G, DirectedGraph) else "simple"


def g_of(G, origin=None):
    """the graph literal (what is sent to the model) that the VIEWS of the object describe"""
    if isinstance(G, _graphs.BaseBipartiteGraph):
        g = {"l": G.left_order(), "r": G.right_order(), "edges": [[u, v] for u, v in G.edges()]}
    else:
        g = {"n": G.number_of_vertices(), "edges": [[u, v] for u, v in G.edges()]}
    if origin is not None:
        g["origin"] = origin
    return g


def canon_g(ty, g):
    """`canon` of the graph a literal stands for, without building any object"""
    es = [tuple(e) for e in g["edges"]]
    if ty == "bipartite":
        return ["bipartite", g["l"], g["r"], sorted([u, v] for u, v in set(es))]
    if ty == "simple":
        return ["simple", g["n"], sorted([a, b] for a, b in {(min(u, v), max(u, v)) for u, v in es})]
    out = [ty, g["n"], sorted([u, v] for u, v in set(es))]
    if ty == "dag":
        out.append(all(u < v for u, v in es))
    return out


def make_graph(ty, g):
    if g.get("origin") is not None:
        return build_origin(g["origin"], ty)
    if ty == "bipartite":
        B = BipartiteGraph(g["l"], g["r"])
        for u, v in g["edges"]:
            B.add_edge(u, v)
        return B
    G = Graph(g["n"]) if ty == "simple" else DirectedGraph(g["n"])
    for u, v in g["edges"]:
        G.add_edge(u, v)
    return G


def enc_g(ty, g):
    if ty == "bipartite":
        return [g["l"], g["r"]] + enc_pairs(g["edges"])
    return [g["n"]] + enc_pairs(g["edges"])


def rows_str(rows):
    return ";".join(" ".join(str(x) for x in r) for r in rows)


def fmt_pairs(ps):
    ps = list(ps)
    return " ".join([str(len(ps))] + ["{} {}".format(a, b) for a, b in ps])


def view(G):
    """same layout as Driver/GraphIO.lean viewSimple / viewDi / viewBip"""
    if isinstance(G, _graphs.BaseBipartiteGraph):
        l, r = G.left_order(), G.right_order()
        return " ".join(["B", str(l), str(r), "E", fmt_pairs(G.edges()),
                         "R", rows_str([list(G.right_neighbors(u)) for u in range(1, l + 1)]),
                         "L", rows_str([list(G.left_neighbors(v)) for v in range(1, r + 1)])])
    n = G.number_of_vertices()
    if isinstance(G, DirectedGraph):
        return " ".join(["D", str(n), str(G.number_of_edges()), "1" if G.is_dag() else "0", "E", fmt_pairs(G.edges()),
                         "P", rows_str([list(G.predecessors(u)) for u in range(1, n + 1)]),
                         "S", rows_str([list(G.successors(u)) for u in range(1, n + 1)])])
    return " ".join(["S", str(n), str(G.number_of_edges()), "E", fmt_pairs(G.edges()),
                     "A", rows_str([list(G.neighbors(u)) for u in range(1, n + 1)])])


def canon(G, ty):
    """what the property speaks about: type, order (and split), numbering, edge set"""
    if ty == "bipartite":
        assert isinstance(G, _graphs.BaseBipartiteGraph)
        return ["bipartite", G.left_order(), G.right_order(), sorted([u, v] for u, v in G.edges())]
    if ty == "simple":
        assert isinstance(G, Graph)
        return ["simple", G.number_of_vertices(), sorted([min(u, v), max(u, v)] for u, v in G.edges())]
    assert isinstance(G, DirectedGraph)
    out = [ty, G.number_of_vertices(), sorted([u, v] for u, v in G.edges())]
    if ty == "dag":
        out.append(bool(G.is_dag()))
    return out


def canon_members(G, ty):
    """`canon` of the object as its MEMBERSHIP view describes it (has_edge asked for every pair of vertices) instead of
    its edge iterator; None for a class without has_edge"""
    if not hasattr(G, "has_edge"):
        return None
    if ty == "bipartite":
        l, r = G.left_order(), G.right_order()
        return ["bipartite", l, r, [[u, v] for u in range(1, l + 1) for v in range(1, r + 1) if G.has_edge(u, v)]]
    n = G.number_of_vertices()
    if ty == "simple":
        return ["simple", n, [[u, v] for u in range(1, n + 1) for v in range(u + 1, n + 1) if G.has_edge(u, v) or G.has_edge(v, u)]]
    return [ty, n, [[u, v] for u in range(1, n + 1) for v in range(1, n + 1) if G.has_edge(u, v)]]


def quiet(f, *a, **k):
    """pydot prints its parse errors on stdout"""
    old = sys.stdout
    sys.stdout = io.StringIO()
    try:
        return f(*a, **k)
    finally:
        sys.stdout = old


def write_text(G, ty, fmt, name=None):
    if name is not None:
        G.name = name
    s = io.StringIO()
    writeGraph(G, s, ty, fmt)
    return s.getvalue()


def read_text(text, ty, fmt, via="stringio"):
    """the four documented ways into the reader"""
    if via == "stringio":
        return quiet(readGraph, io.StringIO(text), ty, fmt)
    _counter[0] += 1
    path = os.path.join(_TMP, "g{}.{}".format(_counter[0], fmt))
    with open(path, "w", encoding="utf-8", newline="") as fh:
        fh.write(text)
    try:
        if via == "file-autodetect":
            return quiet(readGraph, path, ty)
        if via == "from_file" and ty != "dag":
            return quiet(CLASSES[ty].from_file, path)
        if via == "cli":
            return quiet(read_graph_from_input, ty, path, "autodetect")
        return quiet(readGraph, path, ty, fmt)
    finally:
        os.unlink(path)


def roundtrip_oracle(ty, fmt, g, name, via):
    def oracle():
        G = make_graph(ty, g)
        before = canon(G, ty)
        members, count = canon_members(G, ty), G.number_of_edges()
        if g.get("origin") is not None and _deep(before) != _deep(canon_g(ty, g)):
            return {"roundtrip": "the object is not the graph it was when the case was generated", "object": before,
                    "generated": canon_g(ty, g), "origin": g["origin"]}
        if via in ("save", "save-fmt") and (g.get("origin") or {}).get("how") == "spec":
            # the command line's own route to the writer: `<construction> … save [<format>] <file>`
            _counter[0] += 1
            path = os.path.join(_TMP, "s{}.{}".format(_counter[0], fmt if via == "save" else "graph"))
            o = g["origin"]
            _code_random.seed(o.get("rseed", 0))
            quiet(make_graph_from_spec, o["kind"], [str(x) for x in o["spec"]] + ["save"] + ([fmt] if via == "save-fmt" else []) + [path])
            with open(path, encoding="utf-8", newline="") as fh:
                text = fh.read()
            os.unlink(path)
        elif via == "stringio" or via in ("save", "save-fmt"):
            text = write_text(G, ty, fmt, name)
        else:
            _counter[0] += 1
            path = os.path.join(_TMP, "w{}.{}".format(_counter[0], fmt))
            if name is not None:
                G.name = name
            writeGraph(G, path, ty)            # format from the extension
            with open(path, encoding="utf-8", newline="") as fh:
                text = fh.read()
            os.unlink(path)
        try:
            H = read_text(text, ty, fmt, via if via not in ("save", "save-fmt") else "cli")
        except Exception as e:
            return {"roundtrip": "reader raised " + type(e).__name__, "msg": str(e)[:120], "text": text[:600],
                    "graph": before}
        after = canon(H, ty)
        if before != after:
            return {"roundtrip": "graph changed", "written": before, "read_back": after, "text": text[:600]}
        # "exactly the same edges": the object's edge SET (has_edge on every pair, number_of_edges) is as much the graph
        # that was written as what its iterator lists — for the object written and for the object read back
        for what, obj_members, obj_count in (("written", members, count), ("read back", canon_members(H, ty), H.number_of_edges())):
            k = 4 if ty == "bipartite" else 3
            if obj_members is not None and (_deep(obj_members[:k]) != _deep(after[:k]) or obj_count != len(after[k - 1])):
                return {"roundtrip": "the file does not hold the edge set of the object " + what,
                        "edges_by_has_edge": obj_members, "number_of_edges": obj_count, "graph_in_the_file": after,
                        "origin": g.get("origin"), "text": text[:600]}
        return None
    return oracle


# ---------------------------------------------------------------- independent reference readers
INT_RE = re.compile(r"^[+-]?[0-9]+(_[0-9]+)*$")


def ref_int(tok):
    tok = tok.strip()
    return int(tok) if INT_RE.match(tok) else None


def ref_kthlist(text, ty):
    """www/KTHlistFormat.txt + www/graphformats.org (one list per line, as CNFgen writes them)"""
    size = None
    rows = []
    for ln in text.split("\n"):
        if ln[:1] in ("c", "C"):
            continue
        if ln.strip() == "":
            continue
        if size is None:
            v = ref_int(ln)
            if v is None or v < 0:
                return ("invalid", "first data line is not the number of vertices")
            size = v
            continue
        parts = ln.split(":")
        if len(parts) != 2:
            return ("invalid", "not '<int> : <ints> 0'")
        left = ref_int(parts[0])
        vals = [ref_int(t) for t in parts[1].split()]
        if left is None or None in vals or not vals or vals[-1] != 0:
            return ("invalid", "not '<int> : <ints> 0'")
        vals = vals[:-1]
        if not (1 <= left <= size) or any(not (1 <= x <= size) for x in vals):
            return ("invalid", "vertex out of range")
        rows.append((left, vals))
    if size is None:
        return ("invalid", "no number of vertices")
    if ty == "bipartite":
        L = max([u for u, _ in rows], default=0)
        if any(v <= L for _, vs in rows for v in vs):
            return ("invalid", "neighbour on the left side")
        return ("graph", ["bipartite", L, size - L, sorted({(u, v - L) for u, vs in rows for v in vs})])
    if ty == "simple":
        if any(u == v for u, vs in rows for v in vs):
            return ("invalid", "self loop")
        return ("graph", ["simple", size, sorted({(min(u, v), max(u, v)) for u, vs in rows for v in vs})])
    edges = sorted({(v, u) for u, vs in rows for v in vs})
    if ty == "dag" and any(a >= b for a, b in edges):
        return ("invalid", "backward edge in a dag")
    return ("graph", [ty, size, edges] + ([True] if ty == "dag" else []))


def ref_dimacs(text, ty):
    """DIMACS edge format: the first character names the line type; c p e are used here"""
    n = m = None
    cnt = 0
    edges = set()
    for ln in text.split("\n"):
        s = ln.strip()
        if not s or s[0] == "c":
            continue
        if s[0] == "p":
            t = s.split()
            if n is not None or len(t) != 4 or t[1] != "edge":
                return ("invalid", "problem line")
            a, b = ref_int(t[2]), ref_int(t[3])
            if a is None or b is None or a < 0:
                return ("invalid", "problem line")
            n, m = a, b
        elif s[0] == "e":
            t = s.split()
            if n is None or len(t) != 3:
                return ("invalid", "edge line")
            u, v = ref_int(t[1]), ref_int(t[2])
            if u is None or v is None or not (1 <= u <= n and 1 <= v <= n):
                return ("invalid", "edge line")
            if ty == "simple":
                if u == v:
                    return ("invalid", "self loop")
                u, v = min(u, v), max(u, v)
            cnt += 1
            edges.add((u, v))
    if n is None or m != cnt:
        return ("invalid", "edge count")
    if ty == "dag" and any(a >= b for a, b in edges):
        return ("invalid", "backward edge in a dag")
    return ("graph", [ty, n, sorted(edges)] + ([True] if ty == "dag" else []))


def ref_matrix(text, ty):
    toks = []
    for ln in text.split("\n"):
        t = ln.split()
        if not t or t[0].startswith("#"):
            continue
        toks += t
    vals = [ref_int(t) for t in toks]
    if None in vals or len(vals) < 2 or vals[0] < 0 or vals[1] < 0:
        return ("invalid", "dimensions")
    n, m = vals[0], vals[1]
    cells = vals[2:]
    if len(cells) != n * m or any(b not in (0, 1) for b in cells):
        return ("invalid", "entries")
    return ("graph", ["bipartite", n, m, sorted((i + 1, j + 1) for i in range(n) for j in range(m) if cells[i * m + j])])


REF = {"kthlist": ref_kthlist, "dimacs": ref_dimacs, "matrix": ref_matrix}


def _deep(x):
    if isinstance(x, (list, tuple)):
        return [_deep(y) for y in x]
    return x


def read_oracle(text, ty, fmt, via="stringio"):
    def oracle():
        try:
            G = read_text(text, ty, fmt, via)
        except ValueError:
            return None
        except Exception as e:
            return {"reader": "raised " + type(e).__name__, "msg": str(e)[:120], "text": text[:400]}
        if fmt not in REF:
            return None
        if fmt not in SUPPORTED[ty]:
            return {"reader": "accepted a format not supported for the type"}
        # a text-mode file hands "\r\n" and "\r" to the reader as "\n"
        seen = text if via == "stringio" else text.replace("\r\n", "\n").replace("\r", "\n")
        kind, val = REF[fmt](seen, ty)
        got = _deep(canon(G, ty))
        if kind == "invalid":
            return {"reader": "accepted a malformed file", "why_malformed": val, "graph": got, "text": text[:400]}
        if _deep(val) != got:
            return {"reader": "graph inconsistent with the text", "text_says": _deep(val), "graph": got, "text": text[:400]}
        return None
    return oracle


# ---------------------------------------------------------------- third-party side (gml / dot)
def nx_parse(text, fmt):
    """what readGraph hands to `normalize`: the third-party parser's graph"""
    if fmt == "gml":
        return networkx.read_gml((line.encode("ascii") for line in io.StringIO(text)), label="id")
    G = quiet(networkx.nx_pydot.read_dot, io.StringIO(text))
    try:
        G.remove_node("\\n")
    except networkx.exception.NetworkXError:
        pass
    return G


def relabel_req(ty, N, dot=False):
    """`dot=True`: string names as the dot branch of readGraph treats them (all-digit names -> ints)"""
    nodes = list(N.nodes())
    edges = [(e[0], e[1]) for e in N.edges()]
    if ty == "bipartite":
        idx = {u: i for i, u in enumerate(nodes)}
        enc = [len(nodes)]
        for u in nodes:
            c = N.nodes[u].get("bipartite")
            enc += [idx[u], 0 if c in (0, "0") else 1 if c in (1, "1") else -1]
        return req("bipnx", enc, enc_pairs([(idx[u], idx[v]) for u, v in edges]))
    if all(isinstance(u, int) and not isinstance(u, bool) for u in nodes):
        return req("relabel", TY[ty], 0, enc_list(nodes), enc_pairs(edges))
    assert all(isinstance(u, str) for u in nodes)
    enc = [len(nodes)]
    for u in nodes:
        enc += enc_str(u)
    enc2 = [len(edges)]
    for u, v in edges:
        enc2 += enc_str(u) + enc_str(v)
    return req("relabel", TY[ty], 2 if dot else 1, enc, enc2)


GML_TOKEN = re.compile(r'"[^"]*"|\[|\]|[^\s\[\]]+')


def gml_class(text, ty):
    """input classes of gml texts on which the third-party parser (or the missing type check after it)
    is known to let a non-ValueError escape; None for every other text"""
    if text.count('"') % 2 == 1:
        return "gml:unterminated-string"
    toks = GML_TOKEN.findall(text)
    stack = [set()]
    path = []
    i = 0
    dup = directed = False
    while i + 1 < len(toks):
        key, val = toks[i], toks[i + 1]
        if key == "]":
            if len(stack) > 1:
                stack.pop()
                path.pop()
            i += 1
            continue
        if key in stack[-1] and key in ("id", "source", "target"):
            dup = True
        if key == "directed" and val == "1" and path == ["graph"]:
            directed = True
        stack[-1].add(key)
        if val == "[":
            stack.append(set())
            path.append(key)
        i += 2
    if dup:
        return "gml:duplicate-key"
    if ty in ("digraph", "dag") and not directed:
        return "gml:undirected-as-directed"
    return None


JUNK3P = ["", "# c", "foo", "5 -> 9;", "5 -- 9;", "node [ id 7 ]", "edge [ source 0 target 99 ]", "directed 1",
          "bipartite 2", "7 [bipartite=2];", "x [bipartite=0];", "]", "}", "graph [", "1 -- 1;"]


def mutate3p(rng, text):
    lines = text.split("\n")
    k = rng.randrange(8)
    if k == 0:
        return text[:rng.randrange(len(text) + 1)], "truncate"
    if k == 1 and text:
        i = rng.randrange(len(text))
        return text[:i] + rng.choice('[]{}";x9 -\n>=') + text[i + 1:], "replace-char"
    if k == 2:
        i = rng.randrange(len(lines))
        return "\n".join(lines[:i] + lines[i + 1:]), "delete-line"
    if k == 3:
        i = rng.randrange(len(lines))
        return "\n".join(lines[:i] + [lines[i]] + lines[i:]), "duplicate-line"
    if k == 4:
        i = rng.randrange(len(lines) + 1)
        return "\n".join(lines[:i] + [rng.choice(JUNK3P)] + lines[i:]), "junk-line"
    if k == 5 and text:
        i = rng.randrange(len(text))
        return text[:i] + text[i + 1:], "delete-char"
    if k == 6 and len(lines) > 1:
        i, j = rng.randrange(len(lines)), rng.randrange(len(lines))
        lines[i], lines[j] = lines[j], lines[i]
        return "\n".join(lines), "swap-lines"
    toks = list(re.finditer(r"[0-9]+", text))
    if toks:
        m = rng.choice(toks)
        return text[:m.start()] + rng.choice(["0", "99", "-1", "x", "1.5", ""]) + text[m.end():], "odd-token"
    return text, "none"


def kind3p(fmt, ty, text, kind):
    if fmt == "gml":
        return gml_class(text, ty) or "gml:" + kind
    return "dot:" + kind


CORPUS_3P = [
    # (fmt, ty, text) — findings D33, D34, D35 first
    ("gml", "digraph", "graph [ ]"), ("gml", "dag", "graph [\n  node [\n    id 0\n    label \"1\"\n  ]\n]\n"),
    ("gml", "simple", "graph [\n  node [\n    id 0\n    id 0\n    label \"1\"\n  ]\n]\n"),
    ("gml", "simple", "graph [\n  node [\n    id 0\n  ]\n  node [\n    id 1\n  ]\n  edge [\n    source 0\n    source 0\n    target 1\n  ]\n]\n"),
    ("gml", "simple", "grap\" [\n]\n"), ("gml", "bipartite", "graph [\n  node [\n    id 0\n    label \"1\n    bipartite 0\n  ]\n]\n"),
    ("gml", "simple", ""), ("gml", "simple", "garbage"), ("gml", "simple", "graph [ ]"), ("gml", "bipartite", "graph [ node [ id 0 ] ]"),
    ("gml", "simple", "graph [ node [ id 0 ] node [ id 0 ] ]"), ("gml", "simple", "graph [ edge [ source 0 target 1 ] ]"),
    ("gml", "simple", "graph [ node [ id 0 label \"\u00e9\" ] ]"), ("gml", "simple", "graph [ directed 1 node [ id 0 ] node [ id 1 ] edge [ source 1 target 0 ] ]"),
    ("dot", "simple", ""), ("dot", "simple", "garbage"), ("dot", "simple", "graph {}"), ("dot", "digraph", "graph {}"),
    ("dot", "simple", "digraph { 1 -> 2 }"), ("dot", "dag", "digraph { 2 -> 1 }"), ("dot", "dag", "digraph { 1 -> 2 }"),
    ("dot", "bipartite", "graph { 1; 2 [bipartite=1]; }"), ("dot", "bipartite", "graph { 1 [bipartite=0]; 2 [bipartite=1]; 1 -- 2 }"),
    ("dot", "bipartite", "graph { 1 [bipartite=0]; 2 [bipartite=0]; 1 -- 2 }"), ("dot", "simple", "strict graph { a; b; a -- b }"),
    ("dot", "simple", "graph { 1 -- 1 }"), ("dot", "simple", "graph { 1 -- 2; 1 -- 2 }"), ("dot", "simple", "graph {"),
]


HUGE_RE = re.compile(r"[0-9]+")


def huge(text):
    """a number of 7 .. 4300 digits: as a declared size it makes the list-based model (and, for kthlist / dimacs, the real
    classes too) allocate that many adjacency lists.  Such texts are outside the resource range of the correspondence; the
    matrix reader (dict-based bipartite graphs) still handles them, so there the oracle runs."""
    return any(6 < len(m.group().lstrip("0")) <= 4300 for m in HUGE_RE.finditer(text))


def build_huge(suite, info, via):
    ty, fmt, text = info["ty"], info["fmt"], info["text"]

    def impl():
        return ok("-")
    return Case(suite, "ack3p", impl, read_oracle(text, ty, fmt, via) if fmt == "matrix" else None,
                cls="{}:{}:huge-number".format(fmt, ty), nontrivial=False, info=info)



# ---------------------------------------------------------------- one file, several reads in one process
READERS = ["cli", "cli-fmt", "spec", "spec-fmt", "readGraph", "readGraph-fmt", "from_file", "open"]


def read_path(path, ty, fmt, how):
    if how == "cli":
        return quiet(read_graph_from_input, ty, path, "autodetect")
    if how == "cli-fmt":
        return quiet(read_graph_from_input, ty, path, fmt)
    if how == "spec":
        return quiet(make_graph_from_spec, ty, [path])
    if how == "spec-fmt":
        return quiet(make_graph_from_spec, ty, [fmt, path])
    if how == "readGraph":
        return quiet(readGraph, path, ty)
    if how == "from_file" and ty != "dag":
        return quiet(CLASSES[ty].from_file, path)
    if how == "open":
        with open(path, encoding="utf-8") as fh:
            return quiet(readGraph, fh, ty, fmt)
    return quiet(readGraph, path, ty, fmt)


def touch(G, ops):
    """the caller changes the object it was given, in place"""
    for op in ops:
        try:
            if op[0] == "add":
                G.add_edge(op[1], op[2])
            elif op[0] == "rem":
                G.remove_edge(op[1], op[2])
            elif op[0] == "upd":
                G.update_vertex_number(op[1])
            elif op[0] == "name":
                G.name = op[1]
        except (ValueError, AttributeError):
            pass


def run_script(ty, fmt, gs, name, script, pad=0):
    """runs the script on one private file (every version of it `pad` bytes long, by comment lines, when pad > 0); returns
    (list of (step, version, canon or 'raised X') for every plain read, the last object read or the exception of the last read)"""
    _counter[0] += 1
    path = os.path.join(_TMP, "r{}.{}".format(_counter[0], fmt))
    reads, last, version = [], None, None
    try:
        for i, st in enumerate(script):
            if st[0] == "write":
                version = st[1]
                text = common.pad_text(write_text(make_graph(ty, gs[version]), ty, fmt, name), fmt, pad)
                with open(path, "w", encoding="utf-8", newline="") as fh:
                    fh.write(text)
            elif st[0] == "read":
                try:
                    last = read_path(path, ty, fmt, st[1])
                    reads.append((i, version, canon(last, ty)))
                except Exception as e:  # noqa
                    last = e
                    reads.append((i, version, "raised " + type(e).__name__))
            elif st[0] == "touch":
                if last is not None and not isinstance(last, Exception):
                    touch(last, st[1])
            elif st[0] == "mod":
                _code_random.seed(st[2] if len(st) > 2 else 0)
                try:
                    quiet(make_graph_from_spec, ty, [path] + [str(x) for x in st[1]])
                except ValueError:
                    pass
    finally:
        if os.path.exists(path):
            os.unlink(path)
    return reads, last


def reread_oracle(ty, fmt, gs, name, script, pad=0):
    def oracle():
        reads, _ = run_script(ty, fmt, gs, name, script, pad)
        for i, version, got in reads:
            want = canon_g(ty, gs[version])
            if _deep(got) != _deep(want):
                return {"reread": "a read of the file does not return the graph that is in the file", "step": i,
                        "script": script, "file_holds": want, "read_returned": got, "format": fmt, "type": ty, "file_size": pad}
        return None
    return oracle

# ---------------------------------------------------------------- build
def graph_nontrivial(g):
    return len(g["edges"]) > 0


def build(suite, info):
    if suite == "write":
        ty, fmt, g, name = info["ty"], info["fmt"], info["g"], info.get("name", "G")

        def impl():
            t = write_text(make_graph(ty, g), ty, fmt, name)
            return ok("1 " + " ".join(str(x) for x in enc_str(t)))
        r = req("wgraph", FMT[fmt], TY[ty], enc_str(str(name)), enc_g(ty, g))
        return Case(suite, r, impl, roundtrip_oracle(ty, fmt, g, name, info.get("via", "stringio")),
                    cls=info.get("cls") or "{}:{}:{}".format(fmt, ty, info.get("shape", "")),
                    nontrivial=graph_nontrivial(g), info=info)
    if suite == "rtrip" and len(info["g"]["edges"]) > 40000:
        # files of about 1 MiB (thorough tier): the list-based model needs minutes per graph (its edge-set test is a linear
        # scan, as transcribed), so only the real round trip is checked, by the oracle — which is what the size is there for
        ty, fmt, g, name = info["ty"], info["fmt"], info["g"], info.get("name", "G")

        def impl():
            return ok("-")
        return Case(suite, "ack3p", impl, roundtrip_oracle(ty, fmt, g, name, info.get("via", "stringio")),
                    cls="{}:{}:{}:oracle-only".format(fmt, ty, info.get("shape", "")), nontrivial=True, info=info)
    if suite == "rtrip":
        ty, fmt, g, name = info["ty"], info["fmt"], info["g"], info.get("name", "G")

        def impl():
            t = write_text(make_graph(ty, g), ty, fmt, name)
            return ok(view(read_text(t, ty, fmt)))
        r = req("rtrip", FMT[fmt], TY[ty], enc_str(str(name)), enc_g(ty, g))
        return Case(suite, r, impl, roundtrip_oracle(ty, fmt, g, name, info.get("via", "stringio")),
                    cls="{}:{}:{}".format(fmt, ty, info.get("shape", "")), nontrivial=graph_nontrivial(g), info=info)
    if suite == "rtripbig":
        ty, fmt, g, name = info["ty"], info["fmt"], info["g"], info.get("name", "G")
        return Case(suite, "ack3p", lambda: ok("-"), roundtrip_oracle(ty, fmt, g, name, info.get("via", "stringio")),
                    cls="{}:{}:{}".format(fmt, ty, info.get("shape", "")), nontrivial=graph_nontrivial(g), info=info)
    if suite == "rtrip3p":
        ty, fmt, g = info["ty"], info["fmt"], info["g"]
        text = write_text(make_graph(ty, g), ty, fmt, info.get("name"))
        r = relabel_req(ty, nx_parse(text, fmt), dot=(fmt == "dot"))

        def impl():
            return ok(view(read_text(text, ty, fmt)))
        order = g["n"] if ty != "bipartite" else g["l"] + g["r"]
        cls = "{}:{}".format(fmt, ty)
        if fmt == "dot" and ty != "bipartite":
            cls = "dot:n>=10" if order >= 10 else "dot:n<10"
        return Case(suite, r, impl, roundtrip_oracle(ty, fmt, g, info.get("name"), info.get("via", "stringio")),
                    cls=cls, nontrivial=graph_nontrivial(g), info=info)
    if suite in ("read", "readf") and huge(info["text"]):
        return build_huge(suite, info, "stringio" if suite == "read" else "file")
    if suite == "read":
        ty, fmt, text = info["ty"], info["fmt"], info["text"]

        def impl():
            return ok(view(read_text(text, ty, fmt)))
        r = req("rgraph", FMT[fmt], TY[ty], enc_str(text))
        return Case(suite, r, impl, read_oracle(text, ty, fmt), cls="{}:{}:{}".format(fmt, ty, info.get("kind", "")),
                    nontrivial=any(c.isdigit() for c in text), info=info)
    if suite == "readf":
        ty, fmt, text = info["ty"], info["fmt"], info["text"]

        def impl():
            return ok(view(read_text(text, ty, fmt, "file")))
        r = req("rgraphf", FMT[fmt], TY[ty], enc_str(text))
        return Case(suite, r, impl, read_oracle(text, ty, fmt, "file"), cls="{}:{}:{}".format(fmt, ty, info.get("kind", "")),
                    nontrivial=any(c.isdigit() for c in text), info=info)
    if suite == "rtripf":
        ty, fmt, g, name = info["ty"], info["fmt"], info["g"], info.get("name", "G")

        def impl():
            G = make_graph(ty, g)
            G.name = name
            _counter[0] += 1
            path = os.path.join(_TMP, "r{}.{}".format(_counter[0], fmt))
            try:
                writeGraph(G, path, ty, fmt)
                return ok(view(quiet(readGraph, path, ty, fmt)))
            finally:
                if os.path.exists(path):
                    os.unlink(path)
        r = req("rtripf", FMT[fmt], TY[ty], enc_str(str(name)), enc_g(ty, g))
        return Case(suite, r, impl, roundtrip_oracle(ty, fmt, g, name, "file"),
                    cls="{}:{}:{}".format(fmt, ty, info.get("shape", "")), nontrivial=graph_nontrivial(g), info=info)
    if suite == "reread":
        ty, fmt, gs, name, script = info["ty"], info["fmt"], info["gs"], info.get("name", "G"), info["script"]
        lastw = [st[1] for st in script if st[0] == "write"][-1]
        pad = info.get("pad", 0)

        def impl():
            _, last = run_script(ty, fmt, gs, name, script, pad)
            if isinstance(last, Exception):
                raise last
            return ok(view(last))
        if fmt in INHOUSE:
            r = req("rtrip", FMT[fmt], TY[ty], enc_str(name), enc_g(ty, gs[lastw]))
        else:
            text = write_text(make_graph(ty, gs[lastw]), ty, fmt, name)
            r = relabel_req(ty, nx_parse(text, fmt), dot=(fmt == "dot"))
        kinds = sorted({st[0] for st in script} - {"write", "read"}) + (["rewrite"] if sum(st[0] == "write" for st in script) > 1 else [])
        return Case(suite, r, impl, reread_oracle(ty, fmt, gs, name, script, pad),
                    cls="{}:{}:{}{}".format(fmt, ty, "+".join(kinds) or "plain", ":padded" if pad else ""),
                    nontrivial=len(script) > 2, info=info)
    if suite == "relabel":
        ty, nodes, edges = info["ty"], info["nodes"], [tuple(e) for e in info["edges"]]
        N = networkx.Graph() if ty != "digraph" else networkx.DiGraph()
        if ty == "bipartite":
            for u, c in nodes:
                if c is None:
                    N.add_node(u)
                else:
                    N.add_node(u, bipartite=c)
        else:
            N.add_nodes_from(nodes)
        N.add_edges_from(edges)
        r = relabel_req(ty, N)

        def impl():
            return ok(view(CLASSES[ty].from_networkx(N)))

        def oracle():
            # the documented contract of normalize: vertices 1..n, "if the vertices have some kind of
            # order, the order is preserved" — checked for integer labels
            if ty == "bipartite" or not all(isinstance(u, int) for u in nodes):
                return None
            try:
                G = CLASSES[ty].from_networkx(N)
            except ValueError:
                return None if any(u == v for u, v in edges) and ty == "simple" else {"from_networkx": "ValueError"}
            rank = {u: i + 1 for i, u in enumerate(sorted(nodes))}
            want = sorted({(min(rank[u], rank[v]), max(rank[u], rank[v])) if ty == "simple" else (rank[u], rank[v])
                           for u, v in edges})
            got = sorted((u, v) for u, v in G.edges())
            if G.number_of_vertices() != len(nodes) or got != want:
                return {"from_networkx": "order of labels not preserved", "want": want, "got": got}
            return None
        return Case(suite, r, impl, oracle, cls="{}:{}".format(ty, info.get("kind", "")), nontrivial=len(edges) > 0, info=info)
    if suite == "dotread":
        # hand-made dot texts with arbitrary node names: third-party parse -> model's dot relabelling
        ty, text = info["ty"], info["text"]
        r = relabel_req(ty, nx_parse(text, "dot"), dot=True)

        def impl():
            return ok(view(read_text(text, ty, "dot")))
        return Case(suite, r, impl, read_oracle(text, ty, "dot"), cls="dot:" + info.get("kind", ""),
                    nontrivial="-" in text, info=info)
    if suite == "read3p":
        ty, fmt, text = info["ty"], info["fmt"], info["text"]

        def impl():
            try:
                read_text(text, ty, fmt)
            except Exception:
                pass
            return ok("-")
        return Case(suite, "ack3p", impl, read_oracle(text, ty, fmt), cls=kind3p(fmt, ty, text, info.get("kind", "")),
                    nontrivial=len(text) > 0, info=info)
    raise ValueError("unknown suite " + suite)


# ---------------------------------------------------------------- generators
def gen_graph(rng, ty, shape=None, big=None):
    """returns (g, shape)"""
    shapes = ["empty", "isolated", "path", "star", "complete", "random", "random", "dense"]
    shape = shape or rng.choice(shapes)
    if big is None:
        big = rng.random() < .3
    if ty == "bipartite":
        if big:
            l, r = rng.choice([(10, 12), (12, 3), (1, 14), (11, 11), (15, 10)])
        else:
            l, r = rng.choice([(0, 0), (0, 3), (3, 0), (1, 1), (2, 3), (4, 2), (5, 5), (1, 0), (0, 1), (3, 4)])
        cells = [(u, v) for u in range(1, l + 1) for v in range(1, r + 1)]
        if shape == "empty" or not cells:
            es = []
        elif shape in ("complete", "dense"):
            es = cells if shape == "complete" else [c for c in cells if rng.random() < .7]
        elif shape == "path":
            es = [(u, v) for u, v in cells if v in (u, u + 1)]
        elif shape == "star":
            es = [(1, v) for v in range(1, r + 1)]
        elif shape == "isolated":
            es = [c for c in cells if c[0] % 2 == 0 and c[1] % 2 == 0 and rng.random() < .6]
        else:
            es = [c for c in cells if rng.random() < .3]
        rng.shuffle(es)
        return {"l": l, "r": r, "edges": es}, shape + (":big" if big else "")
    n = rng.choice([10, 11, 12, 13, 15]) if big else rng.choice([0, 1, 2, 3, 4, 5, 7, 9])
    pairs = [(u, v) for u in range(1, n + 1) for v in range(u + 1, n + 1)]
    if shape == "empty" or not pairs:
        es = []
    elif shape == "complete":
        es = pairs
    elif shape == "dense":
        es = [p for p in pairs if rng.random() < .7]
    elif shape == "path":
        es = [(u, u + 1) for u in range(1, n)]
    elif shape == "star":
        c = rng.randint(1, n)
        es = [(min(c, v), max(c, v)) for v in range(1, n + 1) if v != c]
    elif shape == "isolated":
        es = [p for p in pairs if p[0] % 3 == 1 and p[1] % 3 == 1 and rng.random() < .7]
    else:
        es = [p for p in pairs if rng.random() < .3]
    if ty == "digraph":
        es = [(v, u) if rng.random() < .4 else (u, v) for u, v in es]
        es += [(v, u) for u, v in es if rng.random() < .15]            # 2-cycles
        es += [(u, u) for u in range(1, n + 1) if rng.random() < .1]   # self loops are legal in DirectedGraph
    elif ty == "simple":
        es = [(v, u) if rng.random() < .3 else (u, v) for u, v in es]
    rng.shuffle(es)
    return {"n": n, "edges": es}, shape + (":big" if big else "")


NAMES = ["G", "", "a graph with spaces", "  padded  ", "c", "p edge 3 2", "e 1 2", "5", "1 : 2 0", "x:y", "# n",
         "two\nlines", "a\np edge 5 0\ne 1 2", "x\n1 : 2 0\n3", "trailing\n", "\n", "a\n\nb", "cr\rlf\r\nvt\x0bff\x0cfs\x1cgs\x1drs\x1eus\x1fend",
         " \n \t\n",
         # non-ASCII: letters, blanks, the line boundaries of str.splitlines() beyond ASCII; names that are not strings
         "caf\u00e9 \u03b1\u03b2 \u4e2d", "nel\x85ls\u2028ps\u2029end", "\u00a0nbsp\u3000wide ", "\x85", "a\r", "\r\nb", "tab\there",
         "c\u2028c 7\u20291 : 2 0", 5, 0, 1.5, True, [1, 2]]
JUNK_LINES = ["", " ", "\t", "c", "c comment", "C comment", " c indented", "# hash", "x", "0", "1", "-1", "99",
              "1 : 0", "1 : 1 0", "2 : 1 0", "1 : 2 0", "1 : 2", "1 2 0", ": 0", "1 :: 0", "p edge 2 1", "p edge 2", "p col 2 1",
              "e 1 2", "e 2 1", "e 1 1", "e 1", "e 1 2 3", "edge 1 2", "n 1 2", "1 0", "0 1", "2", "1 x", "+1", "1_0", "01", "\r"]
ODD_TOKENS = ["0", "-1", "99", "x", "1x", "1.5", "+1", "1_0", "01", "-0", "", "1e1", "0x1", "--1", "_1", "1_", "1__0", ":", "#"]
CHARS = list(": \t\rcpe019-#\x1cx+_\n") + ["\x85", "\u00a0", "\u2028", "\u3000", "\u00e9", "\x0b", "\x0c", "\x1f"]


def mutate(rng, text, fmt, ty):
    """one mutation; returns (text, kind)"""
    lines = text.split("\n")
    k = rng.randrange(13)
    if k == 0:
        return text[:rng.randrange(len(text) + 1)], "truncate"
    if k == 1 and lines:
        i = rng.randrange(len(lines))
        return "\n".join(lines[:i] + lines[i + 1:]), "delete-line"
    if k == 2 and lines:
        i = rng.randrange(len(lines))
        return "\n".join(lines[:i] + [lines[i]] + lines[i:]), "duplicate-line"
    if k == 3 and len(lines) > 1:
        i, j = rng.randrange(len(lines)), rng.randrange(len(lines))
        lines[i], lines[j] = lines[j], lines[i]
        return "\n".join(lines), "swap-lines"
    if k == 4:
        i = rng.choice([0, len(lines), rng.randrange(len(lines) + 1)])
        return "\n".join(lines[:i] + [rng.choice(["", " ", "\t ", "\r"])] + lines[i:]), "blank-line"
    if k == 5:
        i = rng.choice([0, len(lines), rng.randrange(len(lines) + 1)])
        return "\n".join(lines[:i] + [rng.choice(["c", "c note", "c 5", "c 1 : 2 0", "# note", "C note", " c note"])] + lines[i:]), "comment-line"
    if k == 6:
        i = rng.randrange(len(lines) + 1)
        return "\n".join(lines[:i] + [rng.choice(JUNK_LINES)] + lines[i:]), "junk-line"
    toks = list(re.finditer(r"[0-9]+", text))
    if k == 7 and toks:
        m = rng.choice(toks)
        return text[:m.start()] + rng.choice(ODD_TOKENS) + text[m.end():], "odd-token"
    if k == 8 and toks:
        m = rng.choice(toks)
        v = int(m.group())
        return text[:m.start()] + str(max(0, v + rng.choice([-1, 1, 1, 2]))) + text[m.end():], "off-by-one"
    if k == 9 and text:
        i = rng.randrange(len(text))
        return text[:i] + rng.choice(CHARS) + text[i + 1:], "replace-char"
    if k == 10 and text:
        i = rng.randrange(len(text))
        return text[:i] + text[i + 1:], "delete-char"
    if k == 11:
        return (text[:-1] if text.endswith("\n") else text + "\n") if rng.random() < .5 else text.replace("\n", "\r\n"), "line-endings"
    if k == 12 and text:
        i = rng.randrange(len(text) + 1)
        return text[:i] + rng.choice(CHARS) + text[i:], "insert-char"
    return text, "none"


def soup(rng, fmt):
    vocab = {"kthlist": ["c", "c x", "0", "1", "2", "3", "4", "1 : 0", "1 : 2 0", "2 : 3 0", "2 : 1 0", "3 : 1 2 0", "1 : 3 4 0",
                         "2 : 3 0", "2 : 4 0", "3 : 4 0", "", " ", "x", "1 :", "4 : 0", "1 : 1 0", "3:4 0", " 2 : 3 0 "],
             "dimacs": ["c", "c x", "p edge 0 0", "p edge 1 0", "p edge 2 1", "p edge 3 2", "p edge 3 1", "e 1 2", "e 2 1", "e 2 3",
                        "e 1 3", "e 3 1", "e 1 1", "e 3 4", "e 0 1", "", " ", "x 1 2", "e 1", "p", "p edge", "p edge 3 -1", "n 1 1"],
             "matrix": ["0 0", "1 1", "2 2", "2 1", "1 2", "0 2", "2 0", "0", "1", "1 0", "0 1", "1 1 1", "0 0 0", "", "# c", "2", "x",
                        "-1 1", "1 -1", "1 2 0 1", "3", "1 0 1"]}[fmt]
    return "\n".join(rng.choice(vocab) for _ in range(rng.randint(0, 6))) + rng.choice(["", "\n"])


CORPUS_TEXTS = [
    # (fmt, ty, text, kind) — former defects D13, D12, D11 first (fixed in /repo: 97bcab4, ea21017, db71920)
    ("kthlist", "simple", "", "empty-file"), ("kthlist", "bipartite", "c only\n", "empty-file"),
    ("kthlist", "dag", "\n\n", "empty-file"), ("kthlist", "digraph", "c a\n\nc b\n", "empty-file"),
    ("dimacs", "simple", "p edge 2 1\n\ne 1 2\n", "blank-line"), ("dimacs", "digraph", "\np edge 2 1\ne 1 2\n", "blank-line"),
    ("dimacs", "dag", "p edge 2 1\ne 1 2\n \n", "blank-line"), ("dimacs", "simple", "", "blank-line"),
    ("kthlist", "bipartite", "4\n1 : 3 0\n1 : 4 0\n", "unordered-left"), ("kthlist", "bipartite", "4\n2 : 3 0\n1 : 4 0\n", "unordered-left"),
    ("kthlist", "bipartite", "5\n1 : 4 5 0\n2 : 4 0\n2 : 5 0\n", "unordered-left"),
    ("kthlist", "simple", "4\n2 : 3 0\n1 : 4 0\n", "unordered"), ("kthlist", "digraph", "3\n2 : 1 0\n2 : 3 0\n", "unordered"),
    ("kthlist", "bipartite", "5\n1 : 4 5 0\n2 : 4 0\n", "valid"), ("kthlist", "bipartite", "5\n", "valid"),
    ("kthlist", "bipartite", "5\n3 : 0\n", "valid"), ("kthlist", "bipartite", "5\n5 : 0\n", "valid"), ("kthlist", "bipartite", "0\n", "valid"),
    ("kthlist", "bipartite", "5\n2 : 3 0\n3 : 4 0\n", "bipartition"), ("kthlist", "bipartite", "5\n2 : 1 0\n", "bipartition"),
    ("kthlist", "bipartite", "5\n2 : 4 0\n4 : 5 0\n", "bipartition"), ("kthlist", "bipartite", "3\n1 : 3 0\n2 : 3 0\n3 : 0\n", "bipartition"),
    ("kthlist", "dag", "3\n3 : 1 2 0\n", "valid"), ("kthlist", "dag", "3\n1 : 2 0\n", "backward"), ("kthlist", "dag", "3\n2 : 2 0\n", "backward"),
    ("kthlist", "digraph", "3\n1 : 2 0\n", "valid"), ("kthlist", "digraph", "3\n1 : 1 0\n", "valid"), ("kthlist", "simple", "3\n1 : 1 0\n", "self-loop"),
    ("kthlist", "simple", "C x\n3\n", "comment"), ("kthlist", "simple", " c x\n3\n", "comment"), ("kthlist", "simple", "c x\n 3 \n", "valid"),
    ("kthlist", "simple", "+3\n", "odd-int"), ("kthlist", "simple", "1_0\n", "odd-int"), ("kthlist", "simple", "-3\n", "odd-int"),
    ("kthlist", "simple", "3\n1 : 2 : 0\n", "syntax"), ("kthlist", "simple", "3\n1 : 2\n", "syntax"), ("kthlist", "simple", "3\n1 :\n", "syntax"),
    ("kthlist", "simple", "3\n1 : 0 0\n", "syntax"), ("kthlist", "simple", "3\n1 : 2 0 3 0\n", "syntax"), ("kthlist", "simple", "3\n3\n", "second-size"),
    ("kthlist", "simple", "1 : 2 0\n3\n", "list-before-size"), ("kthlist", "simple", "3\n1 : 4 0\n", "range"), ("kthlist", "simple", "3\n4 : 1 0\n", "range"),
    ("kthlist", "simple", "3\n0 : 1 0\n", "range"), ("kthlist", "simple", "3\n1:2 0\n2:1 3 0", "valid"), ("kthlist", "simple", "3\n1 : 2 0\r\n", "valid"),
    ("kthlist", "simple", "3\n1 : 2 0\n2 : 1 0\n3 : 0\n\n", "valid"), ("kthlist", "simple", "3\n1 : 2 0\n", "one-sided"),
    ("kthlist", "simple", "3\n1\x1c: 2\x1f0\n", "odd-space"), ("kthlist", "simple", "3\x1f\n", "odd-space"),
    ("kthlist", "simple", "12\n11 : 2 10 0\n12 : 1 0\n", "valid"),
    ("dimacs", "simple", "c hi\n", "no-problem-line"), ("dimacs", "simple", "p edge 3 1\nx 1 2\ne 1 2\n", "other-line"),
    ("dimacs", "simple", "p edge 3 1\nedge 1 2\n", "e-word"), ("dimacs", "simple", "p edge -3 0\n", "range"),
    ("dimacs", "simple", "p edge 3 2\ne 1 2\ne 2 1\n", "duplicate-edge"), ("dimacs", "simple", "p edge 3 1\ne 1 1\n", "self-loop"),
    ("dimacs", "digraph", "p edge 3 1\ne 1 1\n", "valid"), ("dimacs", "dag", "p edge 3 1\ne 1 1\n", "backward"),
    ("dimacs", "dag", "p edge 3 1\ne 2 1\n", "backward"), ("dimacs", "dag", "p edge 3 2\ne 1 2\ne 1 3\n", "valid"),
    ("dimacs", "simple", "p edge 3\n", "syntax"), ("dimacs", "simple", "p edge x 3\n", "syntax"), ("dimacs", "simple", "p col 3 0\n", "syntax"),
    ("dimacs", "simple", "p edge 2 1\ne 1 2", "valid"), ("dimacs", "simple", "e 1 2\np edge 2 1\n", "edge-before-p"),
    ("dimacs", "simple", "p edge 2 1\np edge 2 1\ne 1 2\n", "second-p"), ("dimacs", "simple", "p edge 2 2\ne 1 2\n", "count"),
    ("dimacs", "simple", "p edge 2 0\ne 1 2\n", "count"), ("dimacs", "simple", "p edge 2 1\ne 1 3\n", "range"),
    ("dimacs", "simple", "p edge 2 1\ne 0 1\n", "range"), ("dimacs", "simple", "  p edge 2 1  \n\te 1 2\n", "valid"),
    ("dimacs", "simple", "p edge 3 -1\n", "count"), ("dimacs", "simple", "p edge 12 2\ne 10 2\ne 11 12\n", "valid"),
    ("matrix", "bipartite", "2 2\n1 0\n0 1\n", "valid"), ("matrix", "bipartite", "2 2\n1 0\n0\n", "short"), ("matrix", "bipartite", "2 2\n1 0\n0 1 1\n", "long"),
    ("matrix", "bipartite", "", "empty-file"), ("matrix", "bipartite", "-1 2\n", "range"), ("matrix", "bipartite", "2 -1\n", "range"),
    ("matrix", "bipartite", "# c\n1 1 # x\n", "comment"), ("matrix", "bipartite", "1 1 \n # x\n1", "comment"), ("matrix", "bipartite", "0 0", "valid"),
    ("matrix", "bipartite", "0 3", "valid"), ("matrix", "bipartite", "3 0\n\n\n\n", "valid"), ("matrix", "bipartite", "2\n", "short"),
    ("matrix", "bipartite", "1 2\n1 2\n", "entries"), ("matrix", "bipartite", "1 2 1\n1\n", "valid"), ("matrix", "bipartite", "2 2 1 0 0 1", "valid"),
    ("matrix", "bipartite", "1 1\n1\nx\n", "trailing-junk"), ("matrix", "bipartite", "1 1\n1\n# end\n\n", "valid"),
    # CPython's limit of 4300 digits for int(): at the limit fine, beyond it ValueError (leading zeros count, '_' do not)
    ("kthlist", "simple", "2\n1 : " + "0" * 4299 + "2 0\n", "digit-limit"), ("kthlist", "simple", "2\n1 : " + "0" * 4300 + "2 0\n", "digit-limit"),
    ("kthlist", "digraph", "0" * 4299 + "3\n", "digit-limit"), ("kthlist", "digraph", "0" * 4300 + "3\n", "digit-limit"),
    ("kthlist", "bipartite", "3\n" + "0" * 4300 + "1 : 3 0\n", "digit-limit"), ("kthlist", "simple", "2\n1 : 2 " + "0" * 4301 + "\n", "digit-limit"),
    ("kthlist", "simple", "2\n1 : " + "9" * 4301 + " 0\n", "digit-limit"), ("kthlist", "simple", "2\n1 : " + "0_" * 4299 + "2 0\n", "digit-limit"),
    ("kthlist", "simple", "2\n1 : " + "0_" * 4300 + "2 0\n", "digit-limit"), ("kthlist", "simple", "+" + "0" * 4299 + "2\n", "digit-limit"),
    ("dimacs", "simple", "p edge 3 1\ne 1 " + "0" * 4299 + "2\n", "digit-limit"), ("dimacs", "simple", "p edge 3 1\ne 1 " + "0" * 4300 + "2\n", "digit-limit"),
    ("dimacs", "digraph", "p edge " + "0" * 4300 + "3 0\n", "digit-limit"), ("dimacs", "dag", "p edge 3 " + "0" * 4300 + "\n", "digit-limit"),
    ("dimacs", "dag", "p edge 3 " + "0" * 4299 + "\n", "digit-limit"), ("dimacs", "simple", "p edge 2 " + "1" * 4301 + "\n", "digit-limit"),
    ("matrix", "bipartite", "1 1\n" + "0" * 4299 + "1\n", "digit-limit"), ("matrix", "bipartite", "1 1\n" + "0" * 4300 + "1\n", "digit-limit"),
    ("matrix", "bipartite", "0" * 4301 + " 0\n", "digit-limit"), ("matrix", "bipartite", "-" + "0" * 4300 + " 0\n", "digit-limit"),
    # non-ASCII blanks are blanks for strip() / split(); "\x85" and "\u2028" are NOT line ends for readlines()
    ("kthlist", "simple", "3\u00a0\n1\u3000:\u20022\x850\n", "odd-space"), ("kthlist", "simple", "3\u20281 : 2 0\n", "odd-space"),
    ("dimacs", "simple", "\u00a0p\u2003edge 2 1\x85\ne\u30001\u20282\n", "odd-space"), ("matrix", "bipartite", "1\u00a02\x851\u20280", "odd-space"),
    ("kthlist", "simple", "c caf\u00e9\n2\n1 : 2 0\n", "non-ascii"), ("dimacs", "simple", "c \u4e2d\np edge 2 1\ne 1 2\n\u00e9 1 2\n", "non-ascii"),
    ("kthlist", "simple", "2\n1 : 2 0 \u00e9\n", "non-ascii"), ("matrix", "bipartite", "1 1\n1\n#\u00e9\n", "non-ascii"),
    # a declared size beyond any memory: matrix files are still answered (ValueError: the entries are missing)
    ("matrix", "bipartite", "100000000000 3\n1 0 1\n", "huge"), ("matrix", "bipartite", "2 99999999\n1 0\n", "huge"),
    # formats that are not supported for the type
    ("matrix", "simple", "1 1\n1\n", "unsupported"), ("dimacs", "bipartite", "p edge 2 1\ne 1 2\n", "unsupported"), ("matrix", "dag", "0 0\n", "unsupported"),
]


# ---------------------------------------------------------------- graph OBJECTS, however they came to be
def graph_classes():
    """(name, bipartite?) of every concrete graph class the module defines"""
    out = []
    for name, c in sorted(inspect.getmembers(_graphs, inspect.isclass)):
        if c.__module__ != _graphs.__name__ or not issubclass(c, _graphs.BaseGraph):
            continue
        bip = issubclass(c, _graphs.BaseBipartiteGraph)
        try:
            G = c(2, 2) if bip else c(2)
            canon(G, type_of(G))
        except Exception:  # noqa: abstract bases, classes with other constructors
            continue
        out.append((name, bip))
    return out


def ctor_args(name, rng):
    """argument lists for the constructor functions of cnfgen.graphs (None: not a known constructor)"""
    n = rng.choice([1, 2, 5, 9, 10, 12])
    l, r = rng.choice([(1, 1), (3, 4), (2, 10), (12, 3), (5, 5), (10, 11)])
    table = {
        "Graph.null_graph": [], "Graph.empty_graph": [n], "Graph.complete_graph": [n], "Graph.star_graph": [n],
        "bipartite_random_left_regular": [l, r, rng.randint(0, r)],
        "bipartite_random_m_edges": [l, r, rng.randint(0, l * r)],
        "bipartite_random": [l, r, rng.choice([0, .3, .5, 1])],
        "bipartite_shift": [l, r, sorted(rng.sample(range(0, r + 1), rng.randint(0, min(3, r))))],
        "bipartite_random_regular": [l, l, rng.randint(0, l)],
        "dag_pyramid": [rng.choice([0, 1, 2, 4])], "dag_complete_binary_tree": [rng.choice([0, 1, 2, 3])],
        "dag_path": [rng.choice([0, 1, 5, 11])],
    }
    return table.get(name)


def ctor_names():
    out = []
    for name, f in sorted(inspect.getmembers(_graphs, inspect.isfunction)):
        if f.__module__ == _graphs.__name__ and (name.startswith("bipartite_") or name.startswith("dag_")):
            out.append(name)
    for cname in ("Graph",):
        for name, f in sorted(inspect.getmembers(getattr(_graphs, cname), inspect.ismethod)):
            if name.endswith("_graph"):
                out.append(cname + "." + name)
    return out


def spec_args(ty, cname, rng):
    """numeric arguments of a command-line construction (None: unknown construction)"""
    l, r = rng.choice([(1, 1), (3, 4), (2, 10), (12, 2), (5, 5), (10, 11)])
    table = {
        ("simple", "gnp"): rng.choice([[6, .5], [11, .3], [4, .5, 3], [1, 1]]),
        ("simple", "gnm"): rng.choice([[7, 9], [12, 20], [3, 0]]),
        ("simple", "gnd"): rng.choice([[6, 3], [10, 4], [12, 1]]),
        ("simple", "grid"): rng.choice([[2, 3], [3, 4], [2, 2, 3], [1], [11]]),
        ("simple", "torus"): rng.choice([[3, 3], [3, 4], [10]]),
        ("simple", "complete"): rng.choice([[5], [12], [2, 3], [1]]),
        ("simple", "empty"): rng.choice([[1], [5], [10]]),
        ("bipartite", "glrp"): [l, r, rng.choice([0, .4, 1])],
        ("bipartite", "glrm"): [l, r, rng.randint(0, l * r)],
        ("bipartite", "glrd"): [l, r, rng.randint(0, r)],
        ("bipartite", "regular"): [l, l, rng.randint(0, l)],
        ("bipartite", "shift"): [l, r] + sorted(rng.sample(range(0, r + 1), rng.randint(0, min(3, r)))),
        ("bipartite", "complete"): [l, r],
        ("bipartite", "empty"): [l, r],
    }
    if ty in ("dag", "digraph"):
        return {"path": [rng.choice([0, 1, 4, 11])], "tree": [rng.choice([0, 1, 3])], "pyramid": [rng.choice([0, 1, 2, 4])]}.get(cname)
    return table.get((ty, cname))


def option_args(ty, oname, rng):
    return {"plantclique": [rng.choice([0, 1, 2, 3])], "addedges": [rng.choice([0, 1, 2])], "splitedges": [rng.choice([0, 1, 2])],
            "plantbiclique": [rng.choice([0, 1]), rng.choice([0, 1, 2])]}.get(oname, [1])


def gen_objects(rng, quick):
    """[(ty, g-with-origin, label)]: the object is built once here to read off the graph it is"""
    origins = []
    for name, bip in graph_classes():
        sizes = [(0, 0), (1, 1), (3, 4), (2, 10), (12, 2), (0, 3), (3, 0)] if bip else [(0,), (1,), (5,), (12,)]
        for a in (sizes if not quick else [sizes[0]] + rng.sample(sizes[1:], 2 if name in CORE_CLASSES else 4)):
            origins.append(({"how": "class", "name": name, "args": list(a)}, "class:" + name))
    for name in ctor_names():
        for _ in range(1 if quick else 4):
            a = ctor_args(name, rng)
            if a is not None:
                origins.append(({"how": "ctor", "name": name, "args": a, "rseed": rng.randrange(10 ** 6)}, "ctor:" + name))
    for ty in sorted(graph_args.constructions):
        if ty == "digraph":
            continue
        for cname in sorted(graph_args.constructions[ty]):
            for rep in range(2 if quick else 6):
                a = spec_args(ty, cname, rng)
                if a is None:
                    continue
                spec = [cname] + a
                label = "spec:{}:{}".format(ty, cname)
                opts = [o for o in graph_args.options[ty] if o != "save"]
                if rep % 2 == 1 and opts:
                    o = rng.choice(opts)
                    spec += [o] + option_args(ty, o, rng)
                    label += "+" + o
                origins.append(({"how": "spec", "kind": ty, "spec": spec, "rseed": rng.randrange(10 ** 6)}, label))
    for _ in range(4 if quick else 30):
        g, _sh = gen_graph(rng, "simple", None, rng.random() < .3)
        origins.append(({"how": "history", "n": g["n"], "edges": [list(e) for e in g["edges"]]}, "history"))
    # ---- objects that went through the in-place modifiers.  (a) the command line's own chain: every option of the type at
    # once, with counts that are not just 0/1 (several new vertices, several new edges); (b) the library calls an owner of
    # the object may make, in any order, on objects of every origin collected so far
    for ty in sorted(graph_args.constructions):
        opts = [o for o in graph_args.options.get(ty, []) if o != "save"]
        if not opts:
            continue
        for cname in sorted(graph_args.constructions[ty]):
            for rep in range(1 if quick else 4):
                a = spec_args(ty, cname, rng)
                if a is None:
                    continue
                spec = [cname] + a
                for o in opts:
                    if rng.random() < .85:
                        spec += [o] + [rng.choice([2, 2, 3, 4]) for _ in option_args(ty, o, rng)]
                origins.append(({"how": "spec", "kind": ty, "spec": spec, "rseed": rng.randrange(10 ** 6)},
                                "spec:{}:{}+chain".format(ty, cname)))
    bases = [(o, label) for o, label in origins if o["how"] in ("class", "ctor", "spec", "history")]
    for o, label in rng.sample(bases, min(len(bases), 14 if quick else 120)):
        ops = []
        for _k in range(rng.randint(1, 4)):
            x = rng.random()
            if x < .3:
                k = rng.choice([2, 2, 3, 5])
                ops.append(["upd", k])
                # edges at the new vertices: between two of them, and from one of them to an old vertex
                ops += rng.sample([["addlast", 0, 1], ["addlast", 1, 0], ["addlast", 0, k], ["addlast", k + 1, 1], ["addlast", 0, k - 1]],
                                  rng.randint(1, 3))
            elif x < .5:
                ops.append(["split", rng.choice([2, 2, 3])])
            elif x < .65:
                ops.append(["addrand", rng.choice([1, 2, 4])])
            elif x < .75:
                ops.append(["clique", rng.choice([2, 3])])
            elif x < .9:
                ops.append(["add", rng.randint(1, 6), rng.randint(1, 6)])
            else:
                ops.append(["rem", rng.randint(1, 4), rng.randint(1, 6)])
        origins.append(({"how": "modified", "of": o, "ops": ops, "rseed": rng.randrange(10 ** 6)}, "modified:" + label.split(":")[0]))
    out = []
    for o, label in origins:
        try:
            G = build_origin(o, None)
        except ValueError:
            continue                                  # an argument combination the construction refuses
        ty = type_of(G)
        out.append((ty, g_of(G, o), label))
        if ty == "digraph" and G.is_dag():
            out.append(("dag", g_of(G, o), label))
    # an object that was itself read from a file in another format
    for ty, g, label in rng.sample(out, min(len(out), 8 if quick else 60)):
        f0 = rng.choice(SUPPORTED[ty])
        o = {"how": "other-format", "of": g["origin"], "fmt": f0}
        try:
            G = build_origin(o, ty)
        except Exception:  # noqa
            continue
        out.append((ty, g_of(G, o), "read-from:" + f0))
    return out


CORE_CLASSES = ("Graph", "DirectedGraph", "BipartiteGraph")


def gen_script(rng, ty, n_versions):
    """write; then 2..5 rounds of (modifier on the command line | read + in-place change of the result | rewrite)
    each followed by a plain read that the oracle compares with the file"""
    opts = [o for o in graph_args.options[ty] if o != "save"]
    script = [["write", 0]]
    for _ in range(rng.randint(2, 5)):
        x = rng.random()
        if x < .35 and opts:
            o = rng.choice(opts)
            script.append(["mod", [o] + option_args(ty, o, rng), rng.randrange(10 ** 6)])
        elif x < .75:
            script.append(["read", rng.choice(READERS)])
            ops = []
            for _k in range(rng.randint(1, 3)):
                u, v = rng.randint(1, 6), rng.randint(1, 6)
                ops.append(rng.choice([["add", u, v], ["add", v, u], ["add", u, v], ["rem", u, v], ["upd", rng.randint(1, 14)],
                                       ["name", "changed"]]))
            script.append(["touch", ops])
        elif x < .9 and n_versions > 1:
            script.append(["write", rng.randrange(n_versions)])
        script.append(["read", rng.choice(READERS)])
    return script


def cases(ctx):
    tier, seed = ctx["tier"], ctx["seed"]
    rng = common.sub_rng(seed, "C14")
    quick = tier == "quick"
    infos = []
    # ---- corpus: hand-written texts
    for fmt, ty, text, kind in CORPUS_TEXTS:
        infos.append(("read", dict(fmt=fmt, ty=ty, text=text, kind="corpus-" + kind)))
        infos.append(("readf", dict(fmt=fmt, ty=ty, text=text, kind="corpus-" + kind)))
    # ---- corpus: line ends as a text-mode file sees them ("\r\n", lone "\r") vs a StringIO (only "\n" ends a line)
    for fmt, ty, text in (("kthlist", "simple", "3\r\n1 : 2 0\r\n2 : 1 0\r\n"), ("kthlist", "simple", "3\r1 : 2 0\r2 : 1 0\r3 : 0"),
                          ("kthlist", "digraph", "c x\r3\n\r1 : 2 0\r\r\n"), ("kthlist", "bipartite", "3\r1 : 3 0\n\r2 : 3 0"),
                          ("dimacs", "simple", "p edge 2 1\re 1 2\r"), ("dimacs", "dag", "c\rp edge 3 2\r\ne 1 2\n\re 2 3"),
                          ("dimacs", "simple", "c p edge 9 9\rp edge 2 0"), ("matrix", "bipartite", "2 2\r1 0\r\n0 1\r"),
                          ("matrix", "bipartite", "# c\r1 1\r1"), ("matrix", "bipartite", "1 1 # c\r1")):
        infos.append(("read", dict(fmt=fmt, ty=ty, text=text, kind="corpus-line-ends")))
        infos.append(("readf", dict(fmt=fmt, ty=ty, text=text, kind="corpus-line-ends")))
    # ---- corpus: D15 (dot, string labels sorted lexicographically)
    for ty in ("simple", "digraph", "dag"):
        for n in (9, 10, 11, 12):
            infos.append(("rtrip3p", dict(ty=ty, fmt="dot", g={"n": n, "edges": [(i, i + 1) for i in range(1, n)]}, name="path")))
    infos.append(("rtrip3p", dict(ty="bipartite", fmt="dot", g={"l": 10, "r": 11, "edges": [(i, i) for i in range(1, 11)] + [(10, 11)]}, name="b")))
    # ---- corpus: former D40 (a graph name with a line break; one 'c ' line per line since 91715a4)
    for fmt, ty, name in (("kthlist", "simple", "two\nlines"), ("dimacs", "digraph", "a\np edge 5 0"),
                          ("kthlist", "bipartite", "x\n1 : 2 0")):
        g = {"l": 1, "r": 1, "edges": [(1, 1)]} if ty == "bipartite" else {"n": 2, "edges": [(1, 2)]}
        infos.append(("write", dict(ty=ty, fmt=fmt, g=g, name=name, cls="multiline-name")))
    # ---- dot texts with arbitrary node names (all-digit names become ints, "01" and "1" merge, others sort as strings)
    pool = ["1", "2", "3", "10", "11", "9", "01", "007", "0", "a", "b", "ab", "B", "x1", "1x", "n_2"]
    for i in range(40 if quick else 400):
        ty = rng.choice(["simple", "digraph", "dag"])
        style = rng.choice(["digits", "digits", "mixed", "words"])
        names = rng.sample({"digits": pool[:9], "mixed": pool, "words": pool[9:]}[style], rng.randint(0, 6))
        if i == 0:
            ty, names, style = "simple", ["01", "1", "2"], "digits"
        arrow = " -- " if ty == "simple" else " -> "
        body = ["{};".format(u) for u in names]
        for _e in range(rng.randint(0, 2 * len(names))):
            u, v = rng.choice(names), rng.choice(names)
            if u != v or ty == "digraph":
                body.append(u + arrow + v + ";")
        if i == 0:
            body = ["01;", "1;", "2;", "01 -- 2;"]
        rng.shuffle(body) if rng.random() < .3 else None
        text = ("strict graph" if ty == "simple" else "strict digraph") + " {\n" + "\n".join(body) + "\n}\n"
        infos.append(("dotread", dict(ty=ty, text=text, kind=style)))
    # ---- round trips: every type x every supported format x shapes
    reps = 3 if quick else 24
    vias = ["stringio", "stringio", "file", "file-autodetect", "from_file", "cli"]
    for ty in TY:
        for fmt in SUPPORTED[ty]:
            for shape in ["empty", "isolated", "path", "star", "complete", "random", "dense"]:
                for big in (False, True):
                    for _ in range(reps if fmt != "dot" else max(1, reps // 3)):
                        g, sh = gen_graph(rng, ty, shape, big)
                        name = rng.choice(NAMES)
                        via = rng.choice(vias)
                        if fmt in INHOUSE:
                            infos.append(("write", dict(ty=ty, fmt=fmt, g=g, name=name, shape=sh, via=via)))
                            infos.append(("rtrip", dict(ty=ty, fmt=fmt, g=g, name=name, shape=sh, via="stringio")))
                            if rng.random() < .5:
                                infos.append(("rtripf", dict(ty=ty, fmt=fmt, g=g, name=name, shape=sh)))
                        else:
                            infos.append(("rtrip3p", dict(ty=ty, fmt=fmt, g=g, name=name if fmt == "gml" else "G", shape=sh, via=via)))
    # ---- files beyond any buffer size (64 KiB; 1 MiB in the thorough tier) — seeded change C14-6
    for ty in TY:
        for fmt in SUPPORTED[ty]:
            if fmt not in INHOUSE:
                continue
            if quick and rng.random() < .5:      # quick tier: about half of the (type, format) pairs per seed (cost: the model's
                continue                         # edge set is a list); the thorough tier does them all, at three sizes
            for n in ([170] if quick else [170, 230, 520]):
                if ty == "bipartite":
                    l, r = n - 20, n + 11
                    es = [(u, v) for u in range(1, l + 1) for v in range(1, r + 1) if rng.random() < .8]
                    g = {"l": l, "r": r, "edges": es}
                else:
                    es = [(u, v) for u in range(1, n + 1) for v in range(u + 1, n + 1) if rng.random() < .9]
                    if ty == "digraph":
                        es = [(v, u) if rng.random() < .4 else (u, v) for u, v in es]
                    g = {"n": n, "edges": es}
                rng.shuffle(es)
                # the model's edge set is a list (membership is linear): 10^5 edges would cost it minutes per graph, so
                # the 1 MiB files go through the real code only (round-trip oracle); up to 230 vertices the model reads too
                infos.append(("rtrip" if n <= 230 else "rtripbig",
                              dict(ty=ty, fmt=fmt, g=g, name="large", shape="large", via=rng.choice(["stringio", "file", "from_file"]))))
                if n == 170 and ty != "bipartite":
                    infos.append(("write", dict(ty=ty, fmt=fmt, g=g, name="large", shape="large", via="file")))
    # ---- file size as a dimension of the character-level reads: written files padded with comment lines to the sizes
    # common.file_sizes() finds in the current source (+ 4 KiB, 64 KiB); one size per (type, format) in the quick tier
    rngp = common.sub_rng(seed, "C14-padded")
    fsizes = common.file_sizes()
    k = 0
    for ty in TY:
        for fmt in SUPPORTED[ty]:
            if fmt not in INHOUSE:
                continue
            for size in ([fsizes[(k + seed) % len(fsizes)]] if quick else fsizes):
                g, _sh = gen_graph(rngp, ty, rngp.choice(["path", "random", "dense"]), False)
                text = common.pad_text(write_text(make_graph(ty, g), ty, fmt, "G"), fmt, size)
                infos.append(("readf", dict(fmt=fmt, ty=ty, text=text, kind="padded")))
            k += 1
    # ---- graph objects of every class / constructor / command-line construction through every writer
    rngo = common.sub_rng(seed, "C14-objects")
    vias_o = vias + ["cli", "save", "save-fmt"]
    for ty, g, label in gen_objects(rngo, quick):
        for fmt in SUPPORTED[ty]:
            if fmt not in INHOUSE and quick and rngo.random() < .6 and not label.startswith(("class:", "modified:")) and "+chain" not in label:
                continue
            name = rngo.choice(NAMES[:4])
            via = rngo.choice(vias_o)
            if fmt in INHOUSE:
                infos.append(("write", dict(ty=ty, fmt=fmt, g=g, name=name, shape="obj:" + label, via=via)))
                infos.append(("rtrip", dict(ty=ty, fmt=fmt, g=g, name=name, shape="obj:" + label, via="stringio")))
            else:
                infos.append(("rtrip3p", dict(ty=ty, fmt=fmt, g=g, name=name if fmt == "gml" else "G", shape="obj:" + label, via=via)))
    # ---- one file read several times in one process
    rngr = common.sub_rng(seed, "C14-reread")
    for i in range(120 if quick else 1500):
        ty = rngr.choice(list(TY))
        fmt = rngr.choice([f for f in SUPPORTED[ty] if f in INHOUSE] * 3 + [f for f in SUPPORTED[ty] if f not in INHOUSE])
        g0, _sh = gen_graph(rngr, ty, rngr.choice(["path", "random", "random", "dense", "isolated"]), rngr.random() < .2)
        if ty == "bipartite":
            g0 = g0 if g0["l"] and g0["r"] else {"l": 3, "r": 4, "edges": [(1, 2), (3, 4)]}
            g1 = {"l": g0["l"], "r": g0["r"], "edges": [e for e in g0["edges"] if rngr.random() < .5]}
        else:
            g0 = g0 if g0["n"] >= 2 else {"n": 4, "edges": [(1, 2), (3, 4)]}
            g1 = {"n": g0["n"], "edges": [e for e in g0["edges"] if rngr.random() < .5]}
        # file size is a dimension of its own: the same scripts over files of the sizes common.file_sizes() finds
        pads = [0, 0, 0] + common.file_sizes()
        infos.append(("reread", dict(ty=ty, fmt=fmt, gs=[g0, g1], name="G", script=gen_script(rngr, ty, 2), pad=pads[i % len(pads)])))
    # ---- malformed texts of the in-house formats
    reps = 1400 if quick else 20000
    for _ in range(reps):
        ty = rng.choice(list(TY))
        fmt = rng.choice([f for f in SUPPORTED[ty] if f in INHOUSE])
        if rng.random() < .12:
            text, kind = soup(rng, fmt), "soup"
        else:
            g, _sh = gen_graph(rng, ty, None, rng.random() < .15)
            text = write_text(make_graph(ty, g), ty, fmt, rng.choice(NAMES))
            kinds = []
            for _k in range(rng.choice([1, 1, 1, 2, 2, 3])):
                text, kd = mutate(rng, text, fmt, ty)
                kinds.append(kd)
            kind = kinds[0] if len(kinds) == 1 else "multi"
            if rng.random() < .04:               # a reader of another type / an unsupported combination
                ty = rng.choice(list(TY))
                kind = "other-type"
        infos.append(("read", dict(fmt=fmt, ty=ty, text=text, kind=kind)))
        if rng.random() < .3:
            infos.append(("readf", dict(fmt=fmt, ty=ty, text=text, kind=kind)))
    # ---- from_networkx with arbitrary labels
    reps = 150 if quick else 2500
    for _ in range(reps):
        ty = rng.choice(["simple", "digraph", "bipartite"])
        n = rng.choice([0, 1, 2, 3, 5, 9, 10, 11, 13])
        style = rng.choice(["1..n", "0..n-1", "shuffled", "sparse", "negative", "strings", "strings-pad", "words"])
        if style == "1..n":
            labels = list(range(1, n + 1))
        elif style == "0..n-1":
            labels = list(range(n))
        elif style == "shuffled":
            labels = list(range(1, n + 1))
            rng.shuffle(labels)
        elif style == "sparse":
            labels = rng.sample(range(0, 200), n)
        elif style == "negative":
            labels = rng.sample(range(-50, 50), n)
        elif style == "strings":
            labels = [str(i) for i in range(1, n + 1)]
        elif style == "strings-pad":
            labels = [str(i).zfill(2) for i in range(1, n + 1)]
            rng.shuffle(labels)
        else:
            labels = rng.sample(["a", "b", "ab", "B", "", "a b", "10", "9", "z", "aa", "a0", "-", "_x", "node"], min(n, 14))
        m = rng.randint(0, 2 * len(labels))
        if ty == "bipartite":
            if style in ("strings", "strings-pad", "words"):
                continue
            cols = [rng.choice([0, 1, 0, 1, "0", "1"]) if rng.random() < .95 else rng.choice([None, 2, "x"]) for _ in labels]
            left = [u for u, c in zip(labels, cols) if c in (0, "0")]
            right = [u for u, c in zip(labels, cols) if c in (1, "1")]
            es = []
            for _e in range(m):
                if left and right and rng.random() < .93:
                    e = (rng.choice(left), rng.choice(right))
                    es.append(e if rng.random() < .5 else (e[1], e[0]))
                elif len(labels) >= 2:
                    es.append(tuple(rng.sample(labels, 2)))
            infos.append(("relabel", dict(ty=ty, nodes=[[u, c] for u, c in zip(labels, cols)], edges=es, kind=style)))
        else:
            es = [(rng.choice(labels), rng.choice(labels)) for _e in range(m)] if labels else []
            if rng.random() < .8:
                es = [e for e in es if e[0] != e[1]]
            infos.append(("relabel", dict(ty=ty, nodes=labels, edges=es, kind=style)))
    # ---- gml / dot texts: corpus, then mutated written files (oracle only)
    for fmt, ty, text in CORPUS_3P:
        infos.append(("read3p", dict(fmt=fmt, ty=ty, text=text, kind="corpus")))
    reps = 160 if quick else 3000
    for _ in range(reps):
        ty = rng.choice(list(TY))
        fmt = rng.choice(["gml", "gml", "dot"])
        g, _sh = gen_graph(rng, ty, None, False)
        if ty == "bipartite":
            g = {"l": min(g["l"], 3), "r": min(g["r"], 3), "edges": [e for e in g["edges"] if e[0] <= 3 and e[1] <= 3]}
        else:
            g = {"n": min(g["n"], 5), "edges": [e for e in g["edges"] if e[0] <= 5 and e[1] <= 5]}
        text = write_text(make_graph(ty, g), ty, fmt, "G")
        kinds = []
        for _k in range(rng.choice([1, 1, 2])):
            text, kd = mutate3p(rng, text)
            kinds.append(kd)
        if not all(ord(c) < 128 for c in text):
            continue
        infos.append(("read3p", dict(fmt=fmt, ty=ty, text=text, kind=kinds[0] if len(kinds) == 1 else "multi")))
    for suite, info in infos:
        yield build(suite, info)
