"""C17 — a command line builds the same formula as the library call it stands for.

Correspondence (model vs code): `parse_command_line` splits argv around `-T` exactly like the Lean
`splitT` (fake parsers record the chunks the real function hands to argparse).
Oracle (independent of the model; this is the property itself on the real code): for every
sub-command and option subset of an independent, hand-written table `command line -> library call`,
the formula returned by the command line tool equals (variables, names, clauses) the formula returned by
the documented library call on the same numbers and the same graphs; `-T` chains equal the left fold of the
library transformations; kthlist2pebbling equals `peb`; -q / -v / -of select the variant and nothing else.
`session`: several command lines run one after the other in ONE process over the same graph file(s) — the same file
(or the same
deterministic construction) named twice on one line, in consecutive runs, by both tools — with graph modifiers on some
occurrences; each run against the library call on graphs obtained independently of the command line's graph-argument
machinery (readGraph / the library constructor / a private copy for the modifiers).
"""
import io
import os
import random
import shutil
import tempfile
import contextlib

from harness import common
from harness.common import Case, req, enc_list, enc_str, ok

import cnfgen
from cnfgen.clitools import cnfgen as cli_cnfgen
from cnfgen.clitools.pbgen import cli as cli_pbgen
from cnfgen.clitools import kthlist2pebbling as cli_k2p
from cnfgen.clitools import make_graph_from_spec
from cnfgen.clitools.cnfgen import parse_command_line
from cnfgen.formula.cnf import CNF
from cnfgen.formula.opb import OPB

RULE = ("hand-written table of (sub-command argv, documented library call) for every formula sub-command x option "
        "subsets x small parameter grids, -T chains of length <= 3, both tools (cnfgen -> CNF, pbgen -> OPB); "
        "sessions of 2-4 consecutive in-process runs over the same graph file (named twice on a line / in consecutive "
        "runs / by both tools, every supported file format) with a graph modifier on some occurrences; "
        "distinct = distinct argv; all non-trivial")
ASSUMPTIONS = ["argparse itself is third-party: validated by this differential check, not modelled",
               "graph arguments are resolved by make_graph_from_spec on both sides (C15 covers what they build)"]
NOTES = ["detection of a wrong helper comes from the oracle (CLI vs independent library call) and from the `decide` "
         "theorems over the regenerated tables; the splitT correspondence ties the -T chain model to parse_command_line"]


def G(kind, *spec):
    return make_graph_from_spec(kind, [str(x) for x in spec])


def fsig(F):
    cons = [list(c) for c in F]
    return (type(F).__name__, F.number_of_variables(), list(F.all_variable_labels()), cons)


# ------------------------------------------------------------------ the independent table
def table(rng):
    """yields (argv tail, lambda formula_class: library formula, uses_random)"""
    T = []

    def add(argv, lib, rnd=False):
        T.append(([str(a) for a in argv], lib, rnd))
    # pigeonhole
    for m, n in ((3, 2), (2, 3), (0, 0), (4, 4)):
        for fl in ([], ["--functional"], ["--onto"], ["--functional", "--onto"]):
            add(["php", m, n] + fl, lambda fc, m=m, n=n, fl=fl: cnfgen.PigeonholePrinciple(
                m, n, functional="--functional" in fl, onto="--onto" in fl, formula_class=fc))
    add(["php", 3], lambda fc: cnfgen.PigeonholePrinciple(4, 3, formula_class=fc))
    for fl in ([], ["--functional"], ["--onto"]):
        add(["php", "complete", 3, 2] + fl, lambda fc, fl=fl: cnfgen.GraphPigeonholePrinciple(
            G("bipartite", "complete", 3, 2), functional="--functional" in fl, onto="--onto" in fl, formula_class=fc))
        add(["php", "shift", 4, 3, 0, 1] + fl, lambda fc, fl=fl: cnfgen.GraphPigeonholePrinciple(
            G("bipartite", "shift", 4, 3, 0, 1), functional="--functional" in fl, onto="--onto" in fl, formula_class=fc))
    from cnfgen.graphs import bipartite_random_left_regular
    for fl in ([], ["--functional"], ["--onto"]):
        add(["php", 5, 4, 2] + fl, lambda fc, fl=fl: cnfgen.GraphPigeonholePrinciple(
            bipartite_random_left_regular(5, 4, 2), functional="--functional" in fl, onto="--onto" in fl,
            formula_class=fc), True)
    add(["bphp", 5, 3], lambda fc: cnfgen.BinaryPigeonholePrinciple(5, 3, formula_class=fc))
    add(["bphp", 3, 4], lambda fc: cnfgen.BinaryPigeonholePrinciple(3, 4, formula_class=fc))
    add(["rphp", 3, 2, 4], lambda fc: cnfgen.RelativizedPigeonholePrinciple(3, 2, 4, formula_class=fc))
    add(["rphp", 2, 4, 3], lambda fc: cnfgen.RelativizedPigeonholePrinciple(2, 4, 3, formula_class=fc))
    add(["cliquecoloring", 4, 3, 2], lambda fc: cnfgen.CliqueColoring(4, 3, 2, formula_class=fc))
    add(["cliquecoloring", 3, 2, 3], lambda fc: cnfgen.CliqueColoring(3, 2, 3, formula_class=fc))
    # counting
    add(["parity", 5], lambda fc: cnfgen.CountingPrinciple(5, 2, formula_class=fc))
    add(["parity", 4], lambda fc: cnfgen.CountingPrinciple(4, 2, formula_class=fc))
    add(["count", 6, 3], lambda fc: cnfgen.CountingPrinciple(6, 3, formula_class=fc))
    add(["count", 5, 2], lambda fc: cnfgen.CountingPrinciple(5, 2, formula_class=fc))
    add(["matching", "complete", 4], lambda fc: cnfgen.PerfectMatchingPrinciple(G("simple", "complete", 4), formula_class=fc))
    add(["matching", "grid", 2, 3], lambda fc: cnfgen.PerfectMatchingPrinciple(G("simple", "grid", 2, 3), formula_class=fc))
    for ch, vec in (("first", lambda n: [1] + [0] * (n - 1)), ("zero", lambda n: [0] * n), ("one", lambda n: [1] * n)):
        add(["tseitin", ch, "complete", 4], lambda fc, vec=vec: cnfgen.TseitinFormula(
            G("simple", "complete", 4), vec(4), formula_class=fc))
        add(["tseitin", ch, "grid", 2, 3], lambda fc, vec=vec: cnfgen.TseitinFormula(
            G("simple", "grid", 2, 3), vec(6), formula_class=fc))
    for eq in ([], ["--equal"]):
        add(["subsetcard", "complete", 3, 4] + eq, lambda fc, eq=eq: cnfgen.SubsetCardinalityFormula(
            G("bipartite", "complete", 3, 4), bool(eq), formula_class=fc))
        add(["subsetcard", "shift", 5, 5, 0, 1, 3] + eq, lambda fc, eq=eq: cnfgen.SubsetCardinalityFormula(
            G("bipartite", "shift", 5, 5, 0, 1, 3), bool(eq), formula_class=fc))
    # graph problems
    add(["kcolor", 3, "complete", 4], lambda fc: cnfgen.GraphColoringFormula(G("simple", "complete", 4), 3, formula_class=fc))
    add(["kcolor", 2, "grid", 2, 3], lambda fc: cnfgen.GraphColoringFormula(G("simple", "grid", 2, 3), 2, formula_class=fc))
    add(["ec", "torus", 3, 3], lambda fc: cnfgen.EvenColoringFormula(G("simple", "torus", 3, 3), formula_class=fc))
    add(["ec", "complete", 5], lambda fc: cnfgen.EvenColoringFormula(G("simple", "complete", 5), formula_class=fc))
    for alt in ([], ["--alternative"], ["-a"]):
        add(["domset"] + alt + [2, "grid", 2, 3], lambda fc, alt=alt: cnfgen.DominatingSet(
            G("simple", "grid", 2, 3), 2, alternative=bool(alt), formula_class=fc))
    add(["tiling", "grid", 2, 3], lambda fc: cnfgen.Tiling(G("simple", "grid", 2, 3), formula_class=fc))
    add(["iso", "complete", 3], lambda fc: cnfgen.GraphAutomorphism(G("simple", "complete", 3), formula_class=fc))
    add(["iso", "grid", 2, 2, "-e", "complete", 4], lambda fc: cnfgen.GraphIsomorphism(
        G("simple", "grid", 2, 2), G("simple", "complete", 4), formula_class=fc))
    add(["iso", "complete", 3, "-e", "empty", 3], lambda fc: cnfgen.GraphIsomorphism(
        G("simple", "complete", 3), G("simple", "empty", 3), formula_class=fc))
    for nsb in ([], ["--no-symmetry-breaking"]):
        add(["kclique", 3, "complete", 4] + nsb, lambda fc, nsb=nsb: cnfgen.CliqueFormula(
            G("simple", "complete", 4), 3, not nsb, formula_class=fc))
        add(["kclique", 2, "grid", 2, 3] + nsb, lambda fc, nsb=nsb: cnfgen.CliqueFormula(
            G("simple", "grid", 2, 3), 2, not nsb, formula_class=fc))
    add(["kcliquebin", 2, "complete", 4], lambda fc: cnfgen.BinaryCliqueFormula(G("simple", "complete", 4), 2, formula_class=fc))
    add(["ramlb", 3, 2, "grid", 2, 3], lambda fc: cnfgen.RamseyWitnessFormula(G("simple", "grid", 2, 3), 3, 2, formula_class=fc))
    add(["ramlb", 2, 2, "complete", 3], lambda fc: cnfgen.RamseyWitnessFormula(G("simple", "complete", 3), 2, 2, formula_class=fc))
    add(["subgraph", "-G", "grid", 2, 3, "-H", "complete", 2], lambda fc: cnfgen.SubgraphFormula(
        G("simple", "grid", 2, 3), G("simple", "complete", 2), induced=False, symbreak=False, formula_class=fc))
    add(["subgraph", "-G", "complete", 4, "-H", "grid", 1, 3], lambda fc: cnfgen.SubgraphFormula(
        G("simple", "complete", 4), G("simple", "grid", 1, 3), induced=False, symbreak=False, formula_class=fc))
    # ordering
    from itertools import product as iprod
    for n in (3, 4):
        for opts, kw in (([], {}), (["--total"], {"total": True}), (["--smart"], {"smart": True}),
                         (["--plant"], {"plant": True}), (["--knuth2"], {"knuth": 2}), (["--knuth3"], {"knuth": 3}),
                         (["--total", "--plant"], {"total": True, "plant": True})):
            add(["op"] + opts + [n], lambda fc, n=n, kw=kw: cnfgen.OrderingPrinciple(
                n, total=kw.get("total", False), smart=kw.get("smart", False), plant=kw.get("plant", False),
                knuth=kw.get("knuth", 0), formula_class=fc))
    for opts, kw in (([], {}), (["--total"], {"total": True}), (["--smart"], {"smart": True}), (["--plant"], {"plant": True})):
        add(["op"] + opts + ["grid", 2, 2], lambda fc, kw=kw: cnfgen.GraphOrderingPrinciple(
            G("simple", "grid", 2, 2), total=kw.get("total", False), smart=kw.get("smart", False),
            plant=kw.get("plant", False), knuth=0, formula_class=fc))
    # pebbling
    add(["peb", "pyramid", 2], lambda fc: cnfgen.PebblingFormula(G("dag", "pyramid", 2), formula_class=fc))
    add(["peb", "tree", 2], lambda fc: cnfgen.PebblingFormula(G("dag", "tree", 2), formula_class=fc))
    add(["peb", "path", 4], lambda fc: cnfgen.PebblingFormula(G("dag", "path", 4), formula_class=fc))
    add(["stone", 2, "pyramid", 1], lambda fc: cnfgen.StoneFormula(G("dag", "pyramid", 1), 2, formula_class=fc))
    add(["stone", 3, "path", 2], lambda fc: cnfgen.StoneFormula(G("dag", "path", 2), 3, formula_class=fc))
    # ramsey
    add(["ram", 3, 3, 5], lambda fc: cnfgen.RamseyNumber(3, 3, 5, formula_class=fc))
    add(["ram", 2, 3, 4], lambda fc: cnfgen.RamseyNumber(2, 3, 4, formula_class=fc))
    add(["ptn", 13], lambda fc: cnfgen.PythagoreanTriples(13, formula_class=fc))
    add(["vdw", 6, 3, 2], lambda fc: cnfgen.VanDerWaerden(6, 3, 2, formula_class=fc))
    add(["vdw", 5, 2, 2, 3], lambda fc: cnfgen.VanDerWaerden(5, 2, 2, 3, formula_class=fc))
    add(["vdw", 4, 1, 2], lambda fc: cnfgen.VanDerWaerden(4, 1, 2, formula_class=fc))
    add(["cpls", 2, 2, 2], lambda fc: cnfgen.CPLSFormula(2, 2, 2, formula_class=fc))
    add(["cpls", 1, 4, 2], lambda fc: cnfgen.CPLSFormula(1, 4, 2, formula_class=fc))
    # simple formulas
    for p, n in ((2, 3), (0, 0), (3, 0)):
        def mk(kind, p=p, n=n):
            def lib(fc):
                F = fc()
                x = F.new_block(p, label="x_{}")
                y = F.new_block(n, label="y_{}")
                lits = list(x()) + [-v for v in y()]
                if kind == "or":
                    F.add_clause(lits)
                else:
                    for l in lits:
                        F.add_clause([l])
                return F
            return lib
        add(["or", p, n], mk("or"))
        add(["and", p, n], mk("and"))
    add(["true"], lambda fc: fc())
    add(["false"], lambda fc: (lambda F: (F.add_clause([]), F)[1])(fc()))
    # random ones: the command line seeds the generator, the library call is made after the same seeding
    add(["randkcnf", 3, 6, 5], lambda fc: cnfgen.RandomKCNF(3, 6, 5, formula_class=fc), True)
    add(["randkcnf", 2, 4, 0], lambda fc: cnfgen.RandomKCNF(2, 4, 0, formula_class=fc), True)
    add(["randkxor", 3, 6, 4], lambda fc: cnfgen.RandomKXOR(3, 6, 4, formula_class=fc), True)
    return T


TRANS = [
    (["xor", 2], lambda F: cnfgen.XorSubstitution(F, 2)),
    (["or", 2], lambda F: cnfgen.OrSubstitution(F, 2)),
    (["maj", 3], lambda F: cnfgen.MajoritySubstitution(F, 3)),
    (["eq", 2], lambda F: cnfgen.AllEqualSubstitution(F, 2)),
    (["neq", 2], lambda F: cnfgen.NotAllEqualSubstitution(F, 2)),
    (["one", 2], lambda F: cnfgen.ExactlyOneSubstitution(F, 2)),
    (["exact", 3, 1], lambda F: cnfgen.ExactlyKSubstitution(F, 3, 1)),
    (["atleast", 3, 2], lambda F: cnfgen.AtLeastKSubstitution(F, 3, 2)),
    (["atmost", 3, 1], lambda F: cnfgen.AtMostKSubstitution(F, 3, 1)),
    (["anybut", 3, 1], lambda F: cnfgen.AnythingButKSubstitution(F, 3, 1)),
    (["ite"], lambda F: cnfgen.IfThenElseSubstitution(F)),
    (["lift", 2], lambda F: cnfgen.FormulaLifting(F, 2)),
    (["flip"], lambda F: cnfgen.FlipPolarity(F)),
    (["none"], lambda F: F),
    (["shuffle"], lambda F: cnfgen.Shuffle(F)),
    (["shuffle", "--no-polarity-flips"], lambda F: cnfgen.Shuffle(F, polarity_flips="fixed")),
    (["shuffle", "-v", "-c"], lambda F: cnfgen.Shuffle(F, variables_permutation="fixed", clauses_permutation="fixed")),
]
BASES = [(["php", 3, 2], lambda: cnfgen.PigeonholePrinciple(3, 2)),
         (["op", 3], lambda: cnfgen.OrderingPrinciple(3)),
         (["peb", "pyramid", 1], lambda: cnfgen.PebblingFormula(G("dag", "pyramid", 1))),
         (["and", 1, 1], None)]


def quiet(f):
    with contextlib.redirect_stderr(io.StringIO()), contextlib.redirect_stdout(io.StringIO()):
        return f()


def split_impl(argv):
    chunks = []

    class Fake:
        def parse_args(self, a):
            chunks.append(list(a))
            return a
    parse_command_line(list(argv), Fake(), Fake())
    out = [str(len(chunks))]
    for c in chunks:
        out.append("| " + str(len(c)) + "".join(" " + " ".join(str(ord(ch)) for ch in t) + " ;" for t in c))
    return ok(" ".join(out))


def split_req(argv):
    parts = [len(argv)]
    for t in argv:
        parts += enc_str(t)
    return req("splitT", parts)


# ------------------------------------------------------------------ sessions: consecutive runs over the same files
SESSION_FILES = {
    "simple": {
        "g.kthlist": "c a graph\n5\n1 : 2 3 0\n2 : 1 0\n3 : 1 4 0\n4 : 3 0\n5 : 0\n",
        "g.dimacs": "c a graph\np edge 5 4\ne 1 2\ne 2 3\ne 3 4\ne 1 5\n",
        "g.gml": 'graph [\n  node [\n    id 0\n    label "1"\n  ]\n  node [\n    id 1\n    label "2"\n  ]\n  node [\n    id 2\n    label "3"\n  ]\n'
                 '  node [\n    id 3\n    label "4"\n  ]\n  edge [\n    source 0\n    target 1\n  ]\n  edge [\n    source 1\n    target 2\n  ]\n'
                 '  edge [\n    source 0\n    target 3\n  ]\n]\n',
        "g.dot": "strict graph {\n1;\n2;\n3;\n4;\n1 -- 2;\n3 -- 4;\n2 -- 3;\n}\n",
    },
    "bipartite": {
        "b.kthlist": "c bipartite\n7\n1 : 4 5 0\n2 : 5 6 0\n3 : 7 0\n",
        "b.matrix": "3 4\n1 1 0 0\n0 1 1 0\n0 0 0 1\n",
    },
    "dag": {
        "d.kthlist": "c a dag\n4\n1 : 0\n2 : 0\n3 : 1 2 0\n4 : 2 3 0\n",
        "d.dimacs": "p edge 4 3\ne 1 3\ne 2 3\ne 3 4\n",
    },
}
# sub-command templates: (argv with graph slots A, B; library function; arguments with the same slots; keywords)
SESSION_CMDS = {
    "simple": [
        (["iso", "A", "-e", "B"], "GraphIsomorphism", ["A", "B"], {}),
        (["iso", "A"], "GraphAutomorphism", ["A"], {}),
        (["subgraph", "-G", "A", "-H", "B"], "SubgraphFormula", ["A", "B"], {"induced": False, "symbreak": False}),
        (["kcolor", "3", "A"], "GraphColoringFormula", ["A", 3], {}),
        (["kclique", "3", "A"], "CliqueFormula", ["A", 3, True], {}),
        (["matching", "A"], "PerfectMatchingPrinciple", ["A"], {}),
        (["tiling", "A"], "Tiling", ["A"], {}),
        (["domset", "2", "A"], "DominatingSet", ["A", 2], {"alternative": False}),
        (["tseitin", "first", "A"], "TseitinFormula", ["A", "first-of-A"], {}),
        (["op", "A"], "GraphOrderingPrinciple", ["A"], {"total": False, "smart": False, "plant": False, "knuth": 0}),
    ],
    "bipartite": [
        (["php", "A"], "GraphPigeonholePrinciple", ["A"], {"functional": False, "onto": False}),
        (["php", "A", "--functional"], "GraphPigeonholePrinciple", ["A"], {"functional": True, "onto": False}),
        (["subsetcard", "A"], "SubsetCardinalityFormula", ["A", False], {}),
    ],
    "dag": [
        (["peb", "A"], "PebblingFormula", ["A"], {}),
        (["stone", "2", "A"], "StoneFormula", ["A", 2], {}),
    ],
}
SESSION_MODS = {"plantclique": [["0"], ["2"], ["3"]], "addedges": [["0"], ["1"], ["2"]], "splitedges": [["0"], ["1"]],
                "plantbiclique": [["0", "0"], ["1", "2"], ["2", "2"]]}


# deterministic constructions a graph slot may name instead of a file, with the library's own way to the same graph
SESSION_CONSTRUCTIONS = {
    "simple": [["grid", "2", "3"], ["torus", "3", "3"], ["complete", "4"], ["empty", "4"], ["grid", "5"]],
    "bipartite": [["complete", "3", "4"], ["empty", "3", "3"], ["shift", "4", "3", "0", "1"]],
    "dag": [["pyramid", "2"], ["tree", "2"], ["path", "4"]],
}


def library_construction(kind, spec):
    import networkx
    from cnfgen import graphs as g
    name, a = spec[0], [int(x) for x in spec[1:]]
    if kind == "simple":
        if name in ("grid", "torus"):
            return g.Graph.from_networkx(networkx.grid_graph(a, periodic=(name == "torus")))
        return g.Graph.complete_graph(a[0]) if name == "complete" else g.Graph.empty_graph(a[0])
    if kind == "bipartite":
        if name == "shift":
            return g.bipartite_shift(a[0], a[1], a[2:])
        return g.CompleteBipartiteGraph(a[0], a[1]) if name == "complete" else g.BipartiteGraph(a[0], a[1])
    return {"pyramid": g.dag_pyramid, "tree": g.dag_complete_binary_tree, "path": g.dag_path}[name](a[0])


def gen_session(rng, i=None):
    """`i`: position in the run's list of sessions — kinds, files and constructions are taken in turn, so that each file
    format and each construction is the session's main graph argument a few times in every run"""
    from cnfgen.clitools import graph_args
    if i is None:
        i = rng.randrange(10 ** 6)
    kind = ["simple", "bipartite", "simple", "dag", "simple"][i % 5]
    names = sorted(SESSION_FILES[kind])
    j = i // 10
    if (i // 5) % 2 == 0:
        main_spec = ["@" + names[j % len(names)]]
    else:
        main_spec = list(SESSION_CONSTRUCTIONS[kind][j % len(SESSION_CONSTRUCTIONS[kind])])
    mods = [o for o in graph_args.options[kind] if o != "save"]
    runs = []
    for _ in range(rng.randint(2, 4)):
        argv_t, fname, args_t, kw = rng.choice(SESSION_CMDS[kind])
        slots = {}
        random_mods = 0
        for slot in ("A", "B"):
            if slot not in argv_t:
                continue
            spec = list(main_spec) if rng.random() < .8 else ["@" + rng.choice(names)]
            if mods and rng.random() < .45:
                o = rng.choice(mods)
                a = rng.choice(SESSION_MODS.get(o, [["1"]]))
                if all(x == "0" for x in a) or random_mods == 0:     # one consumer of the generator per line at most
                    random_mods += 0 if all(x == "0" for x in a) else 1
                    spec += [o] + a
            slots[slot] = spec
        argv = []
        for t in argv_t:
            argv += slots[t] if t in slots else [t]
        runs.append({"tool": rng.choice(["cnfgen", "cnfgen", "pbgen"]), "seed": rng.randrange(10 ** 6), "argv": argv,
                     "lib": {"f": fname, "args": [({"g": kind, "spec": slots[a]} if a in slots else a) for a in args_t], "kw": kw}})
    # file size is a dimension of its own: the same content at the sizes common.file_sizes() finds (comment padding)
    pads = [0, 0] + common.file_sizes()
    return {"files": {n: SESSION_FILES[kind][n] for n in names}, "runs": runs, "pad": pads[i % len(pads)]}


def run_session(info):
    """None, or the first run whose formula differs from the library's"""
    from cnfgen.graphs import readGraph, writeGraph
    tmp = tempfile.mkdtemp(prefix="verif-c17s-")
    copies = [0]
    try:
        for n, txt in info["files"].items():
            with open(os.path.join(tmp, n), "w") as fh:
                fh.write(common.pad_text(txt, n.rsplit(".", 1)[-1], info.get("pad", 0)))

        def real(tok):
            return os.path.join(tmp, tok[1:]) if tok.startswith("@") else tok

        def graph(a):
            """the graph a graph argument names, obtained without the command line's file reader: the documented
            library reader for a bare file; the modifiers are applied to a private, single-use copy of the file"""
            spec = a["spec"]
            if not spec[0].startswith("@"):
                # a construction: the library's own constructor; modifiers are applied to a private file holding it
                k = 1
                while k < len(spec) and spec[k] not in SESSION_MODS:
                    k += 1
                G0 = library_construction(a["g"], spec[:k])
                if k == len(spec):
                    return G0
                copies[0] += 1
                cp = os.path.join(tmp, "built-copy{}.kthlist".format(copies[0]))
                writeGraph(G0, cp, a["g"])
                return quiet(lambda: make_graph_from_spec(a["g"], [cp] + spec[k:]))
            if len(spec) == 1:
                return quiet(lambda: readGraph(real(spec[0]), a["g"]))
            copies[0] += 1
            base, ext = os.path.splitext(spec[0][1:])
            cp = os.path.join(tmp, "{}-copy{}{}".format(base, copies[0], ext))
            shutil.copyfile(real(spec[0]), cp)
            return quiet(lambda: make_graph_from_spec(a["g"], [cp] + spec[1:]))
        for i, run in enumerate(info["runs"]):
            tool, s = run["tool"], run["seed"]
            cli, fc = (cli_cnfgen, CNF) if tool == "cnfgen" else (cli_pbgen, OPB)
            shown = [tool, "-q", "--seed", str(s)] + [t[1:] if t.startswith("@") else t for t in run["argv"]]
            a_exc = A = None
            try:
                A = quiet(lambda: cli([tool, "-q", "--seed", str(s)] + [real(t) for t in run["argv"]], mode="formula"))
            except BaseException as e:  # noqa
                a_exc = e
            lib = run["lib"]
            try:
                random.seed(s)
                args = [graph(a) if isinstance(a, dict) else a for a in lib["args"]]
                args = [([1] + [0] * (args[0].order() - 1) if args[0].order() else []) if a == "first-of-A" else a for a in args]
                random.seed(s)
                B = getattr(cnfgen, lib["f"])(*args, formula_class=fc, **lib["kw"])
            except Exception:  # noqa
                if a_exc is not None:
                    continue                   # a clean refusal on both sides
                return {"what": "the library refuses what the command line builds", "run": i, "command_line": shown,
                        "session": [r["argv"] for r in info["runs"]]}
            if a_exc is not None:
                return {"cli_raised": type(a_exc).__name__, "msg": str(a_exc)[:200], "run": i, "command_line": shown,
                        "session": [r["argv"] for r in info["runs"]]}
            r = compare(A, B, " ".join(shown))
            if r is not None:
                r.update(run=i, session=[[r2["tool"]] + r2["argv"] for r2 in info["runs"]], files=info["files"], file_size=info.get("pad", 0),
                         library_call=lib["f"])
                return r
        return None
    finally:
        shutil.rmtree(tmp, ignore_errors=True)


def build(suite, info):
    if suite == "split":
        argv = [str(a) for a in info["argv"]]
        return Case(suite, split_req(argv), lambda: split_impl(argv), None,
                    cls="T=" + str(argv.count("-T")), nontrivial=len(argv) > 1, info=info)
    if suite == "session":
        first = info["runs"][0]
        full = [first["tool"], "-q", "--seed", str(first["seed"])] + first["argv"]
        kinds = sorted({t for r in info["runs"] for t in r["argv"] if t in SESSION_MODS})
        twice = any(sum(1 for a in r["lib"]["args"] if isinstance(a, dict)) > 1 for r in info["runs"])
        return Case(suite, split_req(full), lambda: split_impl(full), lambda: run_session(info),
                    cls=("twice-on-a-line" if twice else "consecutive") + (":" + "+".join(kinds) if kinds else "") +
                    (":padded" if info.get("pad") else ""), info=info)
    if suite in ("cli_vs_lib", "chain", "k2p", "format"):
        # rebuilt by regenerating the run's cases with the recorded seed/tier and looking the argv up
        ctx = {"tier": info.get("tier", "quick"), "seed": info.get("seed", 0), "prop": "C17"}
        for c in cases(ctx):
            if c.suite == suite and c.info.get("argv") == info.get("argv"):
                return c
        raise ValueError("case not found: " + suite)
    raise ValueError("unknown suite " + suite)




def compare(a, b, what):
    sa, sb = fsig(a), fsig(b)
    if sa == sb:
        return None
    for name, x, y in zip(("class", "nvars", "names", "clauses"), sa, sb):
        if x != y:
            return {"what": what, "differs_in": name, "cli": str(x)[:300], "library": str(y)[:300]}
    return {"what": what}


def cases(ctx):
    tier, seed = ctx["tier"], ctx["seed"]
    rng = common.sub_rng(seed, "C17")
    out = []
    T = table(rng)
    # ---- cli vs library, both tools
    for argv, lib, rnd in T:
        for tool, cli, fc in (("cnfgen", cli_cnfgen, CNF), ("pbgen", cli_pbgen, OPB)):
            s = rng.randint(0, 10 ** 6)
            pre = ["-q", "--seed", str(s)] if rnd else ["-q"]

            def oracle(argv=argv, lib=lib, rnd=rnd, tool=tool, cli=cli, fc=fc, s=s, pre=pre):
                try:
                    a = quiet(lambda: cli([tool] + pre + argv, mode="formula"))
                except BaseException as e:  # noqa
                    return {"cli_raised": type(e).__name__, "argv": argv, "msg": str(e)[:200]}
                if rnd:
                    random.seed(s)
                b = lib(fc)
                return compare(a, b, "{} {}".format(tool, " ".join(argv)))
            full = [tool] + pre + argv
            out.append(Case("cli_vs_lib", split_req(full), lambda full=full: split_impl(full), oracle,
                            cls=tool + ":" + argv[0], info={"argv": pre + argv, "tool": tool}))
    # ---- -T chains (cnfgen only: pbgen has no -T)
    nchains = 60 if tier == "quick" else 600
    for _ in range(nchains):
        base_argv, base_lib = rng.choice(BASES[:3])
        k = rng.choice([1, 1, 2, 2, 3])
        # keep the blow-up of nested substitutions bounded: at most two substitutions per chain,
        # and two only from the arity-2 ones; the rest are size-preserving steps
        neutral = [t for t in TRANS if t[0][0] in ("flip", "none", "shuffle")]
        small = [t for t in TRANS if t[0] in (["xor", 2], ["or", 2], ["eq", 2], ["neq", 2], ["one", 2], ["ite"])]
        if k == 1:
            steps = [rng.choice(TRANS)]
        else:
            nb = rng.choice([1, 2])
            steps = [rng.choice(small if nb == 2 else TRANS) for _ in range(nb)] + \
                    [rng.choice(neutral) for _ in range(k - nb)]
            rng.shuffle(steps)
        s = rng.randint(0, 10 ** 6)
        argv = ["-q", "--seed", str(s)] + [str(a) for a in base_argv]
        for targv, _ in steps:
            argv += ["-T"] + [str(a) for a in targv]

        def oracle(argv=argv, base_lib=base_lib, steps=steps, s=s):
            try:
                a = quiet(lambda: cli_cnfgen(["cnfgen"] + argv, mode="formula"))
            except BaseException as e:  # noqa
                return {"cli_raised": type(e).__name__, "argv": argv, "msg": str(e)[:200]}
            random.seed(s)
            F = base_lib()
            for _, f in steps:
                F = f(F)
            return compare(a, F, "cnfgen " + " ".join(argv))
        full = ["cnfgen"] + argv
        out.append(Case("chain", split_req(full), lambda full=full: split_impl(full), oracle,
                        cls="len=" + str(k), info={"argv": argv}))
    # ---- kthlist2pebbling == peb on the same file; -q/-v/-of select the variant only
    tmp = tempfile.mkdtemp(prefix="verif-c17-")
    try:
        path = os.path.join(tmp, "g.kthlist")
        with open(path, "w") as fh:
            fh.write(common.pad_text("c a dag\n4\n1 : 0\n2 : 0\n3 : 1 2 0\n4 : 2 3 0\n", "kthlist",
                                     rng.choice([0] + common.file_sizes())))

        def k2p_oracle():
            a = quiet(lambda: cli_k2p(["kthlist2pebbling", "-q", "-i", path], mode="formula"))
            b = quiet(lambda: cli_cnfgen(["cnfgen", "-q", "peb", path], mode="formula"))
            r = compare(a, b, "kthlist2pebbling vs peb")
            if r:
                return r
            a = quiet(lambda: cli_k2p(["kthlist2pebbling", "-q", "-i", path, "xor", "2"], mode="formula"))
            b = quiet(lambda: cli_cnfgen(["cnfgen", "-q", "peb", path, "-T", "xor", "2"], mode="formula"))
            return compare(a, b, "kthlist2pebbling xor 2 vs peb -T xor 2")
        full = ["kthlist2pebbling", "-q", "-i", "g.kthlist"]
        out.append(Case("k2p", split_req(full), lambda full=full: split_impl(full), k2p_oracle, cls="k2p", info={"argv": full}))
        k2p_res = k2p_oracle()
        out[-1].oracle = lambda r=k2p_res: r

        def fmt_oracle():
            res = {}
            for name, opts in (("plain", []), ("quiet", ["-q"]), ("verbose", ["-v"]), ("varnames", ["--varnames"]),
                               ("opb", ["-of", "opb"]), ("latex", ["-of", "latex"]), ("latex2", ["-l"])):
                p = os.path.join(tmp, "out_" + name)
                quiet(lambda: cli_cnfgen(["cnfgen", "-o", p] + opts + ["php", "3", "2"], mode="output"))
                res[name] = open(p).read()
            F = cnfgen.PigeonholePrinciple(3, 2)
            body = F.to_dimacs()

            def strip(text, marker):
                return "".join(l + "\n" for l in text.split("\n") if l and not l.startswith(marker))
            if res["quiet"] != body:
                return {"what": "-q output is not exactly the formula", "got": res["quiet"][:200]}
            if strip(res["plain"], "c") != body or strip(res["verbose"], "c") != body:
                return {"what": "-v / default body differs from the formula"}
            if not any(l.startswith("c description:") for l in res["plain"].split("\n")) or \
               not any(l.startswith("c description:") for l in res["verbose"].split("\n")):
                return {"what": "default / -v output has no header"}
            if strip(res["varnames"], "c") != body or "c varname 1 " not in res["varnames"]:
                return {"what": "--varnames changed the body or printed no names"}
            if strip(res["opb"], "*") != strip(F.to_opb(), "*") or not res["opb"].startswith(F.to_opb().split("\n")[0]):
                return {"what": "-of opb body differs from to_opb()"}
            def nocmd(t):
                return "\n".join(l for l in t.split("\n") if "command line" not in l and "cnfgen -" not in l)
            if nocmd(res["latex"]) != nocmd(res["latex2"]):
                return {"what": "-l differs from -of latex"}
            return None
        def fmt_matrix():
            """output options select the variant and nothing else: the text written by the tool equals the library's
            to_file with the corresponding arguments (the 'command line' header entry aside)"""
            import cnfgen as _c

            def nocmd(t):
                # the tool adds the command line to the header and (LaTeX) an extra, possibly empty, description block
                return "\n".join(l for l in t.split("\n") if "command line" not in l and l.strip())
            for fam_argv, lib in ((["php", "3", "2"], lambda: _c.PigeonholePrinciple(3, 2)),
                                  (["op", "3"], lambda: _c.OrderingPrinciple(3))):
                for fmt, fopts in (("dimacs", []), ("dimacs", ["-of", "dimacs"]), ("opb", ["-of", "opb"]),
                                   ("latex", ["-of", "latex"]), ("latex", ["-l"])):
                    for q in ([], ["-q"], ["-v"]):
                        for vn in ([], ["--varnames"]):
                            p = os.path.join(tmp, "m.out")
                            argv = ["cnfgen", "-o", p] + fopts + q + vn + fam_argv
                            last_argv[:] = argv
                            quiet(lambda: cli_cnfgen(argv, mode="output"))
                            got = open(p).read()
                            F = lib()
                            buf = io.StringIO()
                            F.to_file(buf, fileformat=fmt, export_header=("-q" not in q), export_varnames=bool(vn))
                            if nocmd(got) != nocmd(buf.getvalue()):
                                g, w = nocmd(got).split("\n"), nocmd(buf.getvalue()).split("\n")
                                diff = [(a, b) for a, b in zip(g + [""] * len(w), w + [""] * len(g)) if a != b][:2]
                                return {"what": "output options do not select exactly the library variant",
                                        "argv": argv[3:], "first_differences": diff}
                # by file extension
                os.makedirs(os.path.join(tmp, "d.tex"), exist_ok=True)
                for ext, fmt in ((".opb", "opb"), (".tex", "latex"), (".cnf", "dimacs"), ("/../tex", "dimacs"), ("/../opb", "dimacs"),
                                 ("/../.tex", "dimacs"), ("/../.opb", "dimacs"), ("/../d.tex/out", "dimacs"), ("/../d.tex/opb", "dimacs"),
                                 (".tex.opb", "opb"), (".opb.tex", "latex"), ("/../out", "dimacs"), (".tex.cnf", "dimacs")):
                    # "m/../name": a file called exactly `name` in the scratch directory
                    p = os.path.join(tmp, ext[4:]) if ext.startswith("/../") else os.path.join(tmp, "m" + ext)
                    last_argv[:] = ["cnfgen", "-o", p, "--varnames"] + fam_argv
                    quiet(lambda: cli_cnfgen(["cnfgen", "-o", p, "--varnames"] + fam_argv, mode="output"))
                    F = lib()
                    buf = io.StringIO()
                    F.to_file(buf, fileformat=fmt, export_header=True, export_varnames=True)
                    if nocmd(open(p).read()) != nocmd(buf.getvalue()):
                        return {"what": "format chosen by extension differs from the library's", "ext": ext}
            return None
        last_argv = []
        try:
            fmt_matrix_res = fmt_matrix()
        except (Exception, SystemExit) as e:  # a well-formed command line that the tool refuses is a failing input
            fmt_matrix_res = {"what": "the tool fails on a well-formed command line of the format matrix",
                              "argv": [a for a in last_argv if not a.startswith(tmp)], "exception": type(e).__name__,
                              "message": str(e)[:200]}
        fullm = ["cnfgen", "--varnames", "-of", "opb", "php", "3", "2"]
        out.append(Case("format_matrix", split_req(fullm), lambda fullm=fullm: split_impl(fullm),
                        lambda r=fmt_matrix_res: r, cls="format", info={"argv": fullm}))
        fmt_res = fmt_oracle()
        full = ["cnfgen", "-q", "php", "3", "2"]
        out.append(Case("format", split_req(full), lambda full=full: split_impl(full), lambda r=fmt_res: r, cls="format",
                        info={"argv": full}))
    finally:
        shutil.rmtree(tmp, ignore_errors=True)
    # ---- graph arguments given as FILES (incl. the null graph and single vertices), and random graph
    # arguments stored by `save` and read back: the formula must be the library's on the graph named
    tmp2 = tempfile.mkdtemp(prefix="verif-c17g-")
    try:
        from cnfgen.graphs import readGraph
        files = {"null.dimacs": "p edge 0 0\n", "one.dimacs": "p edge 1 0\n", "k2.dimacs": "p edge 2 1\ne 1 2\n",
                 "p3.kthlist": "3\n1 : 0\n2 : 1 0\n3 : 2 0\n", "null.kthlist": "0\n"}
        fsizes = common.file_sizes()
        padded = {}
        for k, (fn, txt) in enumerate(sorted(files.items())):
            base, ext = fn.rsplit(".", 1)
            padded["{}-padded.{}".format(base, ext)] = common.pad_text(txt, ext, fsizes[(k + seed) % len(fsizes)])
        files.update(padded)
        for fn, txt in files.items():
            with open(os.path.join(tmp2, fn), "w") as fh:
                fh.write(txt)

        def rg(fn, kind="simple"):
            return readGraph(os.path.join(tmp2, fn), kind)
        file_cases = []
        for a in ("null.dimacs", "one.dimacs", "k2.dimacs", "p3.kthlist", "null.kthlist"):
            for b in ("null.dimacs", "one.dimacs", "k2.dimacs", "null.kthlist"):
                file_cases.append((["iso", os.path.join(tmp2, a), "-e", os.path.join(tmp2, b)],
                                   lambda a=a, b=b: cnfgen.GraphIsomorphism(rg(a), rg(b))))
            file_cases.append((["iso", os.path.join(tmp2, a)], lambda a=a: cnfgen.GraphAutomorphism(rg(a))))
            file_cases.append((["kcolor", "2", os.path.join(tmp2, a)], lambda a=a: cnfgen.GraphColoringFormula(rg(a), 2)))
            file_cases.append((["tiling", os.path.join(tmp2, a)], lambda a=a: cnfgen.Tiling(rg(a))))
            file_cases.append((["subgraph", "-G", os.path.join(tmp2, "p3.kthlist"), "-H", os.path.join(tmp2, a)],
                               lambda a=a: cnfgen.SubgraphFormula(rg("p3.kthlist"), rg(a), induced=False, symbreak=False)))
        for a in sorted(padded):
            plain = a.replace("-padded", "")
            file_cases.append((["iso", os.path.join(tmp2, a), "-e", os.path.join(tmp2, a)],
                               lambda a=a, plain=plain: cnfgen.GraphIsomorphism(rg(plain), rg(plain))))
            file_cases.append((["kcolor", "2", os.path.join(tmp2, a)], lambda plain=plain: cnfgen.GraphColoringFormula(rg(plain), 2)))
            file_cases.append((["subgraph", "-G", os.path.join(tmp2, a), "-H", os.path.join(tmp2, plain)],
                               lambda plain=plain: cnfgen.SubgraphFormula(rg(plain), rg(plain), induced=False, symbreak=False)))
        results = []
        for argv, lib in file_cases:
            try:
                A = quiet(lambda: cli_cnfgen(["cnfgen", "-q"] + argv, mode="formula"))
                r = compare(A, lib(), "cnfgen " + " ".join(os.path.basename(x) for x in argv))
            except BaseException as e:  # noqa
                try:
                    lib()
                    r = {"cli_raised": type(e).__name__, "argv": [os.path.basename(x) for x in argv]}
                except Exception:
                    r = None   # the library refuses the same request: a clean refusal on both sides
            results.append(([os.path.basename(x) for x in argv], r))
        # random graph argument stored by `save`, same seed, graph read back from the file
        saved = []
        for i, (cmd, gpos, kind) in enumerate([
                (["kcolor", "3", "gnp", "6", ".5", "save", "G.gml", "-T", "shuffle"], (2, 7), "simple"),
                (["tseitin", "random", "gnd", "6", "3", "save", "G.gml"], (2, 7), "simple"),
                (["php", "glrd", "5", "4", "2", "save", "G.kthlist", "-T", "shuffle"], (1, 7), "bipartite"),
                (["kclique", "3", "gnm", "6", "8", "save", "G.gml", "-T", "shuffle", "-c"], (2, 7), "simple"),
                # graphs whose files take several disk blocks
                (["kcolor", "3", "gnp", "40", ".3", "save", "G.gml", "-T", "shuffle"], (2, 7), "simple"),
                (["tseitin", "random", "gnd", "60", "3", "save", "G.dot"], (2, 7), "simple"),
                (["php", "glrd", "70", "40", "9", "save", "G.kthlist"], (1, 7), "bipartite")]):
            sseed = rng.randint(1, 10 ** 6)
            path = os.path.join(tmp2, "saved{}_{}".format(i, cmd[gpos[1] - 1]))
            full = list(cmd)
            full[gpos[1] - 1] = path
            try:
                A = quiet(lambda: cli_cnfgen(["cnfgen", "-q", "-S", str(sseed)] + full, mode="formula"))
                again = full[:gpos[0]] + [path] + full[gpos[1]:]
                B = quiet(lambda: cli_cnfgen(["cnfgen", "-q", "-S", str(sseed)] + again, mode="formula"))
                r = compare(A, B, "random graph + save vs the saved file, seed {}: {}".format(sseed, " ".join(cmd)))
            except BaseException as e:  # noqa
                r = {"cli_raised": type(e).__name__, "argv": cmd, "msg": str(e)[:200]}
            saved.append((cmd, r))
    finally:
        shutil.rmtree(tmp2, ignore_errors=True)
    for argv, r in results:
        full = ["cnfgen", "-q"] + argv
        out.append(Case("graphfile", split_req(full), lambda full=full: split_impl(full), lambda r=r: r,
                        cls=argv[0], info={"argv": full}))
    for cmd, r in saved:
        full = ["cnfgen", "-q"] + cmd
        out.append(Case("savedgraph", split_req(full), lambda full=full: split_impl(full), lambda r=r: r,
                        cls=cmd[0], info={"argv": full}))
    # ---- sessions: consecutive in-process runs over the same graph files, modifiers on some occurrences
    rngs = common.sub_rng(seed, "C17-session")
    for i in range(60 if tier == "quick" else 500):
        out.append(build("session", gen_session(rngs, i)))
    # ---- generator events of a seeded run: seed at parse time, seed again before the build (model: phase3)
    from harness.props import C07 as H07
    for cmd in (["randkcnf", "3", "6", "5"], ["kcolor", "3", "gnp", "6", ".5", "-T", "shuffle"], ["php", "5", "4", "2"]):
        sseed = rng.randint(0, 10 ** 6)
        argv = ["cnfgen", "--seed", str(sseed)] + cmd

        def impl(argv=argv, sseed=sseed):
            random.seed(99)
            with H07.Recorder() as rec:
                quiet(lambda: cli_cnfgen(argv, mode="formula"))
            ev = rec.events
            before = 0
            for e in ev:
                if e[0] == "seed":
                    break
                before += 1
            nseeds = sum(1 for e in ev if e == ("seed", sseed))
            return ok("{} {} {}".format(1 if ev and ev[0] == ("seed", sseed) else 0, before, nseeds))
        out.append(Case("seedevents", req("phase3", sseed, 1), impl, None, cls=cmd[0], info={"argv": argv}))
    # ---- split correspondence on adversarial argv
    toks = ["-T", "php", "5", "-q", "xor", "2", "-Tx", "--T", "T", "-t", "", "shuffle", "-T"]
    for _ in range(150 if tier == "quick" else 2000):
        n = rng.randint(1, 9)
        argv = ["cnfgen"] + [rng.choice(toks) for _ in range(n)]
        out.append(build("split", {"argv": argv}))
    for argv in (["cnfgen"], ["cnfgen", "-T"], ["cnfgen", "-T", "-T"], ["-T"], ["cnfgen", "php", "3", "-T", "xor", "2", "-T"]):
        out.append(build("split", {"argv": argv}))
    for c in out:
        if isinstance(c.info, dict):
            c.info.setdefault("seed", seed)
            c.info.setdefault("tier", tier)
    return out
