"""C10 (builders) — a checked constraint-builder call keeps every literal within the declared variables, so a group
created afterwards cannot reuse a mentioned identifier.

Correspondence: `add_linear(lits, op, k)` on a formula that already has nv variables — the new variable count and
the appended clauses equal the model's (`linF`).  Oracle (independent): after every builder of both formula
classes, called with its default `check`, all literals are non-zero and within number_of_variables(); a variable
and a block created afterwards get identifiers above everything mentioned.
"""
from harness import common
from harness.common import Case, req, enc_list, ok, OPCODE, fmt_clauses

from cnfgen.formula.cnf import CNF
from cnfgen.formula.opb import OPB

OPS = ["<=", ">=", "<", ">", "==", "!="]


def mentioned(F):
    m = 0
    for c in F:
        if isinstance(F, OPB):
            for coef, lit in list(c)[:-2]:
                m = max(m, abs(lit))
        else:
            for lit in c:
                m = max(m, abs(lit))
    return m


def build(suite, info):
    if suite != "builders_fresh":
        raise ValueError("unknown suite " + suite)
    nv, lits, op, k = info["nv"], list(info["lits"]), info["op"], info["k"]

    def impl():
        F = CNF()
        F.update_variable_number(nv)
        F.add_linear(list(lits), op, k)
        return ok("{} {}".format(F.number_of_variables(), fmt_clauses(F)))

    def oracle():
        for cls in (CNF, OPB):
            calls = [("add_linear" if cls is CNF else None, (op, k)), ("add_parity", (k % 2,)),
                     ("add_loose_majority", ()), ("add_strict_majority", ()), ("add_loose_minority", ()),
                     ("add_strict_minority", ()), ("cardinality_eq", (k,)), ("cardinality_neq", (k,)),
                     ("cardinality_leq", (k,)), ("cardinality_geq", (k,))]
            for name, extra in calls:
                if name is None:
                    continue
                F = cls()
                F.update_variable_number(nv)
                try:
                    getattr(F, name)(list(lits), *extra)
                except ValueError:
                    continue
                n = F.number_of_variables()
                if mentioned(F) > n:
                    return {"builder": cls.__name__ + "." + name, "lits": lits, "args": list(extra),
                            "declared_variables": n, "largest_mentioned": mentioned(F)}
                m = mentioned(F)
                v = F.new_variable()
                b = F.new_block(2)
                if v <= m or min(b(None)) <= m:
                    return {"builder": cls.__name__ + "." + name, "lits": lits, "args": list(extra),
                            "new_variable": v, "new_block": list(b(None)), "already_mentioned_up_to": m}
        return None
    return Case(suite, req("linF", nv, OPCODE[op], k, enc_list(lits)), impl, oracle, cls=op,
                nontrivial=len(lits) > 0, info=info)


def cases(ctx):
    tier, seed = ctx["tier"], ctx["seed"]
    rng = common.sub_rng(seed, "C10b")
    out = []
    for op in OPS:
        for lits in ([3], [1, -4], [5, 2, -7]):
            for k in (0, 1, len(lits)):
                out.append(build("builders_fresh", dict(nv=0, lits=lits, op=op, k=k)))
    for _ in range(150 if tier == "quick" else 3000):
        n = rng.randint(1, 6)
        lits = rng.lits(n, maxvar=n + 4)
        out.append(build("builders_fresh", dict(nv=rng.choice([0, 0, 1, 3, 8]), lits=lits, op=rng.choice(OPS),
                                                 k=rng.randint(-1, n + 1))))
    return out
