"""C10 (builders) — a checked constraint-builder call keeps every literal within the declared variables, so a group
created afterwards cannot reuse a mentioned identifier.

Correspondence: `add_linear(lits, op, k)` on a formula that already has nv variables — the new variable count and
the appended clauses equal the model's (`linF`).  Oracle (independent): after every builder of both formula
classes, called with its default `check`, all literals are non-zero and within number_of_variables(); a variable
and a block created afterwards get identifiers above everything mentioned.
"""
from harness import common
from harness.common import Case, req, enc_list, ok, OPCODE, fmt_clauses

from cnfgen.formula.cnf import CNF
from cnfgen.formula.opb import OPB

OPS = ["<=", ">=", "<", ">", "==", "!="]


def mentioned(F):
    m = 0
    for c in F:
        if isinstance(F, OPB):
            for coef, lit in list(c)[:-2]:
                m = max(m, abs(lit))
        else:
            for lit in c:
                m = max(m, abs(lit))
    return m


def build(suite, info):
    if suite == "batch":
        return batch_case(None, info["seed"])
    if suite == "trans_count":
        return trans_case(None, info["chain"], info["N"], info["clauses"], info["seed"])
    if suite != "builders_fresh":
        raise ValueError("unknown suite " + suite)
    nv, lits, op, k = info["nv"], list(info["lits"]), info["op"], info["k"]

    def impl():
        F = CNF()
        F.update_variable_number(nv)
        F.add_linear(list(lits), op, k)
        return ok("{} {}".format(F.number_of_variables(), fmt_clauses(F)))

    def oracle():
        for cls in (CNF, OPB):
            calls = [("add_linear" if cls is CNF else None, (op, k)), ("add_parity", (k % 2,)),
                     ("add_loose_majority", ()), ("add_strict_majority", ()), ("add_loose_minority", ()),
                     ("add_strict_minority", ()), ("cardinality_eq", (k,)), ("cardinality_neq", (k,)),
                     ("cardinality_leq", (k,)), ("cardinality_geq", (k,))]
            for name, extra in calls:
                if name is None:
                    continue
                F = cls()
                F.update_variable_number(nv)
                try:
                    getattr(F, name)(list(lits), *extra)
                except ValueError:
                    continue
                n = F.number_of_variables()
                if mentioned(F) > n:
                    return {"builder": cls.__name__ + "." + name, "lits": lits, "args": list(extra),
                            "declared_variables": n, "largest_mentioned": mentioned(F)}
                m = mentioned(F)
                v = F.new_variable()
                b = F.new_block(2)
                if v <= m or min(b(None)) <= m:
                    return {"builder": cls.__name__ + "." + name, "lits": lits, "args": list(extra),
                            "new_variable": v, "new_block": list(b(None)), "already_mentioned_up_to": m}
        return None
    return Case(suite, req("linF", nv, OPCODE[op], k, enc_list(lits)), impl, oracle, cls=op,
                nontrivial=len(lits) > 0, info=info)


def promised(targv, N):
    t = targv[0]
    if t in ("xor", "or", "maj", "eq", "neq", "one", "exact", "atleast", "atmost", "anybut"):
        return int(targv[1]) * N
    if t == "ite":
        return 3 * N
    if t == "lift":
        return 2 * int(targv[1]) * N
    return N   # flip, none, shuffle


def trans_case(rng, chain_idx, N, clauses, seed):
    from harness.props import C17 as H17
    import cnfgen
    import random
    steps = [H17.TRANS[i] for i in chain_idx]

    def impl():
        F = CNF()
        F.update_variable_number(0)
        F.add_linear([1, 2], ">=", 1)
        return ok("{} {}".format(F.number_of_variables(), fmt_clauses(F)))

    def oracle():
        F = cnfgen.CNF()
        for c in clauses:
            F.add_clause(list(c))
        F.update_variable_number(N)
        random.seed(seed)
        n = N
        for targv, f in steps:
            F = f(F)
            n = promised([str(a) for a in targv], n)
            got = F.number_of_variables()
            if got != n:
                return {"chain": [t for t, _ in steps], "input_variables": N, "clauses": clauses,
                        "declared": got, "promised": n, "after": targv}
            if mentioned(F) > got or any(l == 0 for c in F for l in c):
                return {"chain": [t for t, _ in steps], "literal_out_of_range": mentioned(F), "declared": got}
        return None
    return Case("trans_count", req("linF", 0, OPCODE[">="], 1, enc_list([1, 2])), impl, oracle,
                cls="+".join(str(t[0][0]) for t in steps), info={"chain": list(chain_idx), "N": N, "clauses": clauses, "seed": seed})


def batch_case(rng, seed):
    """add_clauses_from: eager, lazily generated (the generator creates variables on the fly) and refused half way"""
    def impl():
        F = CNF()
        F.add_linear([1, 2], ">=", 1)
        return ok("{} {}".format(F.number_of_variables(), fmt_clauses(F)))

    def oracle():
        import random as _r
        r = _r.Random(seed)
        for cls in (CNF, OPB):
            # refused half way: the clauses stored before the refusal must be within the declared count
            F = cls()
            batch = [[r.choice([1, -1]) * r.randint(1, 9) for _ in range(r.randint(1, 3))] for _ in range(r.randint(1, 4))]
            bad = r.randint(0, len(batch))
            batch.insert(bad, [3, 0])
            try:
                F.add_clauses_from(batch)
                return {"class": cls.__name__, "batch": batch, "zero_literal_accepted": True}
            except ValueError:
                pass
            if mentioned(F) > F.number_of_variables():
                return {"class": cls.__name__, "batch": batch, "after_refusal_declared": F.number_of_variables(),
                        "largest_mentioned": mentioned(F)}
            v = F.new_variable()
            if v <= mentioned(F) - (0 if v > mentioned(F) else 0) and v <= max([abs(l) for c in batch[:bad] for l in c] + [0]):
                return {"class": cls.__name__, "batch": batch, "new_variable_after_refusal": v, "reuses_mentioned": True}
            # lazily generated batch that creates variables while it is being consumed
            F = cls()
            created = []

            def gen():
                yield [5, -2]
                created.append(F.new_variable())
                yield [1, created[-1]]
                created.append(F.new_variable())
                yield [-created[-1], 7]
            F.add_clauses_from(gen())
            if any(v <= 5 for v in created[:1]) or (len(created) > 1 and created[1] <= created[0]):
                return {"class": cls.__name__, "lazy_batch_new_variables": created,
                        "why": "a variable created while the batch was consumed reuses an identifier already mentioned"}
            if mentioned(F) > F.number_of_variables():
                return {"class": cls.__name__, "lazy_batch": True, "declared": F.number_of_variables(), "mentioned": mentioned(F)}
        return None
    return Case("batch", req("linF", 0, OPCODE[">="], 1, enc_list([1, 2])), impl, oracle, cls="batch", info={"seed": seed})


def cases(ctx):
    tier, seed = ctx["tier"], ctx["seed"]
    rng = common.sub_rng(seed, "C10b")
    out = []
    for op in OPS:
        for lits in ([3], [1, -4], [5, 2, -7]):
            for k in (0, 1, len(lits)):
                out.append(build("builders_fresh", dict(nv=0, lits=lits, op=op, k=k)))
    for _ in range(150 if tier == "quick" else 3000):
        n = rng.randint(1, 6)
        lits = rng.lits(n, maxvar=n + 4)
        out.append(build("builders_fresh", dict(nv=rng.choice([0, 0, 1, 3, 8]), lits=lits, op=rng.choice(OPS),
                                                 k=rng.randint(-1, n + 1))))
    for _ in range(20 if tier == "quick" else 300):
        out.append(batch_case(rng, rng.randint(0, 10 ** 6)))
    from harness.props import C17 as H17
    nt = len(H17.TRANS)
    small = [i for i, (t, _) in enumerate(H17.TRANS) if t[0] in ("xor", "or", "eq", "neq", "one", "ite", "flip", "none", "shuffle", "lift")]
    for i in range(nt):
        for N, clauses in ((5, [[1, -2]]), (4, []), (3, [[1], [-2, 3]]), (6, [[2, -3], []])):
            out.append(trans_case(rng, [i], N, clauses, rng.randint(0, 10 ** 6)))
    for _ in range(60 if tier == "quick" else 600):
        a, b = rng.choice(small), rng.choice(small)
        N = rng.randint(1, 5)
        m = rng.randint(0, 3)
        clauses = [[rng.choice([1, -1]) * rng.randint(1, max(1, N - 1)) for _ in range(rng.randint(0, 2))] for _ in range(m)]
        out.append(trans_case(rng, [a, b], N, clauses, rng.randint(0, 10 ** 6)))
    return out
