"""C18 (output text) — what a successful run WRITES: model `cliText` vs the real `cnfgen` / `pbgen`.

`cliText` (lean/CnfgenModel/Cli/Text.lean) = writer of the output format ∘ rendering of the tool's formula class ∘
family model ∘ `dispatch`.  The real tool runs in process (`mode='output'`, stdout captured) on the same tokens; compared
BYTE FOR BYTE: every line of the output that is not a comment (the clauses / constraints), the problem line, and the two
header lines `cli()` adds itself (`random seed`, `command line`).  The other comment lines (free text of the generators,
variable names) are covered by the theorem for every header and label list and are not compared.  A command line the model
refuses must be a CLIError of the real tool WITHOUT any output.

Oracle (independent of the model): the real output is accepted by this module's own strict reader of the chosen format, the
problem line states the number of variables / clauses that `cli(mode='formula')` reports, every other line is a comment.
"""
import contextlib
import io
import itertools
import sys

from harness import common
from harness.common import Case, req, enc_str

from cnfgen.clitools.cmdline import CLIError
from cnfgen.clitools.msg import InternalBug
from cnfgen.clitools.cnfgen import cli as cli_cnfgen
from cnfgen.clitools.pbgen import cli as cli_pbgen
import cnfgen.clitools.msg as msgmod

from harness.props.C18 import strict_dimacs, strict_opb

RULE = ("o_text: numeric sub-commands (bphp cliquecoloring count cpls parity ptn ram rphp, php / op / vdw in their numeric "
        "forms) x small accepted and refused tuples x {cnfgen, pbgen} x {dimacs, opb} x {-q, -v} x {--varnames} x {--seed}; "
        "distinct = distinct (tool, options, sub-command, argv)")
NOTES = ["text correspondence: body lines, problem line and the header lines added by cli() compared byte for byte"]
TOOLS = {"cnfgen": cli_cnfgen, "pbgen": cli_pbgen}


def global_tokens(fmt, verbose, varnames, seed, tool):
    g = []
    if fmt == "opb" and tool == "cnfgen":
        g += ["-of", "opb"]
    if fmt == "dimacs" and tool == "cnfgen" and seed is not None and seed % 2:
        g += ["--output-format", "dimacs"]
    if not verbose:
        g += ["-q"]
    if varnames:
        g += ["--varnames"]
    if seed is not None:
        g += ["--seed", str(seed)]
    return g


def text_req(tool, fmt, verbose, varnames, seed, cmdline, name, argv):
    parts = [0 if tool == "cnfgen" else 1, 0 if fmt == "dimacs" else 1, int(verbose), int(varnames)]
    parts += [0] if seed is None else [1, seed]
    parts += [len(cmdline)]
    for t in cmdline:
        parts += enc_str(t)
    parts += enc_str(name) + [len(argv)]
    for t in argv:
        parts += enc_str(t)
    return req("cli_text", parts)


def keep_line(fmt, l):
    if fmt == "dimacs":
        return (not l.startswith("c")) or l.startswith("c command line: ") or l.startswith("c random seed: ")
    return (not l.startswith("*")) or l.startswith("* #variable= ") or l.startswith("* command line: ") or \
        l.startswith("* random seed: ")


def canon_text(fmt, text):
    lines = text.split("\n")
    if lines and lines[-1] == "":
        lines.pop()
    return "".join(l + "\n" for l in lines if keep_line(fmt, l))


def fmt_text(s):
    return "text {}".format(len(s)) + "".join(" " + str(ord(c)) for c in s)


def run_tool(tool, args, mode="output"):
    msgmod._prefix = ""
    out = io.StringIO()
    old_in = sys.stdin
    sys.stdin = io.StringIO("")
    try:
        with contextlib.redirect_stdout(out), contextlib.redirect_stderr(io.StringIO()):
            try:
                res = TOOLS[tool]([tool] + args, mode=mode)
                return "ok", out.getvalue(), res
            except CLIError:
                return "cliError", out.getvalue(), None
            except InternalBug:
                return "internalBug", out.getvalue(), None
            except SystemExit as e:
                return "exit:{}".format(e.code), out.getvalue(), None
            except BaseException as e:  # noqa: the kind of exception is the observation
                return "escaped:" + type(e).__name__, out.getvalue(), None
    finally:
        sys.stdin = old_in
        msgmod._prefix = ""


def build(suite, info):
    if suite != "o_text":
        raise ValueError("unknown suite " + suite)
    tool, fmt, verbose, varnames, seed = info["tool"], info["fmt"], info["verbose"], info["varnames"], info["seed"]
    name, argv = info["name"], [str(a) for a in info["argv"]]
    cmdline = global_tokens(fmt, verbose, varnames, seed, tool) + [name] + argv
    out_fmt = "opb" if tool == "pbgen" else fmt

    memo = {}

    def impl():
        kind, out, _ = run_tool(tool, cmdline)
        memo["run"] = (kind, out)
        if kind == "ok":
            return "OK " + fmt_text(canon_text(out_fmt, out))
        if out:
            return "OK {}+output".format(kind)
        return "OK " + kind

    def oracle():
        # the observation of `impl` when there is one (the runner calls impl first); a run of its own otherwise
        kind, out = memo["run"] if "run" in memo else run_tool(tool, cmdline)[:2]
        if kind.startswith("escaped") or kind == "internalBug" or kind.startswith("exit"):
            return {"outcome": kind, "command_line": [tool] + cmdline}
        if kind == "cliError":
            return {"outcome": "error after partial output", "command_line": [tool] + cmdline, "stdout": out[:200]} if out else None
        bad = strict_dimacs(out) if out_fmt == "dimacs" else strict_opb(out)
        if bad:
            return {"outcome": "output not accepted by a strict reader", "why": bad, "command_line": [tool] + cmdline,
                    "stdout": out[:300]}
        # the problem line states the counts of the formula object; every other non-body line is a comment
        _, _, F = run_tool(tool, cmdline, mode="formula")
        lines = out.split("\n")[:-1]
        if out_fmt == "dimacs":
            prob = [l for l in lines if l.startswith("p")]
            want = "p cnf {} {}".format(F.number_of_variables(), len(F))
            body = [l for l in lines if not l.startswith("c") and not l.startswith("p")]
        else:
            prob = [l for l in lines if l.startswith("* #variable=")]
            want = "* #variable= {} #constraint= {}".format(F.number_of_variables(), len(F))
            body = [l for l in lines if not l.startswith("*")]
        if prob != [want]:
            return {"outcome": "problem line does not state the true counts", "problem_lines": prob, "want": want,
                    "command_line": [tool] + cmdline}
        if len(body) != len(F):
            return {"outcome": "body lines != number of clauses / constraints", "body": len(body), "formula": len(F),
                    "command_line": [tool] + cmdline}
        if not verbose and not varnames and len(lines) != len(F) + 1:
            return {"outcome": "lines besides the formula under -q", "command_line": [tool] + cmdline}
        return None
    return Case(suite, text_req(tool, fmt, verbose, varnames, seed, cmdline, name, argv), impl, oracle,
                cls="{}:{}:{}".format(tool, out_fmt, name), nontrivial=bool(argv), info=info)


GOOD = {
    "bphp": [["3", "2"], ["1", "1"], ["2", "4"], ["5", "3"]],
    "cliquecoloring": [["3", "2", "2"], ["0", "0", "0"], ["4", "3", "2"], ["2", "1", "1"]],
    "count": [["4", "2"], ["5", "3"], ["0", "1"], ["3", "1"], ["6", "3"]],
    "cpls": [["1", "2", "2"], ["2", "2", "4"], ["2", "4", "2"], ["1", "1", "1"]],
    "parity": [["4"], ["5"], ["0"], ["1"], ["6"]],
    "ptn": [["4"], ["5"], ["13"], ["0"], ["26"]],            # ptn 4: variables without clauses
    "ram": [["3", "3", "2"], ["3", "3", "4"], ["2", "2", "3"], ["1", "2", "2"], ["3", "2", "5"]],   # ram 3 3 2: one variable, no clause
    "rphp": [["3", "2", "2"], ["2", "3", "2"], ["0", "0", "0"], ["1", "1", "1"]],
    "php": [["3", "2"], ["2"], ["0", "3"], ["3", "0"], ["--functional", "3", "2"], ["3", "2", "--onto"],
            ["--functional", "--onto", "2", "2"], ["3", "2", "2"]],
    "op": [["3"], ["--total", "3"], ["--smart", "4"], ["--knuth2", "4"], ["--knuth3", "3"], ["--plant", "3"], ["0"], ["1"]],
    "vdw": [["3", "4", "4"], ["5", "2", "2"], ["4", "2", "3"], ["5", "2", "2", "2"], ["0", "1", "1"], ["4", "1", "2", "1"]],
}
BAD = {
    "bphp": [["0", "2"], ["3"], ["3", "x"]], "cliquecoloring": [["-1", "2", "2"], ["3", "2"]],
    "count": [["4", "0"], ["4"]], "cpls": [["2", "3", "4"], ["0", "2", "2"]], "parity": [["-1"], []],
    "ptn": [["-1"], ["1.5"]], "ram": [["0", "3", "4"], ["3", "3"]], "rphp": [["-1", "2", "2"]],
    "php": [["-1"], ["3", "-2"], []], "op": [["-1"], ["--total", "--smart", "3"]], "vdw": [["5", "0", "2"], ["5", "2"]],
}


def combos(rng, tier):
    out = []
    opts = list(itertools.product(["cnfgen", "pbgen"], ["dimacs", "opb"], [False, True], [False, True], [None, 7, 12]))
    opts = [o for o in opts if not (o[0] == "pbgen" and o[1] == "dimacs")]
    for name in sorted(GOOD):
        for argv in GOOD[name]:
            chosen = opts if tier == "thorough" else rng.sample(opts, 4)
            # the three renderings without any comment are always compared whole
            base = [("cnfgen", "dimacs", False, False, None), ("cnfgen", "opb", False, False, None),
                    ("pbgen", "opb", False, False, None)]
            for o in base + [c for c in chosen if c not in base]:
                out.append((o, name, argv))
        for argv in BAD[name]:
            for o in [("cnfgen", "dimacs", True, False, None), ("pbgen", "opb", False, True, 7), ("cnfgen", "opb", True, True, None)]:
                out.append((o, name, argv))
    return out


def cases(ctx):
    tier, seed = ctx["tier"], ctx["seed"]
    rng = common.sub_rng(seed, "C18t")
    cand = combos(rng, tier)
    if tier == "quick":
        fixed = [c for c in cand if c[0][2] is False and c[0][3] is False and c[0][4] is None and c[2] == GOOD[c[1]][0]]
        rest = [c for c in cand if c not in fixed]
        cand = fixed + rng.sample(rest, min(len(rest), 30))
    elif len(cand) > 700:
        cand = rng.sample(cand, 700)
    out = []
    for (tool, fmt, verbose, varnames, sd), name, argv in cand:
        info = {"tool": tool, "fmt": fmt, "verbose": verbose, "varnames": varnames, "seed": sd, "name": name,
                "argv": list(argv), "tier": tier}
        out.append(build("o_text", info))
    return out


def search(ctx, case):
    return case.oracle()
