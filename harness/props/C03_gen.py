"""C03 — differential test of the TRANSLATED functions of this property: _vdw_ap_generator (cnfgen/families/ramsey.py).
See harness/genfuncs.py (what is tested and why) and notes/translator.md."""
from harness import genfuncs

PROP = "C03"
RULE = genfuncs.RULE
TRUSTED_EXTRA = genfuncs.TRUSTED_EXTRA
NOTES = []


def cases(ctx):
    return genfuncs.cases(PROP, ctx)


def build(suite, info):
    return genfuncs.build(PROP, suite, info)


def search_global(ctx):
    return genfuncs.search_global(PROP, ctx)
