"""C09 (keyword arguments) — "invalid ones are rejected": a string that is neither 'fixed' nor 'shuffle' is not a
valid flips / permutation argument and must raise ValueError (it must not be silently treated as one of the modes).
Oracle-only cases (the Lean model takes modes or explicit lists; the request is the all-fixed shuffle of the formula)."""
from harness import common
from harness.common import Case, req, enc_list, ok, fmt_cnf
import cnfgen

BAD = ["none", "fix", "Fixed", "", "shuffled", "SHUFFLE", "random", "identity", "f"]


def build(suite, info):
    if suite != "keywords":
        raise ValueError("unknown suite " + suite)
    pos, word = info["pos"], info["word"]

    def impl():
        F = cnfgen.CNF([[1, -2], [2, 3]])
        return ok(fmt_cnf(cnfgen.Shuffle(F, "fixed", "fixed", "fixed")))

    def oracle():
        F = cnfgen.CNF([[1, -2], [2, 3], [-1, -3], [3]])
        args = ["fixed", "fixed", "fixed"]
        args[pos] = word
        try:
            G = cnfgen.Shuffle(F, *args)
        except ValueError:
            return None
        except Exception as e:
            return {"argument": ["polarity_flips", "variables_permutation", "clauses_permutation"][pos], "value": word,
                    "raised": type(e).__name__}
        return {"argument": ["polarity_flips", "variables_permutation", "clauses_permutation"][pos], "value": word,
                "accepted_and_returned": [list(c) for c in G]}
    return Case(suite, req("lin", 1, 1, enc_list([1, 2])), lambda: ok("1 1 2 0"), oracle, cls="pos" + str(pos), info=info)


def cases(ctx):
    return [build("keywords", {"pos": p, "word": w}) for p in range(3) for w in BAD]
