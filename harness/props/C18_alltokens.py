"""C18 (every token list) — model `cliOutcomeX` vs the real `cnfgen` / `pbgen`, random paths replayed.

`cliOutcomeX` (lean/CnfgenModel/Cli/OutcomeX.lean) = CPython's argparse on ANY token list (`parseX`) ▸ the helper's method
over the regenerated call templates ▸ graphs / the helper's own random choices ▸ family model ▸ `shield`.  The real tool
runs in process on the same tokens (`cli(mode='formula')`); what the helper draws itself is RECORDED while it runs — the
results of `random.randint` in `build_formula` (random charges of `tseitin`), the graph its own `make_graph_from_spec`
returns (`op N d`, `tseitin N d`, `subsetcard N d`) and the graph `bipartite_random_left_regular` returns (`php M N D`,
`stone --sparse`) — and handed to the model, which must then give the same outcome class (`ok`, `cliError`, `help`,
`escaped:…`) and, for `ok`, the same formula (clauses / constraints in order, both formula classes).
Oracle: the run ended in a formula, a CLIError or the help exit.
"""
import contextlib
import io
import itertools
import sys

from harness import common
from harness.common import Case, req, enc_str, enc_list, enc_graph, enc_bipartite

from cnfgen.clitools.cmdline import CLIError
from cnfgen.clitools.msg import InternalBug
from cnfgen.clitools.cnfgen import cli as cli_cnfgen
from cnfgen.clitools.pbgen import cli as cli_pbgen
import cnfgen.clitools.msg as msgmod
import cnfgen.clihelpers.counting_helpers as counting_helpers
import cnfgen.clihelpers.ordering_helpers as ordering_helpers
import cnfgen.clihelpers.php_helpers as php_helpers
import cnfgen.clihelpers.pebbling_helpers as pebbling_helpers
import cnfgen.clitools.graph_args as graph_args

RULE = ("o_runx: op / tseitin / php / subsetcard / stone in all their forms (graph form, shortcut `N d`, random charges, "
        "`php M N D`, `--sparse`) x accepted and refused numbers x deterministic graph constructions (good and malformed) "
        "x spellings (abbreviated and `=`-joined options, clusters, `--`, `-h`, unknown options, extra / missing tokens), "
        "plus the lines of o_run respelled; the helper's own draws are recorded in the real run and replayed in the model; "
        "distinct = distinct (formula class, sub-command, argv)")
ASSUMPTIONS = ["the graph a helper draws itself (networkx `gnd`, `regular … addedges`, `bipartite_random_left_regular`) and "
               "the bits of `random.randint` are inputs of the model (`GraphEnv`, `RandEnv`): recorded, not predicted"]
NOTES = ["outcome correspondence on every token list: parseX ∘ templates ∘ family models ∘ shield vs the real tools in process"]


class _Rec:
    """records what the helpers draw themselves"""

    def __init__(self):
        self.bits = []
        self.simple = None      # None | "refused" | graph
        self.bip = None
        self.lreg = None
        self.arg_refused = False   # an argparse action refused the tokens of a graph argument


class _RandomProxy:
    def __init__(self, real, rec):
        self._real, self._rec = real, rec

    def randint(self, a, b):
        x = self._real.randint(a, b)
        self._rec.bits.append(x)
        return x

    def __getattr__(self, k):
        return getattr(self._real, k)


def _wrap_mg(real, rec):
    def make_graph_from_spec(kind, spec):
        slot = "simple" if kind == "simple" else "bip"
        try:
            G = real(kind, spec)
        except ValueError:
            setattr(rec, slot, "refused")
            raise
        setattr(rec, slot, G)
        return G
    return make_graph_from_spec


def _wrap_action_mg(real, rec):
    def make_graph_from_spec(kind, spec):
        try:
            return real(kind, spec)
        except (ValueError, OSError):
            rec.arg_refused = True
            raise
    return make_graph_from_spec


def _wrap_lreg(real, rec):
    def bipartite_random_left_regular(l, r, d, seed=None):
        try:
            G = real(l, r, d, seed)
        except ValueError:
            rec.lreg = "refused"
            raise
        rec.lreg = G
        return G
    return bipartite_random_left_regular


def run_real(cls, name, argv):
    """(answer, record)"""
    rec = _Rec()
    msgmod._prefix = ""
    old_in = sys.stdin
    sys.stdin = io.StringIO("")
    tool, cli = ("cnfgen", cli_cnfgen) if cls == 0 else ("pbgen", cli_pbgen)
    saved = (counting_helpers.random, counting_helpers.make_graph_from_spec, ordering_helpers.make_graph_from_spec,
             php_helpers.bipartite_random_left_regular, pebbling_helpers.bipartite_random_left_regular,
             graph_args.make_graph_from_spec)
    graph_args.make_graph_from_spec = _wrap_action_mg(saved[5], rec)
    counting_helpers.random = _RandomProxy(saved[0], rec)
    counting_helpers.make_graph_from_spec = _wrap_mg(saved[1], rec)
    ordering_helpers.make_graph_from_spec = _wrap_mg(saved[2], rec)
    php_helpers.bipartite_random_left_regular = _wrap_lreg(saved[3], rec)
    pebbling_helpers.bipartite_random_left_regular = _wrap_lreg(saved[4], rec)
    try:
        with contextlib.redirect_stdout(io.StringIO()), contextlib.redirect_stderr(io.StringIO()):
            try:
                F = cli([tool, "-q", name] + list(argv), mode="formula")
                ans = "OK ok " + common.fmt_formula(F)
            except CLIError:
                ans = "OK cliError"
            except InternalBug:
                ans = "OK internalBug"
            except SystemExit as e:
                ans = "OK help" if e.code in (0, None) else "EXIT {}".format(e.code)
            except BaseException as e:  # noqa: the kind of exception is the observation
                ans = "OK escaped:" + type(e).__name__
    finally:
        sys.stdin = old_in
        msgmod._prefix = ""
        (counting_helpers.random, counting_helpers.make_graph_from_spec, ordering_helpers.make_graph_from_spec,
         php_helpers.bipartite_random_left_regular, pebbling_helpers.bipartite_random_left_regular,
         graph_args.make_graph_from_spec) = saved
    return ans, rec


def _enc_opt(g, enc):
    if g is None:
        return [0]
    if isinstance(g, str):
        return [1]
    return [2] + enc(g)


def runx_req(cls, name, argv, rec):
    parts = [cls] + enc_str(name) + [len(argv)]
    for t in argv:
        parts += enc_str(t)
    parts += enc_list(rec.bits)
    parts += _enc_opt(rec.simple, enc_graph) + _enc_opt(rec.bip, enc_bipartite) + _enc_opt(rec.lreg, enc_bipartite)
    parts += [1 if rec.arg_refused else 0]
    return req("cli_runx", parts)


# ------------------------------------------------------------------------------------------------ command lines
S_GOOD = [["complete", "3"], ["complete", "4"], ["empty", "3"], ["complete", "1"], ["complete", "2"]]
S_BAD = [["complete", "0"], ["complete", "x"], ["complete"], ["foo", "3"], ["complete", "3", ""], ["complete", "3", "-x"],
         ["complete", "2.5"], ["complete", "3", "save"], ["empty"], ["complete", "+3"]]
D_GOOD = [["pyramid", "1"], ["pyramid", "2"], ["path", "2"], ["path", "0"], ["tree", "1"], ["tree", "2"]]
D_BAD = [["pyramid", "-1"], ["pyramid"], ["complete", "3"], ["gml"]]
B_GOOD = [["complete", "3", "2"], ["complete", "2", "2"], ["empty", "2", "2"], ["shift", "3", "4", "1", "2"], ["shift", "3", "3"]]
B_BAD = [["complete", "3"], ["complete", "0", "2"], ["shift", "3", "4", "5"], ["foo"], ["empty", "2", "-2"]]
WORDS = ["first", "zero", "one", "random", "randomodd", "randomeven"]

CORPUS = [("tseitin", ["random", "complete", "4"]), ("tseitin", ["randomodd", "complete", "3"]),
          ("tseitin", ["randomeven", "complete", "1"]), ("tseitin", ["4", "3"]), ("tseitin", ["6"]), ("tseitin", ["5", "3"]),
          ("tseitin", ["3", "4"]), ("tseitin", ["first", "complete", "4", "-h"]), ("tseitin", ["second", "complete", "3"]),
          ("op", ["4", "3"]), ("op", ["5", "3"]), ("op", ["--tot", "-p", "complete", "3"]), ("op", ["--tot", "-sp", "complete", "3"]),
          ("op", ["3", "--knuth2", "--knuth3"]), ("op", ["-t", "--", "3"]), ("op", ["6", "2", "--kn"]),
          ("php", ["4", "3", "2"]), ("php", ["4", "3", "2", "--onto"]), ("php", ["4", "3", "4"]), ("php", ["3", "2", "0"]),
          ("php", ["--func", "5", "4", "1"]), ("php", ["4", "3", "3"]), ("php", ["4", "-3", "2"]),
          ("stone", ["2", "pyramid", "2", "--sparse", "2"]), ("stone", ["3", "pyramid", "1", "--sparse=1"]),
          ("stone", ["2", "path", "2", "--sp", "1"]), ("stone", ["2", "pyramid", "1", "--sparse", "3"]),
          ("subsetcard", ["complete", "2", "3"]), ("subsetcard", ["complete", "2", "3", "--eq"]),
          ("subsetcard", ["-e", "shift", "3", "3", "0", "1"]), ("subsetcard", ["4", "2"]), ("subsetcard", ["5"]),
          ("subsetcard", ["3", "4"]), ("subsetcard", []), ("subsetcard", ["complete", "0", "2"]),
          ("and", ["2", "1"]), ("or", ["0", "0"]), ("and", ["2", "--", "1"]), ("true", []), ("false", ["-h"]),
          ("kcolor", ["3", "complete", "4"]), ("bphp", ["3", "--", "4"]), ("bphp", ["3", "4", "--he"])]


def respell(rng, name, argv):
    """spellings argparse reads like (or unlike) the plain line"""
    out = []
    longs = [i for i, t in enumerate(argv) if t.startswith("--") and len(t) > 4]
    for i in longs:
        a = list(argv)
        a[i] = a[i][:rng.randrange(3, len(a[i]))]
        out.append(a)
        if i + 1 < len(argv) and not argv[i + 1].startswith("-"):
            out.append(argv[:i] + [argv[i] + "=" + argv[i + 1]] + argv[i + 2:])
    k = rng.randrange(len(argv) + 1)
    out.append(argv[:k] + ["--"] + argv[k:])
    out.append(argv[:k] + ["-h"] + argv[k:])
    out.append(argv[:k] + [rng.choice(["--foo", "-x", "--", "-1", "-", "--total=1"])] + argv[k:])
    out.append(argv + [rng.choice(["1", "x", ""])])
    if argv:
        out.append(argv[:-1])
    return out


def lines(rng, tier):
    out = list(CORPUS)
    for g in S_GOOD + S_BAD:
        for w in WORDS + ["second", ""]:
            out.append(("tseitin", [w] + g))
        for fl in ([], ["--total"], ["-s"], ["--knuth2"], ["--knuth3", "--plant"], ["-t", "-p"], ["-tp"], ["--total", "--smart"]):
            out.append(("op", fl + g))
    for n, d in itertools.product(["-1", "0", "1", "2", "3", "4", "5", "6", "x"], ["0", "1", "2", "3", "4", "7", "1.5"]):
        out.append(("tseitin", [n, d]))
        out.append(("op", [n, d]))
        out.append(("subsetcard", [n, d]))
    for n in ["0", "1", "4", "5", "6", "8", "x", "2.0"]:
        out.append(("tseitin", [n]))
        out.append(("subsetcard", [n]))
        out.append(("op", [n, "--plant"]))
    for m, n, d in itertools.product(["-1", "0", "2", "4", "x"], ["0", "1", "3", "2.5"], ["-1", "0", "1", "2", "3", "4"]):
        for fl in ([], ["--functional"], ["--onto", "--functional"]):
            out.append(("php", [m, n, d] + fl))
    for b in B_GOOD + B_BAD:
        for fl in ([], ["--equal"], ["-e"]):
            out.append(("subsetcard", b + fl))
            out.append(("subsetcard", fl + b))
        out.append(("php", b + ["--onto"]))
    for dg in D_GOOD + D_BAD:
        for s, sp in itertools.product(["0", "1", "2", "3", "x"], ["0", "1", "2", "3", "4", "x"]):
            out.append(("stone", [s] + dg + ["--sparse", sp]))
        out.append(("stone", ["--sparse", "1", "2"] + dg))
    # the lines of o_outcome / o_run (numeric and graph sub-commands with standard options), now through `cliOutcomeX`
    from harness.props import C18_outcome
    old = [(n, list(a)) for n, a in C18_outcome.graph_lines(rng, tier) + C18_outcome.lines(rng, tier)
           if n not in ("op", "tseitin", "php", "stone")]
    out += rng.sample(old, min(len(old), 40 if tier == "quick" else 500))
    for base3 in (["6", "2", "2"], ["0", "1", "1"], ["5", "0", "2"], ["-1", "2", "2"], ["9", "3", "3"]):
        for ks in ([], ["2"], ["0"], ["2", "3"], ["3", "-1"], ["x"], ["1", "1", "1"]):
            out.append(("vdw", base3 + ks))
    out += [("vdw", []), ("vdw", ["4"]), ("vdw", ["4", "2"]), ("and", ["x", "1"]), ("or", ["2"]), ("true", ["1"]),
            ("and", ["-1", "2"]), ("or", ["3", "2", "-h"]), ("false", [])]
    base = list(out)
    for name, argv in rng.sample(base, min(len(base), 100 if tier == "quick" else 1200)):
        for a in respell(rng, name, argv):
            out.append((name, a))
    return out


def build(suite, info):
    """the real run is made HERE (its draws are part of the model's input: the request is made from the record)"""
    if suite != "o_runx":
        raise ValueError("unknown suite " + suite)
    cls, name, argv = info["cls"], info["name"], [str(a) for a in info["argv"]]
    ans, rec = run_real(cls, name, argv)

    def oracle():
        if ans.startswith("OK escaped") or ans == "OK internalBug" or ans.startswith("EXIT"):
            return {"command_line": [("cnfgen", "pbgen")[cls], name] + argv, "outcome": ans[3:]}
        return None
    return Case("o_runx", runx_req(cls, name, argv, rec), lambda: ans, oracle, cls=("cnfgen:", "pbgen:")[cls] + name,
                nontrivial=bool(argv), info=info)


def cases(ctx):
    tier, seed = ctx["tier"], ctx["seed"]
    rng = common.sub_rng(seed, "C18x")
    seen, cand = set(), []
    for name, argv in lines(rng, tier):
        if "save" in argv[:-1]:
            continue            # `… save <file>` writes a graph file into the working directory
        key = (name, tuple(argv))
        if key not in seen:
            seen.add(key)
            cand.append((name, argv))
    corpus_keys = set((n, tuple(a)) for n, a in CORPUS)
    corpus = [c for c in cand if (c[0], tuple(c[1])) in corpus_keys]
    rest = [c for c in cand if (c[0], tuple(c[1])) not in corpus_keys]
    if tier == "quick":
        by = {}
        for c in rest:
            by.setdefault(c[0], []).append(c)
        rest = []
        for name in sorted(by):
            xs = by[name]
            cap = 10 if name in ("op", "tseitin", "php", "stone", "subsetcard") else 5
            rest += xs if len(xs) <= cap else rng.sample(xs, cap)
    else:
        rest = rng.sample(rest, min(len(rest), 1500))
    todo = [(0, n, a) for n, a in corpus + rest]
    todo += [(1, n, a) for n, a in rng.sample(corpus + rest, min(len(corpus + rest), 20 if tier == "quick" else 300))]
    built = [build("o_runx", {"cls": cls, "name": n, "argv": a, "seed": seed, "tier": tier}) for cls, n, a in todo]
    # lines outside the model (a graph argument that is neither deterministic nor recorded, `dimacs`) are not compared
    answers = common.run_driver([c.req for c in built])
    return [c for c, ans in zip(built, answers) if ans != "UNSUPPORTED"]


def search(ctx, case):
    return case.oracle()
