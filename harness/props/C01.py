"""C01 — pigeonhole, matching, counting, subset-cardinality and clique-colouring families.

Correspondence: the exact rendered formula (variable count + clause / constraint list, in
order) of the real generator equals the Lean model's, for both formula classes.

Oracle (independent of the model and of Lean): the truth table of the REAL formula (CNF
clauses or OPB constraints) is compared with the documented combinatorial statement,
written here directly from the docstrings; variables are decoded through the formula's own
`all_variable_labels()`.  Up to MAXV variables the table is complete (bit-parallel, see
harness/tt.py); above, a sample of assignments (random densities + perturbed witnesses).
Also checked: documented variable count, every literal within 1..nvars, the closed-form
satisfiability condition on complete tables, exception class for illegal parameters.
"""
import re
from itertools import combinations
from math import comb

from harness import common
from harness.common import Case, req, enc_pairs, ok, fmt_formula
from harness.tt import TT

from cnfgen.formula.cnf import CNF
from cnfgen.formula.opb import OPB
from cnfgen.graphs import BipartiteGraph, Graph
from cnfgen.families.pigeonhole import (PigeonholePrinciple, GraphPigeonholePrinciple,
                                        BinaryPigeonholePrinciple, RelativizedPigeonholePrinciple)
from cnfgen.families.counting import CountingPrinciple, PerfectMatchingPrinciple
from cnfgen.families.subsetcardinality import SubsetCardinalityFormula
from cnfgen.families.cliquecoloring import CliqueColoring

SUITES = ["php", "gphp", "bphp", "rphp", "count", "pmatch", "subsetcard", "cliquecol"]
MAXV = 18          # complete truth tables up to this many variables
SAMPLES = 192      # sampled assignments above

RULE = ("per family and formula class (CNF, OPB): all parameter tuples in a small box exhaustively "
        "(php 0..8 x flags, binary 1..8 x 1..9, relativized 0..4 (0..7 thorough), clique-colouring 0..4 (0..6 thorough), counting M 0..8 p 1..9), "
        "random parameters up to 60 with bounded formula size, illegal parameters (negative, zero where positive is required); "
        "bipartite and simple graphs from shape generators (empty graph, empty sides, isolated vertices, complete, "
        "matchings, stars, paths, cycles, sparse/dense random, 10-16 vertices) with shuffled edge insertion order; "
        "distinct = distinct request line; non-trivial = at least one variable")
ASSUMPTIONS = ["graph arguments are cnfgen BipartiteGraph / Graph objects in the theorems (the networkx conversion of normalize() is "
               "C14/C16); about a third of the gphp / subsetcard cases hand the same graph over as a networkx object",
               "parameters are Python ints (TypeError for non-integers is not modelled)"]
NOTES = ["BinaryMappingVariables computes the bit length with float log; it differs from the exact value first at "
         "2**29 holes (unreachable: the formula would have > 2**29 clauses); the model uses the exact value"]


# ------------------------------------------------------------------ helpers
def fclass(opb):
    return OPB if opb else CNF


def mk_bip(l, r, edges):
    B = BipartiteGraph(l, r)
    for u, v in edges:
        B.add_edge(u, v)
    return B


def mk_graph(n, edges):
    G = Graph(n)
    for u, v in edges:
        G.add_edge(u, v)
    return G


LABEL = re.compile(r"^([a-z]+)(?:_\{|\()([\d,]*)(?:\}|\))$")


def decode(F):
    """(name, index tuple) -> variable id, from the formula's own labels"""
    out = {}
    for i, lab in enumerate(F.all_variable_labels(), start=1):
        m = LABEL.match(lab)
        if not m:
            raise AssertionError("unexpected label " + repr(lab))
        idx = tuple(int(x) for x in m.group(2).split(",")) if m.group(2) else ()
        key = (m.group(1), idx)
        if key in out:
            raise AssertionError("duplicate label " + repr(lab))
        out[key] = i
    return out


def constraints_of(F, opb):
    return [list(c) for c in (F if opb else F.clauses())]


def literals_of(cons, opb):
    for c in cons:
        if opb:
            for _, l in c[:-2]:
                yield l
        else:
            yield from c


# ------------------------------------------------------------------ specifications (from the docstrings)
# Each returns (expected index set of variables as {(name, idx)}, spec function (T, X) -> table,
#               closed-form satisfiability or None, witness rows for sampling)
# X(name, *idx) is the table of that variable.

def spec_php_graph(L, R, edges, functional, onto, name="p"):
    edges = sorted(set(edges))
    keys = {(name, e) for e in edges}
    nb_r = {u: [v for (a, v) in edges if a == u] for u in range(1, L + 1)}
    nb_l = {v: [u for (u, b) in edges if b == v] for v in range(1, R + 1)}

    def spec(T, X):
        t = T.ones
        for u in range(1, L + 1):            # every pigeon flies to some hole
            t &= T.any(X(name, u, v) for v in nb_r[u])
        for v in range(1, R + 1):            # no two pigeons in the same hole
            t &= T.at_most_one(X(name, u, v) for u in nb_l[v])
        if functional:                       # at most one hole per pigeon
            for u in range(1, L + 1):
                t &= T.at_most_one(X(name, u, v) for v in nb_r[u])
        if onto:                             # every hole gets a pigeon
            for v in range(1, R + 1):
                t &= T.any(X(name, u, v) for u in nb_l[v])
        return t
    return keys, spec


def php_sat(m, n, functional, onto):
    if not onto:
        return m <= n
    if functional:
        return m == n
    return m <= n and (n == 0 or m > 0)


def spec_bphp(m, n):
    bits = (n - 1).bit_length() if n > 1 else 0          # no bits for at most one hole
    keys = {("v", (i, b)) for i in range(1, m + 1) for b in range(bits)}

    def spec(T, X):
        vals = {i: [X("v", i, b) for b in range(bits)] for i in range(1, m + 1)}   # little endian
        t = T.ones
        for i in vals:                       # the string of pigeon i is the name of a hole 0..n-1
            t &= T.le(vals[i], n - 1) if n >= 1 else 0      # no hole: no name
        for i, j in combinations(range(1, m + 1), 2):    # no two pigeons in the same hole
            t &= T.neg(T.eq_digits(vals[i], vals[j]))
        return t
    return keys, spec


def spec_rphp(m, r, n):
    keys = ({("p", (u, v)) for u in range(1, m + 1) for v in range(1, r + 1)}
            | {("q", (v, w)) for v in range(1, r + 1) for w in range(1, n + 1)}
            | {("r", (v,)) for v in range(1, r + 1)})

    def spec(T, X):
        t = T.ones
        for u in range(1, m + 1):            # each pigeon rests somewhere
            t &= T.any(X("p", u, v) for v in range(1, r + 1))
        for v in range(1, r + 1):            # no two pigeons rest in the same place
            t &= T.at_most_one(X("p", u, v) for u in range(1, m + 1))
        for v in range(1, r + 1):            # a place where a pigeon rests is active
            for u in range(1, m + 1):
                t &= T.implies(X("p", u, v), X("r", v))
        for v in range(1, r + 1):            # the pigeon at an active place flies to some hole
            t &= T.implies(X("r", v), T.any(X("q", v, w) for w in range(1, n + 1)))
        for w in range(1, n + 1):            # two active places do not share a hole
            for v1, v2 in combinations(range(1, r + 1), 2):
                t &= T.neg(X("r", v1) & X("r", v2) & X("q", v1, w) & X("q", v2, w))
        return t
    return keys, spec


def spec_count(M, p):
    subsets = list(combinations(range(1, M + 1), p))
    keys = {("p", S) for S in subsets}

    def spec(T, X):
        t = T.ones
        for x in range(1, M + 1):            # x is in exactly one chosen part
            t &= T.exactly_one(X("p", *S) for S in subsets if x in S)
        return t
    return keys, spec


def spec_pmatch(n, edges):
    edges = sorted({(min(u, v), max(u, v)) for u, v in edges})
    keys = {("e", e) for e in edges}

    def spec(T, X):
        t = T.ones
        for w in range(1, n + 1):            # exactly one incident edge is selected
            t &= T.exactly_one(X("e", *e) for e in edges if w in e)
        return t
    return keys, spec


def spec_subsetcard(L, R, edges, equalities):
    edges = sorted(set(edges))
    keys = {("x", e) for e in edges}

    def spec(T, X):
        t = T.ones
        for u in range(1, L + 1):
            xs = [X("x", *e) for e in edges if e[0] == u]
            d = len(xs)
            c = T.count(xs)
            t &= T.eq(c, -(-d // 2)) if equalities else T.ge(T.count(xs, [2] * d), d)      # sum >= d/2
        for v in range(1, R + 1):
            xs = [X("x", *e) for e in edges if e[1] == v]
            d = len(xs)
            c = T.count(xs)
            t &= T.eq(c, d // 2) if equalities else T.le(T.count(xs, [2] * d), d)          # sum <= d/2
        return t
    return keys, spec


def spec_cliquecol(n, k, c):
    E = list(combinations(range(1, n + 1), 2))
    keys = ({("e", e) for e in E} | {("q", (i, v)) for i in range(1, k + 1) for v in range(1, n + 1)}
            | {("r", (v, l)) for v in range(1, n + 1) for l in range(1, c + 1)})

    def spec(T, X):
        t = T.ones
        for i in range(1, k + 1):            # q is a function [k] -> [n]
            t &= T.exactly_one(X("q", i, v) for v in range(1, n + 1))
        for v in range(1, n + 1):            # ... injective
            t &= T.at_most_one(X("q", i, v) for i in range(1, k + 1))
        for (u, v) in E:                     # ... whose image is a clique
            for i in range(1, k + 1):
                for j in range(1, k + 1):
                    if i != j:
                        t &= T.implies(X("q", i, u) & X("q", j, v), X("e", u, v))
        for v in range(1, n + 1):            # r is a function [n] -> [c]
            t &= T.exactly_one(X("r", v, l) for l in range(1, c + 1))
        for (u, v) in E:                     # ... proper on the graph e
            for l in range(1, c + 1):
                t &= T.neg(X("e", u, v) & X("r", u, l) & X("r", v, l))
        return t
    return keys, spec


# ------------------------------------------------------------------ witnesses for sampling (objects -> true variables)
def witness_keys(suite, info):
    """a list of objects (sets of (name, idx) that are true) that satisfy the documented statement, if easy"""
    out = []
    if suite == "php":
        m, n = info["m"], info["n"]
        if 0 <= m <= n:
            out.append({("p", (u, u)) for u in range(1, m + 1)})
            out.append({("p", (u, n - m + u)) for u in range(1, m + 1)})
            if m > 0:
                out.append({("p", (min(v, m), v)) for v in range(1, n + 1)})
    elif suite == "bphp":
        m, n = info["m"], info["n"]
        if 1 <= m <= n:
            out.append({("v", (i, b)) for i in range(1, m + 1) for b in range(n.bit_length()) if ((i - 1) >> b) & 1})
    elif suite == "rphp":
        m, r, n = info["m"], info["r"], info["n"]
        if 0 <= m <= r and m <= n:
            out.append({("p", (u, u)) for u in range(1, m + 1)} | {("r", (u,)) for u in range(1, m + 1)}
                       | {("q", (u, u)) for u in range(1, m + 1)})
    elif suite == "count":
        M, p = info["M"], info["p"]
        if M >= 0 and p >= 1 and M % p == 0:
            out.append({("p", tuple(range(b * p + 1, b * p + p + 1))) for b in range(M // p)})
    elif suite == "cliquecol":
        n, k, c = info["n"], info["k"], info["c"]
        if 0 <= k <= n and k <= c and (n == 0 or c >= 1):
            out.append({("q", (i, i)) for i in range(1, k + 1)} | {("r", (v, min(v, c))) for v in range(1, n + 1)}
                       | {("e", (u, v)) for u in range(1, k + 1) for v in range(u + 1, k + 1)})
    elif suite in ("gphp", "subsetcard"):
        # greedy matching of the left side
        used, obj = set(), set()
        for u in range(1, info["l"] + 1):
            for (a, v) in sorted(set(map(tuple, info["edges"]))):
                if a == u and v not in used:
                    used.add(v)
                    obj.add(("p" if suite == "gphp" else "x", (u, v)))
                    break
        out.append(obj)
    elif suite == "pmatch":
        used, obj = set(), set()
        for (u, v) in sorted({(min(a, b), max(a, b)) for a, b in map(tuple, info["edges"])}):
            if u not in used and v not in used:
                used |= {u, v}
                obj.add(("e", (u, v)))
        out.append(obj)
    return out


def sample_rows(rng, n, V, witnesses):
    rows = [[], list(range(1, n + 1))]
    for w in witnesses:
        base = sorted(V[k] for k in w if k in V)
        rows.append(base)
        for _ in range(24):       # perturbations: flip 1..2 variables
            s = set(base)
            for _ in range(rng.choice([1, 1, 2])):
                s ^= {rng.randint(1, n)}
            rows.append(sorted(s))
    while len(rows) < SAMPLES:
        dens = rng.choice([1.0 / n, 2.0 / n, 0.1, 0.3, 0.5, 0.9])
        rows.append([i for i in range(1, n + 1) if rng.random() < dens])
    return rows


# ------------------------------------------------------------------ cases
def bip_argument(info):
    """the bipartite graph argument: a cnfgen BipartiteGraph, or (info["nx"] = seed) a networkx graph with the same
    sides and edges — nodes of the two sides interleaved in a random insertion order (so that networkx reports some
    edges as (right, left)), arbitrary labels, side given as int / bool / str"""
    if info.get("nx") is None:
        return mk_bip(info["l"], info["r"], info["edges"])
    import networkx
    import random as _random
    r = _random.Random(info["nx"])
    zero, one = r.choice([(0, 1), (False, True), ("0", "1")])
    todo = [[("a", i) for i in range(info["l"], 0, -1)], [("b", j) for j in range(info["r"], 0, -1)]]
    h = networkx.Graph(name="nx")
    while todo[0] or todo[1]:
        side = r.choice([k for k in (0, 1) if todo[k]])
        h.add_node(todo[side].pop(), bipartite=(zero, one)[side])
    for u, v in info["edges"]:
        e = (("a", u), ("b", v))
        h.add_edge(*(e if r.random() < .5 else e[::-1]))
    return h


def real_formula(suite, info):
    opb = info.get("opb", False)
    fc = fclass(opb)
    if suite == "php":
        return PigeonholePrinciple(info["m"], info["n"], bool(info["f"]), bool(info["o"]), formula_class=fc)
    if suite == "gphp":
        return GraphPigeonholePrinciple(bip_argument(info), bool(info["f"]), bool(info["o"]),
                                        formula_class=fc)
    if suite == "bphp":
        return BinaryPigeonholePrinciple(info["m"], info["n"], formula_class=fc)
    if suite == "rphp":
        return RelativizedPigeonholePrinciple(info["m"], info["r"], info["n"], formula_class=fc)
    if suite == "count":
        return CountingPrinciple(info["M"], info["p"], formula_class=fc)
    if suite == "pmatch":
        return PerfectMatchingPrinciple(mk_graph(info["n"], info["edges"]), formula_class=fc)
    if suite == "subsetcard":
        return SubsetCardinalityFormula(bip_argument(info), bool(info["eq"]), formula_class=fc)
    if suite == "cliquecol":
        return CliqueColoring(info["n"], info["k"], info["c"], formula_class=fc)
    raise ValueError("unknown suite " + suite)


def request(suite, info):
    cls = 1 if info.get("opb", False) else 0
    if suite == "php":
        return req("php", cls, info["m"], info["n"], bool(info["f"]), bool(info["o"]))
    if suite == "gphp":
        return req("gphp", cls, bool(info["f"]), bool(info["o"]), info["l"], info["r"], enc_pairs(info["edges"]))
    if suite == "bphp":
        return req("bphp", cls, info["m"], info["n"])
    if suite == "rphp":
        return req("rphp", cls, info["m"], info["r"], info["n"])
    if suite == "count":
        return req("count", cls, info["M"], info["p"])
    if suite == "pmatch":
        return req("pmatch", cls, info["n"], enc_pairs(info["edges"]))
    if suite == "subsetcard":
        return req("subsetcard", cls, bool(info["eq"]), info["l"], info["r"], enc_pairs(info["edges"]))
    if suite == "cliquecol":
        return req("cliquecol", cls, info["n"], info["k"], info["c"])
    raise ValueError("unknown suite " + suite)


def legal(suite, info):
    """the parameters the generator accepts (the model follows the code)"""
    if suite == "php":
        return info["m"] >= 0 and info["n"] >= 0
    if suite == "bphp":
        return info["m"] >= 0 and info["n"] >= 0           # since the fix of D42 (was: both >= 1)
    if suite == "rphp":
        return min(info["m"], info["r"], info["n"]) >= 0
    if suite == "count":
        return info["M"] >= 0 and info["p"] >= 1
    if suite == "cliquecol":
        return min(info["n"], info["k"], info["c"]) >= 0
    return True


def documented_legal(suite, info):
    """the parameters the DOCSTRING declares legal; differs from `legal` only for the binary
    pigeonhole principle ("must be >= 0", ValueError "if less than zero") — finding D37"""
    if suite == "bphp":
        return info["m"] >= 0 and info["n"] >= 0
    return legal(suite, info)


def specification(suite, info):
    """(variable keys, spec, documented number of variables, closed-form satisfiability or None)"""
    if suite == "php":
        m, n = info["m"], info["n"]
        edges = [(u, v) for u in range(1, m + 1) for v in range(1, n + 1)]
        keys, spec = spec_php_graph(m, n, edges, info["f"], info["o"])
        return keys, spec, m * n, php_sat(m, n, info["f"], info["o"])
    if suite == "gphp":
        keys, spec = spec_php_graph(info["l"], info["r"], [tuple(e) for e in info["edges"]], info["f"], info["o"])
        return keys, spec, len(keys), None
    if suite == "bphp":
        m, n = info["m"], info["n"]
        keys, spec = spec_bphp(m, n)
        return keys, spec, m * ((n - 1).bit_length() if n > 1 else 0), m <= n
    if suite == "rphp":
        m, r, n = info["m"], info["r"], info["n"]
        keys, spec = spec_rphp(m, r, n)
        return keys, spec, m * r + r * n + r, (m <= r and m <= n)
    if suite == "count":
        M, p = info["M"], info["p"]
        keys, spec = spec_count(M, p)
        return keys, spec, comb(M, p), M % p == 0
    if suite == "pmatch":
        keys, spec = spec_pmatch(info["n"], [tuple(e) for e in info["edges"]])
        return keys, spec, len(keys), None
    if suite == "subsetcard":
        keys, spec = spec_subsetcard(info["l"], info["r"], [tuple(e) for e in info["edges"]], info["eq"])
        return keys, spec, len(keys), None
    if suite == "cliquecol":
        n, k, c = info["n"], info["k"], info["c"]
        keys, spec = spec_cliquecol(n, k, c)
        return keys, spec, comb(n, 2) + k * n + n * c, (k <= n and k <= c and (n == 0 or c >= 1))
    raise ValueError("unknown suite " + suite)


def check_property(suite, info, F):
    """the property on the real formula F; None if it holds"""
    opb = info.get("opb", False)
    keys, spec, nvars_doc, sat_doc = specification(suite, info)
    n = F.number_of_variables()
    if n != nvars_doc:
        return {"number_of_variables": n, "documented": nvars_doc}
    cons = constraints_of(F, opb)
    for l in literals_of(cons, opb):
        if not isinstance(l, int) or l == 0 or abs(l) > n:
            return {"literal_out_of_range": l, "number_of_variables": n}
    V = decode(F)
    if set(V) != keys:
        return {"variables": sorted(map(str, set(V) ^ keys))[:10], "detail": "labels are not the documented index set"}

    def evaluate(T):
        def X(name, *idx):
            return T.var(V[(name, tuple(idx))])
        f = T.opb(cons) if opb else T.cnf(cons)
        return f, spec(T, X)

    if n <= MAXV:
        T = TT.full(n)
        f, s = evaluate(T)
        if f != s:
            a = TT.first_row(f ^ s)
            return {"assignment_true_vars": T.row(a), "formula_accepts": bool((f >> a) & 1),
                    "documented_object": bool((s >> a) & 1),
                    "labels_true": [k for k, v in sorted(V.items(), key=lambda kv: kv[1]) if v in set(T.row(a))][:30].__repr__()}
        if sat_doc is not None and (f != 0) != sat_doc:
            return {"satisfiable": f != 0, "closed_form_says": sat_doc}
        return None
    rng = common.sub_rng(info.get("_seed", 0), "C01-sample", suite, n)
    wit = witness_keys(suite, info)
    rows = sample_rows(rng, n, V, wit)
    T = TT.sampled(n, rows)
    f, s = evaluate(T)
    if f != s:
        a = TT.first_row(f ^ s)
        return {"assignment_true_vars": T.row(a), "formula_accepts": bool((f >> a) & 1),
                "documented_object": bool((s >> a) & 1)}
    return None


def cls_of(suite, info):
    tag = "opb" if info.get("opb") else "cnf"
    if not legal(suite, info):
        if documented_legal(suite, info):
            return "{}:documented-legal-zero".format(suite)
        return "{}:{}:illegal".format(suite, tag)
    if suite in ("php", "gphp"):
        kind = {(0, 0): "plain", (1, 0): "functional", (0, 1): "onto", (1, 1): "matching"}[(int(bool(info["f"])), int(bool(info["o"])))]
        return "{}:{}:{}".format(suite, tag, kind)
    if suite == "subsetcard":
        return "{}:{}:{}".format(suite, tag, "eq" if info["eq"] else "ineq")
    return "{}:{}".format(suite, tag)


def build(suite, info):
    if suite not in SUITES:
        raise ValueError("unknown suite " + suite)
    state = {}

    def impl():
        F = real_formula(suite, info)
        state["F"] = F
        return ok(fmt_formula(F))

    def oracle():
        if not legal(suite, info):
            # illegal parameters: the documented behaviour is ValueError; compared by the correspondence
            try:
                real_formula(suite, info)
            except ValueError:
                if documented_legal(suite, info):
                    # the docstring promises a formula (zero pigeons: the empty placement exists)
                    return {"generator_raised_on_documented_legal_input": "ValueError",
                            "documented": "pigeons, holes must be >= 0; ValueError if less than zero"}
                return None
            except Exception as e:
                return {"illegal_parameters_raise": type(e).__name__, "documented": "ValueError"}
            return {"illegal_parameters_accepted": True}
        F = state.get("F")
        if F is None:
            try:
                F = real_formula(suite, info)
            except Exception as e:
                return {"generator_raised_on_legal_input": type(e).__name__}
        return check_property(suite, info, F)

    _, _, nv, _ = specification(suite, info) if legal(suite, info) else (None, None, 0, None)
    return Case(suite, request(suite, info), impl, oracle, cls=cls_of(suite, info), nontrivial=nv > 0, info=info)


# ------------------------------------------------------------------ generators
def bip_shapes(rng, l, r):
    """edge lists of bipartite graphs on (l, r) vertices, one per shape"""
    allp = [(u, v) for u in range(1, l + 1) for v in range(1, r + 1)]
    out = [("empty", []), ("complete", list(allp))]
    if allp:
        out.append(("diag", [(u, u) for u in range(1, min(l, r) + 1)]))
        out.append(("star", [(1, v) for v in range(1, r + 1)]))
        out.append(("costar", [(u, 1) for u in range(1, l + 1)]))
        out.append(("sparse", [e for e in allp if rng.random() < 0.25]))
        out.append(("half", [e for e in allp if rng.random() < 0.5]))
        out.append(("dense", [e for e in allp if rng.random() < 0.8]))
        # isolated vertices: only the first half of each side is used
        out.append(("isolated", [e for e in allp if e[0] <= (l + 1) // 2 and e[1] <= (r + 1) // 2 and rng.random() < 0.7]))
        d = min(r, 2)
        out.append(("leftregular", sorted({(u, v) for u in range(1, l + 1) for v in rng.sample(range(1, r + 1), d)})))
    res = []
    for name, es in out:
        es = list(es)
        rng.shuffle(es)              # insertion order is not sorted
        if es and rng.random() < 0.3:
            es.append(es[0])         # a repeated edge is ignored by add_edge
        res.append((name, es))
    return res


def graph_shapes(rng, n):
    allp = [(u, v) for u in range(1, n + 1) for v in range(u + 1, n + 1)]
    out = [("empty", []), ("complete", list(allp))]
    if allp:
        out.append(("path", [(u, u + 1) for u in range(1, n)]))
        out.append(("cycle", [(u, u + 1) for u in range(1, n)] + ([(1, n)] if n > 2 else [])))
        out.append(("star", [(1, v) for v in range(2, n + 1)]))
        out.append(("matching", [(u, u + 1) for u in range(1, n, 2)]))
        out.append(("crossmatching", [(u, n + 1 - u) for u in range(1, n // 2 + 1)]))
        out.append(("sparse", [e for e in allp if rng.random() < 0.25]))
        out.append(("half", [e for e in allp if rng.random() < 0.5]))
        out.append(("isolated", [e for e in allp if e[1] <= (n + 1) // 2 and rng.random() < 0.7]))
    res = []
    for name, es in out:
        es = [(e if rng.random() < 0.5 else (e[1], e[0])) for e in es]      # either orientation
        rng.shuffle(es)
        if es and rng.random() < 0.3:
            es.append((es[0][1], es[0][0]))
        res.append((name, es))
    return res


def small_infos(suite, rng, tier):
    """the exhaustive small box of a suite (both classes); also used by `search`"""
    big = tier == "thorough"
    out = []
    for opb in (False, True):
        if suite == "php":
            for m in range(0, 9):
                for n in range(0, 9):
                    for f in (0, 1):
                        for o in (0, 1):
                            out.append(dict(m=m, n=n, f=f, o=o, opb=opb))
        elif suite == "bphp":
            for m in range(1, 9):
                for n in list(range(1, 10)) + ([15, 16, 17] if big else [16]):
                    if m * max(n - 1, 0).bit_length() <= 40 and (m <= 6 or n <= 9):
                        out.append(dict(m=m, n=n, opb=opb))
        elif suite == "rphp":
            top = 8 if big else 5
            for m in range(0, top):
                for r in range(0, top):
                    for n in range(0, top):
                        out.append(dict(m=m, r=r, n=n, opb=opb))
        elif suite == "count":
            for M in range(0, 9):
                for p in range(1, 10):
                    out.append(dict(M=M, p=p, opb=opb))
        elif suite == "cliquecol":
            top = 7 if big else 5
            for n in range(0, top):
                for k in range(0, top):
                    for c in range(0, top):
                        out.append(dict(n=n, k=k, c=c, opb=opb))
        elif suite in ("gphp", "subsetcard"):
            top = 6 if big else 4
            for l in range(0, top):
                for r in range(0, top):
                    for name, es in bip_shapes(rng, l, r):
                        if suite == "gphp":
                            for f in (0, 1):
                                for o in (0, 1):
                                    out.append(dict(l=l, r=r, edges=es, f=f, o=o, opb=opb, shape=name,
                                                    nx=rng.randint(1, 10 ** 6) if rng.random() < .35 else None))
                        else:
                            for eq in (0, 1):
                                out.append(dict(l=l, r=r, edges=es, eq=eq, opb=opb, shape=name,
                                                nx=rng.randint(1, 10 ** 6) if rng.random() < .35 else None))
        elif suite == "pmatch":
            for n in range(0, 10 if big else 7):
                for name, es in graph_shapes(rng, n):
                    out.append(dict(n=n, edges=es, opb=opb, shape=name))
    return out


def random_infos(rng, tier):
    out = []
    reps = 60 if tier == "quick" else 500
    for _ in range(reps):
        opb = rng.random() < 0.5
        # closed-form families, parameters up to 60 with bounded size
        m, n = rng.randint(0, 60), rng.randint(0, 60)
        while m * n > (900 if opb else 500):
            m, n = rng.randint(0, 60), rng.randint(0, 60)
        out.append(("php", dict(m=m, n=n, f=rng.randint(0, 1), o=rng.randint(0, 1), opb=opb)))
        m, n = rng.randint(1, 12), rng.randint(1, 60)
        while m * m * n > 4000:
            m, n = rng.randint(1, 12), rng.randint(1, 60)
        out.append(("bphp", dict(m=m, n=n, opb=rng.random() < 0.5)))
        m, r, n = rng.randint(0, 20), rng.randint(0, 12), rng.randint(0, 20)
        out.append(("rphp", dict(m=m, r=r, n=n, opb=rng.random() < 0.5)))
        M = rng.randint(0, 60)
        p = rng.choice([1, 1, 2, 2, 3, M, max(1, M - 1), max(1, M - 2), rng.randint(1, 60)])
        opb2 = rng.random() < 0.5
        while comb(M, p) > 600 or (not opb2 and comb(M, p) > 130):
            M = rng.randint(0, 30)
            p = rng.choice([1, 2, 3, max(1, M - 1), max(1, M - 2), rng.randint(1, 30)])
        out.append(("count", dict(M=M, p=p, opb=opb2)))
        n, k, c = rng.randint(0, 14), rng.randint(0, 8), rng.randint(0, 8)
        out.append(("cliquecol", dict(n=n, k=k, c=c, opb=rng.random() < 0.5)))
        # graphs with >= 10 vertices
        l, r = rng.randint(3, 9), rng.randint(3, 9)
        if l + r < 10:
            l += 10 - (l + r)
        shapes = bip_shapes(rng, l, r)
        name, es = rng.choice(shapes)
        opb3 = rng.random() < 0.5
        if not opb3:
            # the clause encodings of at-most-one / majorities are exponential in the degree
            name, es = rng.choice([s for s in shapes if s[0] in ("sparse", "isolated", "diag", "leftregular", "empty")])
        out.append(("gphp", dict(l=l, r=r, edges=es, f=rng.randint(0, 1), o=rng.randint(0, 1), opb=opb3, shape=name,
                                 nx=rng.randint(1, 10 ** 6) if rng.random() < .35 else None)))
        name, es = rng.choice(shapes)
        if not opb3:
            name, es = rng.choice([s for s in shapes if s[0] in ("sparse", "isolated", "diag", "leftregular", "empty", "half")])
        out.append(("subsetcard", dict(l=l, r=r, edges=es, eq=rng.randint(0, 1), opb=opb3, shape=name,
                                      nx=rng.randint(1, 10 ** 6) if rng.random() < .35 else None)))
        n = rng.randint(10, 16)
        name, es = rng.choice(graph_shapes(rng, n))
        out.append(("pmatch", dict(n=n, edges=es, opb=rng.random() < 0.5, shape=name)))
    return out


def illegal_infos():
    out = []
    for opb in (False, True):
        for a, b in [(-1, 3), (3, -1), (-1, -1), (-5, 0)]:
            out.append(("php", dict(m=a, n=b, f=0, o=0, opb=opb)))
            out.append(("php", dict(m=a, n=b, f=1, o=1, opb=opb)))
            out.append(("bphp", dict(m=a, n=b, opb=opb)))
            out.append(("count", dict(M=a, p=b, opb=opb)))
        for a, b in [(0, 1), (1, 0), (0, 0), (0, 5), (4, 0)]:
            out.append(("bphp", dict(m=a, n=b, opb=opb)))
        for a, b in [(0, 0), (5, 0), (0, -1), (3, -2)]:
            out.append(("count", dict(M=a, p=b, opb=opb)))
        for t in [(-1, 1, 1), (1, -1, 1), (1, 1, -1), (-2, -2, -2), (0, 0, -1)]:
            out.append(("rphp", dict(m=t[0], r=t[1], n=t[2], opb=opb)))
            out.append(("cliquecol", dict(n=t[0], k=t[1], c=t[2], opb=opb)))
    return out


def corpus_infos():
    """fixed regression inputs, always first"""
    return [
        ("php", dict(m=4, n=3, f=0, o=0, opb=False)),              # the doctest
        ("php", dict(m=5, n=4, f=0, o=0, opb=True)),               # the OPB doctest
        ("php", dict(m=3, n=3, f=1, o=1, opb=False)),
        ("gphp", dict(l=3, r=2, edges=[(3, 1), (1, 2), (1, 1)], f=0, o=0, opb=False, shape="corpus")),
        ("gphp", dict(l=2, r=0, edges=[], f=1, o=1, opb=False, shape="corpus")),
        ("bphp", dict(m=0, n=1, opb=False)),                       # D42 (fixed): documented legal, used to raise
        ("bphp", dict(m=1, n=0, opb=False)), ("bphp", dict(m=3, n=0, opb=True)), ("bphp", dict(m=0, n=0, opb=True)),
        ("bphp", dict(m=3, n=1, opb=False)),                       # zero bits
        ("bphp", dict(m=3, n=5, opb=False)),
        ("rphp", dict(m=2, r=0, n=2, opb=False)),                  # no resting place: block `r` never created
        ("rphp", dict(m=2, r=2, n=1, opb=False)),                  # m <= t but t > n: unsatisfiable only because m > n
        ("rphp", dict(m=1, r=3, n=1, opb=False)),                  # satisfiable although t > n
        ("count", dict(M=6, p=3, opb=False)),
        ("count", dict(M=2, p=3, opb=False)),                      # no p-subsets: empty constraints
        ("pmatch", dict(n=4, edges=[(3, 1), (2, 4), (2, 1)], opb=False, shape="corpus")),
        ("subsetcard", dict(l=3, r=2, edges=[(3, 1), (1, 2), (1, 1)], eq=0, opb=True, shape="corpus")),
        ("subsetcard", dict(l=3, r=2, edges=[(3, 1), (1, 2), (1, 1)], eq=1, opb=False, shape="corpus")),
        ("cliquecol", dict(n=3, k=2, c=2, opb=False)),
        ("cliquecol", dict(n=3, k=3, c=2, opb=False)),
        ("cliquecol", dict(n=2, k=0, c=0, opb=False)),             # k = 0 but vertices need a colour
    ]


def cases(ctx):
    tier, seed = ctx["tier"], ctx["seed"]
    rng = common.sub_rng(seed, "C01")
    todo = list(corpus_infos())
    todo += illegal_infos()
    for suite in SUITES:
        todo += [(suite, i) for i in small_infos(suite, rng, tier)]
    todo += random_infos(rng, tier)
    seen = set()
    for suite, info in todo:
        info = dict(info)
        info["_seed"] = seed
        c = build(suite, info)
        if c.req in seen:
            continue
        seen.add(c.req)
        yield c


_SEARCHED = {}


def search(ctx, case):
    """the correspondence broke on `case`: look for an input on which the PROPERTY fails,
    first on the case itself, then in the exhaustive small box of the same family
    (the box is searched once per family and run)"""
    r = common.run_oracle(case)
    if r is not None:
        return {"suite": case.suite, "info": case.info, "failure": r}
    key = (case.suite, ctx["seed"])
    if key in _SEARCHED:
        return _SEARCHED[key]
    _SEARCHED[key] = None
    rng = common.sub_rng(ctx["seed"], "C01-search")
    for info in small_infos(case.suite, rng, "thorough"):
        c = build(case.suite, info)
        r = common.run_oracle(c)
        if r is not None:
            _SEARCHED[key] = {"suite": case.suite, "info": info, "req": c.req, "failure": r}
            return _SEARCHED[key]
    return None


def search_global(ctx):
    rng = common.sub_rng(ctx["seed"], "C01-search")
    for suite in SUITES:
        for info in small_infos(suite, rng, "quick"):
            c = build(suite, info)
            r = common.run_oracle(c)
            if r is not None:
                return {"suite": suite, "info": info, "req": c.req, "failure": r}
    return None
