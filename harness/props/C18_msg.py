"""C18 (error report) — the text of a reported command-line error: `CLIParser.error` + `error_msg` against the model
(`cliErrorLines`, `errorMsgLines`).  Oracle: every printed line starts with the active comment marker."""
import contextlib
import io

from harness import common
from harness.common import Case, req, enc_str, ok

from cnfgen.clitools.cmdline import CLIParser, CLIError
import cnfgen.clitools.msg as msgmod


def enc_strs(xs):
    out = [len(xs)]
    for x in xs:
        out += enc_str(x)
    return out


def build(suite, info):
    if suite != "errlines":
        raise ValueError("unknown suite " + suite)
    pre, prog, usage, message = info["pre"], info["prog"], info["usage"], info["message"]
    state = {}

    def impl():
        p = CLIParser(prog=prog, usage=("\n".join(usage) if usage is not None else None))
        try:
            p.error("\n".join(message))
        except CLIError as e:
            text = str(e)
        err = io.StringIO()
        old = msgmod._prefix
        msgmod._prefix = pre
        try:
            with contextlib.redirect_stderr(err):
                msgmod.error_msg(text)
        finally:
            msgmod._prefix = old
        lines = err.getvalue().split("\n")
        if lines and lines[-1] == "":
            lines.pop()
        state["lines"] = lines
        return ok(str(len(lines)) + "".join(" | " + " ".join(str(ord(c)) for c in l) for l in lines))

    def oracle():
        for l in state.get("lines", []):
            if not l.startswith(pre):
                return {"line_without_marker": l, "marker": pre}
        return None
    r = req("errlines", enc_str(pre), enc_str(prog), usage is not None, enc_strs(usage or []), enc_strs(message))
    return Case(suite, r, impl, oracle, cls=pre.strip() or "none", info=info)


def cases(ctx):
    rng = common.sub_rng(ctx["seed"], "C18m")
    out = []
    words = ["argument k: 0 was supposed to be a positive integer", "too many arguments for php formula", "x", "",
             "No regular 3-degree graph with 5-vertices exists.", "It requires  degree < #vertices", "   indented", "a  b"]
    for _ in range(60 if ctx["tier"] == "quick" else 800):
        message = [rng.choice(words) for _ in range(rng.randint(1, 3))]
        if message and message[-1] == "":
            message[-1] = "x"     # str.splitlines drops nothing here, but "\n".join(["a", ""]) ends in a newline
        usage = None if rng.random() < .3 else ["usage:", " cnfgen php N"][:rng.randint(1, 2)]
        out.append(build("errlines", dict(pre=rng.choice(["c ", "* ", "% ", ""]), prog=rng.choice(["cnfgen", "cnfgen php", "pbgen"]),
                                          usage=usage, message=message)))
    return out
