"""C02 (second half) — graph isomorphism / automorphism, (induced) subgraph, k-clique (unary, binary),
Ramsey witness.

Correspondence: the formula built by the real family (CNF class and OPB class) equals the rendering
of the Lean model's constraint list, exactly (variable count, order, literals).

Oracle (independent of the model): for formulas with few variables the truth table of the REAL
formula (computed bit-parallel on Python integers, clauses and pseudo-Boolean constraints alike) is
compared with the documented statement evaluated by brute force on the graphs: satisfiable iff the
graphs are isomorphic / a nontrivial automorphism exists / an (induced) embedding exists / a
k-clique exists / a k-clique or an s-independent set exists; number of satisfying assignments =
number of isomorphisms / embeddings / k-cliques (increasing with symmetry breaking, ordered without);
documented number of variables; every literal within 1..nvars.
"""
import itertools

from harness import common
from harness.common import Case, req, ok, fmt_formula, enc_pairs

from cnfgen.graphs import Graph
from cnfgen.formula.cnf import CNF
from cnfgen.formula.opb import OPB
from cnfgen.formula.baseopb import BaseOPB
from cnfgen.families.graphisomorphism import GraphIsomorphism, GraphAutomorphism
from cnfgen.families.subgraph import (SubgraphFormula, CliqueFormula, BinaryCliqueFormula,
                                       RamseyWitnessFormula)

SUITES = ("g2_iso", "g2_auto", "g2_subgraph", "g2_clique", "g2_binclique", "g2_ramseywit")
MAXVARS = 18

RULE = ("per family (isomorphism, automorphism, subgraph/induced x symmetry breaking, clique and binary clique x "
        "symmetry breaking, Ramsey witness x symmetry breaking) x formula class CNF/OPB: graphs from a shape generator "
        "(0 vertices, isolated vertices, disconnected, complete, paths, stars, cycles, G(n,p), sizes up to 11; every "
        "labelled graph on <= 4 vertices in the thorough tier), k and s from -1 to n+1; isomorphism on pairs (equal and "
        "unequal orders, relabelled copies, one-edge perturbations); distinct = distinct request line; "
        "non-trivial = the formula has at least one variable; truth-table oracle when the real formula has <= 18 variables")
ASSUMPTIONS = [
    "graphs are cnfgen.graphs.Graph objects built by add_edge (hypothesis GoodGraph in the theorems: has_edge symmetric "
    "and irreflexive; to be discharged from C16)",
    "BinaryMappingVariables computes ceil(log(N,2)) in floating point; the model computes it exactly; they agree for "
    "N < 2^29 (not reachable: the formula would have > 2^57 clauses)",
]
NOTES = ["Ramsey witness: the documented statement (k-clique or s-independent set) is demanded for ALL k, s; the old "
         "behaviour (argument s overwritten by the mapping group: 'k-clique or k-independent set', D25, fixed) is a "
         "VIOLATION; the corpus keeps its two witnesses; classes '<cls>:<sym>:k<s|k=s|k>s'",
         "GraphIsomorphism(..., nontrivial=True): cases carry the class 'iso:nontrivial-flag'; documented witnesses = "
         "isomorphisms other than the identical mapping (D36, fixed in /repo 9050d5b: the flag used to be ignored)"]


# ---------------------------------------------------------------- graphs
def mk_graph(g):
    return common.graph_by_some_history(g["n"], g["e"])


def enc_g(g):
    return [g["n"]] + enc_pairs(g["e"])


def adjset(g):
    s = set()
    for u, v in g["e"]:
        s.add((u, v))
        s.add((v, u))
    return s


def gr(n, edges):
    return {"n": n, "e": [list(e) for e in edges]}


def all_pairs(n):
    return [(u, v) for u in range(1, n + 1) for v in range(u + 1, n + 1)]


def all_graphs(n):
    ps = all_pairs(n)
    for mask in range(1 << len(ps)):
        yield gr(n, [p for i, p in enumerate(ps) if (mask >> i) & 1])


def shape(rng, n, kind):
    if kind == "empty":
        return gr(n, [])
    if kind == "complete":
        return gr(n, all_pairs(n))
    if kind == "path":
        return gr(n, [(i, i + 1) for i in range(1, n)])
    if kind == "cycle":
        return gr(n, [(i, i + 1) for i in range(1, n)] + ([(1, n)] if n >= 3 else []))
    if kind == "star":
        c = rng.randint(1, n) if n else 0
        return gr(n, [(min(c, v), max(c, v)) for v in range(1, n + 1) if v != c])
    if kind == "disconnected":   # two cliques + an isolated vertex when possible
        a = n // 2
        es = [(u, v) for u, v in all_pairs(n) if (u <= a) == (v <= a) and v < n]
        return gr(n, es)
    if kind == "gnp":
        p = rng.choice([.2, .5, .8])
        es = [e for e in all_pairs(n) if rng.random() < p]
        rng.shuffle(es)
        # random orientation and order of insertion: the graph object must not depend on it
        return gr(n, [(v, u) if rng.random() < .5 else (u, v) for u, v in es])
    raise ValueError(kind)


KINDS = ["empty", "complete", "path", "cycle", "star", "disconnected", "gnp", "gnp"]


def relabel(rng, g):
    perm = list(range(1, g["n"] + 1))
    rng.shuffle(perm)
    return gr(g["n"], [(perm[u - 1], perm[v - 1]) for u, v in g["e"]])


def perturb(rng, g):
    n = g["n"]
    if n < 2:
        return g
    u, v = rng.sample(range(1, n + 1), 2)
    a = adjset(g)
    es = [e for e in g["e"] if set(e) != {u, v}]
    if (u, v) not in a:
        es.append([u, v])
    return gr(n, es)


# ---------------------------------------------------------------- bit-parallel truth tables
def columns(n):
    """column[v] = integer whose bit a is the value of variable v in assignment number a (bit v-1 of a)"""
    total = 1 << n
    full = (1 << total) - 1
    cols = [None]
    for v in range(n):
        period = 1 << v
        x = ((1 << period) - 1) << period          # 0…0 1…1 pattern of width 2*period
        w = 2 * period
        while w < total:
            x |= x << w
            w *= 2
        cols.append(x)
    return cols, full


_COLS = {}


def cols_for(n):
    if n not in _COLS:
        _COLS[n] = columns(n)
    return _COLS[n]


def lit_col(cols, full, l):
    return cols[l] if l > 0 else full ^ cols[-l]


def table_clause(cols, full, c):
    x = 0
    for l in c:
        x |= lit_col(cols, full, l)
    return x


def table_pbc(cols, full, c):
    """assignments satisfying the pseudo-Boolean constraint [(coef, lit)…, op, rhs]"""
    c = list(c)
    op, rhs = c[-2], c[-1]
    planes = []

    def add(x, p):
        while x:
            while len(planes) <= p:
                planes.append(0)
            planes[p], x = planes[p] ^ x, planes[p] & x
            p += 1
    for coef, lit in c[:-2]:
        if coef < 0:                      # coef*l = coef + |coef|*(not l)
            rhs -= coef
            coef, lit = -coef, -lit
        x = lit_col(cols, full, lit)
        b = 0
        while coef:
            if coef & 1:
                add(x, b)
            coef >>= 1
            b += 1

    def ge(r):                            # sum >= r
        if r <= 0:
            return full
        if r >= (1 << len(planes)):
            return 0
        gt, eq = 0, full
        for b in range(len(planes) - 1, -1, -1):
            if (r >> b) & 1:
                eq &= planes[b]
            else:
                gt |= eq & planes[b]
                eq &= full ^ planes[b]
        return gt | eq
    if op == ">=":
        return ge(rhs)
    if op == ">":
        return ge(rhs + 1)
    if op == "<=":
        return full ^ ge(rhs + 1)
    if op == "<":
        return full ^ ge(rhs)
    if op == "==":
        return ge(rhs) & (full ^ ge(rhs + 1))
    if op == "!=":
        return full ^ (ge(rhs) & (full ^ ge(rhs + 1)))
    raise ValueError(op)


def truth_table(F):
    n = F.number_of_variables()
    cols, full = cols_for(n)
    t = full
    if isinstance(F, BaseOPB):
        for c in F:
            t &= table_pbc(cols, full, c)
    else:
        for c in F.clauses():
            t &= table_clause(cols, full, c)
    return t


def all_literals(F):
    if isinstance(F, BaseOPB):
        for c in F:
            for _, l in list(c)[:-2]:
                yield l
    else:
        for c in F.clauses():
            yield from c


def assignment_of(index, n):
    return [v for v in range(1, n + 1) if (index >> (v - 1)) & 1]


def lowest_bit(x):
    return (x & -x).bit_length() - 1


# ---------------------------------------------------------------- documented objects, by brute force
def isomorphisms(g1, g2):
    n1, n2 = g1["n"], g2["n"]
    if n1 != n2:
        return []
    a1, a2 = adjset(g1), adjset(g2)
    out = []
    for p in itertools.permutations(range(1, n2 + 1)):
        if all(((u, v) in a1) == ((p[u - 1], p[v - 1]) in a2) for u, v in all_pairs(n1)):
            out.append(p)
    return out


def embeddings(g, h, induced, increasing):
    """injective maps V(H) -> V(G) sending edges to edges (and non-edges to non-edges if induced)"""
    N, k = g["n"], h["n"]
    ag, ah = adjset(g), adjset(h)
    gen = itertools.combinations(range(1, N + 1), k) if increasing else itertools.permutations(range(1, N + 1), k)
    out = []
    for p in gen:
        good = True
        for u, v in all_pairs(k):
            ge, he = (p[u - 1], p[v - 1]) in ag, (u, v) in ah
            if (he and not ge) or (induced and ge and not he):
                good = False
                break
        if good:
            out.append(p)
    return out


def cliques(g, k, complement=False):
    a = adjset(g)
    return [s for s in itertools.combinations(range(1, g["n"] + 1), k)
            if all(((u, v) in a) != complement for u, v in itertools.combinations(s, 2))]


def unary_index(st, N, images):
    """assignment number of the unary encoding of i -> images[i-1] (first identifier st)"""
    x = 0
    for i, j in enumerate(images):
        x |= 1 << (st + i * N + (j - 1) - 1)
    return x


def binary_index(bits, images):
    x = 0
    for i, j in enumerate(images, start=1):
        code = j - 1
        for b in range(bits):
            if (code >> b) & 1:
                x |= 1 << (i * bits - b - 1)
    return x


def clog2(m):
    b = 0
    while (1 << b) < m:
        b += 1
    return b


def compare(F, table, expected_indices, what):
    """satisfying assignments of the real formula vs. the encodings of the documented witnesses.
    Reports only a wrong satisfiability or a wrong count; the set difference supplies the failing assignment."""
    n = F.number_of_variables()
    count = bin(table).count("1")
    want = len(expected_indices)
    if (count > 0) == (want > 0) and count == want:
        return None
    exp = 0
    for i in expected_indices:
        exp |= 1 << i
    res = {"what": what, "satisfying_assignments": count, "documented_witnesses": want}
    extra, missing = table & ~exp, exp & ~table
    if extra:
        res["accepted_but_not_a_witness(true vars)"] = assignment_of(lowest_bit(extra), n)
    if missing:
        res["witness_rejected(true vars)"] = assignment_of(lowest_bit(missing), n)
    return res


def basic_checks(F, nvars_doc):
    n = F.number_of_variables()
    if n != nvars_doc:
        return {"number_of_variables": n, "documented": nvars_doc}
    for l in all_literals(F):
        if not isinstance(l, int) or l == 0 or abs(l) > n:
            return {"literal_out_of_range": l, "number_of_variables": n}
    return None


# ---------------------------------------------------------------- cases
def build(suite, info):
    if suite not in SUITES:
        raise ValueError("unknown suite " + suite)
    opb = bool(info.get("opb", False))
    fc = OPB if opb else CNF
    cls_tag = "opb" if opb else "cnf"
    state = {}

    def run(fn):
        def impl():
            F = fn()
            state["F"] = F
            return ok(fmt_formula(F))
        return impl

    def with_formula(check):
        def oracle():
            F = state.get("F")
            if F is None:
                return check(None)
            return check(F)
        return oracle

    if suite == "g2_iso":
        g1, g2 = info["g1"], info["g2"]
        nontrivial = bool(info.get("nontrivial", False))
        impl = run(lambda: GraphIsomorphism(mk_graph(g1), mk_graph(g2), nontrivial=nontrivial, formula_class=fc))

        def check(F):
            if F is None:
                return {"family_raised_on_legal_input": True}
            r = basic_checks(F, g1["n"] * g2["n"])
            if r or F.number_of_variables() > MAXVARS:
                return r
            isos = isomorphisms(g1, g2)
            if nontrivial:      # documented: "nontrivial: bool -- forbid identical mapping"
                isos = [p for p in isos if p != tuple(range(1, g1["n"] + 1))]
            exp = [unary_index(1, g2["n"], p) for p in isos]
            return compare(F, truth_table(F), exp,
                           "isomorphisms G1 -> G2" + (" other than the identical mapping" if nontrivial else ""))
        r = req("g2_iso", int(opb), nontrivial, enc_g(g1), enc_g(g2))
        cls = "iso:nontrivial-flag" if nontrivial else \
            "{}:{}".format(cls_tag, "same-order" if g1["n"] == g2["n"] else "different-order")
        return Case(suite, r, impl, with_formula(check), cls=cls, nontrivial=g1["n"] * g2["n"] > 0, info=info)

    if suite == "g2_auto":
        g = info["g"]
        impl = run(lambda: GraphAutomorphism(mk_graph(g), formula_class=fc))

        def check(F):
            if F is None:
                return {"family_raised_on_legal_input": True}
            r = basic_checks(F, g["n"] ** 2)
            if r or F.number_of_variables() > MAXVARS:
                return r
            ident = tuple(range(1, g["n"] + 1))
            autos = [p for p in isomorphisms(g, g) if p != ident]
            exp = [unary_index(1, g["n"], p) for p in autos]
            return compare(F, truth_table(F), exp, "non-identical automorphisms")
        r = req("g2_auto", int(opb), enc_g(g))
        return Case(suite, r, impl, with_formula(check), cls=cls_tag, nontrivial=g["n"] > 0, info=info)

    if suite == "g2_subgraph":
        g, h = info["g"], info["h"]
        induced, symbreak = bool(info["induced"]), bool(info["symbreak"])
        impl = run(lambda: SubgraphFormula(mk_graph(g), mk_graph(h), induced=induced, symbreak=symbreak,
                                           formula_class=fc))

        def check(F):
            if F is None:
                return {"family_raised_on_legal_input": True}
            r = basic_checks(F, g["n"] * h["n"])
            if r or F.number_of_variables() > MAXVARS:
                return r
            embs = embeddings(g, h, induced, symbreak)
            exp = [unary_index(1, g["n"], p) for p in embs]
            return compare(F, truth_table(F), exp,
                           "{}{}embeddings H -> G".format("increasing " if symbreak else "", "induced " if induced else ""))
        r = req("g2_subgraph", int(opb), induced, symbreak, enc_g(g), enc_g(h))
        return Case(suite, r, impl, with_formula(check),
                    cls="{}:{}:{}".format(cls_tag, "induced" if induced else "plain", "symbreak" if symbreak else "nosym"),
                    nontrivial=g["n"] * h["n"] > 0, info=info)

    if suite in ("g2_clique", "g2_binclique"):
        g, k, symbreak = info["g"], info["k"], bool(info["symbreak"])
        binary = suite == "g2_binclique"
        fam = BinaryCliqueFormula if binary else CliqueFormula
        impl = run(lambda: fam(mk_graph(g), k, symbreak=symbreak, formula_class=fc))
        N = g["n"]
        rejected = k < 0                                     # binary: k = 0 / null graph accepted since the fix of D42

        def check(F):
            if F is None:
                # documented: k is a non negative integer.  The binary encoding additionally refuses
                # k = 0 and the graph without vertices (ValueError, a clean refusal — not a wrong formula).
                return None if rejected else {"family_raised_on_legal_input": True}
            bits = clog2(N) if binary else None
            r = basic_checks(F, k * bits if binary else k * N)
            if r or F.number_of_variables() > MAXVARS:
                return r
            cl = cliques(g, k)
            table = truth_table(F)
            if (len(cl) > 0) != (table != 0):
                return {"what": "satisfiable iff a k-clique exists", "k_cliques": len(cl),
                        "satisfying_assignments": bin(table).count("1")}
            tuples = cl if symbreak else [p for s in cl for p in itertools.permutations(s)]
            exp = [binary_index(bits, p) if binary else unary_index(1, N, p) for p in tuples]
            return compare(F, table, exp, "k-cliques" if symbreak else "ordered k-cliques")
        r = req(suite, int(opb), k, symbreak, enc_g(g))
        return Case(suite, r, impl, with_formula(check),
                    cls="{}:{}:{}".format(cls_tag, "symbreak" if symbreak else "nosym",
                                          "rejected" if rejected else ("k>n" if k > N else "k<=n")),
                    nontrivial=(not rejected) and k * N > 0, info=info)

    if suite == "g2_ramseywit":
        g, k, s, symbreak = info["g"], info["k"], info["s"], bool(info["symbreak"])
        impl = run(lambda: RamseyWitnessFormula(mk_graph(g), k, s, symbreak=symbreak, formula_class=fc))
        N = g["n"]
        rejected = k < 0 or s < 0

        def check(F):
            if F is None:
                return None if rejected else {"family_raised_on_legal_input": True}
            # the number of variables of this family is not documented (the exact value 1 + max(k, s)·N is
            # compared by the correspondence); the oracle demands literals in range and the documented statement
            r = basic_checks(F, F.number_of_variables())
            if r or F.number_of_variables() > MAXVARS:
                return r
            table = truth_table(F)
            has_clique = len(cliques(g, k)) > 0
            has_indep = len(cliques(g, s, complement=True)) > 0
            if (table != 0) != (has_clique or has_indep):
                res = {"what": "satisfiable iff G has a k-clique or an s-independent set", "k": k, "s": s,
                       "k_clique_exists": has_clique, "s_independent_set_exists": has_indep,
                       "formula_satisfiable": table != 0}
                if table:
                    res["satisfying_assignment(true vars)"] = assignment_of(lowest_bit(table), F.number_of_variables())
                return res
            return None
        r = req("g2_ramseywit", int(opb), k, s, symbreak, enc_g(g))
        cls = "{}:{}:{}".format(cls_tag, "symbreak" if symbreak else "nosym",
                                "rejected" if rejected else ("k=s" if k == s else ("k<s" if k < s else "k>s")))
        return Case(suite, r, impl, with_formula(check), cls=cls, nontrivial=(not rejected) and N > 0, info=info)
    raise ValueError("unknown suite " + suite)


def graph_pool(ctx, rng):
    """(small graphs for the oracle, larger graphs for the correspondence only)"""
    small, big = [], []
    if ctx["tier"] == "thorough":
        for n in range(0, 5):
            small += list(all_graphs(n))
        five = list(all_graphs(5))
        small += rng.sample(five, 120)
    else:
        for n in range(0, 4):
            small += list(all_graphs(n))
        for kind in KINDS:
            small.append(shape(rng, 4, kind))
        small.append(shape(rng, 5, "path"))
        small.append(shape(rng, 5, "gnp"))
    sizes = [5, 6, 7, 10, 11] if ctx["tier"] == "quick" else [5, 6, 7, 8, 9, 10, 11, 12]
    for n in sizes:
        kinds = KINDS if ctx["tier"] == "thorough" else rng.sample(KINDS, 3)
        for kind in kinds:
            big.append(shape(rng, n, kind))
    return small, big


def cases(ctx):
    tier, seed = ctx["tier"], ctx["seed"]
    rng = common.sub_rng(seed, "C02_graphs2")
    infos = []
    P2 = gr(2, [])
    # --- corpus (always first): D25 replays (regression: the defect is fixed), boundary graphs
    for opb in (False, True):
        for sb in (True, False):
            infos.append(("g2_ramseywit", dict(g=P2, k=2, s=3, symbreak=sb, opb=opb)))        # was sat, documented unsat
            infos.append(("g2_ramseywit", dict(g=gr(1, []), k=2, s=1, symbreak=sb, opb=opb)))  # was unsat, documented sat
            infos.append(("g2_ramseywit", dict(g=gr(0, []), k=1, s=0, symbreak=sb, opb=opb)))
            infos.append(("g2_ramseywit", dict(g=gr(4, [(1, 2), (2, 3), (3, 4)]), k=2, s=3, symbreak=sb, opb=opb)))
        infos.append(("g2_iso", dict(g1=gr(1, []), g2=gr(1, []), nontrivial=True, opb=opb)))   # D36 regression (fixed)
        infos.append(("g2_iso", dict(g1=gr(3, [(1, 2)]), g2=gr(3, [(2, 1)]), nontrivial=True, opb=opb)))
        infos.append(("g2_iso", dict(g1=gr(0, []), g2=gr(0, []), nontrivial=True, opb=opb)))
        infos.append(("g2_iso", dict(g1=gr(3, [(1, 2)]), g2=gr(2, [(2, 1)]), nontrivial=True, opb=opb)))
        infos.append(("g2_iso", dict(g1=gr(2, []), g2=gr(4, [(3, 4)]), nontrivial=True, opb=opb)))
        infos.append(("g2_iso", dict(g1=gr(2, []), g2=gr(0, []), nontrivial=True, opb=opb)))
        infos.append(("g2_iso", dict(g1=gr(0, []), g2=gr(0, []), opb=opb)))
        infos.append(("g2_iso", dict(g1=gr(0, []), g2=gr(2, [(1, 2)]), opb=opb)))
        infos.append(("g2_iso", dict(g1=gr(3, [(1, 2)]), g2=gr(0, []), opb=opb)))
        infos.append(("g2_auto", dict(g=gr(0, []), opb=opb)))
        infos.append(("g2_auto", dict(g=gr(1, []), opb=opb)))
        for k in (-1, 0, 1, 2):
            for g in (gr(0, []), gr(1, []), gr(2, [(2, 1)])):
                for sb in (True, False):
                    infos.append(("g2_clique", dict(g=g, k=k, symbreak=sb, opb=opb)))
                    infos.append(("g2_binclique", dict(g=g, k=k, symbreak=sb, opb=opb)))
        infos.append(("g2_ramseywit", dict(g=P2, k=-1, s=2, symbreak=True, opb=opb)))
        infos.append(("g2_ramseywit", dict(g=P2, k=2, s=-1, symbreak=True, opb=opb)))

    small, big = graph_pool(ctx, rng)
    thorough = tier == "thorough"

    def pick(l, m):
        return l if len(l) <= m else rng.sample(l, m)

    # --- isomorphism / automorphism
    iso_small = [g for g in small if g["n"] <= 4]
    pairs = []
    if thorough:
        for g1 in iso_small:
            for g2 in iso_small:
                if g1["n"] == g2["n"] or (g1["n"] * g2["n"] <= 12 and rng.random() < .15):
                    pairs.append((g1, g2))
    else:
        for g1 in pick(iso_small, 60):
            pairs.append((g1, relabel(rng, g1)))
            pairs.append((g1, perturb(rng, relabel(rng, g1))))
            pairs.append((g1, rng.choice(iso_small)))
    for g in big:
        pairs.append((g, relabel(rng, g)))
        pairs.append((g, perturb(rng, relabel(rng, g))))
        pairs.append((g, rng.choice(big)))
    for i, (g1, g2) in enumerate(pairs):
        for opb in ((False, True) if (thorough or i % 3 == 0) else (rng.random() < .5,)):
            infos.append(("g2_iso", dict(g1=g1, g2=g2, opb=opb)))
        if i % 4 == 0:
            infos.append(("g2_iso", dict(g1=g1, g2=g2, nontrivial=True, opb=rng.random() < .5)))
    for g in (small if thorough else pick(small, 40)) + big:
        for opb in (False, True):
            infos.append(("g2_auto", dict(g=g, opb=opb)))

    # --- subgraph
    hs = [g for g in small if g["n"] <= 3] + [gr(4, all_pairs(4)), gr(4, [(1, 2), (2, 3), (3, 4)])]
    combos = []
    for g in (small if thorough else pick(small, 45)):
        for h in (pick(hs, 8) if thorough else pick(hs, 3)):
            combos.append((g, h))
    for g in big:
        combos.append((g, rng.choice(hs)))
        combos.append((g, shape(rng, rng.randint(2, 5), rng.choice(KINDS))))
    for g, h in combos:
        flags = list(itertools.product((False, True), repeat=3)) if thorough else \
            [tuple(rng.random() < .5 for _ in range(3)) for _ in range(2)]
        for induced, sb, opb in flags:
            infos.append(("g2_subgraph", dict(g=g, h=h, induced=induced, symbreak=sb, opb=opb)))

    # --- cliques and Ramsey witness: k, s from 0 to n+1
    for g in (small if thorough else pick(small, 36)) + big:
        n = g["n"]
        ks = list(range(0, n + 2)) if n <= 5 else sorted(set([0, 1, 2, 3, rng.randint(4, n), n, n + 1]))
        for k in ks:
            for sb in (True, False):
                opbs = (False, True) if (thorough or n <= 3) else (rng.random() < .5,)
                for opb in opbs:
                    infos.append(("g2_clique", dict(g=g, k=k, symbreak=sb, opb=opb)))
                    infos.append(("g2_binclique", dict(g=g, k=k, symbreak=sb, opb=opb)))
        if n > 7:
            ks = ks[:4]
        for k in ks:
            ss = list(range(0, n + 2)) if (thorough and n <= 4) else sorted(set([k, rng.randint(0, n + 1), rng.randint(0, n + 1)]))
            for s in ss:
                sb = rng.random() < .5
                for opb in ((False, True) if thorough and n <= 3 else (rng.random() < .5,)):
                    infos.append(("g2_ramseywit", dict(g=g, k=k, s=s, symbreak=sb, opb=opb)))
                    if k == s:
                        infos.append(("g2_ramseywit", dict(g=g, k=k, s=s, symbreak=not sb, opb=opb)))
    seen = set()
    for suite, info in infos:
        c = build(suite, info)
        if c.req in seen:
            continue
        seen.add(c.req)
        yield c


_SEARCH_CACHE = {}


def search(ctx, case):
    """the model and the code disagree on `case`: look for an input where the REAL formula violates the
    documented statement — the case itself first, then every graph (pair) on <= 3 (4) vertices with the same flags"""
    common.run_impl(case)
    r = common.run_oracle(case)
    if r is not None:
        return {"suite": case.suite, "info": case.info, "failure": r}
    key = (case.suite,) + tuple(sorted((k, v) for k, v in case.info.items() if k in ("opb", "symbreak", "induced")))
    if key not in _SEARCH_CACHE:
        _SEARCH_CACHE[key] = _search_neighbourhood(case)
    return _SEARCH_CACHE[key]


def _search_neighbourhood(case):
    base = dict(case.info)
    smalls = [g for n in range(0, 4) for g in all_graphs(n)]
    trials = []
    if case.suite == "g2_iso":
        trials = [dict(base, g1=a, g2=b) for a in smalls for b in smalls if a["n"] == b["n"] or a["n"] * b["n"] <= 6]
    elif case.suite == "g2_auto":
        trials = [dict(base, g=a) for a in smalls + list(all_graphs(4))]
    elif case.suite == "g2_subgraph":
        trials = [dict(base, g=a, h=b) for a in smalls + list(all_graphs(4)) for b in smalls if a["n"] * b["n"] <= 12]
    elif case.suite in ("g2_clique", "g2_binclique"):
        trials = [dict(base, g=a, k=k) for a in smalls + list(all_graphs(4)) for k in range(0, a["n"] + 2)]
    elif case.suite == "g2_ramseywit":
        trials = [dict(base, g=a, k=k, s=s) for a in smalls for k in range(0, a["n"] + 2) for s in range(0, a["n"] + 2)] + \
                 [dict(base, g=a, k=k, s=k) for a in all_graphs(4) for k in range(0, 6)]
    for info in trials:
        c = build(case.suite, info)
        common.run_impl(c)
        r = common.run_oracle(c)
        if r is not None:
            return {"suite": case.suite, "info": info, "failure": r}
    return None
