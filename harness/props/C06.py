"""C06 — DIMACS output round-trips and the DIMACS reader never misreads.

Suites
  lex : the lexer contract (Python `readlines` / `split` / `int`)  vs  the model's lexer
  w   : `to_file(..., 'dimacs')` / `to_dimacs()` text of a formula   vs  the model's text, byte for byte
        (+ the driver's own check that lexing its text gives the token rows the theorems speak about)
  r   : `CNF.from_file(text)` outcome (formula or exception kind)    vs  `parseDimacs (lex text)`
  rc  : non-ASCII digit texts — only the contract "formula or ValueError" is observed (no model)
  wl  : a formula over 10^4300 variables (4301 digits, first number outside `Printable` of Props/C06/Text.lean) —
        only the contract is observed: the real writer raises ValueError (CPython's int->str digit limit) and what it
        wrote before is not accepted as a formula; the model's theorem `dimacs_text_limit` says the reader rejects

Oracles (independent of the model)
  w : an independent small DIMACS reader applied to the real writer's text gives back the in-memory
      formula; the real reader gives it back too; the `p` line states (n, m); every other line is a
      comment or a clause line.
  r : the real reader returns a formula iff-consistent with an independent reading of the text
      (problem line, range, count, clauses in order) or raises ValueError — nothing else.
"""
import io
import json
import os
from collections import OrderedDict

from harness import common, iolib, histlib
from harness.common import Case, req, ok, enc_str, fmt_clauses
from harness.iolib import (enc_opt, enc_header, enc_names, enc_cnf, fmt_text, fmt_rows, py_lex,
                           indep_dimacs, dimacs_shape, write_raw, read_raw, tmpname)

from cnfgen.formula.cnf import CNF

RULE = ("lex: ASCII texts over digits/signs/underscores/letters and every Python whitespace character; "
        "w: hand-built degenerate formulas (empty, empty clauses, unused variables, repeated literals), random formulas, "
        "formulas built by real cnfgen command lines incl. transformations, each with/without header and varnames, "
        "header values and labels with unusual characters, through StringIO and through a real file; formula objects with a "
        "history (harness/histlib.py) rendered after EVERY growth step (variables without clauses, clauses without variables, groups, "
        "raised counts, batches, header edits), the same rendering / label lists / transformations / a solver run having happened before; "
        "r: valid texts in random layouts and their mutations (token deletion/duplication, sign flips, counts off by one, "
        "second p line, p after clauses, blank/comment lines inside clauses, +1, 1_0, tabs, CRLF, truncation, garbage tokens); "
        "distinct = distinct request line; non-trivial = at least one clause / one non-blank line")
ASSUMPTIONS = ["the reader theorems speak about token rows; the step text -> token rows (lexer) is proven only on the writer's own output "
               "(Props/C06/Text.lean: dimacs_text_roundtrip, numbers up to 4300 digits); on every other text it is compared with Python on every case, not proven",
               "non-ASCII decimal digits accepted by Python's int() are outside the lexer model (suite rc observes the contract only)"]
NOTES = ["D14 (fixed 81c9102): a header value or a variable label containing a line break yielded a non-comment line; the corpus (cls linebreak) keeps exercising it"]


def has_break(strings, u):
    return any(("\n" in s) or (u and "\r" in s) for s in strings)


# ------------------------------------------------------------------ building the real object
def make_formula(info):
    if info["src"] == "hist":
        # ONE formula object with a history: grown step by step and looked at on the way (harness/histlib.py)
        return histlib.play(info["steps"])
    if info["src"] == "cli":
        F = iolib.cli_formula("cnfgen", info["argv"], info.get("seed", 0))
        if F is None:
            return None
        for k, v in info.get("hdr_extra", []):
            F.header[k] = v
        return F
    F = CNF()
    for lab in info.get("labels", []):
        F.new_variable(label=lab)
    F.update_variable_number(info["n"])
    for c in info["clauses"]:
        F.add_clause(c)
    if info.get("hdr") is not None:
        F.header = OrderedDict((k, v) for k, v in info["hdr"])
    return F


def build_w(info):
    F = make_formula(info)
    if F is None:
        return None
    u = bool(info.get("u", False))
    eh = bool(info.get("export_header", True))
    ev = bool(info.get("export_varnames", False))
    # the CURRENT content: of the object itself, or (history) of a twin built by the same growth steps and never looked at
    R = histlib.twin(info["steps"]) if info["src"] == "hist" else F
    n = R.number_of_variables()
    clauses = [list(c) for c in R]
    hdr = [("{}".format(k), "{}".format(v)) for k, v in R.header.items()]
    names = ["{}".format(x) for x in R.all_variable_labels()] if ev else []
    r = req("wdimacs", u, enc_cnf(n, clauses), enc_opt(hdr if eh else None, enc_header),
            enc_opt(names if ev else None, enc_names))
    state = {}

    def impl():
        if u:
            path = tmpname(".cnf")
            F.to_file(path, fileformat=info.get("fmt"), export_header=eh, export_varnames=ev)
            text = read_raw(path)
            state["path"] = path
        elif not eh and not ev and info.get("via") == "to_dimacs":
            text = F.to_dimacs()
        else:
            out = io.StringIO()
            F.to_file(out, fileformat=info.get("fmt"), export_header=eh, export_varnames=ev)
            text = out.getvalue()
        state["text"] = text
        return ok("1 " + fmt_text(text))

    def oracle():
        text = state.get("text")
        if text is None:
            return {"writer_raised_on_a_legal_formula": True}
        if R is not F and (F.number_of_variables(), [list(c) for c in F]) != (n, clauses):
            return {"looking_at_the_formula_changed_it": [F.number_of_variables(), [list(c) for c in F][:20]],
                    "same_steps_never_observed": [n, clauses[:20]]}
        got = indep_dimacs(text, u)
        if got != ("ok", n, clauses):
            return {"independent_reader_sees": list(got)[:2] + [str(got[2:])[:200]], "in_memory": [n, clauses[:20]],
                    "text": text[:400]}
        try:
            G = CNF.from_file(state["path"]) if u else CNF.from_file(io.StringIO(text))
        except Exception as e:
            return {"real_reader_raised": type(e).__name__, "text": text[:400]}
        if G.number_of_variables() != n or [list(c) for c in G] != clauses:
            return {"real_round_trip_differs": [G.number_of_variables(), [list(c) for c in G][:20]]}
        spec, nclause, bad = dimacs_shape(text, u)
        if spec != ["p cnf {} {}".format(n, len(clauses))] or nclause != len(clauses) or bad:
            return {"shape": {"spec_lines": spec, "clause_lines": nclause, "other_non_comment_lines": bad}}
        return None

    strings = [s for kv in (hdr if eh else []) for s in kv] + (names if ev else [])
    if has_break(strings, u):
        cls = "linebreak"
    else:
        cls = ("hdr" if eh else "nohdr") + ("+names" if ev else "") + (":file" if u else ":str") + ":" + info["src"]
    return Case("w", r, impl, oracle, cls=cls, nontrivial=len(clauses) > 0, info=info)


def run_reader(text, u):
    if u:
        return CNF.from_file(write_raw(text))
    return CNF.from_file(io.StringIO(text))


def reader_oracle(text, u, must_accept=None):
    """the property on the real reader, for one text"""
    try:
        G = run_reader(text, u)
    except ValueError:
        if must_accept is not None:
            return {"valid_text_rejected": True, "text": text[:300]}
        return None
    except Exception as e:   # any other way of failing
        return {"reader_failed_with": type(e).__name__, "text": text[:300]}
    got = (G.number_of_variables(), [list(c) for c in G])
    want = indep_dimacs(text, u)
    if want[0] != "ok":
        return {"reader_accepted_invalid_text": want[1], "returned": [got[0], got[1][:20]], "text": text[:300]}
    if (want[1], want[2]) != got:
        return {"reader_returned": [got[0], got[1][:20]], "text_denotes": [want[1], want[2][:20]], "text": text[:300]}
    if must_accept is not None and got != must_accept:
        return {"reader_returned": [got[0], got[1][:20]], "generated_from": [must_accept[0], must_accept[1][:20]]}
    return None


def build_r(info):
    text = "".join(chr(c) for c in info["text"])
    u = bool(info.get("u", False))
    must = info.get("formula")
    must = (must[0], [list(c) for c in must[1]]) if must is not None else None
    if info.get("contract_only"):
        def impl():
            return "OK -"
        r = "nop"
        suite = "rc"
    else:
        def impl():
            G = run_reader(text, u)
            return ok("{} {}".format(G.number_of_variables(), fmt_clauses([list(c) for c in G])))
        r = req("rdimacs", u, enc_str(text))
        suite = "r"
    return Case(suite, r, impl, lambda: reader_oracle(text, u, must), cls=info.get("kind", ""),
                nontrivial=bool(text.strip()), info=info)


def build_lex(info):
    text = "".join(chr(c) for c in info["text"])
    u = bool(info.get("u", False))
    return Case("lex", req("lex", u, enc_str(text)), lambda: ok(fmt_rows(py_lex(text, u))), None,
                cls=info.get("kind", ""), nontrivial=bool(text.strip()), info=info)


def build_wl(info):
    u = bool(info.get("u", False))
    n = 10 ** int(info["pow"])
    eh = bool(info.get("export_header", True))

    def oracle():
        F = CNF()
        F.update_variable_number(n)
        out = io.StringIO()
        try:
            F.to_file(out, fileformat="dimacs", export_header=eh)
        except ValueError:
            pass
        except Exception as e:
            return {"writer_raised": type(e).__name__}
        else:
            return {"writer_did_not_raise_on_a_count_of_4301_digits": len(out.getvalue())}
        try:
            run_reader(out.getvalue(), u)
        except ValueError:
            return None
        except Exception as e:
            return {"reader_raised_on_partial_output": type(e).__name__}
        return {"partial_output_accepted_as_a_formula": out.getvalue()[:200]}

    return Case("wl", "nop", lambda: "OK -", oracle, cls="digit-limit", nontrivial=True, info=info)


def build(suite, info):
    if suite == "wl":
        return build_wl(info)
    if suite == "w":
        return build_w(info)
    if suite in ("r", "rc"):
        return build_r(info)
    if suite == "lex":
        return build_lex(info)
    raise ValueError(suite)


# ------------------------------------------------------------------ generators
SEPS = [" ", " ", " ", "  ", "\t", " \t ", "\x0b", "\x0c", "\x1c", "\x1d", "\x1e", "\x1f"]
EOLS = ["\n", "\n", "\n", "\r\n", "\r", "\n\n", " \n", "\t\r\n"]
GARBAGE = ["x", "1.5", "--1", "1__0", "_1", "1_", "0x1", "c", "p", "1e3", "+", "-", "+-2", "1-", "x1", "~x1", "0_", "a0"]


def int_token(rng, v, fancy):
    s = str(v)
    if not fancy:
        return s
    k = rng.random()
    if k < .15 and v > 0:
        return "+" + s
    if k < .25 and abs(v) >= 10:
        d = s.lstrip("-")
        return ("-" if v < 0 else "") + d[0] + "_" + d[1:]
    if k < .35:
        return ("-" if v < 0 else "") + "0" * rng.randint(1, 3) + s.lstrip("-")
    if k < .4 and v == 0:
        return rng.choice(["-0", "+0", "00", "0_0"])
    return s


def token_lines(rng, n, m, clauses, fancy):
    """a valid DIMACS text as a list of token lists (one per line)"""
    lines = []
    if rng.random() < .5:
        lines.append(["c", "generated", "text"])
    if rng.random() < .2:
        lines.append([])
    lines.append(["p", "cnf", int_token(rng, n, fancy), int_token(rng, m, fancy)])
    stream = []
    for c in clauses:
        stream += [int_token(rng, l, fancy) for l in c] + [int_token(rng, 0, fancy)]
    style = rng.random()
    if style < .5 or not fancy:        # one clause per line
        cur = []
        for t, v in zip(stream, [l for c in clauses for l in list(c) + [0]]):
            cur.append(t)
            if v == 0:
                lines.append(cur)
                cur = []
    else:                               # arbitrary line breaks
        cur = []
        for t in stream:
            cur.append(t)
            if rng.random() < .3:
                lines.append(cur)
                cur = []
                if rng.random() < .15:
                    lines.append(rng.choice([[], ["c"], ["c", "1", "2", "0"], ["comment?"], ["c0"]]))
        if cur:
            lines.append(cur)
    return lines


def render_lines(rng, lines, fancy, final_eol=True):
    out = []
    for i, toks in enumerate(lines):
        sep = (lambda: rng.choice(SEPS)) if fancy else (lambda: " ")
        s = (rng.choice(["", "", " ", "\t"]) if fancy else "") + "".join(t + sep() for t in toks[:-1]) + (toks[-1] if toks else "")
        if fancy and rng.random() < .2:
            s += rng.choice([" ", "\t", "  "])
        last = i == len(lines) - 1
        if last and not final_eol:
            out.append(s)
        else:
            out.append(s + (rng.choice(EOLS) if fancy else "\n"))
    return "".join(out)


def mutate(rng, lines, n, m):
    """one structural mutation; returns (kind, new lines)"""
    L = [list(t) for t in lines]
    nonempty = [i for i, t in enumerate(L) if t and t[0] not in ("c",) and t[0][0] != "c"]
    lit_lines = [i for i in nonempty if L[i][0][0] != "p"]
    p_idx = [i for i in nonempty if L[i][0][0] == "p"]
    kind = rng.choice(["del", "dup", "flip", "n-1", "n+1", "m-1", "m+1", "p2", "p-late", "no-p", "garbage", "lit=n+1",
                       "lit=-(n+1)", "no-final-0", "p-arity", "p-neg", "p-word", "mid-c", "swap-lines", "extra-0", "p-glued"])
    if kind in ("del", "dup", "flip", "garbage", "lit=n+1", "lit=-(n+1)", "mid-c", "extra-0") and lit_lines:
        i = rng.choice(lit_lines)
        j = rng.randrange(len(L[i]))
        if kind == "del":
            del L[i][j]
        elif kind == "dup":
            L[i].insert(j, L[i][j])
        elif kind == "flip":
            t = L[i][j]
            L[i][j] = t[1:] if t.startswith("-") else "-" + t.lstrip("+")
        elif kind == "garbage":
            L[i].insert(j, rng.choice(GARBAGE))
        elif kind == "lit=n+1":
            L[i].insert(j, str(n + 1))
        elif kind == "lit=-(n+1)":
            L[i].insert(j, str(-(n + 1)))
        elif kind == "mid-c":
            L[i].insert(max(j, 1), "c")
        elif kind == "extra-0":
            L[i].insert(j, "0")
    elif kind in ("n-1", "n+1", "m-1", "m+1", "p-arity", "p-neg", "p-word", "p-glued") and p_idx and len(L[p_idx[0]]) >= 4:
        i = p_idx[0]
        if kind == "n-1":
            L[i][2] = str(n - 1)
        elif kind == "n+1":
            L[i][2] = str(n + 1)
        elif kind == "m-1":
            L[i][3] = str(m - 1)
        elif kind == "m+1":
            L[i][3] = str(m + 1)
        elif kind == "p-arity":
            L[i] = rng.choice([L[i][:3], L[i] + ["0"], ["p"], ["p", "cnf"], L[i][1:]])
        elif kind == "p-neg":
            L[i][rng.choice([2, 3])] = "-1"
        elif kind == "p-word":
            L[i][1] = rng.choice(["dnf", "1", "c", "p"])
        elif kind == "p-glued":
            L[i] = ["pcnf"] + L[i][1:] if rng.random() < .5 else ["p" + L[i][1]] + L[i][2:]
    elif kind == "p2":
        L.insert(rng.randint(0, len(L)), ["p", "cnf", str(n), str(m)])
    elif kind == "p-late" and p_idx:
        row = L.pop(p_idx[0])
        L.insert(rng.randint(p_idx[0], len(L)), row)
    elif kind == "no-p" and p_idx:
        del L[p_idx[0]]
    elif kind == "no-final-0" and lit_lines:
        i = lit_lines[-1]
        L[i] = L[i][:-1]
    elif kind == "swap-lines" and len(L) > 1:
        i = rng.randrange(len(L) - 1)
        L[i], L[i + 1] = L[i + 1], L[i]
    return kind, L


def rand_formula(rng):
    n = rng.choice([0, 1, 1, 2, 3, 4, 5, 9, 10, 11, 12, 100])
    m = rng.choice([0, 1, 2, 3, 4, 6, 10])
    cs = iolib.rand_clauses(rng, n, m)
    return n, cs


def reader_cases(rng, reps):
    out = []
    for _ in range(reps):
        n, cs = rand_formula(rng)
        fancy = rng.random() < .7
        u = rng.random() < .4
        lines = token_lines(rng, n, len(cs), cs, fancy)
        which = rng.random()
        if which < .25:
            text = render_lines(rng, lines, fancy, final_eol=rng.random() < .8)
            info = dict(kind="valid" + (":fancy" if fancy else ""), formula=[n, cs])
            if not u:
                # a lone "\r" is not a line break for StringIO; such a layout may glue a comment to the next line
                if "\r" in text.replace("\r\n", ""):
                    info.pop("formula")
                    info["kind"] = "valid?:cr-in-stringio"
        elif which < .85:
            kind, lines2 = mutate(rng, lines, n, len(cs))
            if rng.random() < .2:
                k2, lines2 = mutate(rng, lines2, n, len(cs))
                kind += "+" + k2
            text = render_lines(rng, lines2, fancy)
            info = dict(kind="mut:" + kind)
        else:
            text = render_lines(rng, lines, fancy)
            cut = rng.randint(0, len(text))
            text = text[:cut]
            info = dict(kind="truncated")
        info.update(text=[ord(c) for c in text], u=u)
        out.append(("r", info))
    return out


LEX_ALPHABET = list("0123456789") * 3 + list("+-_") * 2 + list("cpx~*#=ab.") + SEPS + ["\n", "\n", "\r", "\r\n"]


def lex_cases(rng, reps):
    out = []
    for _ in range(reps):
        k = rng.choice([0, 1, 2, 3, 5, 8, 13, 30])
        text = "".join(rng.choice(LEX_ALPHABET) for _ in range(k))
        out.append(("lex", dict(text=[ord(c) for c in text], u=rng.random() < .5, kind="ascii")))
    return out


NONASCII_TOKENS = ["\u0661", "\u0663", "\uff11\uff12", "-\uff11", "1\u0663", "\xe9", "\xa0", "\u2003", "\x85", "\u3000", "\u0967", "\xb2", "\xbd", "c\xa0", "\uff50", "\u2167", "\U0001D7D8"]


def nonascii_cases(rng, reps):
    out = []
    for _ in range(reps):
        n, cs = rand_formula(rng)
        n = max(n, 3)
        lines = token_lines(rng, n, len(cs), cs, True)
        for _ in range(rng.randint(1, 3)):
            i = rng.randrange(len(lines))
            tok = rng.choice(NONASCII_TOKENS)
            if lines[i] and rng.random() < .5:
                j = rng.randrange(len(lines[i]))
                lines[i][j] = rng.choice([tok, lines[i][j] + tok, tok + lines[i][j]])
            else:
                lines[i].insert(rng.randint(0, len(lines[i])), tok)
        text = render_lines(rng, lines, True)
        info = dict(text=[ord(c) for c in text], u=rng.random() < .4, kind="nonascii")
        if iolib.has_nonascii_decimal(text):
            info["contract_only"] = True
            info["kind"] = "nonascii-digit"
        out.append(("r", info))
    return out


def hand_formulas():
    base = [
        dict(n=0, clauses=[]), dict(n=0, clauses=[[]]), dict(n=0, clauses=[[], [], []]), dict(n=3, clauses=[]),
        dict(n=1, clauses=[[1]]), dict(n=1, clauses=[[-1], [1]]), dict(n=5, clauses=[[1, 2], [], [-3]]),
        dict(n=3, clauses=[[1, 1, -1], [2, 2], [3, -3, 3]]), dict(n=12, clauses=[[10, -11, 12], [-10], [1, -12]]),
        dict(n=1000, clauses=[[1000, -999], [1, -1000]]), dict(n=4, clauses=[[1, 2, -3], [-2, 4]]),
        dict(n=10 ** 30, clauses=[[10 ** 30, -1]]),
        # the largest numbers CPython prints and reads back (4300 digits): boundary of `Printable` in Props/C06/Text.lean
        dict(n=10 ** 4300 - 1, clauses=[[10 ** 4300 - 1, -1], [-(10 ** 4300 - 1)]]),
    ]
    for b in base:
        b["src"] = "hand"
    return base


def writer_cases(rng, tier):
    out = []
    # --- corpus: D14 witnesses first (header value / label with a line break)
    out.append(("w", dict(src="hand", n=2, clauses=[[1, -2]], hdr=[["description", "graph name\n"]], export_header=True)))
    out.append(("w", dict(src="hand", n=2, clauses=[[1, -2]], labels=["x\ny"], export_header=False, export_varnames=True)))
    out.append(("w", dict(src="hand", n=1, clauses=[[1]], hdr=[["k", "a\rb"]], export_header=True, u=True)))
    out.append(("w", dict(src="hand", n=1, clauses=[[1]], hdr=[["k", "a\rb"]], export_header=True, u=False)))
    out.append(("w", dict(src="hand", n=1, clauses=[[1]], hdr=[["k", "a\nc still a comment"]], export_header=True)))
    for f in hand_formulas():
        for eh, ev in ((False, False), (True, False), (True, True), (False, True)):
            for u in (False, True):
                if ev and f["n"] > 5000:
                    continue
                info = dict(f, export_header=eh, export_varnames=ev, u=u)
                if not eh and not ev and not u:
                    info["via"] = "to_dimacs"
                out.append(("w", info))
    # odd strings in header and labels
    odd = iolib.ODD_STRINGS
    for i, s in enumerate(odd):
        out.append(("w", dict(src="hand", n=3, clauses=[[1, -2], [3]], labels=[s, odd[(i + 7) % len(odd)]],
                              hdr=[["description", s], [odd[(i + 3) % len(odd)], odd[(i + 5) % len(odd)]]],
                              export_header=True, export_varnames=True, u=bool(i % 2))))
    for s in iolib.BREAK_STRINGS:
        out.append(("w", dict(src="hand", n=2, clauses=[[1], [-2]], hdr=[["description", s]], export_header=True, u=True)))
        out.append(("w", dict(src="hand", n=2, clauses=[[1], [-2]], labels=[s], export_varnames=True, export_header=False, u=False)))
    # real families / transformations
    argvs = iolib.CNF_ARGVS if tier == "thorough" else rng.sample(iolib.CNF_ARGVS, 14)
    for argv in argvs:
        for eh, ev in ((True, True), (False, False), (True, False)) if tier == "thorough" else ((True, True), (False, False)):
            out.append(("w", dict(src="cli", argv=list(argv), seed=rng.randint(1, 10 ** 6), export_header=eh, export_varnames=ev,
                                  u=rng.random() < .5, hdr_extra=[["note", rng.choice(odd)]] if rng.random() < .3 else [])))
    # random
    for _ in range(60 if tier == "quick" else 3000):
        n, cs = rand_formula(rng)
        k = rng.randint(0, min(n, 4))
        info = dict(src="hand", n=n, clauses=cs, labels=[rng.choice(odd) for _ in range(k)],
                    export_header=rng.random() < .6, export_varnames=rng.random() < .5, u=rng.random() < .5)
        if rng.random() < .3:
            info["hdr"] = [[rng.choice(odd), rng.choice(odd)] for _ in range(rng.randint(0, 3))]
        if rng.random() < .3:
            info["fmt"] = "dimacs"
        out.append(("w", info))
    return out


JUDGED = [dict(export_header=False, export_varnames=False, via="to_dimacs"), dict(export_header=False, export_varnames=False),
          dict(export_header=True, export_varnames=False), dict(export_header=True, export_varnames=True),
          dict(export_header=False, export_varnames=True)]


def as_observation(j):
    """the judged rendering as a history step (so that the same rendering also happens EARLIER in the history)"""
    if j.get("via") == "to_dimacs":
        return {"obs": "to_dimacs"}
    return {"obs": "to_file", "fmt": "dimacs", "header": j["export_header"], "names": j["export_varnames"]}


def history_cases(rng, tier):
    """a formula object is rendered after EVERY step of its growth (new variables without clauses, clauses without new
    variables, groups, raised counts, batches, header edits), having been rendered / listed / transformed / shuffled
    before: each text must denote the formula as it is at that moment"""
    out = []
    for j in JUDGED:
        for h in histlib.minimal_histories([as_observation(j)]):
            out.append(("w", dict(j, src="hist", steps=h, u=False)))
    out.append(("w", dict(JUDGED[0], src="hist", u=False, steps=[{"op": "clause", "lits": [1, -2], "check": True}, {"obs": "solve"},
                                                                  {"op": "update", "n": 3}])))
    sizes = [8, 30] + common.probe_sizes(["formula/cnfio.py", "utils/parsedimacs.py", "formula/basecnf.py"], 9, 300)[:4]
    for _ in range(30 if tier == "quick" else 1200):
        j = rng.choice(JUDGED)
        steps, cuts = histlib.gen_history(rng, rng.randint(2, 7), rng.choice(sizes), favourite=as_observation(j), become=.08)
        for cut in cuts:
            jj = j if rng.random() < .7 else rng.choice(JUDGED)
            out.append(("w", dict(jj, src="hist", steps=steps[:cut], u=rng.random() < .2)))
    return out


CORPUS_TEXTS = [
    ("", "empty"), ("\n", "blank"), ("c only a comment\n", "no-p"), ("p cnf 0 0", "empty-formula"), ("p cnf 0 0\n", "empty-formula"),
    ("p cnf 0 1\n0\n", "empty-clause"), ("p cnf 2 1\n1 -2 0\n", "valid"), ("p cnf 2 1\n1 -2\n", "no-final-0"),
    ("p cnf 2 1\n1 -3 0\n", "lit=n+1"), ("p cnf 2 1\n3 0\n", "lit=n+1"), ("p cnf 2 2\n1 0\n", "m+1"), ("p cnf 2 0\n1 0\n", "m-1"),
    ("p cnf 2 1\np cnf 2 1\n1 0\n", "p2"), ("1 0\np cnf 2 1\n", "p-late"), ("p cnf 2 1\n1 0\np cnf 2 1\n", "p2"),
    ("p cnf -1 0\n", "p-neg"), ("p cnf 1 -1\n", "p-neg"), ("p cnf 1\n", "p-arity"), ("p cnf 1 1 1\n1 0\n", "p-arity"),
    ("pcnf 1 1\n1 0\n", "p-glued"), ("p dnf 1 1\n1 0\n", "p-word"), ("p 7 1 1\n1 0\n", "p-word"), ("px y 1 1\n-1 0", "p-word"),
    ("p cnf +1 1\n+1 0\n", "plus"), ("p cnf 1_0 1\n1_0 0\n", "underscore"), ("p cnf 10 1\n1__0 0\n", "underscore2"),
    ("p cnf 2 2\n1 0 2 0\n", "two-on-a-line"), ("p cnf 2 1\n1\n\nc in between\n2\n0\n", "multi-line-clause"),
    ("p cnf 2 1\r\n1 2 0\r\n", "crlf"), ("p cnf 2 1\r1 2 0\r", "cr"), ("\tp\tcnf\t2\t1\n\t1\t2\t0\n", "tabs"),
    ("p cnf 2 1\n1 c 2 0\n", "mid-c"), ("p cnf 2 1\n1 2 0 c trailing\n", "trailing-c"), ("p cnf 1 1\n1 0 0\n", "extra-0"),
    ("p cnf 1 1\n-0\n", "minus-zero"), ("p cnf 1 1\n1 00\n", "double-zero"), ("c\np cnf 1 1\nc\n1 0\nc", "comments"),
    ("p cnf 1 1\n1.0 0\n", "float"), ("p cnf 1 1\n1 0\x0c", "formfeed"), ("p cnf 1 1\n\x1c1\x1d0\x1e", "fs-gs-rs"),
    ("p cnf " + "9" * 4300 + " 0\n", "huge-n"), ("p cnf " + "9" * 4301 + " 0\n", "too-many-digits"),
    ("p cnf 1 1\n" + "0" * 4301 + "\n", "too-many-digits"), ("P cnf 1 1\n1 0\n", "capital-p"), ("C x\np cnf 0 0\n", "capital-c"),
    ("p cnf 0 0\n%\n0\n", "percent-tail"), ("p cnf 1 1\n1 0\n\x00", "nul"), ("p  cnf  3   2\n1 -3 0\n2 3 -1 0\n", "doctest"),
]


def long_line_cases(rng, tier):
    """lines far beyond any buffer size (64 KiB, 1 MiB in the thorough tier): one clause with thousands of literals
    written and read back, and hand-made texts whose clause / comment / `p` line is that long"""
    out = []
    sizes = [13000, 14500] if tier == "quick" else [13000, 14500, 30000, 180000]
    for n in sizes:
        clause = [v if rng.random() < .5 else -v for v in range(1, n + 1)]
        rng.shuffle(clause)
        for u in (False, True):
            out.append(("w", dict(src="hand", n=n, clauses=[clause, [-n, 1]], export_header=u, export_varnames=False, u=u)))
        body = " ".join(str(l) for l in clause)
        texts = [
            ("p cnf {} 2\n{} 0\n{} 1 0\n".format(n, body, -n), "long-clause"),
            ("c " + "x" * (len(body) + 7) + "\np cnf {} 1\n{} 0\n".format(n, body), "long-comment+clause"),
            ("p cnf" + " " * 70000 + "{} 1\n{}\n{} 0\n".format(n, body[:len(body) // 2], body[len(body) // 2:]), "long-p"),
        ]
        for text, kind in texts:
            formula = None
            if kind != "long-p":
                formula = (n, [clause, [-n, 1]] if kind == "long-clause" else [clause])
            out.append(("r", dict(text=[ord(c) for c in text], u=rng.random() < .5, kind="long:" + kind, formula=formula)))
    return out


def cases(ctx):
    tier, seed = ctx["tier"], ctx["seed"]
    infos = []
    for text, kind in CORPUS_TEXTS:
        for u in (False, True):
            infos.append(("r", dict(text=[ord(c) for c in text], u=u, kind="corpus:" + kind)))
            infos.append(("lex", dict(text=[ord(c) for c in text], u=u, kind="corpus")))
    infos += writer_cases(common.sub_rng(seed, "C06", "w"), tier)
    infos += history_cases(common.sub_rng(seed, "C06", "hist"), tier)
    infos += long_line_cases(common.sub_rng(seed, "C06", "long"), tier)
    infos += [("wl", dict(pow=4300, u=u, export_header=eh)) for u in (False, True) for eh in (False, True)]
    infos += reader_cases(common.sub_rng(seed, "C06", "r"), 2500 if tier == "quick" else 120000)
    infos += lex_cases(common.sub_rng(seed, "C06", "lex"), 1500 if tier == "quick" else 40000)
    infos += nonascii_cases(common.sub_rng(seed, "C06", "na"), 300 if tier == "quick" else 10000)
    for suite, info in infos:
        c = build(suite, info)
        if c is not None:
            yield c


# ------------------------------------------------------------------ failing-input search
def _roundtrip_search(rng, reps):
    for _ in range(reps):
        n, cs = rand_formula(rng)
        info = dict(src="hand", n=n, clauses=cs, export_header=rng.random() < .5, export_varnames=rng.random() < .5,
                    u=rng.random() < .5)
        c = build_w(info)
        common.run_impl(c)
        r = c.oracle()
        if r is not None:
            return {"suite": "w", "info": info, "failure": r}
    return None


def search(ctx, case):
    """the correspondence broke on `case`: look for an input on which the PROPERTY fails (real code only)"""
    rng = common.sub_rng(ctx["seed"], "C06", "search", case.req[:200])
    if case.suite in ("r", "rc", "lex"):
        text = "".join(chr(c) for c in case.info["text"])
        u = bool(case.info.get("u", False))
        r = reader_oracle(text, u)
        if r is not None:
            return {"suite": "r", "info": case.info, "failure": r}
        for suite, info in reader_cases(rng, 3000):
            t = "".join(chr(c) for c in info["text"])
            must = info.get("formula")
            r = reader_oracle(t, info["u"], (must[0], must[1]) if must else None)
            if r is not None:
                return {"suite": "r", "info": info, "failure": r}
    return _roundtrip_search(rng, 400)


def search_global(ctx):
    rng = common.sub_rng(ctx["seed"], "C06", "search-global")
    for suite, info in reader_cases(rng, 3000):
        t = "".join(chr(c) for c in info["text"])
        must = info.get("formula")
        r = reader_oracle(t, info["u"], (must[0], must[1]) if must else None)
        if r is not None:
            return {"suite": "r", "info": info, "failure": r}
    return _roundtrip_search(rng, 400)
