"""C10 (families in a process that has a history) — a family, asked for after the program has built formulas of its
own, returns the formula it promises: same variables, same clauses, every literal inside the declared range; and a
user-made formula that creates the same kinds of groups further up gets fresh identifiers from them.

Each case wraps one case of the family modules (C01, C02_*, C03_*: their request, their implementation call, their
property oracle) in a small history that is played inside the one harness process:

    0. (user formula FIRST) the list of `new_*` calls the family is going to make is obtained from a forked child that
       builds the family and sends back (method, arguments) — the parent process has not built it yet; a USER formula
       gets a prefix (raised variable count, a clause) and then those calls: the same kinds of groups with the same
       shapes as the family's, at a shifted offset, BEFORE the family exists in this process;
    1. the family is built (every outermost `new_*` call on a formula is recorded: method, arguments, group returned);
    2. a second USER formula, other prefix, replays the recorded calls with the SAME argument objects; clauses are
       written with the variables the groups hand out;
    3. the family is built again.

Correspondence: the rendering of step 3 against the Lean family model (which is a function of the parameters alone,
so it also is "the formula the documentation promises", variable count included).
Oracle (independent of the model): step 3 = step 1; in the user formula every replayed group starts right after the
variables present before, hands out start, start+1, … in the order of its indices, converts them back, and never an
identifier some earlier clause mentions; the user formula mentions only declared variables; the family formula of
step 3 mentions only declared non-zero variables and its groups hand out identifiers inside their own ranges; and the
family module's own property oracle still passes on what step 3 built.
"""
import importlib
import itertools
import os
import pickle

from harness import common
from harness.common import Case

from cnfgen.formula.cnf import CNF
from cnfgen.formula.opb import OPB
from cnfgen.formula.baseopb import BaseOPB
from cnfgen.formula.variables import VariablesManager

SOURCES = ["C01", "C02_graphs1", "C02_graphs2", "C03_order", "C03_ramsey"]
RULE = ("fam_after_user: per suite of the family modules a spread of their quick cases (small and larger requests), each wrapped "
        "in the history family / user formula replaying the family's new_* calls at a shifted offset / family again; "
        "prefix lengths 1, 2, 7 and around the source's integer constants; user formula of either class")
NOTES = ["fam_after_user cases are not stateless by construction (they play a history); the runner's reverse second pass "
         "runs them again like every other case — the answer must still be the model's"]


class Recorder:
    """records the outermost new_* calls made on any formula while active (monkeypatch on the class, harness process only)"""

    def __init__(self):
        self.calls = []
        self.depth = 0
        self.saved = {}

    def __enter__(self):
        for name in dir(VariablesManager):
            if not name.startswith("new_"):
                continue
            orig = getattr(VariablesManager, name)
            self.saved[name] = orig
            setattr(VariablesManager, name, self.wrap(name, orig))
        return self

    def wrap(self, name, orig):
        rec = self

        def method(this, *args, **kw):
            rec.depth += 1
            try:
                res = orig(this, *args, **kw)
            finally:
                rec.depth -= 1
            if rec.depth == 0:
                group = res if hasattr(res, "ids") else (this._groups[-1] if this._groups else None)
                rec.calls.append((this, name, args, kw, group))
            return res
        return method

    def __exit__(self, *exc):
        for name, orig in self.saved.items():
            setattr(VariablesManager, name, orig)
        return False


def calls_in_child(inner):
    """[(method, args, kwargs)] of the outermost new_* calls the case's implementation makes, observed in a forked child
    (so that THIS process has not built the family yet); None if that is not possible"""
    try:
        r, w = os.pipe()
        pid = os.fork()
    except OSError:
        return None
    if pid == 0:
        try:
            os.close(r)
            with Recorder() as rec:
                common.run_impl(inner)
            data = pickle.dumps([(n, a, k) for _, n, a, k, _ in rec.calls])
            with os.fdopen(w, "wb") as fh:
                fh.write(data)
        except BaseException:
            pass
        finally:
            os._exit(0)        # no atexit handlers, no flushing of the parent's buffers
    os.close(w)
    with os.fdopen(r, "rb") as fh:
        data = fh.read()
    os.waitpid(pid, 0)
    try:
        return [(None, n, a, k, None) for n, a, k in pickle.loads(data)]
    except Exception:
        return None


def literals(F):
    if isinstance(F, BaseOPB):
        for c in F:
            for _, lit in list(c)[:-2]:
                yield lit
    else:
        for c in F:
            yield from c


def group_report(g, before, mentioned, cap=400):
    """None, or what is wrong with a group created on a formula that had `before` variables and mentioned `mentioned`"""
    n = len(g)
    if n == 0:
        return None
    if list(g.ids[:1]) != [before + 1] or len(g.ids) != n:
        return {"group": type(g).__name__, "allocated": [g.ids.start, g.ids.stop - 1], "variables_before": before}
    try:
        idxs = [tuple(t) for t in g.indices()]
    except Exception as e:
        return {"group": type(g).__name__, "indices_raised": type(e).__name__}
    if len(idxs) != n:
        return {"group": type(g).__name__, "number_of_indices": len(idxs), "len": n}
    step = max(1, n // cap)
    for pos in itertools.chain(range(0, n, step), [n - 1]):
        t = idxs[pos]
        try:
            v = g(*t)
            if not isinstance(v, int):
                v = list(v)[0]
        except Exception as e:
            return {"group": type(g).__name__, "index": list(t), "lookup_raised": type(e).__name__}
        if v != before + 1 + pos:
            return {"group": type(g).__name__, "allocated": [g.ids.start, g.ids.stop - 1], "index": list(t),
                    "position": pos, "hands_out_identifier": v, "fresh_identifier": before + 1 + pos,
                    "already_mentioned": v in mentioned}
        try:
            back = tuple(g.to_index(-v))
        except Exception as e:
            return {"group": type(g).__name__, "identifier": v, "to_index_raised": type(e).__name__}
        if back != t:
            return {"group": type(g).__name__, "identifier": v, "index": list(t), "to_index": list(back)}
    return None


def play_user(calls, shift, opb):
    """the user-made formula; returns a failure description or None"""
    U = OPB() if opb else CNF()
    U.update_variable_number(max(shift - 1, 0))
    U.add_clause([1, -shift] if shift > 1 else [1])     # mentions `shift`: the next fresh identifier is shift + 1
    mentioned = {1, shift}
    for _, name, args, kw, _ in calls:
        before = U.number_of_variables()
        try:
            res = getattr(U, name)(*args, **kw)
        except Exception as e:
            return {"user_formula": name, "raised": type(e).__name__, "the_family_made_the_same_call": True}
        g = res if hasattr(res, "ids") else U._groups[-1]
        r = group_report(g, before, mentioned)
        if r is not None:
            return dict(r, user_formula=name, prefix_variables=shift)
        n = len(g)
        if n:
            idxs = [tuple(t) for t in itertools.islice(g.indices(), 3)]
            lits = []
            for t in idxs:
                v = g(*t)
                lits.append(v if isinstance(v, int) else list(v)[0])
            U.add_clause([-l for l in lits], check=False)       # as the families do
            mentioned.update(lits)
        if U.number_of_variables() != before + n:
            return {"user_formula": name, "variables_before": before, "group_size": n, "declared_after": U.number_of_variables()}
    top = max([abs(l) for l in literals(U)] + [0])
    if top > U.number_of_variables():
        return {"user_formula_mentions": top, "declared": U.number_of_variables()}
    return None


def family_report(calls):
    """the formulas the family built: literals in range, groups consistent with their ranges"""
    formulas = []
    for F, *_ in calls:
        if not any(F is G for G in formulas):
            formulas.append(F)
    for F in formulas:
        n = F.number_of_variables()
        for lit in literals(F):
            if not isinstance(lit, int) or isinstance(lit, bool) or lit == 0 or abs(lit) > n:
                return {"family_formula_literal": repr(lit), "declared_variables": n}
        before = 0
        for G, name, args, kw, g in calls:
            if G is not F or g is None:
                continue
            if len(g) and g.ids.start <= before:
                return {"family_group": name, "allocated": [g.ids.start, g.ids.stop - 1], "overlaps_variables_up_to": before}
            r = group_report(g, g.ids.start - 1 if len(g) else before, set(), cap=120)
            if r is not None:
                return dict(r, family_group=name)
            if len(g):
                before = g.ids.stop - 1
    return None


_KNOWN = []


def recorded_finding(inner):
    """the wrapped case belongs to an input class recorded as a known finding of its own property"""
    import json
    if not _KNOWN:
        try:
            _KNOWN.extend(json.load(open(os.path.join(common.VERIF, "known_findings.json"))))
        except (OSError, ValueError):
            pass
        _KNOWN.append({})
    me = {"suite": inner.suite, "cls": inner.cls, "req": inner.req}
    for k in _KNOWN:
        m = k.get("match") or {}
        if k.get("status") == "known" and m and all(me.get(key) == val for key, val in m.items()):
            return True
    return False


def build(suite, info):
    if suite != "fam_after_user":
        raise ValueError("unknown suite " + suite)
    mod = importlib.import_module("harness.props." + info["mod"])
    inner = mod.build(info["suite"], info["info"])
    shift, opb = info["shift"], info["user_opb"]
    state = {}

    def impl():
        state.clear()
        ahead = calls_in_child(inner) if info.get("user_first", True) else None
        state["user_first"] = play_user(ahead, shift + 3, not opb) if ahead else None
        with Recorder() as r1:
            a1 = common.run_impl(inner)
        state["family_first"] = family_report(r1.calls)
        state["user"] = play_user(r1.calls, shift, opb)
        with Recorder() as r2:
            a2 = common.run_impl(inner)
        state["a1"], state["a2"] = a1, a2
        state["family"] = family_report(r2.calls)
        state["groups"] = len(r2.calls)
        return a2

    def oracle():
        if "a2" not in state:
            impl()
        where = {"family_case": [info["mod"], info["suite"], info["info"]], "prefix_variables": shift,
                 "user_formula_class": "OPB" if opb else "CNF"}
        if state["a1"] != state["a2"]:
            return dict(where, family_built_again_differs=True, first=state["a1"][:300], again=state["a2"][:300])
        for key in ("user_first", "family_first", "user", "family"):
            if state[key] is not None:
                return dict(where, step=key, **state[key])
        r = common.run_oracle(inner)      # the family's own property, on what was built AFTER the history
        if r is not None and recorded_finding(inner):
            r = None                      # a recorded defect of the family itself (known_findings.json), with or without history
        if r is not None:
            return dict(where, family_property_after_the_history=r)
        return None
    c = Case(suite, inner.req, impl, oracle, cls=info["suite"], nontrivial=True, info=info)
    return c


def pick(rng, cs, k):
    """k cases spread over the request sizes (small ones and the larger, more realistic ones)"""
    cs = sorted(cs, key=lambda c: (len(c.req), c.req))
    if len(cs) <= k:
        return cs
    out = []
    for i in range(k):
        lo, hi = i * len(cs) // k, (i + 1) * len(cs) // k
        out.append(cs[rng.randrange(lo, max(hi, lo + 1))])
    return out


def infos(ctx):
    tier, seed = ctx["tier"], ctx["seed"]
    rng = common.sub_rng(seed, "C10fam")
    per_suite = 6 if tier == "quick" else 40
    shifts = [1, 2, 7] + common.probe_sizes(["formula/variables.py"], 3, 300)[:6]
    out = []
    for m in SOURCES:
        mod = importlib.import_module("harness.props." + m)
        by_suite = {}
        for c in mod.cases({"tier": "quick", "seed": seed, "prop": m[:3]}):
            if c.info is None or "illegal" in (c.cls or "") or c.cls.startswith("D"):
                continue
            if c.suite == getattr(mod, "MODE_SUITE", None):
                continue        # answered by a child interpreter: no family is built in THIS process, nothing to wrap

            by_suite.setdefault(c.suite, []).append(c)
        for s in sorted(by_suite):
            for c in pick(rng, by_suite[s], per_suite):
                out.append(dict(mod=m, suite=s, info=c.info, shift=rng.choice(shifts), user_opb=rng.random() < .4))
    return out


def cases(ctx):
    for info in infos(ctx):
        try:
            yield build("fam_after_user", info)
        except Exception:
            continue


def search(ctx, case):
    r = common.run_oracle(case)
    if r is not None:
        return {"suite": case.suite, "info": case.info, "failure": r}
    return None
