"""C08 (sweep) — every formula sub-command over a systematic size grid, CNF class against OPB class.

Oracle (the property itself on the real code): the same command line tail is parsed by the parser of `cnfgen` and by the
parser of `pbgen` (the tools' own `setup_command_line_parsers` / `parse_command_line`, set up once per run) and built by the
sub-command's helper with the tool's formula class after the tool's own seeding; a sample of the cases goes through the
complete `cli(...)` of both tools instead.  The two formulas must have the same number of variables, the same names in the
same order and the same satisfying assignments:
  * exactly (bit-parallel truth tables over all 2^n assignments) when n and the formula are small enough;
  * otherwise on structured assignments — all false, all true, every variable alone true / alone false — and along walks
    that are steered towards the models of the CNF side, then towards the models of the OPB side (at every model reached:
    all its single-flip neighbours), comparing the two verdicts after every flip.  Every reported difference is an actual
    assignment accepted by exactly one of the two formulas.
Correspondence: the `both` request of C08 on a literal list derived from the size (the per-family ties are C01-C03's).
"""
import contextlib
import io
import os
import random
import shutil
import sys
import tempfile

from harness import common
from harness.common import Case, req, enc_list, ok, OPCODE, fmt_clauses, fmt_pbcs

from cnfgen.formula.cnf import CNF
from cnfgen.formula.opb import OPB
from cnfgen.formula.linear import CNFLinear
from cnfgen.formula.baseopb import BaseOPB

RULE = ("sweep: ~120 command shapes covering every formula sub-command (each size parameter of each family in turn, the others "
        "small; options rotated with the size); sizes 0..40 (each shape up to what it can afford), around the powers of two "
        "beyond, and around the integer constants of the current source (common.probe_sizes, wide); exact model-set comparison "
        "up to 16-20 variables, structured assignments and two-sided model-seeking walks above; a sample through the complete "
        "cli() of both tools; distinct = distinct command line")
ASSUMPTIONS = []
NOTES = ["sweep: a command line that BOTH tools refuse counts as agreement (trivial case); one refusing alone is a failure"]

METH = {"<=": "cardinality_leq", ">=": "cardinality_geq", "==": "cardinality_eq", "!=": "cardinality_neq"}
ANCHORS = ["formula/opb.py", "formula/baseopb.py", "formula/cnf.py", "formula/basecnf.py", "formula/variables.py",
           "formula/linear.py", "clitools/pbgen.py", "families/pigeonhole.py", "families/subgraph.py", "families/cpls.py",
           "families/counting.py", "families/coloring.py", "families/ramsey.py", "families/pebbling.py", "families/ordering.py",
           "families/tseitin.py", "families/subsetcardinality.py", "families/dominatingset.py", "families/graphisomorphism.py",
           "families/cliquecoloring.py", "families/simple.py", "families/randomformulas.py", "families/pitfall.py"]


def quiet(f):
    with contextlib.redirect_stderr(io.StringIO()), contextlib.redirect_stdout(io.StringIO()):
        return f()


# ------------------------------------------------------------------------------------------------ the shapes
def _rot(s, *alts):
    return list(alts[s % len(alts)])


def shapes():
    """(label, f(s) -> argv tail or None, largest size in the quick tier, largest size in the thorough tier)"""
    S = []

    def add(label, f, q, t=None):
        S.append((label, f, q, t if t is not None else max(q, min(4 * q, 1025))))
    PHPF = ([], ["--functional"], ["--onto"], ["--functional", "--onto"])
    # simple formulas
    add("or s 0", lambda s: ["or", s, 0], 1025, 8200)
    add("or 0 s", lambda s: ["or", 0, s], 1025, 8200)
    add("or s s/2", lambda s: ["or", s, s // 2], 260, 1025)
    add("and s 1", lambda s: ["and", s, 1], 1025, 8200)
    add("and 1 s", lambda s: ["and", 1, s], 1025, 8200)
    add("true", lambda s: ["true"] if s == 0 else None, 0)
    add("false", lambda s: ["false"] if s == 0 else None, 0)
    # pigeonhole principles
    add("php s 1", lambda s: ["php", s, 1] + _rot(s, *PHPF), 130, 520)
    add("php 1 s", lambda s: ["php", 1, s] + _rot(s, *PHPF), 130, 520)
    add("php s 2", lambda s: ["php", s, 2] + _rot(s + 1, *PHPF), 40, 130)
    add("php 2 s", lambda s: ["php", 2, s] + _rot(s + 2, *PHPF), 40, 130)
    add("php 3 s", lambda s: ["php", 3, s] + _rot(s + 3, *PHPF), 20, 65)
    add("php s s", lambda s: ["php", s, s] + _rot(s, *PHPF), 6, 9)
    add("php s+1 s", lambda s: ["php", s + 1, s] + _rot(s + 1, *PHPF), 5, 8)
    add("php s", lambda s: ["php", s] if s >= 1 else None, 5, 8)
    add("php complete s 2", lambda s: ["php", "complete", s, 2] + _rot(s, *PHPF[:3]), 20, 65)
    add("php complete 2 s", lambda s: ["php", "complete", 2, s] + _rot(s + 1, *PHPF[:3]), 20, 65)
    add("php shift s s 0 1", lambda s: ["php", "shift", s, s, 0, 1] + _rot(s, *PHPF[:3]) if s >= 2 else None, 17, 65)
    add("php s 3 2", lambda s: ["php", s, 3, 2] + _rot(s, *PHPF[:3]) if s >= 1 else None, 17, 65)
    add("php glrp", lambda s: ["php", "glrp", 3, s, ".5"] if s >= 1 else None, 12, 40)
    add("bphp 1 s", lambda s: ["bphp", 1, s] if s >= 1 else None, 1025, 8200)
    add("bphp 2 s", lambda s: ["bphp", 2, s] if s >= 1 else None, 260, 1025)
    add("bphp 3 s", lambda s: ["bphp", 3, s] if s >= 1 else None, 65, 260)
    add("bphp 5 s", lambda s: ["bphp", 5, s] if s >= 1 else None, 40, 130)
    add("bphp s 2", lambda s: ["bphp", s, 2] if s >= 1 else None, 40, 130)
    add("bphp s 3", lambda s: ["bphp", s, 3] if s >= 1 else None, 40, 130)
    add("bphp s 11", lambda s: ["bphp", s, 11] if s >= 1 else None, 17, 40)
    add("bphp s+1 s", lambda s: ["bphp", s + 1, s] if s >= 1 else None, 12, 33)
    add("rphp s 2 2", lambda s: ["rphp", s, 2, 2], 17, 40)
    add("rphp 2 s 2", lambda s: ["rphp", 2, s, 2], 17, 40)
    add("rphp 2 2 s", lambda s: ["rphp", 2, 2, s], 17, 40)
    add("rphp s s s", lambda s: ["rphp", s, s, s], 3, 4)
    add("cliquecoloring s 2 2", lambda s: ["cliquecoloring", s, 2, 2], 9, 17)
    add("cliquecoloring 4 s 2", lambda s: ["cliquecoloring", 4, s, 2] if s >= 1 else None, 9, 17)
    add("cliquecoloring 4 2 s", lambda s: ["cliquecoloring", 4, 2, s] if s >= 1 else None, 17, 40)
    # counting
    add("parity s", lambda s: ["parity", s], 9, 12)
    add("count s 2", lambda s: ["count", s, 2], 8, 11)
    add("count s 3", lambda s: ["count", s, 3], 7, 9)
    add("count 6 s", lambda s: ["count", 6, s] if s >= 1 else None, 8, 8)
    add("matching complete s", lambda s: ["matching", "complete", s], 7, 9)
    add("matching grid 2 s", lambda s: ["matching", "grid", 2, s] if s >= 1 else None, 17, 40)
    add("matching torus s", lambda s: ["matching", "torus", s] if s >= 3 else None, 40, 130)
    add("matching gnd s 3", lambda s: ["matching", "gnd", s, 3] if s >= 4 and s % 2 == 0 else None, 16, 40)
    for ch in ("first", "zero", "one", "random", "randomodd", "randomeven"):
        add("tseitin {} torus s".format(ch), lambda s, ch=ch: ["tseitin", ch, "torus", s] if s >= 3 and (s + len(ch)) % 3 == 0 else None, 40, 130)
    add("tseitin first grid 2 s", lambda s: ["tseitin", "first", "grid", 2, s] if s >= 1 else None, 12, 40)
    add("tseitin one complete s", lambda s: ["tseitin", "one", "complete", s] if s >= 1 else None, 7, 8)
    add("tseitin random gnd s 3", lambda s: ["tseitin", "random", "gnd", s, 3] if s >= 4 and s % 2 == 0 else None, 12, 30)
    add("tseitin s", lambda s: ["tseitin", s] if s >= 5 else None, 9, 12)
    add("tseitin s 3", lambda s: ["tseitin", s, 3] if s >= 4 and s % 2 == 0 else None, 12, 30)
    add("subsetcard complete s 3", lambda s: ["subsetcard", "complete", s, 3] + _rot(s, [], ["--equal"]), 10, 13)
    add("subsetcard complete 3 s", lambda s: ["subsetcard", "complete", 3, s] + _rot(s + 1, [], ["--equal"]), 10, 13)
    add("subsetcard shift", lambda s: ["subsetcard", "shift", s, s, 0, 1, 3] + _rot(s, [], ["--equal"]) if s >= 4 else None, 17, 40)
    add("subsetcard s", lambda s: ["subsetcard", s] if s >= 4 else None, 12, 30)
    add("subsetcard s 3", lambda s: ["subsetcard", s, 3] if s >= 3 else None, 12, 30)
    # graph formulas
    add("kcolor 2 torus s", lambda s: ["kcolor", 2, "torus", s] if s >= 3 else None, 40, 130)
    add("kcolor 3 grid 2 s", lambda s: ["kcolor", 3, "grid", 2, s] if s >= 1 else None, 12, 30)
    add("kcolor s complete 3", lambda s: ["kcolor", s, "complete", 3] if s >= 1 else None, 40, 130)
    add("kcolor 3 gnp", lambda s: ["kcolor", 3, "gnp", s, ".4"] if s >= 1 else None, 12, 30)
    add("kcolor 3 empty s", lambda s: ["kcolor", 3, "empty", s], 40, 130)
    add("ec torus s", lambda s: ["ec", "torus", s] if s >= 3 else None, 40, 130)
    add("ec torus 3 s", lambda s: ["ec", "torus", 3, s] if s >= 3 else None, 6, 12)
    add("ec complete s", lambda s: ["ec", "complete", s] if s % 2 == 1 else None, 7, 7)
    add("domset 1 complete s", lambda s: ["domset"] + _rot(s, [], ["--alternative"]) + [1, "complete", s] if s >= 1 else None, 17, 40)
    add("domset 2 torus s", lambda s: ["domset"] + _rot(s + 1, [], ["-a"]) + [2, "torus", s] if s >= 3 else None, 17, 40)
    add("domset s grid 2 3", lambda s: ["domset"] + _rot(s, [], ["-a"]) + [s, "grid", 2, 3] if s >= 1 else None, 12, 17)
    add("tiling torus s", lambda s: ["tiling", "torus", s] if s >= 3 else None, 40, 130)
    add("tiling grid 2 s", lambda s: ["tiling", "grid", 2, s] if s >= 1 else None, 17, 40)
    add("tiling complete s", lambda s: ["tiling", "complete", s], 9, 12)
    add("iso torus s", lambda s: ["iso", "torus", s] if s >= 3 else None, 7, 10)
    add("iso complete s -e", lambda s: ["iso", "complete", s, "-e", "complete", s], 5, 7)
    add("iso grid -e torus", lambda s: ["iso", "grid", s, "-e", "torus", s] if s >= 3 else None, 6, 8)
    add("iso empty s -e empty s+1", lambda s: ["iso", "empty", s, "-e", "empty", s + 1], 5, 7)
    add("kclique 2 torus s", lambda s: ["kclique", 2, "torus", s] + _rot(s, [], ["--no-symmetry-breaking"]) if s >= 3 else None, 17, 40)
    add("kclique 3 complete s", lambda s: ["kclique", 3, "complete", s] + _rot(s + 1, [], ["--no-symmetry-breaking"]), 9, 12)
    add("kclique s complete 5", lambda s: ["kclique", s, "complete", 5], 7, 7)
    add("kclique 3 gnp", lambda s: ["kclique", 3, "gnp", s, ".6"] if s >= 1 else None, 9, 12)
    add("kcliquebin 1 empty s", lambda s: ["kcliquebin", 1, "empty", s] if s >= 1 else None, 1025, 4100)
    add("kcliquebin 1 torus s", lambda s: ["kcliquebin", 1, "torus", s] if s >= 3 else None, 260, 1025)
    add("kcliquebin 2 complete s", lambda s: ["kcliquebin", 2, "complete", s] if s >= 1 else None, 65, 130)
    add("kcliquebin 3 complete s", lambda s: ["kcliquebin", 3, "complete", s] if s >= 1 else None, 40, 65)
    add("kcliquebin 2 torus s", lambda s: ["kcliquebin", 2, "torus", s] if s >= 3 else None, 33, 65)
    add("kcliquebin 2 gnp", lambda s: ["kcliquebin", 2, "gnp", s, ".7"] if s >= 1 else None, 33, 65)
    add("kcliquebin s complete 9", lambda s: ["kcliquebin", s, "complete", 9], 5, 7)
    add("ramlb 2 2 torus s", lambda s: ["ramlb", 2, 2, "torus", s] if s >= 3 else None, 12, 20)
    add("ramlb 3 2 complete s", lambda s: ["ramlb", 3, 2, "complete", s], 6, 8)
    add("ramlb s 2 grid 2 3", lambda s: ["ramlb", s, 2, "grid", 2, 3], 5, 7)
    add("subgraph -G torus s -H complete 2", lambda s: ["subgraph", "-G", "torus", s, "-H", "complete", 2] if s >= 3 else None, 12, 20)
    add("subgraph -G complete 4 -H grid s", lambda s: ["subgraph", "-G", "complete", 4, "-H", "grid", s] if s >= 1 else None, 4, 5)
    add("subgraph -G gnp -H torus 3", lambda s: ["subgraph", "-G", "gnp", s, ".5", "-H", "torus", 3] if s >= 1 else None, 7, 9)
    # ordering
    OPF = ([], ["--total"], ["--smart"], ["--plant"], ["--knuth2"], ["--knuth3"], ["--total", "--plant"])
    add("op s", lambda s: ["op"] + _rot(s, *OPF) + [s] if s >= 1 else None, 6, 8)
    add("op' s", lambda s: ["op"] + _rot(s + 3, *OPF) + [s] if s >= 1 else None, 6, 8)
    add("op torus s", lambda s: ["op"] + _rot(s, *OPF[:4]) + ["torus", s] if s >= 3 else None, 9, 17)
    add("op s 3", lambda s: ["op"] + _rot(s, *OPF[:4]) + [s, 3] if s >= 4 and s % 2 == 0 else None, 8, 12)
    # pebbling
    add("peb path s", lambda s: ["peb", "path", s], 40, 260)
    add("peb pyramid s", lambda s: ["peb", "pyramid", s], 6, 12)
    add("peb tree s", lambda s: ["peb", "tree", s], 4, 6)
    add("stone s path 2", lambda s: ["stone", s, "path", 2] if s >= 1 else None, 12, 30)
    add("stone 2 path s", lambda s: ["stone", 2, "path", s], 12, 30)
    add("stone 2 pyramid s", lambda s: ["stone", 2, "pyramid", s], 3, 4)
    add("stone 3 pyramid 2 --sparse", lambda s: ["stone", 3, "pyramid", 2, "--sparse", s] if s >= 1 else None, 3, 3)
    # ramsey-like
    add("ram 3 3 s", lambda s: ["ram", 3, 3, s], 7, 8)
    add("ram 2 3 s", lambda s: ["ram", 2, 3, s], 8, 10)
    add("ram s 2 5", lambda s: ["ram", s, 2, 5] if s >= 1 else None, 7, 7)
    add("ptn s", lambda s: ["ptn", s], 130, 520)
    add("vdw s 3 3", lambda s: ["vdw", s, 3, 3], 40, 130)
    add("vdw s 2 2 2", lambda s: ["vdw", s, 2, 2, 2], 17, 40)
    add("vdw 9 s 3", lambda s: ["vdw", 9, s, 3] if s >= 1 else None, 12, 12)
    add("cpls s 2 2", lambda s: ["cpls", s, 2, 2] if s >= 1 else None, 5, 7)
    add("cpls 2 s 2", lambda s: ["cpls", 2, s, 2] if s >= 1 else None, 8, 16)
    add("cpls 2 2 s", lambda s: ["cpls", 2, 2, s] if s >= 1 else None, 33, 130)
    add("cpls 1 s s", lambda s: ["cpls", 1, s, s] if s >= 1 else None, 8, 16)
    # random formulas
    add("randkcnf 3 s+3 s", lambda s: ["randkcnf", 3, s + 3, s] + _rot(s, [], ["--plant"]), 40, 130)
    add("randkcnf s s 3", lambda s: ["randkcnf", s, s, 3] if s >= 1 else None, 17, 40)
    add("randkxor 3 s+3 s/2", lambda s: ["randkxor", 3, s + 3, s // 2] + _rot(s, [], ["--plant"]), 40, 130)
    add("randkxor s s+1 2", lambda s: ["randkxor", s, s + 1, 2] if s >= 1 else None, 8, 10)
    add("pitfall s 3 2 2 2", lambda s: ["pitfall", s, 3, 2, 2, 2] if s >= 4 and s % 2 == 0 else None, 8, 12)
    add("pitfall 4 3 s 2 2", lambda s: ["pitfall", 4, 3, s, 2, 2] if s >= 1 else None, 5, 8)
    add("pitfall 4 3 2 s 2", lambda s: ["pitfall", 4, 3, 2, s, 2] if s >= 1 else None, 5, 8)
    add("pitfall 4 3 2 2 s", lambda s: ["pitfall", 4, 3, 2, 2, s] if s >= 2 and s % 2 == 0 else None, 6, 8)
    # a DIMACS file (written by the case itself): s clauses over s/2+1 variables
    add("dimacs", lambda s: ["dimacs", "@dimacs:{}".format(s)], 40, 260)
    return S


def grid(tier, qmax, tmax, salt=0):
    """sizes of one shape: 0..40 (quick tier: all of them for the shapes that can afford sizes beyond 128, else all up to 12
    and every third above, the residue depending on the shape and the run's seed), around the powers of two beyond,
    around the constants of the current source"""
    top = qmax if tier == "quick" else tmax
    sizes = set(range(0, min(top, 40) + 1))
    if tier == "quick" and qmax < 130:
        sizes = {x for x in sizes if x <= 12 or (x + salt) % 3 == 0}
    e = 5
    while (1 << e) - 1 <= top:
        sizes.update(x for x in ((1 << e) - 1, 1 << e, (1 << e) + 1) if x <= top)
        e += 1
    sizes.update(common.probe_sizes(ANCHORS, 0, top, wide=True))
    return sorted(sizes)


# ------------------------------------------------------------------------------------------------ building both sides
_PARSERS = {}


def _parsers():
    if not _PARSERS:
        import cnfgen.clitools           # noqa
        import cnfgen.clitools.pbgen     # noqa
        from cnfgen.clitools.cmdline import get_formula_helpers, get_transformation_helpers
        mc, mp = sys.modules["cnfgen.clitools.cnfgen"], sys.modules["cnfgen.clitools.pbgen"]
        c = (mc, mc.setup_command_line_parsers("cnfgen", get_formula_helpers(), get_transformation_helpers()))
        p = (mp, mp.setup_command_line_parsers("pbgen", get_formula_helpers()))
        _PARSERS.update(c=c, p=p)
    return _PARSERS


def build_pair(argv, mode):
    """(CNF formula, OPB formula) of the command line tail `argv` (strings), or an exception instance per side"""
    from cnfgen.clitools import cnfgen as cli_cnfgen
    from cnfgen.clitools.pbgen import cli as cli_pbgen

    def run(f):
        try:
            return quiet(f)
        except BaseException as e:  # noqa: SystemExit from argparse included
            if isinstance(e, KeyboardInterrupt):
                raise
            return e
    P = None
    if mode != "cli":
        try:
            P = _parsers()
        except Exception:  # noqa: the tools' parser functions are not what they were: use the complete cli() instead
            P = None
    if P is None:
        return (run(lambda: cli_cnfgen(["cnfgen"] + argv, mode="formula")),
                run(lambda: cli_pbgen(["pbgen"] + argv, mode="formula")))

    def fast_c():
        mc, (fp, tp) = P["c"]
        args, _ = mc.parse_command_line(["cnfgen"] + argv, fp, tp)
        if getattr(args, "seed", None) is not None:
            random.seed(args.seed)
        return args.generator.build_formula(args, formula_class=CNF)

    def fast_p():
        mp, pp = P["p"]
        args = mp.parse_command_line(["pbgen"] + argv, pp)
        if getattr(args, "seed", None) is not None:
            random.seed(args.seed)
        return args.generator.build_formula(args, formula_class=OPB)
    return run(fast_c), run(fast_p)


# ------------------------------------------------------------------------------------------------ comparing model sets
def as_pb(F):
    """constraints of a CNF or OPB object as (terms [(coef, lit)], op, rhs)"""
    out = []
    if isinstance(F, BaseOPB):
        for c in F:
            c = list(c)
            out.append(([(int(a), int(l)) for a, l in c[:-2]], c[-2], int(c[-1])))
    else:
        for c in F:
            out.append(([(1, int(l)) for l in c], ">=", 1))
    return out


def _cmp(op, a, b):
    return (a >= b if op == ">=" else a == b if op == "==" else a <= b if op == "<=" else
            a > b if op == ">" else a < b if op == "<" else a != b)


_TABLES = {}


class Tables:
    """truth tables over all assignments to n variables as Python integers: bit k of a table = value at the assignment in
    which variable i (1-based) is true iff bit i-1 of k is set"""

    def __init__(self, n):
        self.n = n
        self.mask = (1 << (1 << n)) - 1
        self.var = [0]
        for i in range(n):
            half = 1 << i
            x, width = ((1 << half) - 1) << half, 2 * half
            while width < (1 << n):
                x |= x << width
                width *= 2
            self.var.append(x)

    def lit(self, l):
        return self.var[l] if l > 0 else self.var[-l] ^ self.mask

    def constraint(self, terms, op, rhs):
        if op == ">=" and rhs == 1 and all(a == 1 for a, _ in terms):
            t = 0
            for _, l in terms:
                t |= self.lit(l)
            return t
        slices = []
        for a, l in terms:
            x = self.lit(l)
            if a < 0:                       # a*l = |a|*(not l) - |a|
                a, x, rhs = -a, x ^ self.mask, rhs - a
            pos = 0
            while a:
                if a & 1:
                    carry, i = x, pos
                    while carry:
                        while i >= len(slices):
                            slices.append(0)
                        slices[i], carry = slices[i] ^ carry, slices[i] & carry
                        i += 1
                a >>= 1
                pos += 1
        if rhs < 0:
            gt, eq = self.mask, 0
        elif rhs >> len(slices):
            gt, eq = 0, 0
        else:
            gt, eq = 0, self.mask
            for i in range(len(slices) - 1, -1, -1):
                if (rhs >> i) & 1:
                    eq &= slices[i]
                else:
                    gt |= eq & slices[i]
                    eq &= slices[i] ^ self.mask
        return {">=": gt | eq, ">": gt, "<=": gt ^ self.mask, "<": (gt | eq) ^ self.mask, "==": eq, "!=": eq ^ self.mask}[op]

    def models(self, cons):
        t = self.mask
        for terms, op, rhs in cons:
            t &= self.constraint(terms, op, rhs)
            if not t:
                break
        return t


class State:
    """a constraint list under one assignment, updated flip by flip"""

    def __init__(self, cons, n):
        self.cons = cons
        self.occ = [[] for _ in range(n + 1)]
        for ci, (terms, op, rhs) in enumerate(cons):
            for a, l in terms:
                self.occ[abs(l)].append((ci, a, l > 0))
        self.lhs = [0] * len(cons)
        self.ops = [0 if op == ">=" else 1 if op == "==" else 2 for _, op, _ in cons]
        self.rhs = [rhs for _, _, rhs in cons]
        self.isbad = bytearray(len(cons))
        self.bad = set()

    def load(self, alpha):
        for ci, (terms, op, rhs) in enumerate(self.cons):
            x = 0
            for a, l in terms:
                if (alpha[l] if l > 0 else not alpha[-l]):
                    x += a
            self.lhs[ci] = x
            self.isbad[ci] = 0 if _cmp(op, x, rhs) else 1
        self.bad = {ci for ci in range(len(self.cons)) if self.isbad[ci]}

    def flip(self, v, newval):
        lhs, bad, ops, rhs, isbad = self.lhs, self.bad, self.ops, self.rhs, self.isbad
        for ci, a, positive in self.occ[v]:
            x = lhs[ci] + (a if positive == newval else -a)
            lhs[ci] = x
            op = ops[ci]
            good = x >= rhs[ci] if op == 0 else x == rhs[ci] if op == 1 else _cmp(self.cons[ci][1], x, rhs[ci])
            if good == isbad[ci]:          # the status of the constraint changes
                if good:
                    isbad[ci] = 0
                    bad.discard(ci)
                else:
                    isbad[ci] = 1
                    bad.add(ci)


def walk_compare(ca, cb, n, rng, budget):
    """None, or an assignment on which the two constraint lists disagree.  `budget` bounds the work (term visits)"""
    A, B = State(ca, n), State(cb, n)
    alpha = [False] * (n + 1)
    size = sum(len(t) for t, _, _ in ca) + sum(len(t) for t, _, _ in cb) + 1
    occ = [len(A.occ[v]) + len(B.occ[v]) + 1 for v in range(n + 1)]
    work = [0]

    def load(bits):
        for v in range(1, n + 1):
            alpha[v] = bits(v)
        A.load(alpha)
        B.load(alpha)
        work[0] += size

    def differ():
        return (not A.bad) != (not B.bad)

    def flip(v):
        alpha[v] = not alpha[v]
        A.flip(v, alpha[v])
        B.flip(v, alpha[v])
        work[0] += occ[v]

    def witness():
        return {"true_variables": [v for v in range(1, n + 1) if alpha[v]], "cnf_accepts": not A.bad, "opb_accepts": not B.bad}

    def neighbours(limit):
        vs = list(range(1, n + 1))
        if len(vs) > limit:
            vs = rng.sample(vs, limit)
        for v in vs:
            flip(v)
            if differ():
                return True
            flip(v)
        return False
    # structured assignments: the two constant ones and their single-flip neighbours
    for const in (False, True):
        load(lambda v: const)
        if differ() or neighbours(max(8, min(n, budget // (8 * (2 * size // max(n, 1) + 1))))):
            return witness()
    # walks steered by one side, then by the other; at every model reached: its single-flip neighbours
    starts = [lambda v: False, lambda v: True] + [(lambda p: (lambda v: rng.random() < p))(p) for p in (.5, .2, .8, .5)]
    rnd = 0
    while work[0] < budget:
        guide = (A, B)[rnd % 2]
        load(starts[(rnd // 2) % len(starts)])
        rnd += 1
        if differ():
            return witness()
        stop = work[0] + max(budget // 6, 3 * size)
        while work[0] < stop:
            if not guide.bad:
                if neighbours(64):
                    return witness()
                for v in rng.sample(range(1, n + 1), min(n, rng.randint(1, 3))):
                    flip(v)
                    if differ():
                        return witness()
                continue
            ci = rng.choice(tuple(guide.bad)) if len(guide.bad) < 30 else next(iter(guide.bad))
            vs = list({abs(l) for _, l in guide.cons[ci][0]})
            if not vs:
                break
            if rng.random() < .35 or len(vs) > 10:
                v = rng.choice(vs)
            else:
                best, v = None, vs[0]
                for u in vs:
                    guide.flip(u, not alpha[u])
                    score = len(guide.bad)
                    guide.flip(u, alpha[u])
                    work[0] += occ[u]
                    if best is None or score < best or (score == best and rng.random() < .5):
                        best, v = score, u
            flip(v)
            if differ():
                return witness()
    return None


def compare_formulas(A, B, rng, tier):
    """None or a description of the difference between the CNF-class formula A and the OPB-class formula B"""
    if not isinstance(A, CNF) or not isinstance(B, OPB):
        return {"classes_built": [type(A).__name__, type(B).__name__]}
    n = A.number_of_variables()
    if n != B.number_of_variables():
        return {"number_of_variables": [n, B.number_of_variables()]}
    la, lb = list(A.all_variable_labels()), list(B.all_variable_labels())
    if la != lb:
        k = next((i for i, (x, y) in enumerate(zip(la, lb)) if x != y), min(len(la), len(lb)))
        return {"names_differ_at_variable": k + 1, "cnf": la[k:k + 1], "opb": lb[k:k + 1]}
    ca, cb = as_pb(A), as_pb(B)
    n = max([n] + [abs(l) for cons in (ca, cb) for terms, _, _ in cons for _, l in terms])
    size = sum(len(t) for t, _, _ in ca) + sum(len(t) for t, _, _ in cb) + 1
    # all 2^n assignments at once when that costs at most a few tens of milliseconds (2^n-bit integers, one operation per term)
    if n <= (22 if tier == "quick" else 24) and size * (1 + 2 ** (n - 13)) <= (300000 if tier == "quick" else 4000000):
        T = _TABLES.get(n) or _TABLES.setdefault(n, Tables(n))
        d = T.models(ca) ^ T.models(cb)
        if d:
            k = (d & -d).bit_length() - 1
            return confirm(A, B, [v for v in range(1, n + 1) if (k >> (v - 1)) & 1])
        return None
    w = walk_compare(ca, cb, n, rng, min(60000 if tier == "quick" else 1500000, 3000 + 30 * size))
    return confirm(A, B, w["true_variables"]) if w else None


class common_alpha(dict):
    def __missing__(self, v):
        return False


def confirm(A, B, true_vars):
    """the difference found, re-evaluated from scratch on the formula objects (nothing is reported on the word of the
    fast evaluators alone)"""
    alpha = common_alpha()
    for v in true_vars:
        alpha[v] = True
    a, b = common.cnf_holds([list(c) for c in A], alpha), common.opb_holds([list(c) for c in B], alpha)
    if a == b:
        return None
    return {"true_variables": list(true_vars), "cnf_accepts": a, "opb_accepts": b}


def dimacs_text(s, rng):
    nv = s // 2 + 1
    lines = ["c written by the C08 sweep", "p cnf {} {}".format(nv, s)]
    for _ in range(s):
        k = rng.randint(0, min(3, nv))
        vs = rng.sample(range(1, nv + 1), k)
        lines.append(" ".join(str(v if rng.random() < .5 else -v) for v in vs) + (" 0" if vs else "0"))
    text = "\n".join(lines) + "\n"
    if s % 2 == 1:          # file size is a dimension of its own (common.file_sizes): every other file is padded with comment lines
        fs = common.file_sizes()
        text = common.pad_text(text, "cnf", fs[(s // 2) % len(fs)])
    return text


def sweep_case(info):
    argv, s, mode, tier = [str(a) for a in info["argv"]], info["seed"], info.get("mode", "fast"), info.get("tier", "quick")
    size = info.get("size", 0)

    def oracle():
        rng = common.sub_rng(s, "C08-sweep-case", *argv)
        tmp = None
        full = ["-q", "--seed", str(s)] + argv
        try:
            for i, a in enumerate(full):
                if a.startswith("@dimacs:"):
                    tmp = tempfile.mkdtemp(prefix="verif-c08-")
                    path = os.path.join(tmp, "f.cnf")
                    with open(path, "w") as fh:
                        fh.write(dimacs_text(int(a.split(":")[1]), rng))
                    full[i] = path
            A, B = build_pair(full, mode)
        finally:
            if tmp:
                shutil.rmtree(tmp, ignore_errors=True)
        ea, eb = isinstance(A, BaseException), isinstance(B, BaseException)
        if ea and eb:
            return None
        if ea or eb:
            return {"argv": argv, "seed": s, "cnfgen": type(A).__name__, "pbgen": type(B).__name__,
                    "what": "one tool refuses what the other builds", "msg": str(A if ea else B)[:200]}
        r = compare_formulas(A, B, rng, tier)
        if r is not None:
            r.update(argv=argv, seed=s, mode=mode, variables=A.number_of_variables())
        return r
    k = size % 7
    lits = [(i + 1) * (-1 if (size >> i) & 1 else 1) for i in range(k)]
    op = ["<=", ">=", "<", ">", "==", "!="][size % 6]
    kk = size % 5 - 1

    def impl():
        X = CNFLinear()
        X.add_linear(list(lits), op, kk)
        Y = BaseOPB()
        if op in METH:
            getattr(Y, METH[op])(list(lits), kk)
        else:
            Y.add_constraint([(1, l) for l in lits] + [op, kk])
        return ok(fmt_clauses(X) + " || " + fmt_pbcs(Y))
    return Case("sweep", req("both", OPCODE[op], kk, enc_list(lits)), impl, oracle,
                cls=argv[0] + (":cli" if mode == "cli" else ""), nontrivial=True, info=info)


def build(suite, info):
    if suite == "sweep":
        return sweep_case(info)
    raise ValueError("unknown suite " + suite)


def sweep_infos(ctx):
    tier, seed = ctx["tier"], ctx["seed"]
    rng = common.sub_rng(seed, "C08-sweep")
    out = []
    for label, f, qmax, tmax in shapes():
        for s in grid(tier, qmax, tmax, seed + common._crc(label)):
            argv = f(s)
            if argv is None:
                continue
            out.append({"argv": [str(a) for a in argv], "seed": rng.randrange(10 ** 6), "size": s, "shape": label,
                        "tier": tier, "mode": "fast"})
    # a sample through the complete command line interface of both tools: every shape at two of its sizes
    by_shape = {}
    for i in out:
        by_shape.setdefault(i["shape"], []).append(i)
    for label in by_shape:
        g = by_shape[label]
        if tier == "quick":
            continue
        for i in rng.sample(g, min(len(g), 4)):
            out.append(dict(i, mode="cli"))
    if tier == "quick":
        # (the `family` suite of C08.py runs every sub-command through both tools as well)
        for i in rng.sample(out, min(len(out), 40)):
            out.append(dict(i, mode="cli"))
    return out


def cases(ctx):
    for info in sweep_infos(ctx):
        yield sweep_case(info)


def search(ctx, case):
    r = common.run_oracle(case)
    if r is not None:
        return {"suite": case.suite, "info": case.info, "failure": r}
    return None
