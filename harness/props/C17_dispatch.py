"""C17 (dispatch) — the command line -> library call mapping, model vs code.

Correspondence: every library generator / transformation that the helper modules import is replaced, in the
harness process only, by a recording stub (so is `make_graph_from_spec`: a graph argument is compared as the
token list the command line handed over).  The REAL `cnfgen` / `pbgen` `cli([...], mode='formula')` is run
on structured command lines and what reached the library -- (function name, positional values, keyword
values) or the CLIError -- is compared with `dispatch` of lean/CnfgenModel/Cli/Dispatch.lean, which
interprets the call templates that tools/extract_tables.py regenerates from the helpers' source.

The command lines are generated from the argparse parsers themselves (their `_actions`), not from the
translator's tables: every handled sub-command x every subset of its flags (each spelling, before / after /
between the positionals) x numeric tokens at and around the validators' bounds x missing / extra / misplaced
arguments x graph arguments of several shapes; `php` additionally with 0..4 numeric tokens.
No oracle of its own: the property is evaluated by the oracle of harness/props/C17.py.
"""
import contextlib
import importlib
import io
import itertools
import pkgutil

from harness import common
from harness.common import Case, req, enc_str

import cnfgen.clihelpers
from cnfgen.clitools import cnfgen as cli_cnfgen
from cnfgen.clitools.pbgen import cli as cli_pbgen
from cnfgen.clitools import CLIError
import sys
cnfgen_tool = sys.modules["cnfgen.clitools.cnfgen"]     # (the package attribute `cnfgen` is the cli function)
import cnfgen.clitools.graph_args as graph_args
from cnfgen.clitools.cmdline import get_formula_helpers, get_transformation_helpers
from cnfgen.formula.cnf import CNF
from cnfgen.formula.opb import OPB
from cnfgen.formula.basecnf import BaseCNF

RULE = ("d_*: command lines synthesised from the argparse parsers: sub-command x flag subsets (all spellings, all "
        "placements) x tokens around validator bounds x wrong arities x graph-argument shapes; distinct = distinct "
        "(tool, sub-command, argv); a case is trivial when argv is empty")
ASSUMPTIONS = ["values the model keeps opaque (`?`: random vectors, graphs built from the formula's size) are not compared",
               "tseitin with a graph FILE is `unsupported` in the model (it cannot know `G.order()`); constructed graphs are handled",
               "dispatch models argparse on the fragment: exact option strings, arguments not starting with '-' "
               "(or negative numbers); abbreviations, --opt=value, clustered short flags, '--', -h are outside",
               "graph arguments are opaque token lists on both sides (make_graph_from_spec is stubbed): what it builds "
               "or refuses is C15's subject"]
NOTES = ["dispatch correspondence: recording stubs for every generator imported by cnfgen.clihelpers.*; "
         "tools/extract_tables.py call templates interpreted by Cli/Dispatch.lean"]
TRUSTED_EXTRA = ["PHPArgs (custom argparse action of php) is modelled by hand (Cli/Dispatch.lean: phpArgs), tied by d_php"]


# ------------------------------------------------------------------ stubs
class GraphStub:
    """stands for make_graph_from_spec(kind, toks)"""

    def __init__(self, kind, toks):
        self.kind = kind
        self.toks = [str(t) for t in toks]
        self.name = "stub"

    def order(self):
        return 4

    number_of_vertices = order

    def __len__(self):
        return 4


class Opaque:
    pass


RECORD = []


def _helper_modules():
    out = []
    for _, name, _ in pkgutil.walk_packages(cnfgen.clihelpers.__path__):
        out.append(importlib.import_module("cnfgen.clihelpers." + name))
    return out


def _is_library(obj):
    mod = getattr(obj, "__module__", "") or ""
    return callable(obj) and (mod.startswith("cnfgen.families") or mod.startswith("cnfgen.transformations"))


def _make_stub(name):
    def stub(*a, **kw):
        RECORD.append((name, a, kw))
        fc = kw.get("formula_class")
        if isinstance(fc, type):
            return fc()
        if a and isinstance(a[0], BaseCNF):
            return a[0]
        return CNF()
    stub.__name__ = name
    return stub


def _graph_stub(kind, toks):
    return GraphStub(kind, toks)


def _opaque_stub(*a, **kw):
    return Opaque()


@contextlib.contextmanager
def stubbed():
    saved = []

    def patch(mod, attr, val):
        saved.append((mod, attr, getattr(mod, attr)))
        setattr(mod, attr, val)
    try:
        for mod in _helper_modules():
            for attr in list(vars(mod)):
                obj = getattr(mod, attr)
                if attr.startswith("_"):
                    continue
                if _is_library(obj) and not isinstance(obj, type):
                    patch(mod, attr, _make_stub(attr))
                elif attr == "make_graph_from_spec":
                    patch(mod, attr, _graph_stub)
                elif attr == "bipartite_random_left_regular":
                    patch(mod, attr, _opaque_stub)
        patch(graph_args, "make_graph_from_spec", _graph_stub)
        yield
    finally:
        for mod, attr, val in reversed(saved):
            setattr(mod, attr, val)


# ------------------------------------------------------------------ canonical text (same as Driver/Dispatch.lean)
def fmt_str(s):
    return ".".join(str(ord(c)) for c in s)


def fmt_val(v, tool_class, key=None):
    if key == "formula_class":
        return "Pformula_class" if v is tool_class else "?"
    if v is None:
        return "N"
    if isinstance(v, bool):
        return "B1" if v else "B0"
    if isinstance(v, int):
        return "I" + str(v)
    if isinstance(v, str):
        return "S" + fmt_str(v)
    if isinstance(v, GraphStub):
        return "G" + v.kind + ":" + "/".join(fmt_str(t) for t in v.toks)
    if isinstance(v, BaseCNF):
        return "PF"
    return "?"      # lists (charge vectors, planted assignments), opaque stubs


def fmt_call(rec, tool_class):
    name, a, kw = rec
    return "CALL {} P {}{} K {}{}".format(
        name, len(a), "".join(" " + fmt_val(v, tool_class) for v in a),
        len(kw), "".join(" {}={}".format(k, fmt_val(v, tool_class, k)) for k, v in kw.items()))


def run_real(tool, kind, name, argv):
    """what the real command line hands to the library"""
    cli, fc = (cli_cnfgen, CNF) if tool == "cnfgen" else (cli_pbgen, OPB)
    if kind == 0:
        full = [tool, "-q", name] + list(argv)
    else:
        full = [tool, "-q", "and", "1", "1", "-T", name] + list(argv)
    del RECORD[:]
    with stubbed(), contextlib.redirect_stderr(io.StringIO()), contextlib.redirect_stdout(io.StringIO()):
        try:
            cli(full, mode="formula")
        except CLIError:
            return "ERR CLIError"
        except SystemExit as e:
            return "EXIT {}".format(e.code)
        except Exception as e:  # noqa: the kind of exception is the observation
            return "ERR " + type(e).__name__
    if len(RECORD) != 1:
        return "OK CALLS {}".format(len(RECORD))
    if order_unknown(name, RECORD[0]):
        return "UNSUPPORTED"
    return "OK " + fmt_call(RECORD[0], fc)


def order_unknown(name, rec):
    """`tseitin` tests `G.order() < 1`: the model knows that a CONSTRUCTED graph has a vertex, it does not know
    the order of a graph read from a file (the stub graph has 4 vertices): such lines are `unsupported`"""
    if name != "tseitin":
        return False
    for v in rec[1]:
        if isinstance(v, GraphStub) and (not v.toks or v.toks[0] not in CONSTRUCTIONS.get(v.kind, ())):
            return True
    return False


MODEL = {}     # request line -> answer of the driver (filled in bulk by cases())


def model_answer(reqline):
    if reqline not in MODEL:
        MODEL[reqline] = common.run_driver([reqline])[0]
    return MODEL[reqline]


def mask(real, model):
    """the model marks with `?` the values it keeps opaque (random vectors, graphs built from the formula's
    size …): those positions of the real call are not compared"""
    r, m = real.split(" "), model.split(" ")
    if len(r) != len(m):
        return real
    out = []
    for a, b in zip(r, m):
        if b == "?":
            out.append("?")
        elif "=" in a and "=" in b and b.split("=", 1)[1] == "?" and a.split("=", 1)[0] == b.split("=", 1)[0]:
            out.append(b)
        else:
            out.append(a)
    return " ".join(out)


def dispatch_req(kind, name, argv):
    parts = [kind] + enc_str(name) + [len(argv)]
    for t in argv:
        parts += enc_str(t)
    return req("dispatch", parts)


# ------------------------------------------------------------------ the parsers, as argparse sees them
def subparsers():
    """(kind, name) -> argparse parser of the sub-command"""
    fh, th = get_formula_helpers(), get_transformation_helpers()
    cnfgen_tool.setup_command_line_parsers("cnfgen", fh, th)
    out = {}
    for h in fh:
        out[(0, h.name)] = h.subparser
    for h in th:
        out[(1, h.name)] = h.subparser
    return out


def compose_parsers(action):
    """(parser1, parser2) of an action built by `compose_two_parsers` with the default test, else None"""
    call = getattr(type(action), "__call__", None)
    code = getattr(call, "__code__", None)
    clo = getattr(call, "__closure__", None)
    if code is None or clo is None or type(action).__name__ != "TmpAction":
        return None
    env = dict(zip(code.co_freevars, clo))
    try:
        if env["test"].cell_contents not in (None,) and getattr(env["test"].cell_contents, "__name__", "") != "is_first_a_number":
            return None
        return env["parser1"].cell_contents, env["parser2"].cell_contents
    except (KeyError, ValueError):
        return None


def shape(parser):
    """positionals and optionals of a parser: (kind, info) with kind in int/graph/ints/flag/optint/optgraph/other"""
    pos, opts = [], []
    for a in parser._actions:
        cls = type(a).__name__
        if cls == "_HelpAction":
            continue
        tname = getattr(a.type, "__name__", None) if a.type is not None else None
        if isinstance(a, graph_args.ObtainGraphAction):
            k = "graph"
        elif cls in ("_StoreTrueAction", "_StoreFalseAction", "_StoreConstAction"):
            k = "flag"
        elif cls == "_StoreAction" and a.nargs is None and tname in ("positive_int", "nonnegative_int", "positive_even_int", "int"):
            k = "int"
        elif cls == "_StoreAction" and a.nargs == "*" and tname in ("positive_int", "nonnegative_int", "positive_even_int"):
            k = "ints"
        elif compose_parsers(a) is not None and a.nargs == "*" and not a.option_strings:
            k = "compose"
        elif cls == "_StoreAction" and a.nargs == "?" and not a.option_strings and tname in ("positive_int", "int"):
            k = "optint"
        elif cls == "_StoreAction" and a.nargs is None and a.type is None and a.choices and not a.option_strings:
            k = "choice"
        else:
            k = "other"
        if a.option_strings:
            opts.append((k, list(a.option_strings), tname))
        else:
            pos.append((k, tname))
    return pos, opts


GRAPHS = [["complete", "4"], ["grid", "2", "3"], ["gnp", "5", ".5"], ["file.gml"], ["dimacs", "g.x"],
          ["complete", "3", "plantclique", "2"], ["gnd", "6", "3", "save", "out.gml"], ["-"], ["x"], ["7"], ["-3", "2"]]
BOUNDS = ["-1", "0", "1", "2", "3", "4", "+1", "1_0", " 2", "2 ", "2.0", "1e2", "x", "", "-0", "007", "-2.5", "1__0", "inf"]
GOOD = {"positive_int": ["1", "2", "3", "5"], "nonnegative_int": ["0", "1", "2", "4"],
        "positive_even_int": ["2", "4", "6"], "int": ["-2", "0", "3"], None: ["a"]}


def good_tokens(pos, rng, graph_i=0):
    toks = []
    for k, t in pos:
        if k == "int":
            toks.append([rng.choice(GOOD.get(t, ["1"]))])
        elif k == "graph":
            toks.append(list(GRAPHS[graph_i % len(GRAPHS)]))
        elif k == "ints":
            toks.append([rng.choice(GOOD.get(t, ["1"])) for _ in range(rng.randint(0, 3))])
        else:
            toks.append(["1"])
    return toks


def flat(groups):
    return [t for g in groups for t in g]


def argvs_for(kind, name, parser, rng, tier):
    """structured command lines for one sub-command"""
    pos, opts = shape(parser)
    flags = [o for o in opts if o[0] == "flag"]
    valued = [o for o in opts if o[0] in ("int", "graph")]
    out = []

    def mandatory(gi=0):
        """the required valued options (subgraph -G -H) are part of every well-formed line"""
        extra = []
        for k, strings, t in valued:
            act = [a for a in parser._actions if a.option_strings == strings][0]
            if act.required:
                extra += [strings[0]] + (list(GRAPHS[gi % len(GRAPHS)]) if k == "graph" else [rng.choice(GOOD.get(t, ["1"]))])
        return extra

    # 1. flag subsets x spellings x placements
    nrep = 2 if tier == "quick" else 6
    for r in range(len(flags) + 1):
        for sub in itertools.combinations(flags, r):
            for rep in range(nrep):
                groups = good_tokens(pos, rng, rep)
                fl = [rng.choice(f[1]) for f in sub]
                base = flat(groups) + mandatory(rep)
                out.append(fl + base)
                out.append(base + fl)
                if groups and fl:
                    # between positionals (never inside a graph argument … and also inside one)
                    cut = rng.randint(0, len(groups))
                    out.append(flat(groups[:cut]) + fl + flat(groups[cut:]) + mandatory(rep))
                    toks = flat(groups)
                    cut = rng.randint(0, len(toks))
                    out.append(toks[:cut] + fl + toks[cut:] + mandatory(rep))
                    if len(fl) > 1:
                        a = list(fl)
                        rng.shuffle(a)
                        out.append(a[:1] + flat(groups) + a[1:] + mandatory(rep))
                if fl:
                    out.append(fl + fl[:1] + base)          # a flag twice
    # 2. every integer position x tokens around the bounds
    for i, (k, t) in enumerate(pos):
        if k not in ("int", "ints"):
            continue
        for b in BOUNDS:
            groups = good_tokens(pos, rng, i)
            groups[i] = [b] if k == "int" else groups[i] + [b]
            out.append(flat(groups) + mandatory())
    # 3. arity
    groups = good_tokens(pos, rng, 1)
    toks = flat(groups)
    out.append([])
    out.append(mandatory())
    for n in range(len(toks)):
        out.append(toks[:n] + mandatory())
    out.append(toks + ["9"] + mandatory())
    out.append(["9"] + toks + mandatory())
    out.append(toks + ["x", "y"])
    if flags:
        f = flags[0][1][0]
        out.append(toks + [f, "9"] + mandatory())
        out.append(toks[:1] + [f] + toks[1:] + ["9"] + mandatory())
        out.append([f])
    for gi in range(len(GRAPHS)):
        if any(k == "graph" for k, _ in pos):
            out.append(flat(good_tokens(pos, rng, gi)) + mandatory(gi))
    # 4. options that take values
    for k, strings, t in valued:
        for s in strings:
            vals = ([[b] for b in BOUNDS] if k == "int" else [list(g) for g in GRAPHS]) + [[]]
            for v in vals:
                others = []
                for k2, strings2, t2 in valued:
                    if strings2 != strings:
                        act = [a for a in parser._actions if a.option_strings == strings2][0]
                        if act.required:
                            others += [strings2[0]] + list(GRAPHS[1])
                out.append(toks + [s] + v + others)
                out.append([s] + v + others + toks)
                out.append(others + toks[:1] + [s] + v + toks[1:])
            out.append(toks + [s, "3", s, "2"] if k == "int" else toks + [s] + GRAPHS[0] + [s] + GRAPHS[1])
    # 5. random mixtures
    pool = BOUNDS[:8] + [f for fl in flags for f in fl[1]] + [s for o in valued for s in o[1]] + \
        ["complete", "grid", "5", "6", "save", "f.gml"]
    for _ in range(12 if tier == "quick" else 150):
        n = rng.randint(0, len(toks) + 3)
        out.append([rng.choice(pool) for _ in range(n)])
    for _ in range(6 if tier == "quick" else 60):
        # a well-formed line with one random edit
        a = flat(good_tokens(pos, rng, rng.randint(0, 10))) + mandatory()
        for f in flags:
            if rng.random() < 0.5:
                a.insert(rng.randint(0, len(a)), rng.choice(f[1]))
        e = rng.choice(["del", "ins", "swap", "none"])
        if e == "del" and a:
            del a[rng.randrange(len(a))]
        elif e == "ins":
            a.insert(rng.randint(0, len(a)), rng.choice(pool))
        elif e == "swap" and len(a) > 1:
            i = rng.randrange(len(a) - 1)
            a[i], a[i + 1] = a[i + 1], a[i]
        out.append(a)
    return out


CONSTRUCTIONS = {"simple": set(graph_args.constructions["simple"]), "bipartite": set(graph_args.constructions["bipartite"]),
                 "dag": set(graph_args.constructions["dag"])}


def compose_argvs(kind, name, parser, rng, tier):
    """sub-commands whose arguments go through compose_two_parsers: both sub-parsers, flags (incl. mutually
    exclusive ones) before / after / inside, tokens around the bounds, wrong arities"""
    pos, opts = shape(parser)
    act = [a for a in parser._actions if compose_parsers(a) is not None][0]
    subs = [shape(p)[0] for p in compose_parsers(act)]
    choices = {}
    for p in compose_parsers(act):
        for a in p._actions:
            if a.choices and not a.option_strings:
                choices[a.dest] = list(a.choices)
    flags = [o for o in opts if o[0] == "flag"]
    out = [[]]

    def good(sub, gi):
        toks = []
        for k, t in sub:
            if k == "int":
                toks.append([rng.choice(GOOD.get(t, ["3"]) + ["4", "6", "7"])])
            elif k == "optint":
                toks.append(rng.choice([[], [rng.choice(["1", "2", "3", "4"])]]))
            elif k == "choice":
                toks.append([rng.choice(sum(choices.values(), []) or ["a"])])
            elif k == "graph":
                toks.append(list(GRAPHS[gi % len(GRAPHS)]))
            else:
                toks.append(["1"])
        return toks
    flagsets = [[]] + [[f] for f in flags] + [list(c) for c in itertools.combinations(flags, 2)] + [flags]
    for sub in subs:
        for gi in range(len(GRAPHS) if any(k == "graph" for k, _ in sub) else 3):
            for fs in flagsets:
                groups = good(sub, gi)
                toks = flat(groups)
                fl = [rng.choice(f[1]) for f in fs]
                out.append(fl + toks)
                out.append(toks + fl)
                if fl and toks:
                    cut = rng.randint(0, len(toks))
                    out.append(toks[:cut] + fl + toks[cut:])
                    out.append(fl[:1] + toks + fl[1:])
        # bounds on every integer position
        for i, (k, t) in enumerate(sub):
            if k in ("int", "optint"):
                for b in BOUNDS:
                    groups = good(sub, i)
                    groups[i] = [b]
                    out.append(flat(groups))
                    if flags:
                        out.append([rng.choice(flags)[1][0]] + flat(groups))
            if k == "choice":
                for c in sum(choices.values(), []) + ["foo", "", "First", "3"]:
                    groups = good(sub, 0)
                    groups[i] = [c]
                    out.append(flat(groups))
        # all pairs of the first two integers (parity / order tests of the helpers)
        if len(sub) >= 2 and sub[0][0] == "int" and sub[1][0] == "optint":
            for a, b in itertools.product(["1", "2", "3", "4", "5", "6"], ["1", "2", "3", "4", "5", "6", "7"]):
                out.append([a, b])
                if flags and rng.random() < 0.3:
                    out.append([rng.choice(flags)[1][0], a, b])
        toks = flat(good(sub, 1))
        for n in range(len(toks)):
            out.append(toks[:n])
        out.append(toks + ["9"])
        out.append(toks + ["x"])
        out.append(["9"] + toks)
    for f in flags:
        out.append([f[1][0]])
        out.append([f[1][-1], f[1][0], "4"])
    pool = BOUNDS[:8] + [f for fl in flags for f in fl[1]] + ["complete", "grid", "5", "6", "first", "random", "gnd"]
    for _ in range(15 if tier == "quick" else 200):
        out.append([rng.choice(pool) for _ in range(rng.randint(0, 6))])
    return out


def php_argvs(rng, tier):
    out = []
    nums = ["0", "1", "2", "3", "5", "-1", "2.5", "1e1", "x", "1_0", "+3", " 4", "inf", "", "-0", ".5", "nan"]
    flagsets = [[], ["--functional"], ["--onto"], ["--functional", "--onto"], ["--onto", "--functional"]]
    for fl in flagsets:
        out.append(list(fl))
        for a in nums:
            out.append([a] + fl)
            out.append(fl + [a])
        for a, b in itertools.product(["0", "2", "3", "-1", "x", "1_0"], ["0", "2", "4", "2.5"]):
            out.append(fl[:1] + [a, b] + fl[1:])
        for a, b, c in [("5", "4", "2"), ("5", "4", "4"), ("5", "4", "5"), ("3", "3", "0"), ("0", "0", "0"),
                        ("3", "2", "x"), ("3", "-2", "1"), ("4", "3", "3")]:
            out.append([a, b, c] + fl)
            out.append(fl + [a, b, c])
        out.append(["4", "3", "2", "1"] + fl)
        out.append(["4"] + fl + ["3"])
        for g in GRAPHS + [["complete", "3", "2"], ["glrd", "5", "4", "2"], ["regular", "6", "4", "2", "save", "x.kthlist"]]:
            out.append(list(g) + fl)
            out.append(fl + list(g))
            out.append(list(g[:1]) + fl + list(g[1:]))
    for _ in range(20 if tier == "quick" else 300):
        n = rng.randint(0, 5)
        out.append([rng.choice(nums + ["--functional", "--onto", "complete", "glrd"]) for _ in range(n)])
    return out


def in_fragment(argv, parser):
    """the fragment of command lines the model covers (see ASSUMPTIONS)"""
    import re
    exact = set(parser._option_string_actions) - {"-h", "--help"}
    for t in argv:
        if t in exact:
            continue
        if len(t) >= 2 and t[0] == "-" and not re.match(r"^-\d+$|^-\d*\.\d+$", t):
            return False
        if "\n" in t or "-T" == t:
            return False
    return True


# ------------------------------------------------------------------ cases
def build(suite, info):
    if suite not in ("d_formula", "d_trans", "d_pbgen", "d_php", "d_compose", "d_supported"):
        raise ValueError("unknown suite " + suite)
    if suite == "d_supported":
        kind = info["kind"]

        def impl(kind=kind):
            # every sub-command whose parser consists of standard actions only must be handled by the model
            names = []
            for (k, name), p in sorted(subparsers().items()):
                if k != kind:
                    continue
                pos, opts = shape(p)
                if all(x[0] != "other" for x in pos + opts) and name not in UNHANDLED[kind]:
                    names.append(name)
            extra = [n for n in SPECIAL[kind] if n not in names]
            return "OK " + " ".join(sorted(names + extra))
        return Case(suite, req("dispatch_supported", kind), impl, None, cls="kind={}".format(kind), info=info)
    tool, kind, name, argv = info["tool"], info["kind"], info["name"], [str(a) for a in info["argv"]]
    rq = dispatch_req(kind, name, argv)

    def impl():
        r = run_real(tool, kind, name, argv)
        m = model_answer(rq).split(" ## ")
        if len(m) != 2:
            return r + " ## " + r
        return mask(r, m[0]) + " ## " + mask(r, m[1])   # compared with: regenerated templates ## documented table
    return Case(suite, rq, impl, None,
                cls="{}:{}".format(tool, name), nontrivial=bool(argv), info=info)


# sub-commands with standard parsers that build the formula inline (no library call to record)
UNHANDLED = {0: {"and", "or", "true", "false"}, 1: {"none"}}
SPECIAL = {0: ["php"], 1: []}


def cases(ctx):
    tier, seed = ctx["tier"], ctx["seed"]
    out = []
    supported = {}
    for kind in (0, 1):
        ans = common.run_driver([req("dispatch_supported", kind)])[0]
        supported[kind] = ans.split()[1:] if ans.startswith("OK") else []
        out.append(build("d_supported", {"kind": kind}))
    parsers = subparsers()
    seen = set()
    for (kind, name), parser in sorted(parsers.items()):
        if name not in supported[kind]:
            continue
        rng = common.sub_rng(seed, "C17d", kind, name)
        if name == "php":
            argvs = php_argvs(rng, tier)
            suite = "d_php"
        elif any(k == "compose" for k, _ in shape(parser)[0]):
            argvs = compose_argvs(kind, name, parser, rng, tier)
            suite = "d_compose"
        else:
            argvs = argvs_for(kind, name, parser, rng, tier)
            suite = "d_formula" if kind == 0 else "d_trans"
        uniq = []
        for argv in argvs:
            argv = [str(a) for a in argv]
            if not in_fragment(argv, parser):
                continue
            key = (kind, name, tuple(argv))
            if key in seen:
                continue
            seen.add(key)
            uniq.append(argv)
        if tier == "quick":
            # the quick tier runs a seed-dependent sample of the structured list (every run of `cli()` builds
            # all the parsers again: ~8 ms); the thorough tier runs all of it
            cap = 120 if name == "php" else (50 if suite == "d_compose" else 30)
            if len(uniq) > cap:
                head = uniq[:12]
                uniq = head + rng.sample(uniq[12:], cap - 12)
        for argv in uniq:
            out.append(build(suite, {"tool": "cnfgen", "kind": kind, "name": name, "argv": argv}))
            # pbgen: the same helpers with the other formula class (a sample in the quick tier)
            if kind == 0 and (tier == "thorough" or rng.random() < 0.1):
                out.append(build("d_pbgen", {"tool": "pbgen", "kind": kind, "name": name, "argv": argv}))
    reqs = sorted({c.req for c in out if c.suite != "d_supported"})
    for rq, ans in zip(reqs, common.run_driver(reqs)):
        MODEL[rq] = ans
    for c in out:
        c.info.setdefault("seed", seed)
        c.info.setdefault("tier", tier)
    return out


def search(ctx, case):
    """when the real tool no longer makes the DOCUMENTED call, the command line is a failing input of the
    property; a difference with the regenerated templates only is a gap of the translator / interpreter"""
    if case.suite == "d_supported":
        return None
    real = run_real(case.info["tool"], case.info["kind"], case.info["name"], [str(a) for a in case.info["argv"]])
    model = common.run_driver([case.req])[0].split(" ## ")
    if len(model) == 2 and model[1] != mask(real, model[1]):
        return {"command_line": [case.info["tool"], case.info["name"]] + list(case.info["argv"]),
                "library_call_made": real, "documented_call": model[1]}
    return None
