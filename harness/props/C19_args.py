"""C19 (arguments of the generators) — graph objects, charge lists, planted assignments, explicit permutations: the heap
model of lean/CnfgenModel/Heap/Args.lean against the real objects, and deep before/after snapshots of EVERY argument of
EVERY family call.

Suites
  args_history / args_scenario   histories over registers (same protocol as C19_heap: request `heap …`): the caller makes
      cnfgen graphs (simple / directed / bipartite), networkx graphs, lists of charges, lists of lists (planted assignments);
      calls `<Class>.normalize`, `TseitinFormula(G[, charges])`, `GraphPigeonholePrinciple(B, functional, onto)`,
      `RandomKCNF(…, planted_assignments=P)` (its draws recorded while the real code runs and handed to the model as the list
      of proposed clauses), takes the live group object of a result; edits its graphs and lists in place between the calls,
      mutates the results, calls again; wrong classes (TypeError / ValueError exits).  Compared: outcome of every instruction,
      deep dump of every register (graphs: order + edges; the group object: what it enumerates NOW), alias classes of every
      object slot (`id()` vs address) — `normalize` of a cnfgen graph IS the argument, of a networkx graph a new object; the
      group object's `.G` IS the caller's graph (O1).
  args_o1        the replay of observation O1 on the real objects and on the model.
  args_snapshot  every generator of cnfgen/families with a graph / list argument x {cnfgen object, networkx object, wrong
      class, invalid parameters (calls that end in an exception)}: deep snapshot of every argument before and after the call
      (internal adjacency lists, edge sets, counters, names; networkx nodes / edges / attributes; list objects element by
      element AND by identity of the inner lists).  The request is the graph argument as a model literal (so the dump of the
      argument after the call is also compared with the value it had before).
Oracle (the property, independent of the model): after every instruction every object held in a register is deep-equal to its
previous snapshot unless this instruction writes to it by design (the receiver of `add_edge` / `setitem` / `append`; the
formula a builder method was called on).  Documented exception O1: the NAMES of a formula built by GraphPigeonholePrinciple
follow later edits of the caller's graph (clauses, variable count and header do not).
"""
import random as _pyrandom

import networkx as nx

import cnfgen
from cnfgen import graphs as G
from cnfgen.formula.basecnf import BaseCNF
from cnfgen.families import randomformulas as RF

from harness import common
from harness.common import Case, req, enc_list, enc_str, enc_pairs
from harness.props import C19_heap as H

RULE = ("histories of 4-14 instructions over caller-owned graph objects (cnfgen simple / directed / bipartite, networkx), charge "
        "lists and planted assignments, generated while running them on the real objects; every family with a graph or list "
        "argument called on cnfgen / networkx / ill-typed arguments incl. calls ending in an exception; distinct = distinct "
        "program / (family, argument kind, parameters)")
ASSUMPTIONS = ["O1 (documented by cnfgen/formula/variables.py, not a violation of C19): the group objects made by "
               "new_bipartite_edges / new_sparse_mapping keep a reference to the caller's bipartite graph; the call leaves the "
               "graph unchanged, and the formula never writes it, but what the group enumerates (hence all_variable_labels of "
               "the result) follows later edits of the graph by the caller — modelled (bgroup cell), proved "
               "(C19.group_follows_graph, C19.o1_replay) and replayed (suite args_o1), never reported as a violation",
               "a family learns about a graph only through the read-only methods listed in Props/C19/Args.lean "
               "(regenerated table + decide); the model hands the family the graph's current value",
               "RandomKCNF: the random draws are taken from the real run (recorded proposals of sample_clauses); the model "
               "covers the reads of planted_assignments and the construction, not the sampling (C13)"]
TRUSTED_EXTRA = ["networkx objects are modelled by value (vertices 1..n, edge list); their internals are observed by deep "
                 "snapshots only"]

NORM = {0: G.Graph, 1: G.DirectedGraph, 2: G.BipartiteGraph}


# ------------------------------------------------------------------------------------------------ encoding
def enc_instr(ins, extra):
    k = ins[0]
    if k == "mkgraph":
        return [32, ins[1]] + enc_pairs(ins[2])
    if k == "mkdig":
        return [33, ins[1]] + enc_pairs(ins[2])
    if k == "mknx":
        es = sorted((u, v) if ins[1] else (min(u, v), max(u, v)) for u, v in ins[3])
        return [34, int(ins[1]), ins[2]] + enc_pairs(es)
    if k == "norm":
        return [35, ins[1], ins[2]]
    if k == "gaddedge":
        return [36, ins[1], ins[2], ins[3]]
    if k == "tseitin":
        return [37, ins[1], -1 if ins[2] is None else ins[2]] + enc_str(extra.get("descr", ""))
    if k == "gphp":
        return [38, ins[1], int(ins[2]), int(ins[3])] + enc_str(extra.get("descr", ""))
    if k == "planted":
        out = [39, ins[1], ins[2], ins[3], ins[4]]
        for key in ("cands", "dense"):
            cs = extra.get(key, [])
            out.append(len(cs))
            for c in cs:
                out += enc_list(c)
        return out + enc_str(extra.get("descr", ""))
    if k == "livegroup":
        return [40, ins[1]]
    return H.enc_instr(ins)


def enc_prog(prog, extras):
    h = H.hdr0()
    parts = [len(h)]
    for k, v in h:
        parts += enc_str(k) + enc_str(v)
    parts.append(len(prog))
    for ins, ex in zip(prog, extras):
        parts += enc_instr(ins, ex)
    return req("heap", parts)


# ------------------------------------------------------------------------------------------------ the real objects
def mk_graph(cls, n, es):
    g = cls(n)
    for u, v in es:
        g.add_edge(u, v)
    return g


def mk_nx(directed, n, es):
    g = nx.DiGraph() if directed else nx.Graph()
    g.add_nodes_from(range(1, n + 1))
    g.add_edges_from(es)
    return g


def run_planted(P, k, n, m, seed, extra):
    """RandomKCNF with the proposals of the sparse sampler recorded (what `clause_satisfied` is asked, in order)"""
    rec, dense = [], [False]
    orig_sat, orig_all = RF.clause_satisfied, RF.all_clauses

    def sat(cls, assignments):
        if not dense[0]:
            rec.append(list(cls))
        return orig_sat(cls, assignments)

    def allc(*a, **kw):
        dense[0] = True
        return orig_all(*a, **kw)
    RF.clause_satisfied, RF.all_clauses = sat, allc
    if extra is not None:
        extra["cands"], extra["dense"] = rec, []
    try:
        F = cnfgen.RandomKCNF(k, n, m, seed=seed, planted_assignments=P)
    finally:
        RF.clause_satisfied, RF.all_clauses = orig_sat, orig_all
    if extra is not None and dense[0]:
        # dense path (not enough clauses after 10*m proposals): the model is given the sample that was drawn
        extra["dense"] = [list(c) for c in F]
    return F


def execute(regs, ins, extra=None):
    k = ins[0]
    if k == "mkgraph":
        return mk_graph(G.Graph, ins[1], ins[2])
    if k == "mkdig":
        return mk_graph(G.DirectedGraph, ins[1], ins[2])
    if k == "mknx":
        return mk_nx(ins[1], ins[2], ins[3])
    if k == "norm":
        return NORM[ins[1]].normalize(regs[ins[2]])
    if k == "gaddedge":
        regs[ins[1]].add_edge(ins[2], ins[3])
        return None
    if k == "tseitin":
        F = cnfgen.TseitinFormula(regs[ins[1]], None if ins[2] is None else regs[ins[2]])
    elif k == "gphp":
        F = cnfgen.GraphPigeonholePrinciple(regs[ins[1]], functional=ins[2], onto=ins[3])
    elif k == "planted":
        F = run_planted(regs[ins[1]], ins[2], ins[3], ins[4], ins[5], extra)
    elif k == "livegroup":
        return regs[ins[1]]._groups[-1]
    else:
        return H.execute(regs, ins)
    if extra is not None:
        extra["descr"] = F.header.get("description", "")
    return F


def run_real(prog, extras=None):
    """one pass over the real objects; the state of the `random` module is restored afterwards"""
    st = _pyrandom.getstate()
    regs, outs = [], []
    try:
        for i, ins in enumerate(prog):
            try:
                obj = execute(regs, ins, None if extras is None else extras[i])
                regs.append(obj)
                outs.append("-")
            except Exception as e:   # noqa: the class of the exception is the observation
                regs.append(None)
                outs.append(type(e).__name__)
    finally:
        _pyrandom.setstate(st)
    return outs, regs


def is_group(o):
    return hasattr(o, "G") and hasattr(o, "indices") and not isinstance(o, BaseCNF)


def nx_edges(o):
    if o.is_directed():
        return sorted(o.edges())
    return sorted((min(u, v), max(u, v)) for u, v in o.edges())


def fmt_reg(o):
    if isinstance(o, G.Graph):
        return "S {} {}".format(o.number_of_vertices(), " ".join(str(x) for x in enc_pairs(o.edges())))
    if isinstance(o, G.DirectedGraph):
        return "D {} {}".format(o.number_of_vertices(), " ".join(str(x) for x in enc_pairs(o.edges())))
    if isinstance(o, nx.Graph):
        return "X {} {} {}".format(int(o.is_directed()), o.order(), " ".join(str(x) for x in enc_pairs(nx_edges(o))))
    if is_group(o):
        return "P " + " ".join(str(x) for x in enc_pairs(o.indices()))
    return H.fmt_reg(o)


def slots(o):
    if is_group(o):
        return [o, o.G]
    if isinstance(o, (G.BaseGraph, nx.Graph)):
        return [o]
    return H.slots(o)


def sharing(regs):
    seen, out = {}, []
    for o in regs:
        if o is None:
            continue
        for x in slots(o):
            if id(x) not in seen:
                seen[id(x)] = len(seen)
            out.append(seen[id(x)])
    return out


def dump(outs, regs):
    return "OK " + " ".join(outs) + " | " + " ; ".join(fmt_reg(o) for o in regs) + " | " + " ".join(str(c) for c in sharing(regs))


def impl_of(prog):
    def impl():
        outs, regs = run_real(prog)
        return dump(outs, regs)
    return impl


# ------------------------------------------------------------------------------------------------ deep snapshots
def deep(o):
    """deep snapshot for the oracle: everything an argument consists of, internals included"""
    if o is None:
        return None
    if isinstance(o, G.Graph):
        return ("S", o.n, o.m, o.name, [list(a) for a in o.adjlist], sorted(o.edgeset), list(o.edges()),
                sorted(k for k in vars(o)))
    if isinstance(o, G.DirectedGraph):
        return ("D", o.n, o.m, o.name, [list(a) for a in o.pred], [list(a) for a in o.succ], sorted(o.edgeset),
                o.is_dag(), list(o.edges()), sorted(k for k in vars(o)))
    if isinstance(o, G.BipartiteGraph):
        return ("B", o.lorder, o.rorder, o.name, list(o.edges()), o.number_of_edges(),
                [list(o.right_neighbors(u)) for u in range(1, o.left_order() + 1)],
                [list(o.left_neighbors(v)) for v in range(1, o.right_order() + 1)],
                sorted(getattr(o, "edgeset", ())), sorted(k for k in vars(o)))
    if isinstance(o, nx.Graph):
        return ("X", o.is_directed(), [(repr(u), sorted(d.items())) for u, d in o.nodes(data=True)],
                [(repr(u), repr(v), sorted(d.items())) for u, v, d in o.edges(data=True)], sorted(o.graph.items()),
                {repr(u): [repr(v) for v in o.adj[u]] for u in o.nodes()})
    if is_group(o):
        return ("P",)       # live by design (it reads the caller's graph): not part of the snapshot discipline
    if isinstance(o, BaseCNF):
        try:
            names = list(o.all_variable_labels())
        except Exception as e:   # noqa
            names = type(e).__name__
        return ("F", o.number_of_variables(), [list(c) for c in o], list(o.header.items()), names)
    if isinstance(o, (list, tuple)):
        return ("L", [(list(x), id(x)) if isinstance(x, list) else x for x in o])
    return ("?", repr(o))


FORMULA_WRITES = ("addclausegen", "addclause", "updvar", "hdrset", "describe")
FAMILY = ("tseitin", "gphp", "planted")


def oracle_of(prog):
    def oracle():
        st = _pyrandom.getstate()
        try:
            return _oracle(prog)
        finally:
            _pyrandom.setstate(st)
    return oracle


def _oracle(prog):
    regs, snaps = [], []
    borrowers = {}          # id(graph object) -> registers of formulas whose group refers to it (O1)
    for pc, ins in enumerate(prog):
        k = ins[0]
        before = list(regs)
        target = regs[ins[1]] if k in ("gaddedge", "bipaddedge", "setitem", "append") else None
        allowed = {ins[1]} if k in FORMULA_WRITES else set()
        try:
            obj = execute(regs, ins)
        except Exception:   # noqa: an instruction that raises must also leave everything alone
            obj = None
        regs.append(obj)
        for j, o in enumerate(before):
            if o is None:
                continue
            now = deep(o)
            if now == snaps[j]:
                continue
            legit = False
            if isinstance(o, BaseCNF):
                legit = j in allowed
                if not legit and target is not None and j in borrowers.get(id(target), ()):
                    # O1: only the names may follow the graph
                    legit = now[:4] == snaps[j][:4]
            elif target is not None:
                legit = (o is target) or (isinstance(o, list) and any(x is target for x in o))
            if not legit:
                return {"program": prog, "at_instruction": pc, "instruction": ins, "register_changed": j,
                        "was": repr(snaps[j])[:400], "now": repr(now)[:400]}
            snaps[j] = now
        snaps.append(deep(obj))
        if obj is None:
            continue
        if k in FAMILY:
            if any(obj is o for o in before):
                return {"program": prog, "at_instruction": pc, "returned_an_existing_object": True}
            old = set()
            for o in before:
                if o is not None:
                    old.update(id(x) for x in slots(o))
                    if isinstance(o, list):
                        old.update(id(x) for x in o)
            shared = [type(x).__name__ for x in H.slots(obj) if id(x) in old]
            if shared:
                return {"program": prog, "at_instruction": pc, "result_shares_objects_with_arguments": shared}
            if k == "gphp":
                arg = before[ins[1]]
                if isinstance(arg, G.BipartiteGraph):
                    borrowers.setdefault(id(arg), set()).add(pc)
        if k == "norm":
            arg = before[ins[2]]
            if isinstance(arg, G.BaseGraph) and obj is not arg:
                # not required by C19 (a copy would leave the argument unchanged too): reported by the correspondence only
                pass
            if isinstance(arg, nx.Graph) and any(obj is o for o in before):
                return {"program": prog, "at_instruction": pc, "normalize_returned_an_existing_object": True}
    return None


# ------------------------------------------------------------------------------------------------ generators
def rand_edges(rng, n, p=0.5, directed=False, dag=False):
    es = []
    for u in range(1, n + 1):
        for v in range(1, n + 1):
            if u == v or (not directed and u > v) or (dag and u > v):
                continue
            if rng.random() < p:
                es.append([u, v])
    return es


def rand_bip(rng):
    l, r = rng.randint(0, 3), rng.randint(0, 3)
    es = [[u, v] for u in range(1, l + 1) for v in range(1, r + 1) if rng.random() < 0.6]
    rng.shuffle(es)
    return l, r, es


def gen_prog(rng, length):
    st = _pyrandom.getstate()
    try:
        return _gen_prog(rng, length)
    finally:
        _pyrandom.setstate(st)


def _gen_prog(rng, length):
    """a typed history; generated while it is executed on the real objects (so that edits are mostly valid)"""
    prog, regs = [], []
    kinds = {}      # register -> kind letter

    def emit(ins, kind=None):
        prog.append(ins)
        try:
            regs.append(execute(regs, ins))
        except Exception:   # noqa
            regs.append(None)
        if regs[-1] is not None and kind:
            kinds[len(regs) - 1] = kind
        return len(regs) - 1

    def of(kind):
        return [r for r, kk in kinds.items() if kk == kind]

    # the caller's objects
    n = rng.randint(0, 4)
    emit(["mkgraph", n, rand_edges(rng, n)], "S")
    l, r, es = rand_bip(rng)
    emit(["mkbip", l, r, es], "B")
    if rng.random() < 0.6:
        n2 = rng.randint(0, 4)
        emit(["mknx", rng.random() < 0.3, n2, sorted(rand_edges(rng, n2, 0.5, directed=False))], "X")
    if rng.random() < 0.4:
        n3 = rng.randint(1, 4)
        emit(["mkdig", n3, rand_edges(rng, n3, 0.4, directed=True, dag=rng.random() < 0.7)], "D")
    if rng.random() < 0.7:
        emit(["mklist", [rng.choice([0, 1, 1, 2, -1]) for _ in range(rng.randint(0, 6))]], "I")
    if rng.random() < 0.5:
        nv = rng.randint(2, 5)
        k = rng.randint(1, 2)
        inner = []
        for _ in range(k):
            inner.append(emit(["mklist", [v * rng.choice([1, -1]) for v in range(1, nv + 1)]], "A"))
        emit(["mklists", inner], "P")
        kinds[len(regs) - 1] = "P:" + str(nv)
    while len(prog) < length:
        c = rng.random()
        graphs = of("S") + of("X") + of("B") + of("D") + of("I")
        if c < 0.22:
            g = rng.choice(of("S") + of("X") if rng.random() < 0.85 else graphs)
            ch = rng.choice(of("I")) if of("I") and rng.random() < 0.6 else None
            emit(["tseitin", g, ch], "F")
        elif c < 0.40:
            g = rng.choice(of("B") if rng.random() < 0.85 else graphs)
            f = emit(["gphp", g, rng.random() < 0.3, rng.random() < 0.3], "Fg")
            if regs[f] is not None and rng.random() < 0.6:
                emit(["livegroup", f], "G")
        elif c < 0.50:
            ps = [r for r, kk in kinds.items() if kk.startswith("P:")]
            if ps:
                p = rng.choice(ps)
                nv = int(kinds[p][2:])
                kk = rng.randint(1, min(3, nv))
                emit(["planted", p, kk, nv, rng.randint(0, 3), rng.randint(0, 10 ** 6)], "F")
        elif c < 0.62:
            cls = rng.randint(0, 2)
            pool = {0: of("S") + of("X"), 1: of("D") + of("X"), 2: of("B")}[cls]
            if rng.random() < 0.15 or not pool:
                pool = graphs
            if pool:
                g = rng.choice(pool)
                kind = kinds.get(g)
                newk = {0: "S", 1: "D", 2: "B"}[cls]
                emit(["norm", cls, g], newk)
        elif c < 0.76:
            pool = of("S") + of("D")
            if pool:
                g = rng.choice(pool)
                nn = regs[g].number_of_vertices()
                emit(["gaddedge", g, rng.randint(0, nn + 1), rng.randint(1, max(1, nn))])
        elif c < 0.86:
            pool = of("B")
            if pool:
                g = rng.choice(pool)
                emit(["bipaddedge", g, rng.randint(0, regs[g].left_order() + 1), rng.randint(1, max(1, regs[g].right_order()))])
        elif c < 0.94:
            pool = of("I") + of("A")
            if pool:
                li = rng.choice(pool)
                if regs[li] and rng.random() < 0.7:
                    i = rng.randrange(len(regs[li]))
                    v = rng.choice([0, 1]) if kinds[li] == "I" else -regs[li][i]
                    emit(["setitem", li, i, v])
                elif kinds[li] == "I":
                    emit(["append", li, rng.choice([0, 1])])
        else:
            fs = of("F") + of("Fg")
            if fs:
                f = rng.choice(fs)
                emit(["addclausegen", f, [rng.randint(1, 3) * rng.choice([1, -1])], True, "tuple"])
    return prog


def scenarios():
    tri = [[1, 2], [2, 3], [1, 3]]
    out = []
    out.append(("tseitin/cnfgen/default", [["mkgraph", 3, tri], ["tseitin", 0, None], ["gaddedge", 0, 1, 2],
                                           ["tseitin", 0, None]]))
    out.append(("tseitin/charges", [["mkgraph", 3, tri], ["mklist", [1, 0, 1]], ["tseitin", 0, 1], ["setitem", 1, 0, 0],
                                    ["tseitin", 0, 1], ["mklist", [1]], ["tseitin", 0, 5], ["mklist", [0, 1, 1, 1, 1, 2]],
                                    ["tseitin", 0, 7], ["mklist", []], ["tseitin", 0, 9]]))
    out.append(("tseitin/edit-between", [["mkgraph", 4, [[1, 2], [3, 4]]], ["tseitin", 0, None], ["gaddedge", 0, 2, 3],
                                         ["tseitin", 0, None], ["addclausegen", 1, [1], True, "tuple"], ["gaddedge", 0, 9, 1]]))
    out.append(("tseitin/networkx", [["mknx", False, 3, tri], ["tseitin", 0, None], ["norm", 0, 0], ["norm", 0, 0],
                                     ["tseitin", 2, None]]))
    out.append(("tseitin/networkx-digraph", [["mknx", True, 3, [[1, 2], [2, 1], [2, 3]]], ["tseitin", 0, None],
                                             ["norm", 1, 0], ["norm", 0, 0]]))
    out.append(("tseitin/networkx-loop", [["mknx", False, 2, [[1, 1], [1, 2]]], ["tseitin", 0, None], ["norm", 0, 0]]))
    out.append(("tseitin/wrong-class", [["mkdig", 2, [[1, 2]]], ["tseitin", 0, None], ["mkbip", 1, 1, [[1, 1]]],
                                        ["tseitin", 2, None], ["mklist", [1, 2]], ["tseitin", 4, None], ["norm", 0, 4],
                                        ["norm", 1, 2], ["norm", 2, 0]]))
    out.append(("tseitin/empty-graph", [["mkgraph", 0, []], ["tseitin", 0, None], ["mklist", [1, 1]], ["tseitin", 0, 2],
                                        ["mkgraph", 1, []], ["tseitin", 4, None]]))
    out.append(("normalize/identity", [["mkgraph", 2, [[1, 2]]], ["norm", 0, 0], ["norm", 0, 1], ["mkdig", 2, [[2, 1]]],
                                       ["norm", 1, 3], ["norm", 1, 4], ["mkbip", 2, 1, [[2, 1]]], ["norm", 2, 6],
                                       ["normbip", 7], ["gaddedge", 1, 1, 2], ["gaddedge", 4, 1, 2]]))
    out.append(("normalize/networkx-fresh", [["mknx", False, 3, [[1, 2]]], ["norm", 0, 0], ["norm", 0, 0], ["gaddedge", 1, 2, 3],
                                             ["mknx", True, 3, [[1, 2], [3, 2]]], ["norm", 1, 4], ["gaddedge", 5, 1, 3],
                                             ["norm", 2, 0], ["mknx", False, 0, []], ["norm", 2, 8], ["norm", 1, 0]]))
    out.append(("gphp/cnfgen", [["mkbip", 2, 2, [[1, 1], [2, 2], [2, 1]]], ["gphp", 0, False, False], ["gphp", 0, True, True],
                                ["livegroup", 1], ["livegroup", 2], ["addclausegen", 1, [-1], True, "tuple"]]))
    out.append(("gphp/o1-edit-after", [["mkbip", 2, 2, [[1, 1], [2, 2]]], ["gphp", 0, False, False], ["livegroup", 1],
                                       ["bipaddedge", 0, 1, 2], ["gphp", 0, False, False], ["livegroup", 4],
                                       ["bipaddedge", 0, 2, 1]]))
    out.append(("gphp/wrong-class", [["mkgraph", 2, [[1, 2]]], ["gphp", 0, False, False], ["mknx", False, 2, [[1, 2]]],
                                     ["gphp", 2, False, False], ["mknx", False, 0, []], ["gphp", 4, False, True],
                                     ["mkbip", 0, 0, []], ["gphp", 6, True, False], ["mkbip", 2, 0, []], ["gphp", 8, False, False]]))
    out.append(("planted/two", [["mklist", [1, -2, 3]], ["mklist", [1, 2, -3]], ["mklists", [0, 1]],
                                ["planted", 2, 2, 3, 3, 11], ["setitem", 0, 0, -1], ["planted", 2, 2, 3, 2, 11],
                                ["planted", 2, 3, 3, 1, 5], ["planted", 2, 1, 3, 0, 5]]))
    out.append(("planted/empty", [["mklists", []], ["planted", 0, 2, 4, 3, 7], ["mklist", [1, 2]], ["mklists", [2]],
                                  ["planted", 3, 2, 2, 1, 3], ["planted", 3, 1, 2, 1, 3]]))
    out.append(("planted/dense", [["mklist", [1, 2]], ["mklists", [0]], ["planted", 1, 2, 2, 3, 1], ["planted", 1, 1, 2, 2, 9]]))
    return out


def o1_case():
    """observation O1 on the real objects (notes/C19.md): the argument is unchanged by the call; the result follows the graph"""
    prog = [["mkbip", 2, 2, [[1, 1], [2, 2]]], ["gphp", 0, False, False], ["livegroup", 1], ["bipaddedge", 0, 1, 2]]

    def oracle():
        B = G.BipartiteGraph(2, 2)
        B.add_edge(1, 1)
        B.add_edge(2, 2)
        before = deep(B)
        F = cnfgen.GraphPigeonholePrinciple(B)
        if deep(B) != before:
            return {"replay": "O1", "graph_changed_by_the_call": True}
        snap = deep(F)
        B.add_edge(1, 2)
        after = deep(F)
        if after[:4] != snap[:4]:
            return {"replay": "O1", "clauses_or_header_changed_by_the_callers_edit": True}
        return None     # `after[4]` (the names) has three labels for two variables: documented behaviour (O1), not a violation
    return mk_case("args_o1", "O1/replay", prog, oracle)


# ---- every family with graph / list arguments: deep snapshots before and after, incl. exceptional exits
def graph_variants(kind):
    """(label, constructor of a FRESH argument object, model instruction or None)"""
    if kind == "simple":
        es = [[1, 2], [2, 3], [3, 4], [1, 4], [1, 3]]
        return [("cnfgen", lambda: mk_graph(G.Graph, 4, es), ["mkgraph", 4, es]),
                ("networkx", lambda: mk_nx(False, 4, es), ["mknx", False, 4, sorted(es)]),
                ("networkx-named", lambda: nx.relabel_nodes(mk_nx(False, 4, es), {1: "a", 2: "b", 3: "c", 4: "d"}), None),
                ("wrong-class", lambda: mk_graph(G.DirectedGraph, 3, [[1, 2]]), ["mkdig", 3, [[1, 2]]]),
                ("edgeless", lambda: G.Graph(3), ["mkgraph", 3, []]),
                ("empty", lambda: G.Graph(0), ["mkgraph", 0, []])]
    if kind == "dag":
        es = [[1, 2], [1, 3], [2, 4], [3, 4]]
        return [("cnfgen", lambda: mk_graph(G.DirectedGraph, 4, es), ["mkdig", 4, es]),
                ("networkx", lambda: mk_nx(True, 4, es), ["mknx", True, 4, sorted(es)]),
                ("cyclic", lambda: mk_graph(G.DirectedGraph, 3, [[1, 2], [2, 3], [3, 1]]), ["mkdig", 3, [[1, 2], [2, 3], [3, 1]]]),
                ("wrong-class", lambda: mk_graph(G.Graph, 3, [[1, 2]]), ["mkgraph", 3, [[1, 2]]])]
    if kind == "bip":
        es = [[1, 1], [1, 2], [2, 2], [3, 1], [3, 2]]

        def nxb():
            g = nx.Graph()
            g.add_nodes_from(["l1", "l2", "l3"], bipartite=0)
            g.add_nodes_from(["r1", "r2"], bipartite=1)
            g.add_edges_from([("l%d" % u, "r%d" % v) for u, v in es])
            return g
        sp = [[1, 2], [2, 1], [3, 2]]
        return [("cnfgen", lambda: mk_graph_b(3, 2, es), ["mkbip", 3, 2, es]),
                ("cnfgen-sparse", lambda: mk_graph_b(3, 2, sp), ["mkbip", 3, 2, sp]),
                ("cnfgen-edgeless", lambda: mk_graph_b(2, 2, []), ["mkbip", 2, 2, []]),
                ("networkx", nxb, None),
                ("networkx-unlabelled", lambda: mk_nx(False, 3, [[1, 2]]), ["mknx", False, 3, [[1, 2]]]),
                ("wrong-class", lambda: mk_graph(G.Graph, 3, [[1, 2]]), ["mkgraph", 3, [[1, 2]]])]
    raise ValueError(kind)


def mk_graph_b(l, r, es):
    B = G.BipartiteGraph(l, r)
    for u, v in es:
        B.add_edge(u, v)
    return B


def family_calls():
    """(name, kinds of the graph arguments, call(graphs, extra lists) , extra list arguments)"""
    C = cnfgen
    out = [
        ("TseitinFormula", ["simple"], lambda g, x: C.TseitinFormula(g[0], x[0]), [[True, False, 1, 0]]),
        ("TseitinFormula/short-charges", ["simple"], lambda g, x: C.TseitinFormula(g[0], x[0]), [[1]]),
        ("GraphColoringFormula", ["simple"], lambda g, x: C.GraphColoringFormula(g[0], 3), []),
        ("GraphColoringFormula/k=0", ["simple"], lambda g, x: C.GraphColoringFormula(g[0], 0), []),
        ("GraphColoringFormula/k=-1", ["simple"], lambda g, x: C.GraphColoringFormula(g[0], -1), []),
        ("EvenColoringFormula", ["simple"], lambda g, x: C.EvenColoringFormula(g[0]), []),
        ("PerfectMatchingPrinciple", ["simple"], lambda g, x: C.PerfectMatchingPrinciple(g[0]), []),
        ("DominatingSet", ["simple"], lambda g, x: C.DominatingSet(g[0], 2), []),
        ("DominatingSet/alt", ["simple"], lambda g, x: C.DominatingSet(g[0], 2, alternative=True), []),
        ("DominatingSet/d=-1", ["simple"], lambda g, x: C.DominatingSet(g[0], -1), []),
        ("Tiling", ["simple"], lambda g, x: C.Tiling(g[0]), []),
        ("GraphIsomorphism", ["simple", "simple"], lambda g, x: C.GraphIsomorphism(g[0], g[1]), []),
        ("GraphAutomorphism", ["simple"], lambda g, x: C.GraphAutomorphism(g[0]), []),
        ("GraphIsomorphism/same-object", ["simple"], lambda g, x: C.GraphIsomorphism(g[0], g[0]), []),
        ("GraphOrderingPrinciple", ["simple"], lambda g, x: C.GraphOrderingPrinciple(g[0]), []),
        ("GraphOrderingPrinciple/flags", ["simple"],
         lambda g, x: C.GraphOrderingPrinciple(g[0], total=True, smart=True, plant=True, knuth=3), []),
        ("PitfallFormula", ["simple"], lambda g, x: C.PitfallFormula(2, g[0], 1, 1, 2), []),
        ("SubgraphFormula", ["simple", "simple"], lambda g, x: C.SubgraphFormula(g[0], g[1]), []),
        ("SubgraphFormula/induced", ["simple", "simple"], lambda g, x: C.SubgraphFormula(g[0], g[1], induced=True), []),
        ("CliqueFormula", ["simple"], lambda g, x: C.CliqueFormula(g[0], 3), []),
        ("CliqueFormula/k=-1", ["simple"], lambda g, x: C.CliqueFormula(g[0], -1), []),
        ("BinaryCliqueFormula", ["simple"], lambda g, x: C.BinaryCliqueFormula(g[0], 2), []),
        ("RamseyWitnessFormula", ["simple"], lambda g, x: C.RamseyWitnessFormula(g[0], 2, 2), []),
        ("PebblingFormula", ["dag"], lambda g, x: C.PebblingFormula(g[0]), []),
        ("StoneFormula", ["dag"], lambda g, x: C.StoneFormula(g[0], 2), []),
        ("StoneFormula/0", ["dag"], lambda g, x: C.StoneFormula(g[0], -1), []),
        ("SparseStoneFormula", ["dag", "bip"], lambda g, x: C.SparseStoneFormula(g[0], g[1]), []),
        ("GraphPigeonholePrinciple", ["bip"], lambda g, x: C.GraphPigeonholePrinciple(g[0]), []),
        ("GraphPigeonholePrinciple/fo", ["bip"], lambda g, x: C.GraphPigeonholePrinciple(g[0], functional=True, onto=True), []),
        ("SubsetCardinalityFormula", ["bip"], lambda g, x: C.SubsetCardinalityFormula(g[0]), []),
        ("SubsetCardinalityFormula/eq", ["bip"], lambda g, x: C.SubsetCardinalityFormula(g[0], equalities=True), []),
        ("VariableCompression", ["bip"],
         lambda g, x: C.VariableCompression(C.CNF([[1, -2], [2]]), g[0], function="xor"), []),
        ("RandomKCNF/planted", [], lambda g, x: C.RandomKCNF(2, 4, 3, seed=5, planted_assignments=x[0]), [[[1, -2, 3, 4], [1, 2, -3, 4]]]),
        ("RandomKCNF/planted-k>n", [], lambda g, x: C.RandomKCNF(5, 4, 3, seed=5, planted_assignments=x[0]), [[[1, -2, 3, 4]]]),
        ("RandomKCNF/planted-too-many", [], lambda g, x: C.RandomKCNF(1, 2, 4, seed=5, planted_assignments=x[0]), [[[1, -2]]]),
        ("RandomKXOR/planted", [], lambda g, x: C.RandomKXOR(2, 4, 3, seed=5, planted_assignments=x[0]), [[[1, -2, 3, 4], [1, 2, -3, 4]]]),
        ("RandomKXOR/planted-undefined", [], lambda g, x: C.RandomKXOR(2, 4, 3, seed=5, planted_assignments=x[0]), [[[1, -2]]]),
        ("RandomKXOR/planted-too-many", [], lambda g, x: C.RandomKXOR(1, 2, 5, seed=5, planted_assignments=x[0]), [[[1, -2]]]),
        ("Shuffle/explicit", [], lambda g, x: C.Shuffle(C.CNF([[1, -2], [2, 3], [-3]]), polarity_flips=x[0],
                                                         variables_permutation=x[1], clauses_permutation=x[2]),
         [[1, -1, 1], [3, 1, 2], [2, 0, 1]]),
        ("Shuffle/invalid-permutation", [], lambda g, x: C.Shuffle(C.CNF([[1, -2], [2, 3], [-3]]), polarity_flips=x[0],
                                                                    variables_permutation=x[1], clauses_permutation=x[2]),
         [[1, -1, 1], [3, 3, 2], [2, 0, 1]]),
        ("CNF/clauses-argument", [], lambda g, x: C.CNF(x[0]), [[[1, -2], [2, 3], []]]),
        ("CNF/clauses-argument-zero", [], lambda g, x: C.CNF(x[0]), [[[1, -2], [0, 3]]]),
    ]
    return out


def copy_list(x):
    return [copy_list(y) if isinstance(y, list) else y for y in x]


def snapshot_case(name, kinds, combo, lists):
    """combo: one variant label per graph argument"""
    variants = [dict((lab, (mk, ins)) for lab, mk, ins in graph_variants(k)) for k in kinds]
    call = dict((n, c) for n, _, c, _ in family_calls())[name]
    # the request: the FIRST graph argument that has a model literal, as a one-instruction history; impl dumps the argument
    # AFTER the real call.  Without such an argument: a list argument (or an empty list).
    lit, which = None, None
    for i, lab in enumerate(combo):
        if variants[i][lab][1] is not None:
            lit, which = variants[i][lab][1], i
            break
    if lit is None:
        flat = lists[0] if lists and all(isinstance(y, int) and not isinstance(y, bool) for y in lists[0]) else None
        lit = ["mklist", list(flat) if flat is not None else []]

    def fresh():
        return [variants[i][lab][0]() for i, lab in enumerate(combo)], [copy_list(x) for x in lists]

    def run(gs, xs):
        st = _pyrandom.getstate()
        try:
            call(gs, xs)
            return "-"
        except Exception as e:      # noqa: calls that end in an exception are part of the quantifier
            return type(e).__name__
        finally:
            _pyrandom.setstate(st)

    def impl():
        gs, xs = fresh()
        run(gs, xs)
        if which is not None:
            o = gs[which]
        else:
            o = xs[0] if lit[1] else []
        return dump(["-"], [o])

    def oracle():
        gs, xs = fresh()
        before = [deep(o) for o in gs] + [deep(x) for x in xs]
        outcome = run(gs, xs)
        after = [deep(o) for o in gs] + [deep(x) for x in xs]
        for i, (b, a) in enumerate(zip(before, after)):
            if a != b:
                return {"family": name, "arguments": list(combo), "outcome": outcome, "argument_changed": i,
                        "was": repr(b)[:400], "now": repr(a)[:400]}
        return None
    return Case("args_snapshot", enc_prog([lit], [{}]), impl, oracle, cls="snapshot/" + name.split("/")[0],
                info={"name": name, "combo": list(combo)})


def snapshot_cases():
    out = []
    for name, kinds, _, lists in family_calls():
        labels = [[lab for lab, _, _ in graph_variants(k)] for k in kinds]
        combos = [[]]
        for ls in labels:
            combos = [c + [lab] for c in combos for lab in ls]
        for combo in combos:
            out.append(snapshot_case(name, kinds, combo, lists))
    return out


# ------------------------------------------------------------------------------------------------ cases
def mk_case(suite, cls, prog, oracle=None):
    extras = [{} for _ in prog]
    run_real(prog, extras)
    return Case(suite, enc_prog(prog, extras), impl_of(prog), oracle or oracle_of(prog), cls=cls,
                info={"prog": prog, "cls": cls})


def build(suite, info):
    if suite in ("args_scenario", "args_history"):
        return mk_case(suite, info.get("cls", "replay"), [list(i) for i in info["prog"]])
    if suite == "args_o1":
        return o1_case()
    if suite == "args_snapshot":
        fam = dict((n, (k, l)) for n, k, _, l in family_calls())[info["name"]]
        return snapshot_case(info["name"], fam[0], info["combo"], fam[1])
    raise ValueError("unknown suite " + suite)


def search(ctx, case):
    """the correspondence broke (e.g. the sharing graph differs): look for a failing INPUT of the property — the oracle on
    every prefix, extended by writes into every caller-owned list and graph (nothing else may move)"""
    if case.suite not in ("args_scenario", "args_history", "args_o1"):
        return None
    prog = case.info["prog"]
    tried = 0
    for n in range(len(prog), 0, -1):
        prefix = prog[:n]
        _, regs = run_real(prefix)
        exts = [[]]
        for i, o in enumerate(regs):
            if isinstance(o, list) and H.is_intlist(o):
                exts.append([["append", i, 1]])
                if o:
                    exts.append([["setitem", i, 0, 1 - (o[0] if o[0] in (0, 1) else 0)]])
            if isinstance(o, (G.Graph, G.DirectedGraph)) and o.number_of_vertices() >= 2:
                for u, v in ((1, 2), (2, 1), (1, o.number_of_vertices())):
                    if u != v and not o.has_edge(u, v):
                        exts.append([["gaddedge", i, u, v]])
                        break
            if isinstance(o, BaseCNF):
                exts.append([["addclausegen", i, [1], True, "tuple"]])
        for e in exts:
            tried += 1
            if tried > 300:
                return None
            r = _oracle(prefix + e)
            if r is not None:
                return r
    return None


def search_global(ctx):
    """a proof obligation of Props/C19/Args.lean no longer checks (e.g. a family now applies a method outside the reviewed
    read-only list to its graph): look for a failing input among the snapshot cases and the scenarios"""
    for c in snapshot_cases() + [mk_case("args_scenario", cls, prog) for cls, prog in scenarios()]:
        try:
            r = c.oracle()
        except Exception:   # noqa
            r = None
        if r is not None:
            return r
    return None


def cases(ctx):
    tier, seed = ctx["tier"], ctx["seed"]
    out = [mk_case("args_scenario", cls, prog) for cls, prog in scenarios()]
    out.append(o1_case())
    out += snapshot_cases()
    rng = common.sub_rng(seed, "C19args")
    n = 250 if tier == "quick" else 3000
    for _ in range(n):
        prog = gen_prog(rng, rng.choice([4, 6, 8, 10, 14]))
        fams = sorted({i[0] for i in prog if i[0] in ("tseitin", "gphp", "planted", "norm", "livegroup")})
        out.append(mk_case("args_history", "history/" + "+".join(fams), prog))
    return out
