"""C03 (share "order") — ordering / graph-ordering principle (plain, total, smart, planted,
Knuth 2 and 3), pebbling, stone and sparse stone formulas.

Correspondence: the rendered formula of the real generator (CNF and OPB class) equals the Lean
model's rendering exactly (variable count, constraint order, literal order), including the
exception kind for rejected arguments.

Oracle (independent of the model, evaluated on the REAL formula object):
  * documented number of variables, literals within range;
  * "exactly the documented axioms": the clause set, decoded through the formula's own variable
    labels, equals the axiom set generated here directly from the documentation;
  * satisfiability: documented contradictions (>= 1 vertex) are unsatisfiable -- truth table up
    to 12 variables, a small DPLL (written here) beyond that; the planted ordering principle is
    satisfiable exactly when a linear order with the single allowed minimum exists (orders are
    enumerated directly), and for <= 12 variables its satisfying assignments are exactly the
    documented strict orders (truth table against the specification predicate).
"""
import itertools

from harness import common
from harness.common import Case, req, enc_pairs, ok, fmt_formula

from cnfgen.families.ordering import OrderingPrinciple, GraphOrderingPrinciple
from cnfgen.families.pebbling import PebblingFormula, StoneFormula, SparseStoneFormula
from cnfgen.graphs import Graph, DirectedGraph, BipartiteGraph
from cnfgen.formula.cnf import CNF
from cnfgen.formula.opb import OPB
from cnfgen.formula.baseopb import BaseOPB

SUITES = ("o_op", "o_gop", "o_peb", "o_stone", "o_sstone", "o_pymode", "o_reuse")
MODE_SUITE = "o_pymode"      # the same cases answered by a child interpreter running with -O / -OO
REUSE_SUITE = "o_reuse"      # graph argument objects used, edited in place, used again (common.reuse_cases)
TT_VARS = 12          # truth-table bound
DPLL_VARS = 160       # DPLL bound
DPLL_BUDGET = 60000   # DPLL node budget (exceeded => no verdict, never an alarm)

RULE = ("ordering: sizes 0..7 x {plain,total,smart} x plant x knuth {0,2,3} x both classes (shape/nvars only up to 40); "
        "graph ordering: empty/path/cycle/star/complete/disconnected/random graphs on 0..7 vertices x all flag combinations; "
        "pebbling/stone/sparse stone: single vertex, paths, binary trees, pyramids, random topologically ordered DAGs, several "
        "sources/sinks, isolated vertices, non-DAG inputs (rejected), stone counts 0..4, complete/random/deficient availability "
        "graphs, left-side mismatch (rejected); o_reuse: histories in which ONE graph / DAG object (and the availability graph of "
        "the sparse stone formula; cnfgen objects and networkx objects with odd labels) is handed to graph ordering (all variants, "
        "planted included) / pebbling / stone / sparse stone 3-5 times while its owner edits it in place between the calls (edge "
        "rewired, degree-preserving switch, labels exchanged, vertex moved to the other side, an edge reversed: vertex and edge "
        "counts unchanged; sometimes grown), each formula compared and judged on the value the object has at that moment; "
        "distinct = distinct request line; non-trivial = at least one vertex")
ASSUMPTIONS = ["graph arguments are cnfgen Graph/DirectedGraph/BipartiteGraph objects built through add_edge "
               "(networkx inputs go through normalize, property C16/C14)"]
NOTES = ["oracle verdicts: truth table <= {} variables, DPLL <= {} variables with node budget {}".format(
    TT_VARS, DPLL_VARS, DPLL_BUDGET), "satisfiability verdicts of the oracle: none yet"]


# ------------------------------------------------------------------ helpers
def as_clauses(F):
    """clauses of the real formula; OPB constraints of the shape sum(l_i) >= 1 are read as clauses.
    Returns None if some constraint is not clause-shaped."""
    if isinstance(F, BaseOPB):
        out = []
        for c in F:
            c = list(c)
            if c[-2] != ">=" or c[-1] != 1 or any(coef != 1 for coef, _ in c[:-2]):
                return None
            out.append([l for _, l in c[:-2]])
        return out
    return [list(c) for c in F.clauses()]


def dpll(clauses, nvars, budget):
    """returns (True, model) / (False, None) / (None, None) when the node budget is exceeded.
    Plain DPLL with unit propagation; `model` is the list of true variables."""
    state = {"nodes": 0}
    budget = min(budget, max(300, 3000000 // (sum(len(c) for c in clauses) + 1)))   # bound the work, not only the nodes

    def simplify(cls, lit):
        out = []
        for c in cls:
            if lit in c:
                continue
            if -lit in c:
                c = [l for l in c if l != -lit]
                if not c:
                    return None
            out.append(c)
        return out

    def solve(cls, trail):
        state["nodes"] += 1
        if state["nodes"] > budget:
            raise TimeoutError
        while True:
            unit = None
            for c in cls:
                if len(c) == 0:
                    return None
                if len(c) == 1:
                    unit = c[0]
                    break
            if unit is None:
                break
            trail = trail + [unit]
            cls = simplify(cls, unit)
            if cls is None:
                return None
        if not cls:
            return trail
        c = min(cls, key=len)
        l = c[0]
        for choice in (l, -l):
            nxt = simplify(cls, choice)
            if nxt is not None:
                r = solve(nxt, trail + [choice])
                if r is not None:
                    return r
        return None

    cls = [sorted(set(c), key=abs) for c in clauses]
    if any(len(c) == 0 for c in cls):
        return False, None
    cls = [c for c in cls if not any(-l in c for l in c)]   # drop tautologies
    try:
        r = solve(cls, [])
    except (TimeoutError, RecursionError):
        return None, None
    if r is None:
        return False, None
    return True, sorted(l for l in r if l > 0)


STATS = {"truth_table": 0, "dpll": 0, "no_verdict": 0}


def _count(kind):
    STATS[kind] += 1
    NOTES[1] = "satisfiability verdicts of the oracle: {}".format(dict(STATS))


def satisfiable(clauses, nvars):
    """True/False/None"""
    if nvars <= TT_VARS:
        _count("truth_table")
        for alpha in common.assignments(nvars):
            if common.cnf_holds(clauses, alpha):
                return True
        return False
    if nvars <= DPLL_VARS:
        r = dpll(clauses, nvars, DPLL_BUDGET)[0]
        _count("dpll" if r is not None else "no_verdict")
        return r
    _count("no_verdict")
    return None


def label_sets(clauses, labels):
    out = set()
    for c in clauses:
        out.add(frozenset((l > 0, labels[abs(l) - 1]) for l in c))
    return out


def check_basic(F, clauses, want_nvars):
    n = F.number_of_variables()
    if n != want_nvars:
        return {"number_of_variables": n, "documented": want_nvars}
    for c in clauses:
        for l in c:
            if l == 0 or abs(l) > n:
                return {"literal_out_of_range": l, "number_of_variables": n}
    labels = list(F.all_variable_labels())
    if len(labels) != n or len(set(labels)) != n:
        return {"labels_not_distinct_or_wrong_count": labels[:30]}
    return None


def diff_axioms(got, want):
    if got == want:
        return None
    missing = [sorted(map(list, c)) for c in list(want - got)[:3]]
    extra = [sorted(map(list, c)) for c in list(got - want)[:3]]
    return {"axioms_missing": missing, "axioms_extra": extra}


def model_of(clauses, nvars):
    """some satisfying assignment (list of true variables), for the failure report; re-checked"""
    if nvars <= TT_VARS:
        for alpha in common.assignments(nvars):
            if common.cnf_holds(clauses, alpha):
                return [i for i in range(1, nvars + 1) if alpha[i]]
        return None
    ok_, model = dpll(clauses, nvars, DPLL_BUDGET)
    if not ok_:
        return None
    alpha = [False] * (nvars + 1)
    for v in model:
        alpha[v] = True
    return model if common.cnf_holds(clauses, alpha) else None


# ------------------------------------------------------------------ documented axioms
def xlab(u, v):
    return "x_{{{},{}}}".format(u, v)


def ordering_axioms(n, nbrs, total, smart, plant, knuth):
    """axiom set of the (graph) ordering principle over labels, from the documentation:
    non-minimality of every vertex (the last one exempt if planted), transitivity (all of it;
    Knuth 2: only the instances whose middle element is the largest of the three; Knuth 3: only
    those whose last element is the largest; smart: no cyclic triangle), antisymmetry, totality."""
    V = range(1, n + 1)
    ax = set()

    def below(u, v):      # literal "u < v in the order"
        if not smart:
            return (True, xlab(u, v))
        return (True, xlab(u, v)) if u < v else (False, xlab(v, u))

    def neg(lit):
        return (not lit[0], lit[1])

    for v in V:
        if plant and v == n:
            continue
        ax.add(frozenset(below(u, v) for u in nbrs[v]))
    if smart:
        for a in V:
            for b in V:
                for c in V:
                    if a < b < c:
                        # no cycle a<b<c<a and no cycle a>b>c>a
                        ax.add(frozenset([neg(below(a, b)), neg(below(b, c)), neg(below(c, a))]))
                        ax.add(frozenset([neg(below(b, a)), neg(below(c, b)), neg(below(a, c))]))
        return ax
    for a in V:
        for b in V:
            for c in V:
                if len({a, b, c}) < 3:
                    continue
                if knuth == 2 and not (b > a and b > c):
                    continue
                if knuth == 3 and not (c > a and c > b):
                    continue
                ax.add(frozenset([neg(below(a, b)), neg(below(b, c)), below(a, c)]))
    for a in V:
        for b in V:
            if a < b:
                ax.add(frozenset([neg(below(a, b)), neg(below(b, a))]))
                if total:
                    ax.add(frozenset([below(a, b), below(b, a)]))
    return ax


def ordering_spec(n, nbrs, total, plant, rel):
    """the specification predicate on a relation rel[(u,v)] (u != v): strict order [total] in which
    every vertex (except the last if planted) has a smaller neighbour"""
    V = range(1, n + 1)
    for a in V:
        for b in V:
            if a < b:
                if rel[(a, b)] and rel[(b, a)]:
                    return False
                if total and not (rel[(a, b)] or rel[(b, a)]):
                    return False
    for a in V:
        for b in V:
            for c in V:
                if len({a, b, c}) == 3 and rel[(a, b)] and rel[(b, c)] and not rel[(a, c)]:
                    return False
    for v in V:
        if plant and v == n:
            continue
        if not any(rel[(u, v)] for u in nbrs[v]):
            return False
    return True


def linear_order_with_minimum_exists(n, nbrs, plant):
    """is there a linear order of 1..n in which every vertex except (if planted) n has a smaller neighbour?"""
    for perm in itertools.permutations(range(1, n + 1)):
        pos = {v: i for i, v in enumerate(perm)}
        good = True
        for v in range(1, n + 1):
            if plant and v == n:
                continue
            if not any(pos[u] < pos[v] for u in nbrs[v]):
                good = False
                break
        if good:
            return True
    return False


def pebbling_axioms(n, preds, succs):
    ax = set()
    for v in range(1, n + 1):
        ax.add(frozenset([(False, "x({})".format(p)) for p in preds[v]] + [(True, "x({})".format(v))]))
        if not succs[v]:
            ax.add(frozenset([(False, "x({})".format(v))]))
    return ax


def stone_axioms(n, preds, succs, avail):
    """avail[v] = stones allowed on v. Axioms: every vertex has a stone; a stone j on v is red if
    every predecessor carries a red stone (one clause per choice of stones other than j on the
    predecessors; sources: no predecessor); stones on sinks are not red."""
    def P(v, j):
        return "P_{{{},{}}}".format(v, j)

    def R(j):
        return "R_{{{}}}".format(j)
    ax = set()
    for v in range(1, n + 1):
        ax.add(frozenset((True, P(v, j)) for j in avail[v]))
        for j in avail[v]:
            choices = [[s for s in avail[p] if s != j] for p in preds[v]]
            for pat in itertools.product(*choices):
                lits = [(False, P(p, s)) for p, s in zip(preds[v], pat)]
                lits += [(False, R(s)) for s in pat]
                lits += [(False, P(v, j)), (True, R(j))]
                ax.add(frozenset(lits))
        if not succs[v]:
            for j in avail[v]:
                ax.add(frozenset([(False, P(v, j)), (False, R(j))]))
    return ax


# ------------------------------------------------------------------ graph builders (from JSON-able info)
def mk_graph(n, edges):
    G = Graph(n)
    for u, v in edges:
        G.add_edge(u, v)
    return G


def mk_digraph(n, edges):
    D = DirectedGraph(n)
    for u, v in edges:
        D.add_edge(u, v)
    return D


def mk_bip(l, r, edges):
    B = BipartiteGraph(l, r)
    for u, v in edges:
        B.add_edge(u, v)
    return B


def adj_of(n, edges):
    nb = {v: set() for v in range(1, n + 1)}
    for u, v in edges:
        nb[u].add(v)
        nb[v].add(u)
    return {v: sorted(s) for v, s in nb.items()}


def pred_succ(n, edges):
    pr = {v: set() for v in range(1, n + 1)}
    su = {v: set() for v in range(1, n + 1)}
    for u, v in edges:
        pr[v].add(u)
        su[u].add(v)
    return {v: sorted(s) for v, s in pr.items()}, {v: sorted(s) for v, s in su.items()}


def is_topological(edges):
    return all(u < v for u, v in edges)


# ------------------------------------------------------------------ oracles
def ordering_oracle(state, n, edges, total, smart, plant, knuth):
    def oracle():
        F = state.get("F")
        if F is None:
            return {"generator_raised_on_legal_input": state.get("exc")}
        nbrs = adj_of(n, edges)
        clauses = as_clauses(F)
        want_nvars = n * (n - 1) // 2 if smart else n * (n - 1)
        if clauses is None:
            return {"opb_constraint_not_a_clause": True}
        r = check_basic(F, clauses, want_nvars)
        if r:
            return r
        labels = list(F.all_variable_labels())
        bad = diff_axioms(label_sets(clauses, labels), ordering_axioms(n, nbrs, total, smart, plant, knuth)) or {}
        nv = want_nvars
        if n == 0:
            return bad or None
        if not plant:
            s = satisfiable(clauses, nv)
            if s is True:
                bad.update({"documented_contradiction_is_satisfiable": True, "model": model_of(clauses, nv)})
            return bad or None
        if bad:
            return bad
        # planted: sat <=> a linear order with the single allowed minimum exists
        if n <= 7:
            s = satisfiable(clauses, nv)
            want = linear_order_with_minimum_exists(n, nbrs, True)
            if s is not None and s != want:
                return {"planted_satisfiable": s, "order_with_allowed_minimum_exists": want}
        # planted, small: satisfying assignments are exactly the documented orders
        if nv <= TT_VARS and knuth not in (2, 3):
            lab2var = {lab: i + 1 for i, lab in enumerate(labels)}
            for alpha in common.assignments(nv):
                rel = {}
                for u in range(1, n + 1):
                    for v in range(1, n + 1):
                        if u == v:
                            continue
                        if smart:
                            rel[(u, v)] = alpha[lab2var[xlab(u, v)]] if u < v else not alpha[lab2var[xlab(v, u)]]
                        else:
                            rel[(u, v)] = alpha[lab2var[xlab(u, v)]]
                got = common.cnf_holds(clauses, alpha)
                want = ordering_spec(n, nbrs, total or smart, True, rel)
                if got != want:
                    return {"assignment": [i for i in range(1, nv + 1) if alpha[i]], "formula_accepts": got,
                            "is_documented_order": want}
        return None
    return oracle


def dag_oracle(state, kind, n, edges, avail=None, want_nvars=None):
    def oracle():
        F = state.get("F")
        if F is None:
            return {"generator_raised_on_legal_input": state.get("exc")}
        clauses = as_clauses(F)
        if clauses is None:
            return {"opb_constraint_not_a_clause": True}
        r = check_basic(F, clauses, want_nvars)
        if r:
            return r
        preds, succs = pred_succ(n, edges)
        labels = list(F.all_variable_labels())
        want = pebbling_axioms(n, preds, succs) if kind == "peb" else stone_axioms(n, preds, succs, avail)
        bad = diff_axioms(label_sets(clauses, labels), want) or {}
        if n == 0:
            return bad or None
        s = satisfiable(clauses, want_nvars)
        if s is True:
            bad.update({"documented_contradiction_is_satisfiable": True, "model": model_of(clauses, want_nvars)})
        return bad or None
    return oracle


# ------------------------------------------------------------------ build
def meddle_with_factory_graphs(n):
    """another caller of the library, earlier in the same process: obtains graphs from the factory methods and edits
    its own copies in place.  Nothing of that may show in a formula generated afterwards (seeded change C03-6)."""
    from cnfgen.graphs import Graph
    for k in {max(n, 0), max(n - 1, 0), n + 1 if n >= 0 else 1, 3}:
        for make in (Graph.complete_graph, Graph.empty_graph, Graph.star_graph):
            try:
                H = make(k)
            except Exception:
                continue
            try:
                if H.number_of_edges() > 0:
                    u, v = next(iter(H.edges()))
                    H.remove_edge(u, v)
                H.update_vertex_number(H.number_of_vertices() + 2)
                H.add_edge(1, H.number_of_vertices())
                H.name = "edited by its owner"
            except Exception:
                pass


def build(suite, info, args=None):
    """args: {slot: thunk} -- the caller's own (live) graph objects instead of ones made from info; slot "g" = the graph /
    DAG argument, slot "b" = the stone availability graph of the sparse stone formula"""
    if suite not in SUITES:
        raise ValueError("unknown suite " + suite)
    if suite == MODE_SUITE:
        return common.mode_build(__name__, build, MODE_SUITE, info)
    if suite == REUSE_SUITE:
        return common.reuse_cases(info["hist"], build, REUSE_SUITE)[info["step"]]

    def live(slot, fresh):
        return args[slot]() if (args is not None and slot in args) else fresh()
    opb = bool(info.get("opb", False))
    fc = OPB if opb else CNF
    cls_i = 1 if opb else 0
    state = {}

    def run(thunk):
        def impl():
            state.pop("F", None)
            try:
                F = thunk()
            except Exception as e:
                state["exc"] = type(e).__name__
                raise
            state["F"] = F
            return ok(fmt_formula(F))
        return impl

    tag = "opb" if opb else "cnf"
    if suite in ("o_op", "o_gop"):
        total, smart, plant = bool(info.get("total")), bool(info.get("smart")), bool(info.get("plant"))
        knuth = int(info.get("knuth", 0))
        variant = ("smart" if smart else "total" if total else "plain") + ("+plant" if plant else "") + \
                  ("+knuth{}".format(knuth) if knuth in (2, 3) and not smart else "")
        if suite == "o_op":
            n = int(info["n"])
            r = req("c03_op", cls_i, n, total, smart, plant, knuth)
            def call_op():
                if info.get("meddle"):
                    meddle_with_factory_graphs(n)
                return OrderingPrinciple(n, total=total, smart=smart, plant=plant, knuth=knuth, formula_class=fc)
            impl = run(call_op)
            if n < 0:
                return Case(suite, r, impl, None, cls=tag + ":rejected", nontrivial=False, info=info)
            edges = [(u, v) for u in range(1, n + 1) for v in range(u + 1, n + 1)]
            oracle = ordering_oracle(state, n, edges, total, smart, plant, knuth) if n <= 7 else shape_oracle(
                state, n * (n - 1) // 2 if smart else n * (n - 1))
            return Case(suite, r, impl, oracle, cls=tag + ":" + variant, nontrivial=n > 0, info=info)
        n = int(info["n"])
        edges = [tuple(e) for e in info["edges"]]
        r = req("c03_gop", cls_i, total, smart, plant, knuth, [n], enc_pairs(edges))
        impl = run(lambda: GraphOrderingPrinciple(live("g", lambda: mk_graph(n, edges)), total=total, smart=smart, plant=plant,
                                                  knuth=knuth, formula_class=fc))
        oracle = ordering_oracle(state, n, sorted({(min(e), max(e)) for e in edges}), total, smart, plant, knuth)
        return Case(suite, r, impl, oracle, cls=tag + ":" + variant, nontrivial=n > 0, info=info)

    n = int(info["n"])
    edges = [tuple(e) for e in info["edges"]]
    uedges = sorted(set(edges))
    dag = is_topological(edges)
    if suite == "o_peb":
        r = req("c03_peb", cls_i, [n], enc_pairs(edges))
        impl = run(lambda: PebblingFormula(live("g", lambda: mk_digraph(n, edges)), formula_class=fc))
        if not dag:
            return Case(suite, r, impl, None, cls=tag + ":rejected", nontrivial=False, info=info)
        return Case(suite, r, impl, dag_oracle(state, "peb", n, uedges, want_nvars=n), cls=tag + ":dag",
                    nontrivial=n > 0, info=info)
    if suite == "o_stone":
        k = int(info["k"])
        r = req("c03_stone", cls_i, k, [n], enc_pairs(edges))
        impl = run(lambda: StoneFormula(live("g", lambda: mk_digraph(n, edges)), k, formula_class=fc))
        if not dag or k < 0:
            return Case(suite, r, impl, None, cls=tag + ":rejected", nontrivial=False, info=info)
        avail = {v: list(range(1, k + 1)) for v in range(1, n + 1)}
        return Case(suite, r, impl, dag_oracle(state, "stone", n, uedges, avail, want_nvars=k + n * k),
                    cls=tag + ":k{}".format(k), nontrivial=n > 0, info=info)
    # o_sstone
    l, rr = int(info["l"]), int(info["r"])
    bedges = [tuple(e) for e in info["bedges"]]
    r = req("c03_sstone", cls_i, [n], enc_pairs(edges), [l, rr], enc_pairs(bedges))
    impl = run(lambda: SparseStoneFormula(live("g", lambda: mk_digraph(n, edges)), live("b", lambda: mk_bip(l, rr, bedges)),
                                          formula_class=fc))
    if not dag or l != n:
        return Case(suite, r, impl, None, cls=tag + ":rejected", nontrivial=False, info=info)
    avail = {v: sorted({b for a, b in bedges if a == v}) for v in range(1, n + 1)}
    deficient = any(len(avail[v]) == 0 for v in avail)
    return Case(suite, r, impl, dag_oracle(state, "sstone", n, uedges, avail, want_nvars=rr + len(set(bedges))),
                cls=tag + (":deficient" if deficient else ":sparse"), nontrivial=n > 0, info=info)


def shape_oracle(state, want_nvars):
    """large sizes: variable count and literal range only"""
    def oracle():
        F = state.get("F")
        if F is None:
            return {"generator_raised_on_legal_input": state.get("exc")}
        clauses = as_clauses(F)
        if clauses is None:
            return {"opb_constraint_not_a_clause": True}
        n = F.number_of_variables()
        if n != want_nvars:
            return {"number_of_variables": n, "documented": want_nvars}
        for c in clauses:
            for l in c:
                if l == 0 or abs(l) > n:
                    return {"literal_out_of_range": l}
        return None
    return oracle


# ------------------------------------------------------------------ generators
def g_path(n):
    return [(i, i + 1) for i in range(1, n)]


def g_cycle(n):
    return g_path(n) + ([(1, n)] if n >= 3 else [])


def g_star(n):
    return [(i, n) for i in range(1, n)]


def g_complete(n):
    return [(u, v) for u in range(1, n + 1) for v in range(u + 1, n + 1)]


def g_random(rng, n, p):
    return [(u, v) for u in range(1, n + 1) for v in range(u + 1, n + 1) if rng.random() < p]


def d_pyramid(h):
    """pyramid of height h in topological order: level 0 has h+1 sources"""
    edges = []
    start = 1
    width = h + 1
    while width > 1:
        nxt = start + width
        for i in range(width - 1):
            edges.append((start + i, nxt + i))
            edges.append((start + i + 1, nxt + i))
        start = nxt
        width -= 1
    n = (h + 1) * (h + 2) // 2
    return n, edges


def d_tree(h):
    """complete binary tree of height h, leaves first, root last"""
    n = 2 ** (h + 1) - 1
    edges = []
    # vertices numbered so that children come before parents: reverse heap order
    for parent in range(1, 2 ** h):
        for child in (2 * parent, 2 * parent + 1):
            edges.append((n + 1 - child, n + 1 - parent))
    return n, sorted(edges)


def d_random(rng, n, p, maxdeg=3):
    edges = []
    indeg = {v: 0 for v in range(1, n + 1)}
    for v in range(2, n + 1):
        for u in range(1, v):
            if indeg[v] < maxdeg and rng.random() < p:
                edges.append((u, v))
                indeg[v] += 1
    return edges


def flag_combos():
    out = []
    for total in (False, True):
        for smart in (False, True):
            for plant in (False, True):
                for knuth in (0, 2, 3):
                    out.append(dict(total=total, smart=smart, plant=plant, knuth=knuth))
    return out


def shuffled(rng, xs):
    xs = list(xs)
    rng.shuffle(xs)
    return xs


def reuse_histories(rng, tier):
    """histories of graph objects that their owner keeps editing in place: one simple graph handed to the graph ordering
    principle in all its variants (planted included), one DAG handed to pebbling / stone formulas, a DAG and an availability
    graph handed to the sparse stone formula -- cnfgen objects and networkx objects"""
    out = []
    flags = flag_combos()
    for i in range(45 if tier == "quick" else 450):
        form = "nx" if i % 2 else "cnfgen"
        if i % 3 == 0:
            n = rng.randint(3, 5)
            value = common.gvalue("simple", n, g_random(rng, n, rng.choice([.4, .6])) or [(1, 2)])

            def pick(rng, values, prev):
                v = values["g"]
                f = dict(rng.choice(flags))
                if rng.random() < .4:
                    f.update(plant=True, knuth=0)
                return ["o_gop", dict(n=v["n"], edges=v["edges"], opb=rng.random() < .3, **f)]
            slots = {"g": {"value": value, "form": form, "salt": rng.randint(0, 10 ** 6)}}
            dag = ()
        else:
            n = rng.randint(3, 6)
            value = common.gvalue("digraph", n, d_random(rng, n, rng.choice([.3, .5]), maxdeg=2) or [(1, 2)])
            sparse = i % 3 == 2 and i % 4 < 2
            r = rng.randint(2, 3)

            stick = 1.0 if i % 4 < 2 else .5     # half of the histories stay with ONE family

            def pick(rng, values, prev, sparse=sparse, stick=stick):
                v = values["g"]
                base = dict(n=v["n"], edges=v["edges"], opb=rng.random() < .3)
                if sparse:
                    b = values["b"]
                    return ["o_sstone", dict(base, l=b["l"], r=b["r"], bedges=b["edges"])]
                if (prev[0] if prev and rng.random() < stick else rng.choice(["o_peb", "o_stone"])) == "o_peb":
                    return ["o_peb", base]
                return ["o_stone", dict(base, k=rng.choice([1, 2, 2, 3]))]
            slots = {"g": {"value": value, "form": form, "salt": rng.randint(0, 10 ** 6)}}
            if sparse:
                be = [(v, j) for v in range(1, n + 1) for j in range(1, r + 1) if rng.random() < .6 or j == (v % r) + 1]
                slots["b"] = {"value": common.gvalue("bipartite", (n, r), be), "form": rng.choice(["cnfgen", "nx"]),
                              "salt": rng.randint(0, 10 ** 6)}
                # a BipartiteGraph object can only grow and the sparse mappings made from it keep a reference to it
                # (observation O1, notes/C19.md): handed over again as it is (growth between groups: C11 graph_reuse)
                slots["b"]["frozen"] = slots["b"]["form"] == "cnfgen"
            dag = ("g",) if rng.random() < .85 else ()
        out.append(common.gen_reuse_history(rng, slots, rng.randint(3, 5), pick, dag=dag))
    return out


def cases(ctx):
    tier, seed = ctx["tier"], ctx["seed"]
    thorough = tier == "thorough"
    rng = common.sub_rng(seed, "C03_order")
    infos = []
    flags = flag_combos()
    main_flags = [dict(total=False, smart=False, plant=False, knuth=0), dict(total=True, smart=False, plant=False, knuth=0),
                  dict(total=False, smart=True, plant=False, knuth=0), dict(total=False, smart=False, plant=True, knuth=0),
                  dict(total=False, smart=False, plant=False, knuth=2), dict(total=False, smart=False, plant=False, knuth=3),
                  dict(total=True, smart=False, plant=True, knuth=0), dict(total=False, smart=True, plant=True, knuth=0),
                  dict(total=True, smart=False, plant=False, knuth=2), dict(total=True, smart=False, plant=False, knuth=3)]

    # ---- corpus: ordering principle, every flag combination, sizes 0..5 (both classes at small sizes)
    for n in range(0, 6):
        for f in flags:
            infos.append(("o_op", dict(n=n, opb=False, **f)))
            if n <= 3:
                infos.append(("o_op", dict(n=n, opb=True, **f)))
    for n in range(2, 7):
        for f in main_flags[:4]:
            infos.append(("o_op", dict(n=n, opb=False, meddle=True, **f)))
    for n in (6, 7):
        for f in main_flags:
            infos.append(("o_op", dict(n=n, opb=(n == 6 and f["knuth"] == 0), **f)))
    infos.append(("o_op", dict(n=-1, opb=False, total=False, smart=False, plant=False, knuth=0)))
    infos.append(("o_op", dict(n=-3, opb=True, total=True, smart=True, plant=False, knuth=0)))
    infos.append(("o_op", dict(n=3, opb=False, total=False, smart=False, plant=False, knuth=1)))
    infos.append(("o_op", dict(n=3, opb=False, total=False, smart=False, plant=False, knuth=-2)))
    # shape only
    for n in ([9, 12, 20, 40] if not thorough else [8, 9, 10, 12, 15, 20, 25, 30, 40]):
        for f in main_flags[:3] + main_flags[4:6]:
            if n >= 25 and not f["smart"] and f["knuth"] == 0:
                continue  # ~60k clauses at n=40: keep only the thinner variants
            infos.append(("o_op", dict(n=n, opb=False, **f)))

    # ---- corpus: graph ordering principle
    shapes = []
    for n in range(0, 8):
        shapes.append((n, []))                       # isolated vertices
        if n >= 2:
            shapes.append((n, g_path(n)))
            shapes.append((n, g_star(n)))
        if n >= 3:
            shapes.append((n, g_cycle(n)))
        if 2 <= n <= 5:
            shapes.append((n, g_complete(n)))
        if n >= 4:
            shapes.append((n, g_path(n - 2)))        # two isolated vertices at the end
            shapes.append((n, [(1, 2), (n - 1, n)]))  # disconnected
    for n, e in shapes:
        for f in (flags if n <= 4 else main_flags):
            if n > 5 and not (f["smart"] or f["plant"]) and len(e) >= n:
                pass
            infos.append(("o_gop", dict(n=n, edges=e, opb=False, **f)))
        if n <= 4:
            for f in main_flags[:4]:
                infos.append(("o_gop", dict(n=n, edges=e, opb=True, **f)))
    reps = 60 if not thorough else 2500
    for _ in range(reps):
        n = rng.choice([2, 3, 3, 4, 4, 5, 5, 6, 6, 7] + ([8, 9] if thorough else []))
        e = g_random(rng, n, rng.choice([0.3, 0.5, 0.8]))
        if rng.random() < 0.3:
            e = shuffled(rng, [(v, u) if rng.random() < .5 else (u, v) for u, v in e])   # insertion order / orientation
        f = rng.choice(flags) if rng.random() < .5 else rng.choice(main_flags)
        infos.append(("o_gop", dict(n=n, edges=e, opb=rng.random() < .3, **f)))

    # ---- corpus: DAGs
    dags = [(0, []), (1, []), (2, []), (2, [(1, 2)]), (3, [(1, 3), (2, 3)]), (3, g_path(3)), (4, g_path(4)),
            (3, []), (4, [(1, 2)]), (4, [(1, 3), (2, 3), (1, 4)]), (5, [(1, 3), (2, 3), (3, 4), (3, 5)]),
            (5, [(1, 2), (1, 3), (1, 4), (1, 5)]), (5, [(1, 5), (2, 5), (3, 5), (4, 5)]), (6, [(1, 2), (2, 3), (4, 5)])]
    for h in (1, 2, 3):
        dags.append(d_pyramid(h))
    for h in (1, 2):
        dags.append(d_tree(h))
    dags.append((8, g_path(8)))
    dags.append((12, g_path(12)))
    if thorough:
        dags.append(d_pyramid(4))
        dags.append(d_tree(3))
        dags.append((30, g_path(30)))
    rdags = []
    for _ in range(25 if not thorough else 600):
        n = rng.choice([2, 3, 4, 5, 6, 7, 8, 9, 10] + ([12, 15] if thorough else []))
        rdags.append((n, d_random(rng, n, rng.choice([0.2, 0.4, 0.7]))))
    bad = [(2, [(2, 1)]), (3, [(1, 2), (3, 2)]), (2, [(1, 1)]), (3, [(1, 2), (2, 3), (3, 1)]), (1, [(1, 1)])]

    for n, e in dags + rdags:
        infos.append(("o_peb", dict(n=n, edges=e, opb=False)))
        if n <= 6:
            infos.append(("o_peb", dict(n=n, edges=e, opb=True)))
    for n, e in bad:
        infos.append(("o_peb", dict(n=n, edges=e, opb=False)))
        infos.append(("o_stone", dict(n=n, edges=e, k=2, opb=False)))
        infos.append(("o_sstone", dict(n=n, edges=e, l=n, r=2, bedges=[(v, 1) for v in range(1, n + 1)], opb=False)))
    # pebbling shape at larger size
    infos.append(("o_peb", dict(n=40, edges=g_path(40), opb=False)))
    pn, pe = d_pyramid(7)
    infos.append(("o_peb", dict(n=pn, edges=pe, opb=False)))

    # stone: stone counts 0..4
    def stone_size(n, e, k):
        pr, _ = pred_succ(n, sorted(set(e)))
        return sum(k * max(k - 1, 0) ** len(pr[v]) for v in pr)
    for n, e in dags + rdags:
        for k in (0, 1, 2, 3, 4):
            if stone_size(n, e, k) > (400 if not thorough else 3000):
                continue
            infos.append(("o_stone", dict(n=n, edges=e, k=k, opb=False)))
            if n <= 3 and k <= 2:
                infos.append(("o_stone", dict(n=n, edges=e, k=k, opb=True)))
    infos.append(("o_stone", dict(n=3, edges=[(1, 3), (2, 3)], k=-1, opb=False)))
    infos.append(("o_stone", dict(n=0, edges=[], k=-2, opb=True)))

    # sparse stone: availability graphs
    def avail_graphs(n, r):
        out = []
        full = [(v, j) for v in range(1, n + 1) for j in range(1, r + 1)]
        out.append(full)
        out.append([(v, j) for v, j in full if rng.random() < 0.6])                       # random (may be deficient)
        out.append([(v, ((v - 1) % r) + 1) for v in range(1, n + 1)] if r else [])       # one stone per vertex
        out.append(shuffled(rng, [(v, j) for v, j in full if (v + j) % 2 == 0 or j == 1]))
        return out
    for n, e in dags + rdags[: (10 if not thorough else 250)]:
        if n > 8:
            continue
        for r in (1, 2, 3, 4):
            for be in avail_graphs(n, r):
                pr, _ = pred_succ(n, sorted(set(e)))
                if sum(r * r ** len(pr[v]) for v in pr) > (300 if not thorough else 3000):
                    continue
                infos.append(("o_sstone", dict(n=n, edges=e, l=n, r=r, bedges=be, opb=False)))
                if n <= 3 and r <= 2:
                    infos.append(("o_sstone", dict(n=n, edges=e, l=n, r=r, bedges=be, opb=True)))
    # left side mismatch, zero stones
    infos.append(("o_sstone", dict(n=3, edges=[(1, 3), (2, 3)], l=2, r=2, bedges=[(1, 1), (2, 2)], opb=False)))
    infos.append(("o_sstone", dict(n=2, edges=[(1, 2)], l=3, r=1, bedges=[(1, 1), (2, 1), (3, 1)], opb=False)))
    infos.append(("o_sstone", dict(n=2, edges=[(1, 2)], l=2, r=0, bedges=[], opb=False)))
    infos.append(("o_sstone", dict(n=0, edges=[], l=0, r=3, bedges=[], opb=False)))
    infos.append(("o_sstone", dict(n=0, edges=[], l=0, r=0, bedges=[], opb=True)))

    seen = set()
    built = []
    for suite, info in infos:
        c = build(suite, info)
        if c.req in seen:
            continue
        seen.add(c.req)
        built.append(c)
        yield c
    # argument objects used, edited in place, used again
    for hist in reuse_histories(common.sub_rng(seed, "C03_order-reuse"), tier):
        yield from common.reuse_cases(hist, build, REUSE_SUITE)
    # a second interpreter mode: a stratified sample of the cases above, generated by `python -O` (-OO)
    yield from common.mode_cases(__name__, build, MODE_SUITE, built, common.sub_rng(seed, "C03_order-modes"), tier)


# ------------------------------------------------------------------ failing-input search
def _small_corpus():
    out = []
    for n in range(1, 5):
        for f in flag_combos():
            out.append(("o_op", dict(n=n, opb=False, **f)))
    for n, e in [(3, [(1, 2), (2, 3)]), (4, g_cycle(4)), (4, g_star(4)), (3, g_complete(3))]:
        for f in flag_combos():
            out.append(("o_gop", dict(n=n, edges=e, opb=False, **f)))
    dags = [(1, []), (2, [(1, 2)]), (3, [(1, 3), (2, 3)]), (4, [(1, 3), (2, 3), (3, 4)]), d_pyramid(2), (3, [])]
    for n, e in dags:
        out.append(("o_peb", dict(n=n, edges=e, opb=False)))
        for k in (1, 2, 3):
            out.append(("o_stone", dict(n=n, edges=e, k=k, opb=False)))
        out.append(("o_sstone", dict(n=n, edges=e, l=n, r=2,
                                     bedges=[(v, 1) for v in range(1, n + 1)] + [(v, 2) for v in range(1, n + 1, 2)], opb=False)))
    return out


def _first_failure(items):
    for suite, info in items:
        c = build(suite, info)
        common.run_impl(c)
        r = common.run_oracle(c)
        if r is not None:
            return {"suite": suite, "info": info, "req": c.req, "failure": r}
    return None


def search(ctx, case):
    """the correspondence broke on `case`: look for an input on which the PROPERTY fails, first the
    case itself, then the small instances of the same family"""
    if case.suite in (MODE_SUITE, REUSE_SUITE):
        r = common.run_oracle(case)
        return None if r is None else {"suite": case.suite, "info": case.info, "req": case.req, "failure": r}
    common.run_impl(case)
    r = common.run_oracle(case)
    if r is not None:
        return {"suite": case.suite, "info": case.info, "req": case.req, "failure": r}
    return _first_failure([(s, i) for s, i in _small_corpus() if s == case.suite])


def search_global(ctx):
    return _first_failure(_small_corpus())
