"""C15 — graph constructions on the command line deliver the structure they name.

Correspondence.  The real code (library functions of cnfgen/graphs.py and the command-line
machinery of cnfgen/clitools/graph_args.py / graph_build.py, called in-process) runs under a
recording proxy around the functions of the `random` module it calls (`sample`, `randint`,
`random`); the recorded draws are sent to the Lean model, whose output (every view of the
resulting graph object, or the exception class) must coincide exactly.  The proxy either passes
Python's own generator through (`seed:` runs, after `random.seed(rseed)`) or INJECTS legal answers
chosen by a policy of the harness (`low`, `high`, `sticky`, `uniform`): the theorems quantify over
every legal draw sequence, and the injected ones reach the paths that a seed reaches with
probability 2^-40 (retry loops giving up, dense fall-backs, restarts).

Oracle, independent of the model, on the real result: the promised structure (exact edge
count, regularity on both sides, left-regularity, the named graph equal to an independently
computed reference, DAG acyclic with the documented vertex count, planted (bi)clique present,
addedges / splitedges deltas, the saved file reads back equal to the graph that is returned) or a
clean refusal (ValueError, which the argparse actions turn into a usage error) exactly when the
request is outside the documented range.  networkx-backed constructions (gnp, gnm, gnd, grid,
torus, complete multipartite) are third party: the model takes their result as an input, only the
oracle's post-conditions are observed — testing, labelled as such.
"""
import argparse
import itertools
import math
import os
import random as pyrandom          # the module-level generator belongs to the code under test
import shutil
import sys
import tempfile

from harness import common
from harness.common import Case, req, enc_list, enc_pairs

import cnfgen.graphs as graphs
from cnfgen.graphs import (Graph, DirectedGraph, BipartiteGraph, CompleteBipartiteGraph, readGraph)
import cnfgen.clitools.graph_args as graph_args
import cnfgen.clitools.graph_build as graph_build

RULE = ("closed forms for parameters -2..7; samplers / modifications on parameter grids around every boundary "
        "(m = L*R//3 and +1, d = R and R+1, m = missing edges and +1, k = |E| and +1, N = d) x {seeded Python generator, "
        "injected legal draws: low/high/sticky/uniform}; command-line specs = construction x argument grid x option "
        "combinations (plantclique/plantbiclique, addedges, splitedges, save) incl. malformed arities and non-integer "
        "tokens; distinct = distinct request line (construction, arguments, draws); non-trivial = accepted request "
        "with at least one vertex")
ASSUMPTIONS = [
    "Python's generator is only assumed legal: sample(pop,k) = k members at distinct positions, randint(a,b) in [a,b], "
    "random() = n/2^53 with n < 2^53 (checked by the model on every recorded draw: an illegal record is STUCK)",
    "int(tok) / float(tok) of Python are the lexer of numeric tokens (an Arg of the model is their pair of results)",
    "graphs handed to modifiers are objects built through the class API (views consistent; C16)",
]
TRUSTED_EXTRA = [
    "networkx generators gnp/gnm/random_regular/grid/complete_multipartite and Graph.from_networkx/normalize: "
    "observed post-conditions only (testing)",
    "cnfgen's own graph readers are used by the oracle to read a saved graph back (C14)",
]
NOTES = ["RecursionError of bipartite_random_regular is produced at a deterministic depth by a counting wrapper "
         "(budget = the model's fuel); Python's own limit depends on the caller's stack depth"]

RESTART_BUDGET = 40
UNIT = 1 << 53


# ------------------------------------------------------------------ recording / injecting proxy
class Recorder:
    """context manager: replaces random.sample / randint / random of the `random` MODULE (the
    functions the code under test calls) by recording wrappers, in this process only"""
    NAMES = ("sample", "randint", "random")

    def __init__(self, mode, rseed):
        self.mode = mode
        self.rseed = rseed
        self.draws = []          # encoded draws
        self.samples = []        # raw results of sample()
        self.hr = common.sub_rng(rseed, "inject", mode)
        self.last = {}

    def __enter__(self):
        self.saved = {n: getattr(pyrandom, n) for n in self.NAMES}
        self.state = pyrandom.getstate()
        if self.mode == "seed":
            pyrandom.seed(self.rseed)
        pyrandom.sample = self.sample
        pyrandom.randint = self.randint
        pyrandom.random = self.random
        return self

    def __exit__(self, *a):
        for n, f in self.saved.items():
            setattr(pyrandom, n, f)
        pyrandom.setstate(self.state)
        return False

    # -- policies
    def _pick_index(self, key, n):
        """an index in range(n) according to the policy"""
        m = self.mode
        self.ncalls = getattr(self, "ncalls", 0) + 1
        if self.ncalls > 400:
            # the sparse loop of bipartite_random_m_edges has no bound of its own: an adversary that
            # repeats itself for ever is a non-terminating run, not a failure; become fair
            return self.hr.randrange(n)
        if m == "low":
            return 0
        if m == "high":
            return n - 1
        if m == "sticky":
            prev = self.last.get(key)
            if prev is not None and prev < n and self.hr.random() < 0.85:
                return prev
            i = self.hr.randrange(n)
            self.last[key] = i
            return i
        return self.hr.randrange(n)

    def sample(self, population, k, **kw):
        if self.mode == "seed":
            res = self.saved["sample"](population, k, **kw)
        else:
            # same refusals as random.sample
            if not isinstance(population, (list, tuple, range)):
                raise TypeError("Population must be a sequence.  For dicts or sets, use sorted(d).")
            n = len(population)
            if not 0 <= k <= n:
                raise ValueError("Sample larger than population or is negative")
            if self.mode == "low":
                idx = list(range(k))
            elif self.mode == "high":
                idx = list(range(n - 1, n - 1 - k, -1))
            elif self.mode == "sticky":
                idx = list(range(k))
                if self.hr.random() < 0.3:
                    idx = self.hr.sample(range(n), k)
            else:
                idx = self.hr.sample(range(n), k)
            res = [population[i] for i in idx]
        self.samples.append(list(res))
        # every integer population of the code under test is a `range`, every list one of pairs
        if isinstance(population, range):
            self.draws.append([0] + enc_list(res))
        else:
            self.draws.append([1] + enc_pairs(res))
        return res

    def randint(self, a, b):
        if self.mode == "seed":
            v = self.saved["randint"](a, b)
        else:
            if b < a:
                raise ValueError("empty range for randint")
            v = a + self._pick_index(("randint", a, b), b - a + 1)
        self.draws.append([2, v])
        return v

    def random(self):
        if self.mode == "seed":
            x = self.saved["random"]()
        elif self.mode == "low":
            x = 0.0
        elif self.mode == "high":
            x = (UNIT - 1) / UNIT
        else:
            x = self.hr.choice([0.0, (UNIT - 1) / UNIT, self.hr.random(), self.hr.random(), 0.5, 0.25])
        num = int(x * UNIT)
        assert num / UNIT == x
        self.draws.append([3, num])
        return x

    def encoded(self):
        out = [len(self.draws)]
        for d in self.draws:
            out += d
        return out


class RestartBudget:
    """bipartite_random_regular restarts by calling itself; count the calls and raise
    RecursionError at a deterministic depth (the model's `fuel`)"""

    def __init__(self, budget=RESTART_BUDGET):
        self.budget = budget
        self.calls = 0

    def __enter__(self):
        self.orig = graphs.bipartite_random_regular
        self.orig_gb = graph_build.bipartite_random_regular

        def wrapper(l, r, d, seed=None):
            self.calls += 1
            if self.calls > self.budget:
                raise RecursionError("restart budget of the harness exhausted")
            return self.orig(l, r, d, seed)
        graphs.bipartite_random_regular = wrapper
        graph_build.bipartite_random_regular = wrapper
        self.fn = wrapper
        return self

    def __exit__(self, *a):
        graphs.bipartite_random_regular = self.orig
        graph_build.bipartite_random_regular = self.orig_gb
        return False


# ------------------------------------------------------------------ canonical forms (mirror of Driver/GraphBuild.lean)
def fmt_pairs(ps):
    ps = list(ps)
    out = [str(len(ps))]
    for a, b in ps:
        out += [str(a), str(b)]
    return " ".join(out)


def fmt_simple(G):
    return "S {} {} {} {}".format(G.number_of_vertices(), G.number_of_edges(), fmt_pairs(G.edges()),
                                  fmt_pairs(sorted(G.edgeset)))


def fmt_di(G):
    return "D {} {} {} {} {}".format(G.number_of_vertices(), G.number_of_edges(), 1 if G.is_dag() else 0,
                                     fmt_pairs(G.edges()), fmt_pairs(G.edges_ordered_by_successors()))


def fmt_bip(G):
    tag = "C" if isinstance(G, CompleteBipartiteGraph) else "B"
    byright = [(u, v) for v in range(1, G.right_order() + 1) for u in G.left_neighbors(v)]
    return "{} {} {} {} {} {}".format(tag, G.left_order(), G.right_order(), G.number_of_edges(),
                                      fmt_pairs(G.edges()), fmt_pairs(byright))


def fmt_bip_left(G):
    """the left view only (no loop over the right side): for r > sys.maxsize, driver op gb_glrd_big"""
    return "BL {} {} {} {}".format(G.left_order(), G.right_order(), G.number_of_edges(), fmt_pairs(G.edges()))


def fmt_graph(G):
    if isinstance(G, BipartiteGraph):
        return fmt_bip(G)
    if isinstance(G, DirectedGraph):
        return fmt_di(G)
    if isinstance(G, Graph):
        return fmt_simple(G)
    raise TypeError("not a cnfgen graph: " + type(G).__name__)


def fmt_saved(H, G):
    """canonical form of the graph read back from the saved file (the class of a
    CompleteBipartiteGraph is not stored in a file: its tag and edge count are taken over)"""
    if isinstance(G, CompleteBipartiteGraph) and isinstance(H, BipartiteGraph):
        return "C" + fmt_bip(H)[1:]
    return fmt_graph(H)


def enc_simple(G):
    return [G.number_of_vertices()] + enc_pairs(G.edges())


def enc_bip(G):
    return [G.left_order(), G.right_order()] + enc_pairs(G.edges())


def snapshot(G):
    """value of a graph object, for the oracle"""
    if isinstance(G, BipartiteGraph):
        return ("bip", G.left_order(), G.right_order(), sorted(G.edges()))
    if isinstance(G, DirectedGraph):
        return ("dag", G.number_of_vertices(), sorted(G.edges()), G.is_dag())
    return ("simple", G.number_of_vertices(), sorted(G.edges()))


# ------------------------------------------------------------------ independent references
def ref_pyramid(h):
    """vertices numbered from the bottom layer; layer k has h+1-k vertices; (k,i) and (k,i+1) -> (k+1,i)"""
    idx = {}
    c = 0
    for k in range(h + 1):
        for i in range(h + 1 - k):
            c += 1
            idx[(k, i)] = c
    edges = set()
    for k in range(h):
        for i in range(h - k):
            edges.add((idx[(k, i)], idx[(k + 1, i)]))
            edges.add((idx[(k, i + 1)], idx[(k + 1, i)]))
    return c, edges


def ref_tree(h):
    """complete binary tree towards the root, numbered from the leaves: layer k has 2^(h-k) vertices"""
    idx = {}
    c = 0
    for k in range(h + 1):
        for i in range(2 ** (h - k)):
            c += 1
            idx[(k, i)] = c
    edges = set()
    for k in range(h):
        for i in range(2 ** (h - k)):
            edges.add((idx[(k, i)], idx[(k + 1, i // 2)]))
    return c, edges


def ref_grid(dims, periodic):
    """edge set of the product of paths / cycles over tuples, relabelled by sorted tuple order (1-based).
    networkx.grid_graph(dim) lists the LAST dimension first in the tuples; normalize_networkx_labels sorts them."""
    dims = list(dims)
    if not dims:
        return 0, set()
    verts = sorted(itertools.product(*[range(d) for d in reversed(dims)]))
    idx = {v: i + 1 for i, v in enumerate(verts)}
    edges = set()
    rd = list(reversed(dims))
    for v in verts:
        for c, d in enumerate(rd):
            nxt = v[c] + 1
            if nxt >= d:
                if not periodic or d <= 2:
                    continue
                nxt = 0
            w = v[:c] + (nxt,) + v[c + 1:]
            a, b = idx[v], idx[w]
            if a != b:
                edges.add((min(a, b), max(a, b)))
    return len(verts), edges


def has_cycle(n, edges):
    succ = {}
    indeg = {v: 0 for v in range(1, n + 1)}
    for a, b in edges:
        succ.setdefault(a, []).append(b)
        indeg[b] += 1
    stack = [v for v in indeg if indeg[v] == 0]
    seen = 0
    while stack:
        v = stack.pop()
        seen += 1
        for w in succ.get(v, []):
            indeg[w] -= 1
            if indeg[w] == 0:
                stack.append(w)
    return seen != n


def clean(exc):
    """is this exception class a refusal with an error message? (the argparse actions turn
    ValueError / FileNotFoundError into a usage error)"""
    return isinstance(exc, ValueError)


# ------------------------------------------------------------------ suite: closed forms (library level)
def build_closed(info):
    which, n = info["which"], info["n"]
    state = {}
    table = {
        "pyramid": (graphs.dag_pyramid, fmt_di), "tree": (graphs.dag_complete_binary_tree, fmt_di),
        "path": (graphs.dag_path, fmt_di), "complete": (Graph.complete_graph, fmt_simple),
        "empty": (Graph.empty_graph, fmt_simple), "star": (Graph.star_graph, fmt_simple),
    }

    def impl():
        try:
            if which == "cbip":
                G = CompleteBipartiteGraph(n, info["r"])
                state["G"] = G
                return "OK " + fmt_bip(G)
            f, fmt = table[which]
            G = f(n)
            state["G"] = G
            return "OK " + fmt(G)
        except Exception as e:
            state["exc"] = e
            raise

    def oracle():
        if "exc" in state:
            e = state["exc"]
            legal = n >= 0 and info.get("r", 0) >= 0 and not (which == "star" and n < 0)
            if not clean(e):
                return {"defect": "closed:" + which + ":exception", "exception": type(e).__name__}
            if legal:
                return {"defect": "closed:" + which + ":refused-legal", "n": n}
            return None
        G = state.get("G")
        if G is None:
            return None
        if which in ("pyramid", "tree", "path"):
            if which == "pyramid":
                cnt, edges = ref_pyramid(n)
                if cnt != (n + 1) * (n + 2) // 2:
                    return {"oracle_bug": "pyramid count"}
            elif which == "tree":
                cnt, edges = ref_tree(n)
                if cnt != 2 ** (n + 1) - 1:
                    return {"oracle_bug": "tree count"}
            else:
                cnt, edges = n + 1, {(i, i + 1) for i in range(1, n + 1)}
            got = set(G.edges())
            if G.number_of_vertices() != cnt:
                return {"defect": "closed:" + which + ":vertex-count", "got": G.number_of_vertices(), "want": cnt}
            if got != edges or G.number_of_edges() != len(edges):
                return {"defect": "closed:" + which + ":edges", "missing": sorted(edges - got)[:5],
                        "extra": sorted(got - edges)[:5]}
            if has_cycle(cnt, got) or not G.is_dag() or any(a >= b for a, b in got):
                return {"defect": "closed:" + which + ":not-acyclic"}
            return None
        if which == "cbip":
            l, r = n, info["r"]
            want = [(u, v) for u in range(1, l + 1) for v in range(1, r + 1)]
            if list(G.edges()) != want or G.number_of_edges() != l * r or (G.left_order(), G.right_order()) != (l, r):
                return {"defect": "closed:cbip:edges"}
            return None
        if which == "complete":
            want = {(u, v) for u in range(1, n + 1) for v in range(u + 1, n + 1)}
            nv = n
        elif which == "empty":
            want, nv = set(), n
        else:
            want, nv = {(u, n + 1) for u in range(1, n + 1)}, n + 1
        if G.number_of_vertices() != nv or set(G.edges()) != want or G.number_of_edges() != len(want):
            return {"defect": "closed:" + which + ":edges"}
        return None

    if which == "cbip":
        r = req("gb_cbip", n, info["r"])
    else:
        r = req("gb_" + which, n)
    return Case("closed", r, impl, oracle, cls=which, nontrivial=n > 0, info=info)


# ------------------------------------------------------------------ suite: bipartite_shift (library level)
def build_shift(info):
    N, M, pattern = info["N"], info["M"], list(info["pattern"])
    state = {}

    def impl():
        arg = list(pattern)
        state["arg"] = arg
        try:
            G = graphs.bipartite_shift(N, M, arg)
        except Exception as e:
            state["exc"] = e
            raise
        state["G"] = G
        return "OK {} {} | {}".format(len(arg), " ".join(str(x) for x in arg), fmt_bip(G))

    def oracle():
        if state.get("arg") != pattern:
            return {"defect": "shift:pattern-mutated", "passed": pattern, "after": state.get("arg")}
        if "exc" in state:
            if not clean(state["exc"]):
                return {"defect": "shift:exception", "exception": type(state["exc"]).__name__}
            return None if (N < 1 or M < 1) else {"defect": "shift:refused-legal"}
        G = state["G"]
        want = sorted({(u, 1 + (u - 1 + o) % M) for u in range(1, N + 1) for o in pattern})
        if sorted(G.edges()) != want or G.number_of_edges() != len(want) or \
                (G.left_order(), G.right_order()) != (N, M):
            return {"defect": "shift:edges", "got": sorted(G.edges())[:10], "want": want[:10]}
        return None

    r = req("gb_shift", N, M, enc_list(pattern))
    return Case("shift", r, impl, oracle, cls="shift", nontrivial=N > 0 and M > 0 and len(pattern) > 0, info=info)


# ------------------------------------------------------------------ suite: samplers (library level)
def degrees(G):
    L, R = G.left_order(), G.right_order()
    return ([G.right_degree(u) for u in range(1, L + 1)], [G.left_degree(v) for v in range(1, R + 1)])


def build_sampler(info):
    which = info["which"]
    a = info["args"]
    mode, rseed = info.get("mode", "seed"), info.get("rseed", 0)
    state = {}
    case = Case("sampler", "", None, None, cls=which, nontrivial=True, info=info)

    # r > sys.maxsize: the rejection-loop branch of bipartite_random_left_regular; neither side may
    # loop over range(1, r + 1) (driver op gb_glrd_big = leftRegularNoRadj, theorem glrd_driver_run)
    huge = which == "glrd" and a[1] > sys.maxsize

    def mkreq(draws):
        if huge:
            return req("gb_glrd_big", a[0], a[1], a[2], draws)
        if which == "glrd":
            return req("gb_glrd", a[0], a[1], a[2], draws)
        if which == "glrm":
            return req("gb_glrm", a[0], a[1], a[2], draws)
        if which == "glrp":
            pn, pd = float(a[2]).as_integer_ratio()
            return req("gb_glrp", a[0], a[1], pn, pd, draws)
        if which == "regular":
            return req("gb_regular", a[0], a[1], a[2], RESTART_BUDGET, draws)
        raise ValueError(which)

    def impl():
        with Recorder(mode, rseed) as rec, RestartBudget() as rb:
            try:
                if which == "glrd":
                    G = graphs.bipartite_random_left_regular(*a)
                elif which == "glrm":
                    G = graphs.bipartite_random_m_edges(*a)
                elif which == "glrp":
                    G = graphs.bipartite_random(a[0], a[1], float(a[2]))
                else:
                    G = rb.fn(*a)
                state["G"] = G
                out = "OK {} R 0".format(fmt_bip_left(G) if huge else fmt_bip(G))
            except Exception as e:
                state["exc"] = e
                out = common.exc_name(e)
        case.req = mkreq(rec.encoded())
        state["draws"] = len(rec.draws)
        # input class for the evidence: draw source, branch taken
        inj = "seed" if mode == "seed" else "inj-" + mode
        if which == "glrm":
            legal = a[0] >= 1 and a[1] >= 1 and 0 <= a[2] <= a[0] * a[1]
            br = "refused" if not legal else ("dense" if a[2] > a[0] * a[1] // 3 else
                                              ("sparse-retry" if len(rec.draws) > 2 * a[2] else "sparse"))
            case.cls = "glrm:{}:{}".format(br, inj)
        elif which == "regular":
            n = a[0] * a[2]
            br = "refused" if "exc" in state and rb.calls <= 1 else (
                "restarts" if rb.calls > 1 else ("retries" if len(rec.draws) > 2 * n else "first-try"))
            case.cls = "regular:{}:{}".format(br, inj)
        elif huge:
            legal = a[0] >= 0 and a[2] >= 0
            br = "refused" if not legal else ("repeat" if len(rec.draws) > a[0] * min(a[1], a[2]) else "no-repeat")
            case.cls = "glrd:huge-r:{}:{}".format(br, inj)
        else:
            case.cls = "{}:{}".format(which, inj)
        return out

    def oracle():
        l, r, x = a
        if "exc" in state:
            e = state["exc"]
            if which == "glrd":
                legal = l >= 0 and r >= 0 and x >= 0
            elif which == "glrm":
                legal = l >= 1 and r >= 1 and 0 <= x <= l * r
            elif which == "glrp":
                legal = l >= 1 and r >= 1 and 0 <= x <= 1
            else:
                legal = l >= 0 and r >= 0 and 0 <= x <= r and (r == 0 or (l * x) % r == 0)
            if not clean(e):
                if which == "regular" and isinstance(e, RecursionError) and legal and r > 0 and mode != "seed":
                    # an adversarial draw sequence may make every attempt fail: covered by the fuel of the theorem
                    return None
                if which == "glrm" and x > l * r // 3:
                    case.cls = "glrm:dense-branch"
                else:
                    case.cls = which + ":exception"
                return {"defect": case.cls, "exception": type(e).__name__, "args": a}
            if legal:
                case.cls = which + ":refused-legal"
                return {"defect": case.cls, "args": a}
            return None
        G = state.get("G")
        if G is None:
            return None
        if (G.left_order(), G.right_order()) != (l, r):
            return {"defect": which + ":sides"}
        if huge:
            dl = [G.right_degree(u) for u in range(1, l + 1)]
            es = list(G.edges())
            if len(set(es)) != len(es) or len(es) != G.number_of_edges() or sum(dl) != len(es) or \
                    any(not (1 <= u <= l and 1 <= v <= r) for u, v in es) or \
                    any(u not in G.left_neighbors(v) for u, v in es):
                return {"defect": "glrd:inconsistent-object"}
            want = min(x, r)
            if any(d != want for d in dl):
                case.cls = "glrd:not-left-regular"
                return {"defect": case.cls, "left_degrees": dl, "want": want}
            return None
        dl, dr = degrees(G)
        es = list(G.edges())
        if len(set(es)) != len(es) or len(es) != G.number_of_edges() or sum(dl) != len(es) or sum(dr) != len(es):
            return {"defect": which + ":inconsistent-object"}
        if which == "glrd":
            want = min(x, r)
            if any(d != want for d in dl):
                case.cls = "glrd:not-left-regular"
                return {"defect": case.cls, "left_degrees": dl, "want": want}
        elif which == "glrm":
            if G.number_of_edges() != x:
                case.cls = "glrm:edge-count"
                return {"defect": case.cls, "edges": G.number_of_edges(), "want": x}
        elif which == "glrp":
            if (x == 1 and len(es) != l * r):
                return {"defect": "glrp:p=1-not-complete"}
        else:
            if any(d != x for d in dl) or any(d != l * x // r for d in dr) or (r == 0 and len(es) != 0):
                case.cls = "regular:not-biregular"
                return {"defect": case.cls, "left_degrees": dl, "right_degrees": dr, "args": a}
        return None

    case.impl = impl
    case.oracle = oracle
    case.req = mkreq([0])
    return case


# ------------------------------------------------------------------ suite: modifications (library level)
def mk_simple(n, edges):
    G = Graph(n)
    for u, v in edges:
        G.add_edge(u, v)
    return G


def mk_bip(l, r, edges):
    G = BipartiteGraph(l, r)
    for u, v in edges:
        G.add_edge(u, v)
    return G


def check_split(before, after, k):
    """`after` = `before` with k edges subdivided by the new vertices n+1..n+k"""
    _, n, e0 = before
    _, n1, e1 = after
    if n1 != n + k or len(e1) != len(e0) + k:
        return {"vertices": [n, n1], "edges": [len(e0), len(e1)], "k": k}
    adj = {}
    for a, b in e1:
        adj.setdefault(a, set()).add(b)
        adj.setdefault(b, set()).add(a)
    rec = {e for e in e1 if e[0] <= n and e[1] <= n}
    for x in range(n + 1, n + k + 1):
        nb = sorted(adj.get(x, ()))
        if len(nb) != 2 or nb[1] > n:
            return {"new_vertex": x, "neighbours": nb}
        if (nb[0], nb[1]) in rec:
            return {"new_vertex": x, "parallel_to_existing_edge": nb}
        rec.add((nb[0], nb[1]))
    if rec != set(e0):
        return {"contracted_graph_differs": True}
    return None


def build_mod(info):
    which = info["which"]
    mode, rseed = info.get("mode", "seed"), info.get("rseed", 0)
    k = info["k"]
    state = {}
    case = Case("mod", "", None, None, cls=which, nontrivial=True, info=info)

    def mk():
        if which == "addedges_b":
            return mk_bip(info["l"], info["r"], info["edges"])
        return mk_simple(info["n"], info["edges"])

    def mkreq(draws):
        G = mk()
        if which == "addedges_b":
            return req("gb_addedges_b", enc_bip(G), k, draws)
        return req("gb_" + which, enc_simple(G), k, draws)

    def impl():
        G = mk()
        state["before"] = snapshot(G)
        with Recorder(mode, rseed) as rec:
            try:
                if which == "split":
                    graphs.split_random_edges(G, k)
                else:
                    graphs.add_random_missing_edges(G, k)
                state["after"] = snapshot(G)
                out = "OK {} R 0".format(fmt_graph(G))
            except Exception as e:
                state["exc"] = e
                out = common.exc_name(e)
        case.req = mkreq(rec.encoded())
        fallback = any(d[0] == 1 for d in rec.draws) and which != "split"
        case.cls = "{}:{}{}".format(which, "seed" if mode == "seed" else "inj-" + mode, ":dense-fallback" if fallback else "")
        return out

    def oracle():
        before = state["before"]
        ne = len(before[-1])
        if which == "addedges_s":
            cap = before[1] * (before[1] - 1) // 2 - ne
        elif which == "addedges_b":
            cap = before[1] * before[2] - ne
        else:
            cap = ne
        legal = 0 <= k <= cap
        if "exc" in state:
            e = state["exc"]
            if not clean(e):
                case.cls = which + ":exception"
                return {"defect": case.cls, "exception": type(e).__name__}
            if legal:
                case.cls = which + ":refused-legal"
                return {"defect": case.cls, "k": k, "capacity": cap}
            return None
        if not legal:
            case.cls = which + ":accepted-illegal"
            return {"defect": case.cls, "k": k, "capacity": cap}
        after = state["after"]
        if which == "split":
            r = check_split(before, after, k)
            if r is not None:
                case.cls = "splitedges:delta"
                r["defect"] = case.cls
                return r
            return None
        if after[:-1] != before[:-1] or len(after[-1]) != ne + k or not set(before[-1]) <= set(after[-1]):
            case.cls = "addedges:delta"
            return {"defect": case.cls, "edges_before": ne, "edges_after": len(after[-1]), "m": k}
        return None

    case.impl = impl
    case.oracle = oracle
    case.req = mkreq([0])
    return case


# ------------------------------------------------------------------ suite: command line
CONS = {("simple", "gnp"): 0, ("simple", "gnm"): 1, ("simple", "gnd"): 2, ("simple", "grid"): 3,
        ("simple", "torus"): 4, ("simple", "complete"): 5, ("simple", "empty"): 6,
        ("dag", "path"): 7, ("dag", "tree"): 8, ("dag", "pyramid"): 9,
        ("digraph", "path"): 7, ("digraph", "tree"): 8, ("digraph", "pyramid"): 9,
        ("bipartite", "glrp"): 10, ("bipartite", "glrm"): 11, ("bipartite", "glrd"): 12,
        ("bipartite", "regular"): 13, ("bipartite", "shift"): 14, ("bipartite", "complete"): 15,
        ("bipartite", "empty"): 16}
GTYPE = {"simple": 0, "dag": 1, "digraph": 1, "bipartite": 2}
THIRD_PARTY = {"gnp", "gnm", "gnd", "grid", "torus"}


def enc_arg(tok):
    try:
        i, hi = int(tok), 1
    except ValueError:
        i, hi = 0, 0
    f = float(tok)
    if f != f or f in (float("inf"), float("-inf")):
        hf, pn, pd = 0, 0, 1
    else:
        pn, pd = f.as_integer_ratio()
        hf = 1
    return [hi, i, hf, pn, pd]


def enc_args(toks):
    out = [len(toks)]
    for t in toks:
        out += enc_arg(t)
    return out


def enc_opt(parsed, name):
    if name in parsed:
        return [1] + enc_args(parsed[name])
    return [0, 0]


def save_code(gtype, parsed):
    """0: no save; 1: writeGraph knows the format; 2: it does not (ValueError)"""
    if "save" not in parsed:
        return 0
    fmt, fname = parsed["save"]
    if fmt == "autodetect":
        fmt = os.path.splitext(fname)[-1][1:]
    return 1 if fmt in graph_args.formats[gtype] else 2


def ints_or_none(toks):
    try:
        return [int(t) for t in toks]
    except ValueError:
        return None


def documented_construction(gtype, cons, toks):
    """is the request inside the documented range of the construction?  (from the usage messages of
    graph_build.py / the --help text; independent of the code's guards and of the Lean model)"""
    v = ints_or_none(toks)
    if cons == "gnp":
        if len(toks) not in (2, 3):
            return False
        n = ints_or_none(toks[:1])
        t = ints_or_none(toks[2:])
        p = float(toks[1])
        return n is not None and t is not None and n[0] > 0 and 0 <= p <= 1 and all(x > 0 for x in t)
    if cons == "glrp":
        if len(toks) != 3:
            return False
        lr = ints_or_none(toks[:2])
        p = float(toks[2])
        return lr is not None and lr[0] > 0 and lr[1] > 0 and 0 <= p <= 1
    if v is None:
        return False
    if cons == "gnm":
        return len(v) == 2 and v[0] > 0 and 0 <= v[1] <= v[0] * (v[0] - 1) // 2
    if cons == "gnd":
        # 'gnd' expects arguments N d with N >= d > 0 ... with even N * d; a d-regular simple graph on N
        # vertices exists iff d < N and N*d is even
        return len(v) == 2 and v[0] >= v[1] > 0 and (v[0] * v[1]) % 2 == 0 and v[1] < v[0]
    if cons in ("grid", "torus"):
        # "Dimensions d1 x ... x dn must be positive integers"; at least one dimension (every other
        # construction refuses a graph without vertices); a cycle of length 1 is not a simple graph
        return len(v) >= 1 and all(d > 0 for d in v) and not (cons == "torus" and 1 in v)
    if cons == "complete" and gtype == "simple":
        return len(v) in (1, 2) and all(x > 0 for x in v)
    if cons == "empty" and gtype == "simple":
        return len(v) == 1 and v[0] > 0
    if cons in ("path", "tree", "pyramid"):
        return len(v) == 1 and v[0] >= 0
    if cons == "glrm":
        return len(v) == 3 and v[0] > 0 and v[1] > 0 and 0 <= v[2] <= v[0] * v[1]
    if cons == "glrd":
        return len(v) == 3 and v[0] > 0 and v[1] > 0 and 0 <= v[2] <= v[1]
    if cons == "regular":
        return len(v) == 3 and v[0] > 0 and v[1] > 0 and 0 <= v[2] <= v[1] and (v[0] * v[2]) % v[1] == 0
    if cons == "shift":
        if len(v) < 2:
            return False
        pat = v[2:]
        return v[0] > 0 and v[1] > 0 and len(set(pat)) == len(pat) and all(0 <= x <= v[1] for x in pat)
    if cons in ("complete", "empty"):
        return len(v) == 2 and v[0] > 0 and v[1] > 0
    raise ValueError(cons)


def check_construction(gtype, cons, toks, G0):
    """the promise of the construction, on the graph it returned"""
    kind = G0[0]
    v = ints_or_none(toks)
    if cons == "gnp":
        n = int(toks[0])
        p = float(toks[1])
        t = int(toks[2]) if len(toks) == 3 else 1
        if G0[1] != n * t:
            return {"vertices": G0[1], "want": n * t}
        es = set(G0[2])
        blocks = lambda x: (x - 1) // n
        if t > 1 and any(blocks(a) == blocks(b) for a, b in es):
            return {"edge_inside_a_block": True}
        full = n * n * t * (t - 1) // 2 if t > 1 else n * (n - 1) // 2
        if (p == 1 and len(es) != full) or (p == 0 and t > 1 and len(es) != 0):
            return {"p": p, "edges": len(es)}
        return None
    if cons == "gnm":
        return None if (G0[1] == v[0] and len(G0[2]) == v[1]) else {"vertices": G0[1], "edges": len(G0[2])}
    if cons == "gnd":
        deg = {}
        for a, b in G0[2]:
            deg[a] = deg.get(a, 0) + 1
            deg[b] = deg.get(b, 0) + 1
        ok = G0[1] == v[0] and all(deg.get(u, 0) == v[1] for u in range(1, v[0] + 1))
        return None if ok else {"degrees": [deg.get(u, 0) for u in range(1, G0[1] + 1)]}
    if cons in ("grid", "torus"):
        n, es = ref_grid(v, cons == "torus")
        return None if (G0[1] == n and set(G0[2]) == es) else {"vertices": G0[1], "want_vertices": n,
                                                               "edges": len(G0[2]), "want_edges": len(es)}
    if cons == "complete" and gtype == "simple":
        n = v[0]
        b = v[1] if len(v) == 2 else None
        if b is None:
            want = {(x, y) for x in range(1, n + 1) for y in range(x + 1, n + 1)}
            nv = n
        else:
            nv = n * b
            want = {(x, y) for x in range(1, nv + 1) for y in range(x + 1, nv + 1) if (x - 1) // n != (y - 1) // n}
        return None if (G0[1] == nv and set(G0[2]) == want) else {"vertices": G0[1], "edges": len(G0[2])}
    if cons == "empty" and gtype == "simple":
        return None if (G0[1] == v[0] and not G0[2]) else {"vertices": G0[1], "edges": len(G0[2])}
    if cons in ("path", "tree", "pyramid"):
        if cons == "pyramid":
            cnt, es = ref_pyramid(v[0])
        elif cons == "tree":
            cnt, es = ref_tree(v[0])
        else:
            cnt, es = v[0] + 1, {(i, i + 1) for i in range(1, v[0] + 1)}
        if G0[1] != cnt or set(G0[2]) != es:
            return {"vertices": G0[1], "want": cnt, "edges": len(G0[2]), "want_edges": len(es)}
        if has_cycle(cnt, G0[2]) or not G0[3]:
            return {"not_acyclic": True}
        return None
    # bipartite
    if kind != "bip":
        return {"kind": kind}
    l, r, es = G0[1], G0[2], G0[3]
    dl = [sum(1 for e in es if e[0] == u) for u in range(1, l + 1)]
    dr = [sum(1 for e in es if e[1] == w) for w in range(1, r + 1)]
    if cons == "glrp":
        p = float(toks[2])
        if (l, r) != (int(toks[0]), int(toks[1])) or (p == 1 and len(es) != l * r):
            return {"sides": [l, r], "edges": len(es)}
        return None
    if (l, r) != (v[0], v[1]):
        return {"sides": [l, r]}
    if cons == "glrm":
        return None if len(es) == v[2] else {"edges": len(es), "want": v[2]}
    if cons == "glrd":
        return None if all(d == v[2] for d in dl) else {"left_degrees": dl, "want": v[2]}
    if cons == "regular":
        ok = all(d == v[2] for d in dl) and all(d == l * v[2] // r for d in dr)
        return None if ok else {"left_degrees": dl, "right_degrees": dr}
    if cons == "shift":
        want = sorted({(u, 1 + (u - 1 + o) % r) for u in range(1, l + 1) for o in v[2:]})
        return None if es == want else {"edges": es[:10], "want": want[:10]}
    if cons == "complete":
        return None if len(es) == l * r else {"edges": len(es)}
    if cons == "empty":
        return None if not es else {"edges": len(es)}
    raise ValueError(cons)


def nedges(s):
    return len(s[-1]) if s[0] != "dag" else len(s[2])


def edgeset_of(s):
    return set(s[3]) if s[0] == "bip" else set(s[2])


def shape_of(s):
    return s[:3] if s[0] == "bip" else s[:2]


def build_cli(info):
    gtype = info["gtype"]
    spec = list(info["spec"])
    mode, rseed = info.get("mode", "seed"), info.get("rseed", 0)
    state = {}
    case = Case("cli", "", None, None, cls="{}:{}".format(gtype, spec[0] if spec else ""), nontrivial=True, info=info)

    def parse(tmp):
        toks = [t.replace("@TMP@", tmp) for t in spec]
        return graph_args.parse_graph_argument(gtype, toks)

    def mkreq(parsed, draws, base):
        c = CONS[(gtype, parsed["construction"])]
        ext = [0]
        if base is not None and parsed["construction"] in THIRD_PARTY | {"complete"} and base[0] == "simple":
            ext = [1, base[1]] + enc_pairs(base[2])
        return req("gb_cli", GTYPE[gtype], c, enc_args(parsed["args"]),
                   enc_opt(parsed, "plantclique"), enc_opt(parsed, "plantbiclique"),
                   enc_opt(parsed, "addedges"), enc_opt(parsed, "splitedges"),
                   save_code(gtype, parsed), RESTART_BUDGET, ext, draws)

    def impl():
        tmp = tempfile.mkdtemp(prefix="c15-")
        stages = {}
        try:
            parsed = parse(tmp)
            state["parsed"] = {k: v for k, v in parsed.items()}
            cname = parsed["construction"]
            table = graph_args.constructions[gtype]
            orig_cons = table[cname]
            mods = ["modify_simple_graph_plantclique", "modify_bipartite_graph_plantbiclique",
                    "modify_graph_addedges", "modify_graph_splitedges"]
            orig_mods = {m: getattr(graph_args, m) for m in mods}

            def wrap_cons(p):
                G = orig_cons(p)
                stages["base"] = snapshot(G)
                stages["base_obj"] = G
                return G

            def wrap_mod(name):
                def w(p, G):
                    stages[name + ":before"] = snapshot(G)
                    stages[name + ":nsamples"] = len(rec.samples)
                    H = orig_mods[name](p, G)
                    stages[name + ":after"] = snapshot(H)
                    stages[name + ":same_object"] = H is G
                    return H
                return w
            with Recorder(mode, rseed) as rec, RestartBudget():
                table[cname] = wrap_cons
                for m in mods:
                    setattr(graph_args, m, wrap_mod(m))
                try:
                    G = graph_args.obtain_graph(parsed)
                    state["G"] = G
                    state["final"] = snapshot(G)
                    state["same_object"] = G is stages.get("base_obj")
                    out = "OK " + fmt_graph(G)
                    if "save" in parsed:
                        fmt, fname = parsed["save"]
                        H = readGraph(fname, gtype, fmt)
                        state["saved"] = snapshot(H)
                        out += " SAVED " + fmt_saved(H, G)
                    else:
                        out += " NOSAVE"
                    out += " R 0"
                except Exception as e:
                    state["exc"] = e
                    out = common.exc_name(e)
                finally:
                    table[cname] = orig_cons
                    for m in mods:
                        setattr(graph_args, m, orig_mods[m])
            state["samples"] = rec.samples
            stages.pop("base_obj", None)
            state["stages"] = stages
            case.req = mkreq(parsed, rec.encoded(), stages.get("base"))
            return out
        finally:
            shutil.rmtree(tmp, ignore_errors=True)

    def oracle():
        parsed = state.get("parsed")
        if parsed is None:
            return None
        cname = parsed["construction"]
        toks = parsed["args"]
        stages = state["stages"]
        exc = state.get("exc")
        label = "{}:{}".format(gtype, cname)
        if exc is not None and not clean(exc):
            v = ints_or_none(toks)
            if cname == "gnd" and v and len(v) == 2 and v[0] == v[1]:
                case.cls = "gnd:N==d"
            elif cname == "glrm":
                case.cls = "glrm:dense-branch"
            elif isinstance(exc, RecursionError) and cname == "regular" and mode != "seed":
                return None      # adversarial draws can make every attempt fail (fuel of the theorem)
            else:
                case.cls = label + ":exception"
            return {"defect": case.cls, "exception": type(exc).__name__, "spec": spec}
        legal = documented_construction(gtype, cname, toks)
        base = stages.get("base")
        if base is None:
            # the construction itself refused
            if exc is None:
                return {"oracle_bug": "no base graph and no exception"}
            if legal:
                case.cls = label + ":refused-legal"
                return {"defect": case.cls, "spec": spec}
            return None
        if not legal:
            case.cls = label + ":accepted-illegal"
            return {"defect": case.cls, "spec": spec, "got": list(base[:2])}
        r = check_construction(gtype, cname, toks, base)
        if r is not None:
            if cname == "regular":
                case.cls = "regular:not-biregular"
            else:
                case.cls = label + ":structure"
            r["defect"] = case.cls
            r["spec"] = spec
            return r
        cur = base
        # --- planted clique / biclique
        for name, opt in (("modify_simple_graph_plantclique", "plantclique"),
                          ("modify_bipartite_graph_plantbiclique", "plantbiclique")):
            if opt not in parsed:
                continue
            ks = ints_or_none(parsed[opt])
            want_arity = 1 if opt == "plantclique" else 2
            if cur[0] == "simple":
                fits = ks is not None and len(ks) == 1 and 0 <= ks[0] <= cur[1]
            else:
                fits = ks is not None and len(ks) == 2 and 0 <= ks[0] <= cur[1] and 0 <= ks[1] <= cur[2]
            after = stages.get(name + ":after")
            if after is None:
                if exc is None:
                    return {"oracle_bug": "option skipped", "option": opt}
                if fits:
                    case.cls = opt + ":refused-legal"
                    return {"defect": case.cls, "spec": spec}
                return None
            if not fits:
                case.cls = opt + ":accepted-illegal"
                return {"defect": case.cls, "spec": spec, "arity": want_arity}
            es = edgeset_of(after)
            ns = stages[name + ":nsamples"]
            if opt == "plantclique":
                cl = state["samples"][ns]
                good = len(set(cl)) == ks[0] and all(1 <= x <= cur[1] for x in cl) and \
                    all((min(x, y), max(x, y)) in es for x in cl for y in cl if x != y)
            else:
                le, ri = state["samples"][ns], state["samples"][ns + 1]
                good = len(set(le)) == ks[0] and len(set(ri)) == ks[1] and all((x, y) in es for x in le for y in ri)
            if not good or shape_of(after) != shape_of(cur) or not edgeset_of(cur) <= es:
                case.cls = opt + ":clique-missing"
                return {"defect": case.cls, "spec": spec}
            cur = after
        # --- addedges
        if "addedges" in parsed:
            ks = ints_or_none(parsed["addedges"])
            ne = nedges(cur)
            cap = (cur[1] * (cur[1] - 1) // 2 if cur[0] == "simple" else cur[1] * cur[2]) - ne
            fits = ks is not None and len(ks) == 1 and 0 <= ks[0] <= cap
            after = stages.get("modify_graph_addedges:after")
            if after is None:
                if exc is None:
                    return {"oracle_bug": "addedges skipped"}
                if fits:
                    case.cls = "addedges:refused-legal"
                    return {"defect": case.cls, "spec": spec, "capacity": cap}
                return None
            if not fits:
                case.cls = "addedges:accepted-illegal"
                return {"defect": case.cls, "spec": spec, "capacity": cap}
            if shape_of(after) != shape_of(cur) or nedges(after) != ne + ks[0] or not edgeset_of(cur) <= edgeset_of(after):
                case.cls = "addedges:delta"
                return {"defect": case.cls, "spec": spec, "edges_before": ne, "edges_after": nedges(after), "m": ks[0]}
            cur = after
        # --- splitedges
        if "splitedges" in parsed:
            ks = ints_or_none(parsed["splitedges"])
            fits = ks is not None and len(ks) == 1 and 0 <= ks[0] <= nedges(cur)
            after = stages.get("modify_graph_splitedges:after")
            if after is None:
                if exc is None:
                    return {"oracle_bug": "splitedges skipped"}
                if fits:
                    case.cls = "splitedges:refused-legal"
                    return {"defect": case.cls, "spec": spec}
                return None
            if not fits:
                case.cls = "splitedges:accepted-illegal"
                return {"defect": case.cls, "spec": spec}
            r = check_split(cur, after, ks[0])
            if r is not None:
                case.cls = "splitedges:delta"
                r["defect"] = case.cls
                r["spec"] = spec
                return r
            cur = after
        if exc is not None:
            # every stage was within its documented range, yet the request was refused: only `save` is left
            if "save" in parsed and isinstance(exc, ValueError):
                return None     # unknown extension / format: refused by writeGraph
            case.cls = label + ":refused-legal"
            return {"defect": case.cls, "spec": spec, "exception": type(exc).__name__}
        if state["final"] != cur:
            case.cls = "obtain_graph:returned-other-graph"
            return {"defect": case.cls, "spec": spec}
        if "save" in parsed:
            sv = state.get("saved")
            fin = state["final"]
            same = sv is not None and sv[0] == fin[0] and shape_of(sv) == shape_of(fin) and edgeset_of(sv) == edgeset_of(fin)
            if not same:
                case.cls = "save:differs"
                return {"defect": case.cls, "spec": spec, "saved": sv[:3] if sv else None}
        return None

    case.impl = impl
    case.oracle = oracle
    case.req = "gb_cli 0 0 0 0 0 0 0 0 0 0 0 0 0 0 0 0"
    return case


# ------------------------------------------------------------------ suite: argparse level
def build_argparse(info):
    """the same spec through the argparse actions: a refusal must be a usage error (SystemExit 2),
    never a traceback.  The model request is the `cli` one; only the outcome class is compared."""
    gtype, spec = info["gtype"], list(info["spec"])
    inner = build_cli(dict(info))
    state = {}
    case = Case("argparse", inner.req, None, None, cls="argparse:" + inner.cls, nontrivial=True, info=info)
    action = {"simple": graph_args.ObtainSimpleGraph, "bipartite": graph_args.ObtainBipartiteGraph,
              "dag": graph_args.ObtainDirectedAcyclicGraph}[gtype]

    def impl():
        inner_out = inner.impl()          # records the draws for the model
        case.req = inner.req
        ap = argparse.ArgumentParser(prog="c15")
        ap.add_argument("G", action=action)
        devnull = open(os.devnull, "w")
        import contextlib
        with Recorder(info.get("mode", "seed"), info.get("rseed", 0)), RestartBudget():
            try:
                with contextlib.redirect_stderr(devnull):
                    ns = ap.parse_args(spec)
                state["out"] = "graph"
            except SystemExit as e:
                state["out"] = "usage-error" if e.code == 2 else "exit:{}".format(e.code)
            except Exception as e:
                state["out"] = "escaped:" + type(e).__name__
        devnull.close()
        return inner_out

    def oracle():
        r = inner.oracle()
        out = state.get("out", "")
        if out.startswith("escaped:") or out.startswith("exit:"):
            v = ints_or_none(spec[1:3]) if len(spec) >= 3 else None
            if spec and spec[0] == "gnd" and v and v[0] == v[1]:
                case.cls = "gnd:N==d"
            elif out == "escaped:RecursionError" and info.get("mode", "seed") != "seed":
                return r
            else:
                case.cls = "argparse:" + out
            return {"defect": case.cls, "outcome": out, "spec": spec}
        if r is not None:
            case.cls = inner.cls
        return r

    case.impl = impl
    case.oracle = oracle
    return case


# ------------------------------------------------------------------ build / cases
def build(suite, info):
    if suite == "closed":
        return build_closed(info)
    if suite == "shift":
        return build_shift(info)
    if suite == "sampler":
        return build_sampler(info)
    if suite == "mod":
        return build_mod(info)
    if suite == "cli":
        return build_cli(info)
    if suite == "argparse":
        return build_argparse(info)
    raise ValueError("unknown suite " + suite)


MODES = ["seed", "seed", "uniform", "sticky", "low", "high"]


def rand_simple(rng, n, density):
    return [(u, v) for u in range(1, n + 1) for v in range(u + 1, n + 1) if rng.random() < density]


def rand_bip(rng, l, r, density):
    return [(u, v) for u in range(1, l + 1) for v in range(1, r + 1) if rng.random() < density]


def cases(ctx):
    tier, seed = ctx["tier"], ctx["seed"]
    rng = common.sub_rng(seed, "C15")
    quick = tier == "quick"
    infos = []

    def rs():
        return rng.randrange(1 << 30)

    # ---- corpus: regression inputs of the defects found (fixed or not), always first
    infos.append(("sampler", dict(which="regular", args=[2, 2, 2], mode="seed", rseed=33935)))     # D10
    infos.append(("sampler", dict(which="regular", args=[4, 4, 2], mode="seed", rseed=37430)))     # D10
    infos.append(("sampler", dict(which="regular", args=[2, 2, 2], mode="low", rseed=0)))          # D10, injected
    infos.append(("sampler", dict(which="regular", args=[3, 3, 2], mode="sticky", rseed=1)))
    infos.append(("sampler", dict(which="glrm", args=[3, 3, 7], mode="seed", rseed=1)))            # D8
    infos.append(("cli", dict(gtype="bipartite", spec=["glrm", "3", "3", "7"], rseed=1)))          # D8
    infos.append(("cli", dict(gtype="bipartite", spec=["glrm", "1", "1", "1"], rseed=1)))          # D8
    infos.append(("shift", dict(N=3, M=4, pattern=[2, 0, 1])))                                     # D9
    infos.append(("cli", dict(gtype="simple", spec=["gnd", "4", "4"], rseed=1)))                   # D16
    infos.append(("argparse", dict(gtype="simple", spec=["gnd", "2", "2"], rseed=1)))              # D16
    infos.append(("sampler", dict(which="regular", args=[2, 0, 1], mode="seed", rseed=1)))         # C15-F1: r = 0
    infos.append(("sampler", dict(which="regular", args=[3, 0, 0], mode="seed", rseed=1)))         # C15-F1: r = 0, d = 0
    infos.append(("sampler", dict(which="regular", args=[0, 0, 0], mode="seed", rseed=1)))
    infos.append(("sampler", dict(which="regular", args=[1, 1, 2], mode="seed", rseed=1)))         # C15-F2: d > r
    infos.append(("cli", dict(gtype="simple", spec=["grid"], rseed=1)))                            # C15-F3: no dimensions
    infos.append(("cli", dict(gtype="simple", spec=["torus"], rseed=1)))
    infos.append(("cli", dict(gtype="simple", spec=["torus", "1", "3"], rseed=1)))
    infos.append(("cli", dict(gtype="bipartite", spec=["glrd", "5", "6", "2", "plantbiclique", "2", "2"], rseed=3)))
    infos.append(("cli", dict(gtype="dag", spec=["pyramid", "3", "save", "@TMP@/file.kthlist"], rseed=3)))
    infos.append(("cli", dict(gtype="simple", spec=["gnm", "10", "15"], rseed=3)))

    # ---- closed forms
    top = 7 if quick else 10
    for which in ("pyramid", "tree", "path", "complete", "empty", "star"):
        for n in range(-2, top + 1):
            infos.append(("closed", dict(which=which, n=n)))
    for l in range(-1, 5):
        for r in range(-1, 5):
            infos.append(("closed", dict(which="cbip", n=l, r=r)))

    # ---- shift
    for N in range(0, 5):
        for M in range(0, 5):
            for pattern in ([], [0], [1], [M], [0, 1], [1, 0], [2, 0, 1], [0, M], [-1, 3], [1, 1], [5, 2, 9]):
                infos.append(("shift", dict(N=N, M=M, pattern=pattern)))

    # ---- samplers: grids around the boundaries
    reps = 2 if quick else 8
    for L in range(0, 5):
        for R in range(0, 5):
            ms = sorted({-1, 0, 1, L * R // 3, L * R // 3 + 1, L * R - 1, L * R, L * R + 1, L * R // 2})
            for m in ms:
                for _ in range(reps):
                    infos.append(("sampler", dict(which="glrm", args=[L, R, m], mode=rng.choice(MODES), rseed=rs())))
            for d in sorted({-1, 0, 1, R - 1, R, R + 1, 2}):
                for _ in range(reps):
                    infos.append(("sampler", dict(which="glrd", args=[L, R, d], mode=rng.choice(MODES), rseed=rs())))
                ok = R > 0 and d >= 0 and L >= 0 and (L * d) % R == 0
                nrep = (3 * reps) if (ok and d <= R) else 1
                for _ in range(nrep):
                    infos.append(("sampler", dict(which="regular", args=[L, R, d], mode=rng.choice(MODES), rseed=rs())))
            for p in (0, 1, 0.5, -0.25, 1.5, 0.1):
                infos.append(("sampler", dict(which="glrp", args=[L, R, p], mode=rng.choice(MODES), rseed=rs())))
    # glrd beyond sys.maxsize: random.sample is replaced by a rejection loop over randint(1, r)
    for R in (sys.maxsize + 1, sys.maxsize + 6, 1 << 70):
        for L in range(0, 4):
            for d in (-1, 0, 1, 2, 3):
                for mode in (MODES if (quick and d >= 2 and L >= 1) or not quick else [rng.choice(MODES)]):
                    infos.append(("sampler", dict(which="glrd", args=[L, R, d], mode=mode, rseed=rs())))
    infos.append(("sampler", dict(which="glrd", args=[-1, sys.maxsize + 1, 2], mode="seed", rseed=rs())))
    big = 500 if quick else 20000
    for _ in range(big):
        L, R = rng.randint(1, 8), rng.randint(1, 8)
        which = rng.choice(["glrm", "glrd", "regular", "regular"])
        if which == "glrm":
            a = [L, R, rng.choice([L * R // 3, L * R // 3 + 1, rng.randint(0, L * R), L * R])]
        elif which == "glrd":
            a = [L, R, rng.randint(0, R)]
        else:
            ds = [d for d in range(0, R + 1) if (L * d) % R == 0]
            a = [L, R, rng.choice(ds)]
        infos.append(("sampler", dict(which=which, args=a, mode=rng.choice(MODES), rseed=rs())))

    # ---- modifications
    nmod = 800 if quick else 30000
    for _ in range(nmod):
        which = rng.choice(["addedges_s", "addedges_b", "split"])
        dens = rng.choice([0, 0.2, 0.5, 0.8, 1])
        if which == "addedges_b":
            l, r = rng.randint(0, 4), rng.randint(0, 4)
            edges = rand_bip(rng, l, r, dens)
            cap = l * r - len(edges)
            k = rng.choice([-1, 0, 1, cap - 1, cap, cap + 1, rng.randint(0, max(cap, 0))])
            infos.append(("mod", dict(which=which, l=l, r=r, edges=edges, k=k, mode=rng.choice(MODES), rseed=rs())))
        else:
            n = rng.randint(0, 7)
            edges = rand_simple(rng, n, dens)
            cap = n * (n - 1) // 2 - len(edges) if which == "addedges_s" else len(edges)
            k = rng.choice([-1, 0, 1, cap - 1, cap, cap + 1, rng.randint(0, max(cap, 0))])
            infos.append(("mod", dict(which=which, n=n, edges=edges, k=k, mode=rng.choice(MODES), rseed=rs())))

    # ---- command line
    specs = []

    def S(gtype, *toks):
        specs.append((gtype, [str(t) for t in toks]))

    rngN = range(-1, 6 if quick else 8)
    for n in rngN:
        S("simple", "complete", n)
        S("simple", "empty", n)
        for h in ("path", "tree", "pyramid"):
            S("dag", h, n)
        S("digraph", "pyramid", n)
        for m in sorted({-1, 0, 1, n * (n - 1) // 2, n * (n - 1) // 2 + 1, n}):
            S("simple", "gnm", n, m)
        for d in sorted({-1, 0, 1, 2, 3, n - 1, n, n + 1}):
            S("simple", "gnd", n, d)
        for b in (0, 1, 2, 3):
            S("simple", "complete", n, b)
        for p in ("0", "1", "0.5", ".3", "1.5", "-0.1", "nan", "inf", "1e-3"):
            S("simple", "gnp", n, p)
            S("simple", "gnp", n, p, rng.choice([0, 1, 2, 3]))
    for dims in ([], [1], [2], [3], [0], [-1], [2, 2], [2, 3], [3, 3], [1, 3], [4, 1], [2, 2, 2], [3, 2, 4], [2, 0],
                 [5], [3, 4], ["2.5"], [1, 1]):
        S("simple", "grid", *dims)
        S("simple", "torus", *dims)
    for L in range(0, 5):
        for R in range(0, 5):
            S("bipartite", "complete", L, R)
            S("bipartite", "empty", L, R)
            for m in sorted({-1, 0, 1, L * R // 3, L * R // 3 + 1, L * R, L * R + 1}):
                S("bipartite", "glrm", L, R, m)
            for d in sorted({-1, 0, 1, R - 1, R, R + 1}):
                S("bipartite", "glrd", L, R, d)
                S("bipartite", "regular", L, R, d)
            for p in ("0", "1", "0.5", "1.01", "-1", "nan"):
                S("bipartite", "glrp", L, R, p)
            for pat in ([], [0], [1, 2], [R], [R + 1], [0, R], [1, 1], [-1], [2, 0, 1]):
                S("bipartite", "shift", L, R, *pat)
    # malformed arities / tokens
    for g, c in (("simple", "gnm"), ("simple", "gnd"), ("simple", "gnp"), ("simple", "complete"), ("simple", "empty"),
                 ("dag", "tree"), ("dag", "path"), ("dag", "pyramid"), ("bipartite", "glrm"), ("bipartite", "glrd"),
                 ("bipartite", "glrp"), ("bipartite", "regular"), ("bipartite", "shift"), ("bipartite", "complete"),
                 ("bipartite", "empty")):
        S(g, c)
        S(g, c, 3)
        S(g, c, 3, 3, 1, 1)
        S(g, c, "2.0", 2, 1)
        S(g, c, 3, "1e1", 1)
        S(g, c, "1_0", 3, 2)
        S(g, c, "+4", 2)
    for gtype, toks in specs:
        infos.append(("cli", dict(gtype=gtype, spec=toks, mode=rng.choice(MODES), rseed=rs())))

    # options
    nopt = 900 if quick else 40000
    simple_bases = [["complete", "4"], ["empty", "5"], ["gnm", "6", "7"], ["gnp", "5", "0.5"], ["grid", "2", "3"],
                    ["gnd", "6", "3"], ["torus", "3", "3"], ["gnp", "2", "0.7", "3"], ["complete", "2", "3"], ["empty", "1"]]
    bip_bases = [["complete", "2", "3"], ["empty", "3", "3"], ["glrm", "3", "4", "3"], ["glrm", "3", "3", "5"],
                 ["glrd", "4", "3", "2"], ["regular", "4", "4", "2"], ["regular", "3", "3", "2"], ["shift", "4", "4", "0", "1"],
                 ["glrp", "3", "3", "0.5"], ["regular", "2", "2", "2"], ["regular", "4", "2", "1"]]
    fmts = {"simple": ["g.kthlist", "g.dimacs", "g.gml"], "bipartite": ["g.kthlist", "g.matrix"],
            "dag": ["g.kthlist", "g.dimacs"]}
    for _ in range(nopt):
        gtype = rng.choice(["simple", "simple", "bipartite", "bipartite", "dag"])
        if gtype == "simple":
            toks = list(rng.choice(simple_bases))
            opts = []
            if rng.random() < .5:
                opts.append(["plantclique", str(rng.choice([-1, 0, 1, 2, 3, 4, 5, 6, 7]))])
            if rng.random() < .5:
                opts.append(["addedges", str(rng.choice([-1, 0, 1, 2, 3, 5, 8, 15, 40]))])
            if rng.random() < .5:
                opts.append(["splitedges", str(rng.choice([-1, 0, 1, 2, 3, 6, 12, 30]))])
        elif gtype == "bipartite":
            toks = list(rng.choice(bip_bases))
            opts = []
            if rng.random() < .6:
                opts.append(["plantbiclique", str(rng.choice([-1, 0, 1, 2, 3, 4, 5])), str(rng.choice([0, 1, 2, 3, 4, 5]))])
            if rng.random() < .6:
                opts.append(["addedges", str(rng.choice([-1, 0, 1, 2, 3, 6, 9, 12, 20]))])
        else:
            toks = [rng.choice(["path", "tree", "pyramid"]), str(rng.randint(0, 4))]
            opts = []
        if rng.random() < .15 and opts:
            opts[0] = opts[0][:1] + rng.choice([[], ["1", "2", "3"], ["1.5"]])
        if rng.random() < .45 or gtype == "dag":
            fn = rng.choice(fmts[gtype] + (["g.xyz"] if rng.random() < .1 else []))
            sv = ["save", "@TMP@/" + fn]
            if rng.random() < .3 and not fn.endswith(".xyz"):
                sv = ["save", fn.split(".")[1], "@TMP@/" + fn.split(".")[0]]
            opts.append(sv)
        rng.shuffle(opts)
        for o in opts:
            toks += o
        infos.append(("cli", dict(gtype=gtype, spec=toks, mode=rng.choice(MODES), rseed=rs())))

    # argparse level (refusals must be usage errors)
    ap_specs = [(g, t) for g, t in specs if g != "digraph"]
    for gtype, toks in rng.sample(ap_specs, min(len(ap_specs), 250 if quick else 1500)):
        if toks:
            infos.append(("argparse", dict(gtype=gtype, spec=toks, mode="seed", rseed=rs())))

    for suite, info in infos:
        yield build(suite, info)


def search_global(ctx):
    """a proof obligation no longer checks: evaluate the property itself (oracle only, no model) on the
    quick-tier inputs and return the first failing input that is not a recorded finding"""
    known = set()
    for c in cases({"tier": "quick", "seed": ctx.get("seed", 0), "prop": "C15"}):
        common.run_impl(c)
        r = common.run_oracle(c)
        if r is not None and c.cls not in known:
            return {"suite": c.suite, "info": c.info, "failure": r}
    return None


def search(ctx, case):
    """correspondence broke: run the property oracle on the disagreeing input and on its neighbourhood
    (same construction, neighbouring numeric arguments, every draw policy)"""
    info = dict(case.info or {})
    tries = []
    for mode in ["seed", "low", "high", "sticky", "uniform"]:
        for s in range(6):
            i2 = dict(info)
            i2["mode"], i2["rseed"] = mode, s
            tries.append(i2)
    for i2 in tries:
        try:
            c = build(case.suite, i2)
        except Exception:
            continue
        common.run_impl(c)
        r = common.run_oracle(c)
        if r is not None:
            return {"suite": case.suite, "info": i2, "failure": r}
    return None
