"""Formula objects WITH A HISTORY (shared by the history suites of C05, C06, C10, C12).

A history is a JSON-able list of steps played on ONE formula object:

  growth steps ("op")  — every way a library user makes a CNF grow or change:
      init     CNF(clauses given to the constructor, description)              (first step only)
      clause   add_clause(lits, check)                — with fresh indices, old ones, empty      (C11 vocabulary)
      update   update_variable_number(n)                                                          (C11 vocabulary)
      group    new_variable / new_block / new_combinations / … / new_binary_mapping               (C11 vocabulary)
      use      add_clause written with the variables the groups made so far hand out              (C11 vocabulary)
      batch    add_clauses_from(list | tuple | generator | iterator of clauses)
      header   F.header[key] = value  /  del F.header[key]
      become   F = T(F) for a transformation T of C05 (the object under study is now the transformed formula)
  observation steps ("obs") — every way of LOOKING at the formula, none of which may change what it denotes:
      to_dimacs to_opb to_latex str len iter nvars debug copy, labels (both default formats and the default argument),
      to_file (dimacs / opb / latex, with / without header and variable names), trans (a chain of transformations of
      C05, result discarded), shuffle, solve (through the stand-in solver of C20)

`play(steps)` returns the object reached with every observation performed on the way; `twin(steps)` the object
reached by the growth steps alone (never observed): the CURRENT CONTENT the judged observation is compared with —
through the Lean model by the suites' requests, and by their property oracles.

Everything random comes from the `rng` handed in (harness-owned); the module-level generator is only seeded.
"""
import copy
import io
import itertools
import random as _module_random      # only ever seeded here (Shuffle draws from it)
from collections import OrderedDict

DFMTS = ["x{}", "x_{}"]
TRANS_K = ["xor", "or", "maj", "eq", "neq", "one", "lift"]
TRANS_KC = ["atleast", "atmost", "exactly", "anybut"]
TRANS_0 = ["ite", "flip"]
TRANS_G = ["xorcomp", "majcomp"]
OPS = ["<=", ">=", "<", ">", "==", "!="]
BATCH_KINDS = {
    "list": lambda cs: [list(c) for c in cs],
    "tuple": lambda cs: tuple(tuple(c) for c in cs),
    "gen": lambda cs: (list(c) for c in cs),
    "iter": lambda cs: iter([list(c) for c in cs]),
}


def is_obs(step):
    return "obs" in step


# ------------------------------------------------------------------ transformations
def comp_graph(n, r, salt):
    """a compression graph with n left and r right vertices, a function of (n, r, salt) alone"""
    edges = []
    for v in range(1, n + 1):
        if r == 0 or (v + salt) % 5 == 0:
            continue                                    # isolated left vertex
        deg = 1 + (v + salt) % min(3, r)
        for j in range(deg):
            e = [v, 1 + (v * (salt + 1) + j) % r]
            if e not in edges:
                edges.append(e)
    return {"l": n, "r": r, "edges": edges}


def trans_info(t, n, clauses=None):
    """the C05 description (`info`) of transformation step `t` applied to a formula with n variables"""
    d = {k: v for k, v in t.items() if k in ("t", "k", "C")}
    if "rel" in t:
        d["op"] = t["rel"]           # the relation of `lin` ("op" names the kind of step in a history)
    if t["t"] in TRANS_G:
        d["graph"] = comp_graph(n, t.get("r", 3), t.get("salt", 0))
    d["nv"] = n
    if clauses is not None:
        d["clauses"] = clauses
    return d


def transform(F, t):
    from harness.props import C05
    return C05.apply_real(t["t"], F, trans_info(t, F.number_of_variables()))


def promised(t, n):
    """the documented number of variables of T(F) for a formula with n variables"""
    from harness.props import C05
    return C05.documented_nvars(t["t"], trans_info(t, n))


# ------------------------------------------------------------------ steps
def apply_grow(F, op, created):
    """one growth step on F (not `init` / `become`); returns the C11-style outcome string"""
    from harness.props import C11
    k = op["op"]
    if k in ("clause", "update", "use", "group"):
        return C11.apply_op(F, op, created)
    try:
        if k == "batch":
            F.add_clauses_from(BATCH_KINDS[op["kind"]](op["clauses"]), check=op.get("check", True))
        elif k == "header":
            if op.get("value") is None:
                F.header.pop(op["key"], None)
            else:
                F.header[op["key"]] = op["value"]
        else:
            raise ValueError("unknown step " + k)
        return "-"
    except Exception as e:
        return C11.exc(e)


_SOLVER = {}


def _solve(F):
    """is_satisfiable through the stand-in solver of C20 (a subprocess: used sparingly)"""
    import os
    from harness.props import C20
    bind = C20.SANDBOX.bindir(["minisat"])
    with open(os.path.join(bind, "config.json"), "w") as fh:
        fh.write("{}")
    saved = os.environ.get("PATH")
    os.environ["PATH"] = bind
    try:
        return F.is_satisfiable(cmd="minisat")
    finally:
        if saved is None:
            del os.environ["PATH"]
        else:
            os.environ["PATH"] = saved


def observe(F, ob):
    """performs one observation and returns what it saw"""
    k = ob["obs"]
    if k == "to_dimacs":
        return F.to_dimacs()
    if k == "to_opb":
        return F.to_opb()
    if k == "to_latex":
        return F.to_latex()
    if k == "str":
        return str(F)
    if k == "len":
        return len(F)
    if k == "iter":
        return [list(c) for c in F.clauses()]
    if k == "nvars":
        return (F.number_of_variables(), len(list(F.variables())))
    if k == "debug":
        return F.debug(allow_opposite=True, allow_repetition=True)
    if k == "copy":
        return copy.deepcopy(F)
    if k == "labels":
        if ob.get("dfmt") is None:
            return list(F.all_variable_labels())
        return list(F.all_variable_labels(ob["dfmt"]))
    if k == "to_file":
        out = io.StringIO()
        if ob["fmt"] == "latex":
            F.to_file(out, fileformat="latex", export_header=ob.get("header", True))
        else:
            F.to_file(out, fileformat=ob["fmt"], export_header=ob.get("header", True),
                      export_varnames=ob.get("names", False))
        return out.getvalue()
    if k == "trans":
        G = F
        for t in ob["chain"]:
            G = transform(G, t)
        return G
    if k == "shuffle":
        from cnfgen.transformations.shuffle import Shuffle
        _module_random.seed(ob.get("seed", 0))
        return Shuffle(F)
    if k == "solve":
        return _solve(F)
    raise ValueError("unknown observation " + k)


def play(steps, observations=True):
    """the formula object reached by the steps (observations performed on the way, results dropped)"""
    from harness.props import C11
    from cnfgen.formula.cnf import CNF
    F, created = None, C11.Created()
    for st in steps:
        if F is None:
            if not is_obs(st) and st["op"] == "init":
                cl = BATCH_KINDS[st.get("kind", "list")](st["clauses"])
                F = CNF(cl, description=st["description"]) if st.get("description") is not None else CNF(cl)
                continue
            F = CNF()
        if is_obs(st):
            if observations:
                try:
                    observe(F, st)
                except Exception:
                    pass            # an observation that fails is judged where it is the LAST step, not here
        elif st["op"] == "become":
            if st.get("seed") is not None:
                _module_random.seed(st["seed"])
            F = transform(F, st)
            created = C11.Created()
        else:
            apply_grow(F, st, created)
    return F if F is not None else CNF()


def twin(steps):
    """the formula built by the growth steps alone: never observed"""
    return play([s for s in steps if not is_obs(s)], observations=False)


def content(F):
    return {"n": F.number_of_variables(), "clauses": [list(c) for c in F.clauses()],
            "header": [("{}".format(k), "{}".format(v)) for k, v in F.header.items()]}


def model_ops(steps):
    """the growth steps in the vocabulary of the manager model (`vg_hist`): init / batch become clause insertions,
    header edits disappear; None if the history is not expressible (become)"""
    out = []
    for st in steps:
        if is_obs(st):
            continue
        k = st["op"]
        if k in ("clause", "update", "use", "group"):
            out.append(st)
        elif k in ("init", "batch"):
            out += [{"op": "clause", "lits": list(c), "check": st.get("check", True)} for c in st["clauses"]]
        elif k == "header":
            continue
        else:
            return None
    return out


# ------------------------------------------------------------------ generators
GROUP_SHAPES = [
    # (spec, number of variables)
    ({"kind": "block", "ranges": [2], "label": "p({})"}, 2),
    ({"kind": "block", "ranges": [1, 2], "label": "q[{}][{}]"}, 2),
    ({"kind": "block", "ranges": [2, 2], "label": None}, 4),
    ({"kind": "block", "ranges": [2, 1, 2], "label": "r_{{{},{},{}}}"}, 4),
    ({"kind": "block", "ranges": [0, 3], "label": None}, 0),
    ({"kind": "combinations", "n": 3, "k": 2, "label": None}, 3),
    ({"kind": "combinations_with_replacement", "n": 2, "k": 2, "label": "c({})"}, 3),
    ({"kind": "permutations", "n": 2, "k": None, "label": None}, 2),
    ({"kind": "permutations", "n": 3, "k": 2, "label": "S_{{{}}}"}, 6),
    ({"kind": "words", "n": 2, "k": 2, "label": None}, 4),
    ({"kind": "bipartite", "G": {"l": 2, "r": 2, "edges": [[1, 2], [2, 1], [2, 2]]}, "label": None}, 3),
    ({"kind": "graph", "G": {"n": 3, "edges": [[1, 2], [3, 2]]}, "label": "E[{},{}]"}, 2),
    ({"kind": "digraph", "G": {"n": 3, "edges": [[1, 2], [2, 3], [3, 1]]}, "label": None, "sortby": "pred"}, 3),
    ({"kind": "digraph", "G": {"n": 2, "edges": [[2, 1]]}, "label": None, "sortby": "succ", "explicit_sortby": True}, 1),
    ({"kind": "mapping", "n": 2, "m": 2, "label": None}, 4),
    ({"kind": "mapping", "n": 1, "m": 3, "label": "x_{{{},{}}}"}, 3),
    ({"kind": "sparse_mapping", "G": {"l": 2, "r": 3, "edges": [[1, 1], [1, 3], [2, 2]]}, "label": None}, 3),
    ({"kind": "binary_mapping", "n": 2, "m": 3, "label": None}, 4),
    ({"kind": "binary_mapping", "n": 1, "m": 2, "label": None}, 1),
]
GROW_KINDS = ["clause_fresh", "clause_fresh", "clause_old", "clause_empty", "update", "update", "var", "var_anon", "group",
              "group", "use", "batch", "batch_fresh", "header"]
HEADER_EDITS = [("description", "edited description"), ("note", "a b"), ("k é", "{1,2}"), ("description", None),
                ("generator", None), ("transformation 1", "by hand"), ("note", None), ("url", "")]


def rand_clause(rng, n, fresh=0, maxw=3):
    """a clause over 1..n that also mentions the `fresh` next identifiers n+1.."""
    w = rng.randint(0, maxw)
    lits = [rng.choice([1, -1]) * rng.randint(1, n) for _ in range(w)] if n > 0 else []
    for j in range(1, fresh + 1):
        lits.insert(rng.randint(0, len(lits)), rng.choice([1, -1]) * (n + j))
    return lits


def gen_grow(rng, F, created, cap, kind=None):
    """one growth step for the formula F as it is now (never beyond `cap` variables)"""
    n = F.number_of_variables()
    room = max(cap - n, 0)
    kind = kind or rng.choice(GROW_KINDS)
    if room == 0 and kind in ("clause_fresh", "var", "var_anon", "group", "batch_fresh"):
        kind = rng.choice(["clause_old", "clause_empty", "update", "header", "use"])
    if kind == "use" and not len(created):
        kind = "clause_old"
    if kind == "clause_fresh":
        return {"op": "clause", "lits": rand_clause(rng, n, fresh=min(room, rng.choice([1, 1, 2]))), "check": True}
    if kind == "clause_old":
        return {"op": "clause", "lits": rand_clause(rng, n), "check": rng.random() < .8}
    if kind == "clause_empty":
        return {"op": "clause", "lits": [], "check": True}
    if kind == "update":
        return {"op": "update", "n": n + min(room, rng.choice([0, 1, 1, 2, 3]))}
    if kind == "var":
        return {"op": "group", "spec": {"kind": "variable", "label": rng.choice(["X", "y_{1}", "z"])}}
    if kind == "var_anon":
        return {"op": "group", "spec": {"kind": "variable", "label": None}}
    if kind == "group":
        fits = [s for s, size in GROUP_SHAPES if size <= room]
        earlier = [s for s in (getattr(created, "specs", None) or []) if s in fits]
        spec = rng.choice(earlier) if earlier and rng.random() < .3 else rng.choice(fits)
        return {"op": "group", "spec": dict(spec)}
    if kind == "use":
        ng = len(created)
        return {"op": "use", "check": rng.random() < .5,
                "picks": [[rng.randrange(ng), rng.randrange(40), rng.choice([1, -1])] for _ in range(rng.randint(1, 3))]}
    if kind in ("batch", "batch_fresh"):
        cs, m = [], n
        for _ in range(rng.randint(1, 3)):
            f = min(max(cap - m, 0), rng.choice([0, 1])) if kind == "batch_fresh" else 0
            cs.append(rand_clause(rng, m, fresh=f))
            m += f
        return {"op": "batch", "clauses": cs, "kind": rng.choice(sorted(BATCH_KINDS))}
    key, value = rng.choice(HEADER_EDITS)
    return {"op": "header", "key": key, "value": value}


def gen_trans(rng, n, maxk=3):
    """one transformation step description for a formula with n variables (cheap ones when n is large)"""
    kinds = TRANS_K + TRANS_KC + TRANS_0 + TRANS_G + ["lin"]
    t = rng.choice(kinds)
    k = rng.randint(1, maxk if n <= 6 else 2)
    if t in TRANS_K:
        return {"t": t, "k": k}
    if t in TRANS_KC:
        return {"t": t, "k": k, "C": rng.randint(-1, k + 1)}
    if t == "lin":
        return {"t": t, "k": k, "rel": rng.choice(OPS), "C": rng.randint(-1, k + 1)}
    if t in TRANS_G:
        return {"t": t, "r": rng.choice([0, 1, 2, 3, 4]), "salt": rng.randrange(7)}
    return {"t": t}


def all_trans(rng):
    """one step description per transformation of C05 (every arity / threshold drawn at random)"""
    out = [{"t": t, "k": rng.choice([1, 2, 2, 3])} for t in TRANS_K]
    for t in TRANS_KC:
        k = rng.choice([1, 2, 3])
        out.append({"t": t, "k": k, "C": rng.randint(0, k)})
    k = rng.choice([2, 3])
    out.append({"t": "lin", "k": k, "rel": rng.choice(OPS), "C": rng.randint(0, k)})
    out += [{"t": t} for t in TRANS_0]
    out += [{"t": t, "r": rng.choice([2, 3, 4]), "salt": rng.randrange(7)} for t in TRANS_G]
    return out


def obs_pool(n, solve=False):
    """every observation applicable to a formula that has about n variables"""
    pool = [{"obs": k} for k in ("to_dimacs", "to_opb", "to_latex", "str", "len", "iter", "nvars", "debug", "copy")]
    pool += [{"obs": "labels", "dfmt": d} for d in DFMTS + [None]]
    for fmt in ("dimacs", "opb"):
        for h in (False, True):
            for v in (False, True):
                pool.append({"obs": "to_file", "fmt": fmt, "header": h, "names": v})
    pool += [{"obs": "to_file", "fmt": "latex", "header": h} for h in (False, True)]
    pool.append({"obs": "shuffle", "seed": n})
    if solve:
        pool.append({"obs": "solve"})
    return pool


def gen_obs(rng, n, trans=True):
    if trans and n <= 12 and rng.random() < .35:
        chain = [gen_trans(rng, n, maxk=2)]
        if rng.random() < .3 and n <= 5 and chain[0]["t"] not in TRANS_G:
            chain.append(gen_trans(rng, n * 2, maxk=2))
        return {"obs": "trans", "chain": chain}
    return dict(rng.choice(obs_pool(n)))


class _Scratch:
    """the formula of a history under construction (the generator needs its current size and groups)"""

    def __init__(self):
        from harness.props import C11
        from cnfgen.formula.cnf import CNF
        self.F, self.created = CNF(), C11.Created()
        self.created.specs = []

    def apply(self, op):
        if op["op"] == "become":
            self.F = transform(self.F, op)
            from harness.props import C11
            self.created = C11.Created()
            self.created.specs = []
            return
        if op["op"] == "init":
            from cnfgen.formula.cnf import CNF
            self.F = CNF([list(c) for c in op["clauses"]])
            return
        apply_grow(self.F, op, self.created)
        if op["op"] == "group" and op["spec"]["kind"] != "variable":
            self.created.specs.append(op["spec"])


def gen_history(rng, ngrow, cap, favourite=None, pobs=.8, trans=True, become=0.0, init=.25, kinds=None):
    """growth steps with observations interleaved; returns the steps and, for every growth step, the length of the
    prefix that ends right after it (the points at which a suite judges one more observation).
    kinds: restriction of the growth kinds (default: all of GROW_KINDS);
    favourite: an observation (or a function n -> observation) repeated along the way with probability 1/2 —
    the judged observation of the suite, so that 'observe, grow, observe the same way' happens in most histories"""
    S = _Scratch()
    steps, cuts = [], []
    if rng.random() < init:
        cl = [rand_clause(rng, rng.randint(1, 3)) for _ in range(rng.randint(1, 3))]
        op = {"op": "init", "clauses": cl, "kind": rng.choice(sorted(BATCH_KINDS)),
              "description": rng.choice([None, "a formula", ""])}
        steps.append(op)
        S.apply(op)
    for _ in range(ngrow):
        n = S.F.number_of_variables()
        if become and rng.random() < become and 0 < n <= max(cap // 2, 1):
            op = dict(gen_trans(rng, n, maxk=2), op="become", seed=None)
            if promised(op, n) > cap:
                op = gen_grow(rng, S.F, S.created, cap)
        else:
            op = gen_grow(rng, S.F, S.created, cap, kind=rng.choice(kinds) if kinds else None)
        steps.append(op)
        S.apply(op)
        cuts.append(len(steps))
        for p in (pobs, pobs / 2):
            if rng.random() >= p:
                break
            n = S.F.number_of_variables()
            fav = favourite(n) if callable(favourite) else favourite
            steps.append(dict(fav) if fav is not None and rng.random() < .5 else gen_obs(rng, n, trans=trans))
    return steps, cuts


def minimal_histories(judged, cap=8):
    """the minimal shapes: a formula, ONE observation, ONE growth step of each kind, then the judged observation.
    `judged`: list of observations; every (observation, growth kind) pair once, the early observation being the judged
    one itself.  Deterministic (no rng: the growth steps are the simplest of their kind)."""
    base = [{"op": "group", "spec": {"kind": "block", "ranges": [2], "label": "p({})"}},
            {"op": "clause", "lits": [1, -2], "check": True}]
    grows = [
        {"op": "clause", "lits": [-2, 3], "check": True},                       # clause with a fresh index
        {"op": "clause", "lits": [4], "check": True},                           # fresh index, one skipped
        {"op": "clause", "lits": [1, 2], "check": True},                        # clause without new variables
        {"op": "clause", "lits": [], "check": True},
        {"op": "update", "n": 3},
        {"op": "update", "n": 5},
        {"op": "group", "spec": {"kind": "variable", "label": "X"}},
        {"op": "group", "spec": {"kind": "variable", "label": None}},
        {"op": "group", "spec": {"kind": "block", "ranges": [1, 2], "label": None}},
        {"op": "group", "spec": {"kind": "mapping", "n": 1, "m": 2, "label": None}},
        {"op": "group", "spec": {"kind": "combinations", "n": 2, "k": 1, "label": None}},
        {"op": "use", "check": True, "picks": [[0, 1, -1]]},
        {"op": "batch", "clauses": [[1, 3], [-3]], "kind": "gen"},
        {"op": "batch", "clauses": [[2], [-1, -2]], "kind": "list"},
        {"op": "header", "key": "description", "value": "edited"},
        {"op": "header", "key": "note", "value": "new entry"},
        {"op": "header", "key": "generator", "value": None},
    ]
    out = []
    for ob in judged:
        for g in grows:
            out.append(base + [dict(ob), dict(g)])
    return out


def describe(steps):
    """short label of a history for the evidence distribution: kinds of its last two steps"""
    def one(s):
        if is_obs(s):
            return "obs-" + s["obs"]
        if s["op"] == "group":
            return "new_" + s["spec"]["kind"]
        return s["op"]
    return ">".join(one(s) for s in steps[-2:])
