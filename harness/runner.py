"""./check <Cxx> [--tier quick|thorough] [--replay file]

1. regenerate the generated Lean tables from /repo's current source
2. lake build (kernel re-checks every theorem whose dependencies changed)
3. audit: `#print axioms` for every property theorem, grep for sorry & co.
4. corpus + correspondence suites (model vs real code) with VERIF_SEED
5. failing-input search for everything that broke
6. evidence/<Cxx>.json, VIOLATION / KNOWN-FINDING lines, exit status
"""
import argparse
import fcntl
import importlib
import json
import os
import re
import subprocess
import sys
import time

from harness import common
from harness.common import VERIF, LEAN

ALLOWED_AXIOMS = {"propext", "Classical.choice", "Quot.sound"}
FORBIDDEN = re.compile(r"\bsorry\b|\badmit\b|^\s*axiom\s|native_decide|bv_decide|implemented_by|\bunsafe\s|maxHeartbeats\s+0")
TRUSTED_BASE = [
    "Lean 4.33.0 kernel",
    "axioms: subset of {propext, Classical.choice, Quot.sound} (audited by #print axioms on every run)",
    "Mathlib v4.33.0 modules imported by proof files (precompiled)",
    "hand-written Lean model tied to /repo by the differential correspondence harness (testing)",
    "tools/extract_tables.py (ast translator of tables/constants into Lean)",
    "tools/py2lean.py (ast translator of pure functions into Lean definitions: lean/CnfgenModel/Generated/Funcs.lean, "
    "semantics of the Python subset in lean/CnfgenModel/Core/Py.lean; see notes/translator.md)",
]


def log(*a):
    print(*a, file=sys.stderr, flush=True)


def sh(cmd, cwd=None, timeout=3600, env=None):
    p = subprocess.run(cmd, cwd=cwd, stdout=subprocess.PIPE, stderr=subprocess.STDOUT,
                       timeout=timeout, env=env)
    return p.returncode, p.stdout.decode(errors="replace")


def strip_comments(text):
    # remove /- … -/ blocks (non-nested is enough for our sources) and -- comments
    text = re.sub(r"/-.*?-/", "", text, flags=re.S)
    text = re.sub(r"--.*", "", text)
    return text


def lean_sources():
    out = []
    for root, dirs, files in os.walk(LEAN):
        dirs[:] = [d for d in dirs if d != ".lake"]
        for f in files:
            if f.endswith(".lean"):
                out.append(os.path.join(root, f))
    return sorted(out)


def grep_forbidden():
    hits = []
    for p in lean_sources():
        txt = strip_comments(open(p).read())
        for i, line in enumerate(txt.split("\n")):
            if FORBIDDEN.search(line):
                hits.append("{}: {}".format(os.path.relpath(p, LEAN), line.strip()[:120]))
    return hits


def prop_files(prop):
    """Props/<prop>.lean and Props/<prop>/*.lean (a property's theorems may be split by topic)"""
    out = []
    p = os.path.join(LEAN, "Props", prop + ".lean")
    if os.path.exists(p):
        out.append(p)
    d = os.path.join(LEAN, "Props", prop)
    if os.path.isdir(d):
        out += sorted(os.path.join(d, f) for f in os.listdir(d) if f.endswith(".lean"))
    return out


def prop_modules(prop):
    return [os.path.relpath(p, LEAN)[:-5].replace(os.sep, ".") for p in prop_files(prop)]


def theorem_names(prop):
    """(namespace-qualified) names of the theorems stated in the property's files"""
    names = []
    for path in prop_files(prop):
        names += theorem_names_in(path)
    return names


def theorem_names_in(path):
    txt = strip_comments(open(path).read())
    ns = []
    names = []
    for line in txt.split("\n"):
        m = re.match(r"\s*namespace\s+(\S+)", line)
        if m:
            ns.append(m.group(1))
            continue
        m = re.match(r"\s*end\s+(\S+)", line)
        if m and ns and ns[-1] == m.group(1):
            ns.pop()
            continue
        m = re.match(r"\s*(?:@\[[^\]]*\]\s*)?(?:private\s+|protected\s+)?theorem\s+(\S+)", line)
        if m:
            names.append(".".join(ns + [m.group(1)]))
    return names


def regenerate_tables():
    """returns (ok, message)"""
    tool = os.path.join(VERIF, "tools", "extract_tables.py")
    if not os.path.exists(tool):
        return True, "no translator yet"
    rc, out = sh([sys.executable, tool], cwd=VERIF, timeout=300)
    return rc == 0, out[-2000:]


def lake_build(prop):
    targets = ["CnfgenModel", "driver"] + prop_modules(prop)
    lock = open(os.path.join(LEAN, ".build.lock"), "w")
    fcntl.flock(lock, fcntl.LOCK_EX)
    try:
        ok_tables, tmsg = regenerate_tables()
        sh([sys.executable, os.path.join(VERIF, "tools", "gen_roots.py")], cwd=VERIF)
        t0 = time.time()
        rc, out = sh(["lake", "build"] + targets, cwd=LEAN, timeout=3000)
        return ok_tables, tmsg, rc, out, time.time() - t0
    finally:
        fcntl.flock(lock, fcntl.LOCK_UN)
        lock.close()


def _audit_file(tag, modules, names):
    """one Lean file importing `modules` and printing the axioms of `names`; returns (rc, output)"""
    d = os.path.join(LEAN, ".lake", "audit")
    os.makedirs(d, exist_ok=True)
    f = os.path.join(d, "Audit{}.lean".format(tag))
    with open(f, "w") as fh:
        for m in modules:
            fh.write("import {}\n".format(m))
        for n in names:
            fh.write("#print axioms {}\n".format(n))
    return sh(["lake", "env", "lean", f], cwd=LEAN, timeout=1200)


def audit(prop, names):
    """returns dict name -> list of axioms (or None if not found)"""
    rc, out = _audit_file(prop, prop_modules(prop), names)
    if "environment already contains" in out and len(prop_files(prop)) > 1:
        # The modules of this property cannot be imported into ONE environment (they build on lemma
        # files of different workers that declare the same name, e.g. the C16 bridges to C14 and to
        # C15): audit every module on its own, each theorem in the module that states it.
        rc, outs = 0, []
        for i, path in enumerate(prop_files(prop)):
            mod = os.path.relpath(path, LEAN)[:-5].replace(os.sep, ".")
            mine = set(theorem_names_in(path))
            rc_i, out_i = _audit_file("{}_{}".format(prop, i), [mod], [n for n in names if n in mine])
            rc = rc or rc_i
            outs.append(out_i)
        out = "\n".join(outs)
    res = {}
    flat = re.sub(r"\s+", " ", out)
    for n in names:
        m = re.search(r"'" + re.escape(n) + r"' depends on axioms: \[([^\]]*)\]", flat)
        if m:
            res[n] = [a.strip() for a in m.group(1).split(",") if a.strip()]
        elif re.search(r"'" + re.escape(n) + r"' does not depend on any axioms", flat):
            res[n] = []
        else:
            res[n] = None
    return rc, out, res


class Aggregate:
    """harness/props/<prop>.py plus harness/props/<prop>_*.py behave as one module"""

    def __init__(self, prop):
        d = os.path.join(VERIF, "harness", "props")
        names = sorted(f[:-3] for f in os.listdir(d)
                       if f.endswith(".py") and (f[:-3] == prop or f.startswith(prop + "_")))
        self.mods = [importlib.import_module("harness.props." + n) for n in names]
        if not self.mods:
            raise ImportError("no harness module for " + prop)

    def _collect(self, attr):
        out = []
        for m in self.mods:
            out += list(getattr(m, attr, []))
        return out

    @property
    def TRUSTED_EXTRA(self):
        return self._collect("TRUSTED_EXTRA")

    @property
    def NOTES(self):
        return self._collect("NOTES")

    @property
    def ASSUMPTIONS(self):
        return self._collect("ASSUMPTIONS")

    @property
    def RULE(self):
        return " || ".join(getattr(m, "RULE", "") for m in self.mods if getattr(m, "RULE", ""))

    def cases(self, ctx):
        for m in self.mods:
            for c in m.cases(ctx):
                c._mod = m
                yield c

    def build(self, suite, info):
        last = None
        for m in self.mods:
            try:
                c = m.build(suite, info)
            except (ValueError, KeyError) as e:
                last = e
                continue
            if c is not None:
                c._mod = m
                return c
        raise ValueError("no module builds suite {}: {}".format(suite, last))

    def search(self, ctx, case):
        m = getattr(case, "_mod", None)
        if m is not None and hasattr(m, "search"):
            return m.search(ctx, case)
        return None

    def search_global(self, ctx):
        for m in self.mods:
            if hasattr(m, "search_global"):
                r = m.search_global(ctx)
                if r is not None:
                    return r
        return None


def load_known():
    p = os.path.join(VERIF, "known_findings.json")
    if not os.path.exists(p):
        return []
    return json.load(open(p))


def match_known(known, prop, failure):
    """a failure (dict with suite/cls/req/info) matches a *known* entry if every key of
    the entry's `match` equals the failure's value"""
    for k in known:
        if k.get("property") != prop or k.get("status") != "known":
            continue
        m = k.get("match", {})
        if m and all(failure.get(key) == val for key, val in m.items()):
            return k
    return None


def write_replay(prop, payload):
    d = os.path.join(VERIF, "replays")
    os.makedirs(d, exist_ok=True)
    blob = json.dumps(payload, sort_keys=True, default=str)
    import hashlib
    h = hashlib.sha1(blob.encode()).hexdigest()[:12]
    path = os.path.join(d, "{}-{}.json".format(prop, h))
    with open(path, "w") as fh:
        json.dump(payload, fh, indent=1, sort_keys=True, default=str)
    return path


def run_cases(cases, always_oracle=True):
    """runs implementation, model driver and (optionally) the property oracle on
    every case; returns (disagreements, oracle_failures, stats)"""
    t0 = time.time()
    impl_out = [common.run_impl(c) for c in cases]
    t1 = time.time()
    model_out = common.run_driver([c.req for c in cases])
    t2 = time.time()
    disagreements = []
    oracle_failures = []
    for c, a, b in zip(cases, impl_out, model_out):
        if a != b:
            disagreements.append({"suite": c.suite, "cls": c.cls, "req": c.req, "info": c.info,
                                  "impl": a[:2000], "model": b[:2000], "_case": c})
    if always_oracle:
        for c in cases:
            r = common.run_oracle(c)
            if r is not None:
                oracle_failures.append({"suite": c.suite, "cls": c.cls, "req": c.req,
                                        "info": c.info, "failure": r, "_case": c})
    # second pass, in reverse order: the implementation's answer must be a function of the request alone
    # (module-level caches, class attributes shared between instances, objects reused across calls make it
    # depend on what was built before).  The model is pure, so a different answer is a disagreement.
    t_pass2 = time.time()
    seen = {(d["suite"], d["req"]) for d in disagreements}
    budget = max(10.0, 1.5 * (t1 - t0))
    for c, a, b in reversed(list(zip(cases, impl_out, model_out))):
        if time.time() - t_pass2 > budget:
            break
        if getattr(c, "stateless", True) is False:
            continue
        a2 = common.run_impl(c)
        if a2 != a and a2 != b and (c.suite, c.req) not in seen:
            seen.add((c.suite, c.req))
            d = {"suite": c.suite, "cls": c.cls, "req": c.req, "info": c.info, "impl": a2[:2000], "model": b[:2000],
                 "first_answer": a[:500], "history_dependent": True, "_case": c}
            disagreements.append(d)
            r = common.run_oracle(c)
            if r is not None:
                r = {"answer_depends_on_earlier_calls_in_the_process": True, "failure": r}
                oracle_failures.append({"suite": c.suite, "cls": c.cls, "req": c.req, "info": c.info,
                                        "failure": r, "_case": c})
    t3 = time.time()
    stats = {"impl_s": round(t1 - t0, 2), "model_s": round(t2 - t1, 2), "oracle_s": round(t3 - t2, 2)}
    return disagreements, oracle_failures, stats, impl_out


def main(argv=None):
    ap = argparse.ArgumentParser()
    ap.add_argument("prop")
    ap.add_argument("--tier", default=os.environ.get("VERIF_TIER", "quick"), choices=["quick", "thorough"])
    ap.add_argument("--replay", default=None)
    ap.add_argument("--no-build", action="store_true")
    args = ap.parse_args(argv)
    prop = args.prop
    seed = common.seed_from_env()
    t_start = time.time()
    mod = Aggregate(prop)

    violations = []     # (replay_path, suffix)
    known_lines = []
    notes = []

    # ---- 1/2: tables + build
    build_ok = True
    broken_obligations = []
    if not args.no_build:
        ok_tables, tmsg, rc, out, bt = lake_build(prop)
        if not ok_tables:
            build_ok = False
            broken_obligations.append({"kind": "translator", "detail": tmsg[-1500:]})
        if rc != 0:
            build_ok = False
            errs = [l for l in out.split("\n") if "error" in l][:20]
            broken_obligations.append({"kind": "lake build", "detail": errs, "tail": out[-1500:]})
        notes.append("lake build {:.1f}s rc={}".format(bt, rc))
    driver_ok = os.path.exists(common.DRIVER)

    # ---- 3: audit
    names = theorem_names(prop)
    ax = {}
    discharged = 0
    if build_ok:
        rc, aout, ax = audit(prop, names)
        for n in names:
            a = ax.get(n)
            if a is None:
                broken_obligations.append({"kind": "audit", "theorem": n, "detail": "not found / not checked"})
            elif not set(a) <= ALLOWED_AXIOMS:
                broken_obligations.append({"kind": "audit", "theorem": n, "detail": "axioms " + str(a)})
            else:
                discharged += 1
        if args.tier == "thorough":
            # independent re-check of the compiled property modules by the toolchain's olean checker
            rc_lc, out_lc = sh(["lake", "env", "leanchecker"] + prop_modules(prop), cwd=LEAN, timeout=3000)
            notes.append("leanchecker rc={}".format(rc_lc))
            if rc_lc != 0:
                broken_obligations.append({"kind": "leanchecker", "detail": out_lc[-800:]})
        hits = grep_forbidden()
        for h in hits:
            broken_obligations.append({"kind": "forbidden-token", "detail": h})
    obligations = len(names)
    if obligations == 0:
        broken_obligations.append({"kind": "audit", "detail": "no theorems in Props/{}.lean".format(prop)})

    # ---- replay mode
    if args.replay:
        payload = json.load(open(args.replay))
        case = mod.build(payload["suite"], payload["info"])
        dis, orf, stats, impl_out = run_cases([case])
        print("impl :", impl_out[0][:500])
        print("model:", common.run_driver([case.req])[0][:500])
        print("oracle:", orf[0]["failure"] if orf else None)
        bad = bool(dis or orf)
        if bad:
            print("VIOLATION property={} replay={}".format(prop, args.replay))
        return 1 if bad else 0

    # ---- 4: corpus + correspondence
    ctx = {"tier": args.tier, "seed": seed, "prop": prop}
    cases = []
    if driver_ok:
        cases = list(mod.cases(ctx))
    else:
        broken_obligations.append({"kind": "driver", "detail": "driver executable missing"})
    dis, orf, stats = [], [], {}
    if cases:
        dis, orf, stats, _ = run_cases(cases)

    # ---- 5: classify
    known = load_known()
    seen_known = {}
    max_report = 5
    reported = 0

    def report(payload, suffix=""):
        nonlocal reported
        if reported >= max_report:
            return
        reported += 1
        path = write_replay(prop, payload)
        violations.append((path, suffix))

    for f in orf:
        k = match_known(known, prop, f)
        if k is not None:
            seen_known.setdefault(k["id"], k)
            continue
        payload = {k2: v for k2, v in f.items() if not k2.startswith("_")}
        payload["kind"] = "property fails on the real code (oracle)"
        report(payload)
    orf_keys = {(f["suite"], f["req"]) for f in orf}
    for d in dis:
        if (d["suite"], d["req"]) in orf_keys:
            continue  # already reported with a failing input
        k = match_known(known, prop, d)
        if k is not None:
            seen_known.setdefault(k["id"], k)
            continue
        payload = {k2: v for k2, v in d.items() if not k2.startswith("_")}
        found = None
        if True:
            try:
                found = mod.search(ctx, d["_case"])
            except Exception as e:  # the search must never mask the report
                found = None
                payload["search_error"] = repr(e)
        if found is not None:
            payload["kind"] = "correspondence broke; failing input found by search"
            payload["failing_input"] = found
            report(payload)
        else:
            payload["kind"] = "correspondence model/implementation no longer checks"
            payload["unchecked"] = "correspondence suite " + d["suite"]
            report(payload, " no-failing-input-found")
    if broken_obligations:
        # a proof obligation does not check: property not shown to hold
        found = None
        if True:
            try:
                found = mod.search_global(ctx)
            except Exception as e:
                found = None
        payload = {"kind": "proof obligations not discharged", "unchecked": broken_obligations}
        if found is not None:
            payload["failing_input"] = found
            report(payload)
        elif not violations:
            report(payload, " no-failing-input-found")

    for kid, k in seen_known.items():
        known_lines.append("KNOWN-FINDING: property={} {} {}".format(prop, kid, k.get("what", "")))

    # ---- 6: evidence
    distinct = {}
    for c in cases:
        if c.nontrivial:
            distinct[c.req] = 1
    dist = {}
    for c in cases:
        key = c.suite + ":" + c.cls if c.cls else c.suite
        dist[key] = dist.get(key, 0) + 1
    samples = []
    seen_suite = set()
    for c in cases:
        if c.suite not in seen_suite:
            seen_suite.add(c.suite)
            samples.append({"suite": c.suite, "request": c.req[:300], "info": c.info})
    wall = time.time() - t_start
    ev = {
        "property_id": prop,
        "tier": args.tier,
        "seed": seed,
        "level": "proof",
        "coverage": {
            "obligations": obligations,
            "discharged": discharged,
            "checker_cmd": "cd lean && lake build Props.{p} && lake env lean .lake/audit/Audit{p}.lean  (#print axioms of every theorem in Props/{p}.lean)".format(p=prop),
            "trusted_base": TRUSTED_BASE + list(getattr(mod, "TRUSTED_EXTRA", [])),
            "theorems": {n: ax.get(n) for n in names},
            "broken_obligations": broken_obligations,
            "evaluations": len(cases),
            "distinct_nontrivial": len(distinct),
            "rule": mod.RULE or "structured generators per suite; a case is distinct by its request line; trivial cases are flagged by the suite",
            "samples": samples[:12] if samples else [{"note": "no correspondence case ran"}],
            "distribution": dist,
            "disagreements": len(dis),
            "oracle_failures": len(orf),
            "known_findings_seen": sorted(seen_known),
            "timing": stats,
            "notes": notes + list(getattr(mod, "NOTES", [])),
        },
        "assumptions": list(getattr(mod, "ASSUMPTIONS", [])),
        "wall_s": round(wall, 2),
        "violations": len(violations),
    }
    os.makedirs(os.path.join(VERIF, "evidence"), exist_ok=True)
    with open(os.path.join(VERIF, "evidence", prop + ".json"), "w") as fh:
        json.dump(ev, fh, indent=1, default=str)

    for l in known_lines:
        print(l)
    for path, suffix in violations:
        print("VIOLATION property={} replay={}{}".format(prop, path, suffix))
    print("{} {}: theorems {}/{} cases {} disagreements {} oracle-failures {} known {} wall {:.1f}s".format(
        prop, "FAIL" if violations else "ok", discharged, obligations, len(cases), len(dis), len(orf),
        len(seen_known), wall))
    return 1 if violations else 0


if __name__ == "__main__":
    try:
        sys.exit(main())
    except subprocess.TimeoutExpired as e:
        print("TIMEOUT", e, file=sys.stderr)
        sys.exit(2)
