"""Bit-parallel truth tables (used by the C01 oracle).

A `TT` is a set of K assignments to variables 1..n; a Boolean function over them is a
Python integer whose bit a says whether the function holds under assignment a.
`TT.full(n)` enumerates all 2^n assignments (assignment a sets variable i iff bit i-1
of a is 1); `TT.sampled(n, rows)` uses an explicit list of assignments.  Clause, CNF
and pseudo-Boolean evaluation are word-parallel (big-integer and/or/xor), so a table of
2^18 rows costs a few milliseconds per constraint.
"""


class TT:
    def __init__(self, n, rows_count, cols):
        self.n = n
        self.K = rows_count
        self.ones = (1 << rows_count) - 1
        self.cols = cols            # cols[i] for i in 1..n

    @classmethod
    def full(cls, n):
        K = 1 << n
        cols = [None]
        for i in range(1, n + 1):
            half = 1 << (i - 1)
            x = ((1 << half) - 1) << half
            length = 2 * half
            while length < K:
                x |= x << length
                length *= 2
            cols.append(x)
        return cls(n, K, cols)

    @classmethod
    def sampled(cls, n, rows):
        """rows: list of assignments, each a set/list of the variables that are true"""
        cols = [None] + [0] * n
        for a, row in enumerate(rows):
            for v in row:
                cols[v] |= 1 << a
        return cls(n, len(rows), cols)

    # ------------------------------------------------------------ Boolean layer
    def var(self, i):
        return self.cols[i]

    def neg(self, x):
        return self.ones ^ x

    def lit(self, l):
        return self.cols[l] if l > 0 else self.ones ^ self.cols[-l]

    def any(self, xs):
        r = 0
        for x in xs:
            r |= x
        return r

    def all(self, xs):
        r = self.ones
        for x in xs:
            r &= x
        return r

    def implies(self, a, b):
        return (self.ones ^ a) | b

    def at_most_one(self, xs):
        """pairwise: no two of them together"""
        xs = list(xs)
        r = self.ones
        for i in range(len(xs)):
            for j in range(i + 1, len(xs)):
                r &= self.ones ^ (xs[i] & xs[j])
        return r

    def exactly_one(self, xs):
        xs = list(xs)
        return self.any(xs) & self.at_most_one(xs)

    # ------------------------------------------------------------ arithmetic layer (bit-sliced)
    def count(self, xs, weights=None):
        """digits (little endian) of sum_i w_i * [x_i]; weights are non-negative integers"""
        digits = []
        xs = list(xs)
        for idx, x in enumerate(xs):
            w = 1 if weights is None else weights[idx]
            j = 0
            while w:
                if w & 1:
                    carry = x
                    p = j
                    while carry:
                        while len(digits) <= p:
                            digits.append(0)
                        digits[p], carry = digits[p] ^ carry, digits[p] & carry
                        p += 1
                w >>= 1
                j += 1
        return digits

    def ge(self, digits, k):
        """rows where the bit-sliced number is >= k"""
        if k <= 0:
            return self.ones
        width = max(len(digits), k.bit_length())
        gt, eq = 0, self.ones
        for j in range(width - 1, -1, -1):
            d = digits[j] if j < len(digits) else 0
            if (k >> j) & 1:
                eq &= d
            else:
                gt |= eq & d
                eq &= self.ones ^ d
        return gt | eq

    def eq(self, digits, k):
        if k < 0:
            return 0
        width = max(len(digits), k.bit_length())
        eq = self.ones
        for j in range(width):
            d = digits[j] if j < len(digits) else 0
            eq &= d if (k >> j) & 1 else self.ones ^ d
        return eq

    def le(self, digits, k):
        return self.ones ^ self.ge(digits, k + 1)

    def lt_digits(self, a, b):
        """rows where number a < number b (both bit-sliced)"""
        width = max(len(a), len(b))
        lt, eq = 0, self.ones
        for j in range(width - 1, -1, -1):
            x = a[j] if j < len(a) else 0
            y = b[j] if j < len(b) else 0
            lt |= eq & (self.ones ^ x) & y
            eq &= self.ones ^ (x ^ y)
        return lt

    def eq_digits(self, a, b):
        width = max(len(a), len(b))
        eq = self.ones
        for j in range(width):
            x = a[j] if j < len(a) else 0
            y = b[j] if j < len(b) else 0
            eq &= self.ones ^ (x ^ y)
        return eq

    # ------------------------------------------------------------ formulas
    def clause(self, c):
        r = 0
        for l in c:
            r |= self.lit(l)
        return r

    def cnf(self, clauses):
        r = self.ones
        for c in clauses:
            r &= self.clause(c)
            if r == 0:
                break
        return r

    def pbc(self, c):
        c = list(c)
        op, rhs = c[-2], c[-1]
        xs, ws = [], []
        for coef, l in c[:-2]:
            if coef >= 0:
                xs.append(self.lit(l))
                ws.append(coef)
            else:            # coef*[l] = coef + |coef|*[not l]
                xs.append(self.lit(-l))
                ws.append(-coef)
                rhs += -coef
        d = self.count(xs, ws)
        if op == ">=":
            return self.ge(d, rhs)
        if op == ">":
            return self.ge(d, rhs + 1)
        if op == "<=":
            return self.le(d, rhs)
        if op == "<":
            return self.le(d, rhs - 1)
        if op == "==":
            return self.eq(d, rhs)
        if op == "!=":
            return self.ones ^ self.eq(d, rhs)
        raise ValueError(op)

    def opb(self, constraints):
        r = self.ones
        for c in constraints:
            r &= self.pbc(c)
            if r == 0:
                break
        return r

    # ------------------------------------------------------------ rows
    def row(self, a):
        """the variables that are true in row a"""
        return [i for i in range(1, self.n + 1) if (self.cols[i] >> a) & 1]

    @staticmethod
    def first_row(x):
        return (x & -x).bit_length() - 1


def _selftest():
    """the bit-parallel evaluators against the naive ones (small, exhaustive / random)"""
    import random
    from harness import common
    rng = random.Random(12345)
    for n in range(0, 5):
        T = TT.full(n)
        for _ in range(40):
            k = rng.randint(0, 4)
            cs = []
            for _ in range(rng.randint(0, 4)):
                terms = [(rng.randint(-3, 3), rng.choice([1, -1]) * rng.randint(1, n)) for _ in range(k)] if n else []
                cs.append(terms + [rng.choice(["<=", ">=", "<", ">", "==", "!="]), rng.randint(-4, 6)])
            cls = [[rng.choice([1, -1]) * rng.randint(1, n) for _ in range(rng.randint(0, 3))] for _ in range(3)] if n else [[]]
            fo, fc = T.opb(cs), T.cnf(cls)
            for a, alpha in enumerate(common.assignments(n)):
                assert ((fo >> a) & 1) == int(common.opb_holds(cs, alpha)), (n, cs, a)
                assert ((fc >> a) & 1) == int(common.cnf_holds(cls, alpha)), (n, cls, a)
                assert T.row(a) == [i for i in range(1, n + 1) if alpha[i]]


_selftest()
