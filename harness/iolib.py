"""Shared helpers of the I/O properties (C06, C12): encodings of texts / formulas for the
driver, the Python side of the *lexer contract*, independent mini readers used as oracles,
formula sources (hand-built, random, real cnfgen families through the command line)."""
import io
import os
import re
import random as _module_random   # only ever *seeded* here: it belongs to the code under test
import shutil
import tempfile
import atexit

from harness.common import enc_list, enc_str

# ------------------------------------------------------------------ encodings (mirror Driver/IO.lean)
def enc_opt(x, f):
    return [0] if x is None else [1] + f(x)


def enc_header(h):
    out = [len(h)]
    for k, v in h:
        out += enc_str(k) + enc_str(v)
    return out


def enc_names(ns):
    out = [len(ns)]
    for s in ns:
        out += enc_str(s)
    return out


def enc_clauses(cs):
    out = [len(cs)]
    for c in cs:
        out += enc_list(c)
    return out


def enc_cnf(n, cs):
    return [n] + enc_clauses(cs)


OPB_OPCODE = {"<=": 0, ">=": 1, "<": 2, ">": 3, "==": 4, "!=": 5}


def enc_pbcs(cons):
    """constraints as stored by BaseOPB: [(c,l)..., op, rhs]"""
    out = [len(cons)]
    for c in cons:
        terms = c[:-2]
        out.append(len(terms))
        for coef, lit in terms:
            out += [int(coef), int(lit)]
        out += [OPB_OPCODE[c[-2]], int(c[-1])]
    return out


def fmt_text(s):
    return " ".join([str(len(s))] + [str(ord(c)) for c in s])


def fmt_tok(t):
    if t[0] == "I":
        return "I" + str(t[1])
    if t[0] == "X":
        return "X{}:{}".format(1 if t[1] else 0, t[2])
    return "W" + ".".join(str(ord(c)) for c in t[1])


def fmt_rows(rows):
    return " / ".join([str(len(rows))] + [" ".join(fmt_tok(t) for t in r) for r in rows])


# ------------------------------------------------------------------ lexer contract, Python side
XVAR = re.compile(r"(~?)x([0-9]+)\Z")


def py_lines(text, universal):
    """physical lines as Python's text layer delivers them (terminators removed later by split())"""
    return io.StringIO(text, newline=None if universal else "\n").readlines()


def classify(t):
    try:
        return ("I", int(t))
    except ValueError:
        pass
    m = XVAR.match(t)
    if m and len(m.group(2)) <= 4300:
        return ("X", m.group(1) == "~", int(m.group(2)))
    return ("W", t)


def py_lex(text, universal):
    return [[classify(t) for t in line.split()] for line in py_lines(text, universal)]


def has_nonascii_decimal(text):
    return any(ord(c) > 127 and c.isdecimal() for c in text)


# ------------------------------------------------------------------ media: StringIO (u=False) or a real file (u=True)
_TMP = None


def tmpdir():
    global _TMP
    if _TMP is None:
        _TMP = tempfile.mkdtemp(prefix="verif-io-")
        atexit.register(shutil.rmtree, _TMP, True)
    return _TMP


_counter = [0]


def tmpname(ext=".cnf"):
    _counter[0] += 1
    return os.path.join(tmpdir(), "f{}{}".format(_counter[0], ext))


def write_raw(text, ext=".cnf"):
    p = tmpname(ext)
    with open(p, "w", encoding="utf-8", newline="") as fh:
        fh.write(text)
    return p


def read_raw(path):
    with open(path, "r", encoding="utf-8", newline="") as fh:
        return fh.read()


# ------------------------------------------------------------------ independent DIMACS reading (oracle)
ASCII_INT = re.compile(r"[+-]?[0-9]+(?:_[0-9]+)*\Z")
WS_CODES = [9, 10, 11, 12, 13, 28, 29, 30, 31, 32, 133, 160, 5760] + list(range(8192, 8203)) + [8232, 8233, 8239, 8287, 12288]
WS_SPLIT = re.compile("[" + "".join(re.escape(chr(c)) for c in WS_CODES) + "]+")


def indep_lines(text, universal):
    return re.split("\r\n|\r|\n", text) if universal else text.split("\n")


def indep_int(t):
    """value of an integer token, None if it is not one (ASCII; non-ASCII decimals through unicodedata)"""
    if ASCII_INT.match(t):
        digits = t.lstrip("+-").replace("_", "")
        if len(digits) > 4300:
            return None
        v = 0
        for ch in digits:
            v = 10 * v + (ord(ch) - 48)
        return -v if t[0] == "-" else v
    if any(ord(c) > 127 for c in t):
        import unicodedata
        try:
            s = "".join(str(unicodedata.decimal(c)) if c not in "+-_" else c for c in t)
        except ValueError:
            return None
        return indep_int(s) if ASCII_INT.match(s) else None
    return None


def indep_dimacs(text, universal):
    """What the text denotes, read directly from the definition of the format:
    ('ok', n, clauses) or ('bad', reason)."""
    n = m = None
    clauses, cur = [], []
    for line in indep_lines(text, universal):
        toks = [t for t in WS_SPLIT.split(line) if t]
        if not toks or toks[0][0] == "c":
            continue
        if toks[0][0] == "p":
            if n is not None:
                return ("bad", "two problem lines")
            if len(toks) != 4:
                return ("bad", "problem line arity")
            a, b = indep_int(toks[2]), indep_int(toks[3])
            if a is None or b is None or a < 0 or b < 0:
                return ("bad", "problem line numbers")
            n, m = a, b
            continue
        if n is None:
            return ("bad", "literal before problem line")
        for t in toks:
            v = indep_int(t)
            if v is None:
                return ("bad", "non-integer token")
            if v == 0:
                clauses.append(cur)
                cur = []
            elif abs(v) <= n:
                cur.append(v)
            else:
                return ("bad", "literal out of range")
    if cur:
        return ("bad", "unterminated clause")
    if n is None:
        return ("bad", "no problem line")
    if m != len(clauses):
        return ("bad", "clause count")
    return ("ok", n, clauses)


def dimacs_shape(text, universal):
    """T-C06.2 on a text: the p line states (n, m); every other line is a comment or a clause line.
    returns (n, m, number of clause lines, list of offending lines)"""
    bad = []
    spec = []
    nclause = 0
    lines = indep_lines(text, universal)
    if lines and lines[-1] == "":
        lines = lines[:-1]
    for line in lines:
        if line.startswith("p cnf "):
            spec.append(line)
        elif line.startswith("c"):
            pass
        elif re.match(r"(?:-?[1-9][0-9]* )*0\Z", line):
            nclause += 1
        else:
            bad.append(line[:60])
    return spec, nclause, bad


# ------------------------------------------------------------------ formula sources
CNF_ARGVS = [
    ["php", 3, 2], ["php", 4, 3], ["php", 2, 1, "-T", "xor", 2], ["op", 3], ["op", 4, "--total"],
    ["tseitin", "first", "complete", 4], ["tseitin", "random", "grid", 2, 3],
    ["peb", "pyramid", 2], ["peb", "pyramid", 2, "-T", "or", 2, "-T", "shuffle"],
    ["stone", 3, "pyramid", 2], ["kclique", 3, "gnp", 5, ".5"], ["randkcnf", 3, 6, 10],
    ["randkcnf", 2, 4, 0], ["count", 5, 2], ["ram", 3, 3, 5], ["parity", 4], ["matching", "complete", 4],
    ["kcolor", 3, "gnd", 6, 2], ["subsetcard", 4], ["cliquecoloring", 4, 3, 2], ["and", 2, 2], ["or", 3, 0],
    ["pitfall", 6, 3, 3, 2, 2], ["cpls", 2, 2, 2], ["domset", 2, "complete", 4], ["vdw", 5, 2, 3],
    ["php", 3, 2, "-T", "lift", 2], ["op", 3, "-T", "maj", 3], ["php", 3, 2, "-T", "flip"],
    ["rphp", 2, 3, 2], ["ec", "complete", 4], ["randkxor", 3, 5, 4], ["php", 3, 2, "-T", "eq", 2],
    ["iso", "gnd", 4, 2], ["subgraph", "-G", "gnp", 4, ".5", "-H", "complete", 3],
]
PB_ARGVS = [
    ["php", 3, 2], ["php", 4, 3], ["op", 3], ["tseitin", "first", "complete", 4], ["count", 5, 2],
    ["parity", 4], ["matching", "complete", 4], ["subsetcard", 4], ["kclique", 3, "gnp", 5, ".5"],
    ["randkcnf", 3, 6, 5], ["cliquecoloring", 4, 3, 2], ["domset", 2, "complete", 4], ["ec", "complete", 4],
    ["rphp", 2, 3, 2], ["and", 2, 2], ["ram", 3, 3, 5],
]


def cli_formula(tool, argv, seed):
    """the formula object a command line builds (real code); None if the command is rejected"""
    import contextlib
    _module_random.seed(seed)
    if tool == "cnfgen":
        from cnfgen.clitools.cnfgen import cli
    else:
        from cnfgen.clitools.pbgen import cli
    buf = io.StringIO()
    try:
        with contextlib.redirect_stderr(buf), contextlib.redirect_stdout(buf):
            return cli([tool] + [str(a) for a in argv], mode="formula")
    except SystemExit:
        return None
    except Exception:
        return None


def rand_clauses(rng, n, m, maxw=5):
    cs = []
    for _ in range(m):
        w = rng.choice([0, 1, 1, 2, 2, 3, 3, 4, maxw])
        cs.append([rng.choice([1, -1]) * rng.randint(1, n) for _ in range(w)] if n > 0 else [])
    return cs


ODD_STRINGS = ["", " ", "x", "x_{1,2}", "a b", "  padded  ", "c", "p cnf 1 1", "1 2 0", "café", "α_1", "%",
               "tab\there", "{x}^2", "x^1_2", "_u", "^", "e[1]_{1,3}", "\\overline{y}", "a:b", "0", "-1", "*", "~x1", "\x0bvt",
               " ls", "\x1cfs", "100%", "#variable= 3", "\\", "{", "}", "x_", "\U0001F600"]
BREAK_STRINGS = ["a\nb", "line\n", "\n", "a\n\nb", "a\nc still comment", "a\n* star", "a\rb", "a\r\nb", "x\n1 -1 0", "v\x0bt", "f\x0cf", "a\x1cb\x1dc\x1ed", "n\x85l", "l\u2028s\u2029p", "\r", "\r\n\r", "p cnf 1 1\n1 0"]


# ------------------------------------------------------------------ OPB: grammar over the lexer contract (mirror of readOpb)
def opb_rows_read(rows):
    """the strict OPB grammar over classified token rows; returns (n, constraints) or raises ValueError"""
    if not rows:
        raise ValueError("empty")
    h = rows[0]
    if not (len(h) == 5 and h[0] == ("W", "*") and h[1] == ("W", "#variable=") and h[2][0] == "I"
            and h[3] == ("W", "#constraint=") and h[4][0] == "I" and h[2][1] >= 0 and h[4][1] >= 0):
        raise ValueError("first line")
    n, m = h[2][1], h[4][1]
    cons = []
    for r in rows[1:]:
        if r and r[0][0] == "W" and r[0][1].startswith("*"):
            continue
        terms = []
        i = 0
        while True:
            rest = r[i:]
            if len(rest) == 2 and rest[0] in (("W", ">="), ("W", "=")) and rest[1][0] == "I":
                cons.append(terms + [">=" if rest[0][1] == ">=" else "==", rest[1][1]])
                break
            if len(rest) >= 2 and rest[0][0] == "I" and rest[1][0] == "X" and 1 <= rest[1][2] <= n:
                terms.append((rest[0][1], -rest[1][2] if rest[1][1] else rest[1][2]))
                i += 2
                continue
            raise ValueError("constraint row")
    if len(cons) != m:
        raise ValueError("count")
    return n, cons


# ------------------------------------------------------------------ OPB: independent reader straight from the format (oracle)
OPB_HEAD = re.compile(r"\* #variable= ([0-9]+) #constraint= ([0-9]+)\Z")
OPB_CONS = re.compile(r"((?:[+-][0-9]+ ~?x[0-9]+ )*)(>=|=) ([+-]?[0-9]+)\Z")
OPB_TERM = re.compile(r"([+-][0-9]+) (~?)x([0-9]+) ")


def indep_opb(text, universal):
    """('ok', n, constraints as (terms, op, rhs)) or ('bad', reason)"""
    lines = indep_lines(text, universal)
    if lines and lines[-1] == "":
        lines = lines[:-1]
    if not lines:
        return ("bad", "empty")
    m0 = OPB_HEAD.match(lines[0])
    if not m0:
        return ("bad", "first line: " + lines[0][:60])
    n, m = int(m0.group(1)), int(m0.group(2))
    cons = []
    for line in lines[1:]:
        if line.startswith("*"):
            continue
        mc = OPB_CONS.match(line)
        if not mc:
            return ("bad", "neither comment nor constraint: " + line[:60])
        terms = []
        for c, neg, v in OPB_TERM.findall(mc.group(1)):
            v = int(v)
            if not 1 <= v <= n:
                return ("bad", "variable out of range: x{}".format(v))
            terms.append((int(c), -v if neg else v))
        cons.append((terms, mc.group(2), int(mc.group(3))))
    if len(cons) != m:
        return ("bad", "declared {} constraints, found {}".format(m, len(cons)))
    return ("ok", n, cons)


def opb_expected(F):
    """the in-memory formula as (n, [(terms, '>='|'=', rhs)])"""
    from cnfgen.formula.baseopb import BaseOPB
    if isinstance(F, BaseOPB):
        cons = [([(int(c), int(l)) for c, l in lin[:-2]], ">=" if lin[-2] == ">=" else "=", int(lin[-1])) for lin in F]
    else:
        cons = [([(1, int(l)) for l in cls], ">=", 1) for cls in F]
    return F.number_of_variables(), cons


# ------------------------------------------------------------------ LaTeX: independent body / row reader (oracle)
def latex_lit_decodings(t):
    """all (negated, name) pairs a literal text may stand for"""
    t = t.strip()
    out = []
    if t.startswith("\\overline{") and t.endswith("}"):
        out.append((True, t[len("\\overline{"):-1]))
    if t.startswith("{\\overline{") and t.endswith("}"):
        inner = t[len("{\\overline{"):-1]
        for j, ch in enumerate(inner):
            if ch == "}" and j + 1 < len(inner) and inner[j + 1] in "_^" and j > 0:
                out.append((True, inner[:j] + inner[j + 1:]))
    if t.startswith("{") and t.endswith("}"):
        out.append((False, t[1:-1]))
    return out


def latex_names_ok(names):
    """can the oracle split rows reliably for these names?"""
    return all(("\n" not in s and "\r" not in s and " \\lor " not in s and " + " not in s and "\\\\" not in s
                and "\\right)" not in s and "\\geq" not in s and " = " not in s) for s in names) and len(set(names)) == len(names)


def latex_body_blocks(body):
    """split a body into align blocks of row strings; raises ValueError if the skeleton is wrong"""
    lines = body.split("\n")
    blocks, cur, state = [], None, "out"
    for ln in lines:
        if state == "out":
            if ln != "\\begin{align}":
                raise ValueError("expected \\begin{align}, got " + ln[:40])
            cur, state = [], "in"
        else:
            if ln in ("\\end{align}", "\\end{align}\\pagebreak"):
                blocks.append((cur, ln.endswith("pagebreak")))
                state = "out"
            else:
                cur.append(ln)
    if state != "out":
        raise ValueError("unterminated align")
    return blocks


def latex_check_body(body, F, names, split, compact):
    """the LaTeX part of C12 on a real body text; None if fine, else a description"""
    from cnfgen.formula.baseopb import BaseOPB
    is_opb = isinstance(F, BaseOPB)
    items = [list(x) for x in F]
    try:
        blocks = latex_body_blocks(body)
    except ValueError as e:
        return {"skeleton": str(e)}
    if len(items) == 0:
        if [b for b, _ in blocks] != [["   \\top"]]:
            return {"empty_formula_not_rendered_as_top": [b for b, _ in blocks][:3]}
        return None
    rows = [r for b, _ in blocks for r in b]
    if any(r.strip() == "\\top" for r in rows):
        return {"top_in_nonempty_formula": True}
    if len(rows) != len(items):
        return {"rows": len(rows), "clauses_or_constraints": len(items)}
    sizes = [len(b) for b, _ in blocks]
    if split > 0:
        want = [split] * (len(items) // split) + ([len(items) % split] if len(items) % split else [])
    else:
        want = [len(items)]
    if sizes != want:
        return {"block_sizes": sizes, "expected": want}
    if [pb for _, pb in blocks] != [True] * (len(blocks) - 1) + [False]:
        return {"pagebreaks": [pb for _, pb in blocks]}
    idx = {}
    for i, s in enumerate(names, start=1):
        idx.setdefault(s, i)
    k = 0
    for b, _ in blocks:
        for j, r in enumerate(b):
            item = items[k]
            last = j == len(b) - 1
            if r.endswith(" \\\\") == last:
                return {"row": k, "row_separator": r[-10:], "last_in_block": last}
            core = r[:-3] if not last else r
            if not core.startswith("&"):
                return {"row": k, "no_ampersand": core[:20]}
            core = core[1:]
            if is_opb:
                m = re.match(r" (.*) (\\geq|=) (-?[0-9]+)\Z", core, re.S)
                if not m:
                    return {"row": k, "not_a_constraint_row": core[:80]}
                lhs, op, rhs = m.group(1), m.group(2), int(m.group(3))
                terms = item[:-2]
                if (op == "\\geq") != (item[-2] == ">=") or rhs != item[-1]:
                    return {"row": k, "relation_or_bound": [op, rhs], "in_memory": [item[-2], item[-1]]}
                parts = [] if (lhs == "0" and not terms) else lhs.split(" + ")
                if len(parts) != len(terms):
                    return {"row": k, "terms_shown": len(parts), "in_memory": len(terms)}
                for p, (c, l) in zip(parts, terms):
                    mm = re.match(r"([0-9]*)(.*)\Z", p, re.S)
                    coef = int(mm.group(1)) if mm.group(1) else 1
                    decs = latex_lit_decodings(mm.group(2))
                    if coef != c:
                        return {"row": k, "coefficient_shown": coef, "in_memory": c, "term": p[:60]}
                    if not any(neg == (l < 0) and idx.get(nm) == abs(l) for neg, nm in decs):
                        return {"row": k, "literal_shown": p[:60], "in_memory": l}
            else:
                if compact and j > 0:
                    if not core.startswith(" \\land "):
                        return {"row": k, "missing_land": core[:20]}
                    core = core[len(" \\land "):]
                else:
                    if not core.startswith("       "):
                        return {"row": k, "indent": core[:20]}
                    core = core[7:]
                if core == "\\square":
                    if item:
                        return {"row": k, "square_for_nonempty_clause": item}
                    k += 1
                    continue
                if not item:
                    return {"row": k, "empty_clause_not_square": core[:40]}
                if compact:
                    if not (core.startswith("\\left( ") and core.endswith(" \\right)")):
                        return {"row": k, "parentheses": core[:40]}
                    core = core[len("\\left( "):-len(" \\right)")]
                parts = core.split(" \\lor ")
                if len(parts) != len(item):
                    return {"row": k, "literals_shown": len(parts), "in_memory": len(item)}
                for p, l in zip(parts, item):
                    decs = latex_lit_decodings(p)
                    if not any(neg == (l < 0) and idx.get(nm) == abs(l) for neg, nm in decs):
                        return {"row": k, "literal_shown": p[:60], "in_memory": l}
            k += 1
    return None


def latex_doc_body(doc, intro):
    """the body of a document: what follows the line `intro` up to the closing \\end{document}"""
    i = doc.find(intro)
    tail = "\n\\end{document}"
    if i < 0 or not doc.endswith(tail):
        raise ValueError("document skeleton")
    return doc[i + len(intro):-len(tail)]
