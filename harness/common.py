"""Shared machinery of the correspondence harness.

Run with /venv/bin/python and PYTHONPATH=/repo:/verif (the `check` wrapper does
that).  Everything random in the harness comes from `random.Random` *instances*
seeded from VERIF_SEED; the module-level generator belongs to the code under
test.
"""
import hashlib
import json
import os
import random
import subprocess
import sys
import time
import traceback

VERIF = os.path.dirname(os.path.dirname(os.path.abspath(__file__)))
REPO = os.environ.get("CNFGEN_REPO", "/repo")
LEAN = os.path.join(VERIF, "lean")
DRIVER = os.path.join(LEAN, ".lake", "build", "bin", "driver")

OPCODE = {"<=": 0, ">=": 1, "<": 2, ">": 3, "==": 4, "!=": 5}


# ---------------------------------------------------------------- encoding
def enc_list(xs):
    xs = list(xs)
    return [len(xs)] + [int(x) for x in xs]


def enc_str(s):
    return enc_list(ord(c) for c in s)


def enc_pairs(ps):
    ps = list(ps)
    out = [len(ps)]
    for a, b in ps:
        out += [int(a), int(b)]
    return out


def enc_graph(G):
    """simple or directed graph literal: n m u1 v1 ..."""
    es = list(G.edges())
    return [G.number_of_vertices()] + enc_pairs(es)


def enc_bipartite(B):
    es = list(B.edges())
    return [B.left_order(), B.right_order()] + enc_pairs(es)


def fmt_formula(F):
    """canonical text of a CNF or OPB formula object (same as the driver's fmtFormula)"""
    from cnfgen.formula.baseopb import BaseOPB
    return fmt_opb(F) if isinstance(F, BaseOPB) else fmt_cnf(F)


def req(op, *parts):
    toks = [op]
    for p in parts:
        if isinstance(p, (list, tuple)):
            toks += [str(int(x)) for x in p]
        elif isinstance(p, bool):
            toks.append("1" if p else "0")
        else:
            toks.append(str(int(p)))
    return " ".join(toks)


def fmt_clauses(cs):
    cs = [list(c) for c in cs]
    out = [str(len(cs))]
    for c in cs:
        out += [str(l) for l in c]
        out.append("0")
    return " ".join(out)


def fmt_cnf(F):
    return "{} {}".format(F.number_of_variables(), fmt_clauses(F.clauses()))


def fmt_pbc(c):
    c = list(c)
    out = []
    for coef, lit in c[:-2]:
        out += [str(coef), str(lit)]
    out += [str(c[-2]), str(c[-1])]
    return " ".join(out)


def fmt_pbcs(cs):
    cs = list(cs)
    return " ; ".join([str(len(cs))] + [fmt_pbc(c) for c in cs])


def fmt_opb(F):
    return "{} {}".format(F.number_of_variables(), fmt_pbcs(F))


def ok(s):
    return "OK " + s


def exc_name(e):
    return "ERR " + type(e).__name__


# ---------------------------------------------------------------- cases
class Case:
    """One correspondence case.

    req    : request line for the Lean driver
    impl   : zero-argument callable running the REAL code, returning the
             canonical answer string (exceptions are mapped to `ERR <Name>`)
    oracle : optional zero-argument callable evaluating the PROPERTY itself on
             the real code for this input; returns None if it holds, else a
             JSON-able description of the failure (the failing input)
    cls    : label of the input class (used for the distribution printed in the
             evidence and for matching known findings)
    nontrivial : whether the case counts as non-trivial for the evidence
    """
    __slots__ = ("suite", "req", "impl", "oracle", "cls", "nontrivial", "info", "_mod", "stateless")

    def __init__(self, suite, req, impl, oracle=None, cls="", nontrivial=True, info=None):
        self.suite = suite
        self.req = req
        self.impl = impl
        self.oracle = oracle
        self.cls = cls
        self.nontrivial = nontrivial
        self.info = info
        self._mod = None
        self.stateless = True   # set False for cases whose impl() legitimately depends on process state


def _run_driver_once(lines, timeout):
    data = "\n".join(lines) + "\n"
    p = subprocess.run([DRIVER], input=data.encode(), stdout=subprocess.PIPE,
                       stderr=subprocess.PIPE, timeout=timeout)
    out = p.stdout.decode().split("\n")
    if out and out[-1] == "":
        out.pop()
    if p.returncode != 0 or len(out) != len(lines):
        raise RuntimeError("driver failed: rc={} lines={}/{} stderr={}".format(
            p.returncode, len(out), len(lines), p.stderr.decode()[:500]))
    return out


# request lines a harness module knows to be expensive for the model although they are short (e.g. a gadget of arity 17:
# 2^16 clauses): they are spread over the parallel driver processes like the very long ones
HEAVY_REQUESTS = set()


def run_driver(lines, timeout=600):
    """answers of the Lean driver, one per request line, in order.  The driver is a pure function of each line, so a
    batch with very long requests (graphs with 10^4 edges cost seconds each in the model) is spread over a few driver
    processes; the answers are the same."""
    if not lines:
        return []
    heavy = [i for i, l in enumerate(lines) if len(l) > 20000 or l in HEAVY_REQUESTS]
    if len(heavy) < 2:
        return _run_driver_once(lines, timeout)
    from concurrent.futures import ThreadPoolExecutor
    k = min(4, len(heavy))
    chunks = [[] for _ in range(k)]
    load = [0] * k
    for i in sorted(heavy, key=lambda i: -len(lines[i])):
        j = load.index(min(load))
        chunks[j].append(i)
        load[j] += len(lines[i]) ** 2
    hs = set(heavy)
    chunks.append([i for i in range(len(lines)) if i not in hs])
    chunks = [sorted(c) for c in chunks if c]
    with ThreadPoolExecutor(max_workers=len(chunks)) as ex:
        outs = list(ex.map(lambda c: _run_driver_once([lines[i] for i in c], timeout), chunks))
    res = [None] * len(lines)
    for c, o in zip(chunks, outs):
        for i, a in zip(c, o):
            res[i] = a
    return res


def run_impl(case):
    try:
        return case.impl()
    except RecursionError as e:
        return exc_name(e)
    except Exception as e:  # noqa: the kind of exception is the observation
        return exc_name(e)


def run_oracle(case):
    if case.oracle is None:
        return None
    try:
        return case.oracle()
    except Exception as e:
        return {"oracle_exception": type(e).__name__, "msg": str(e)[:200],
                "tb": traceback.format_exc()[-600:]}


class Rng(random.Random):
    """harness-owned generator"""

    def lits(self, n, maxvar=None, allow_repeat=True):
        maxvar = maxvar or max(n, 1) + 2
        out = []
        for _ in range(n):
            v = self.randint(1, maxvar)
            out.append(v if self.random() < 0.5 else -v)
        if not allow_repeat:
            seen = set()
            res = []
            for l in out:
                if abs(l) not in seen:
                    seen.add(abs(l))
                    res.append(l)
            return res
        return out


def seed_from_env():
    try:
        return int(os.environ.get("VERIF_SEED", "0"))
    except ValueError:
        return 0


def sub_rng(seed, *names):
    h = hashlib.sha256(("/".join([str(seed)] + [str(n) for n in names])).encode()).digest()
    return Rng(int.from_bytes(h[:8], "big"))


# ---------------------------------------------------------------- truth tables
def lit_holds(alpha, l):
    return alpha[abs(l)] if l > 0 else not alpha[abs(l)]


def assignments(n):
    """all assignments to variables 1..n as lists indexed by variable (index 0 unused)"""
    for bits in range(1 << n):
        yield [False] + [bool((bits >> i) & 1) for i in range(n)]


def cnf_holds(clauses, alpha):
    for c in clauses:
        for l in c:
            if (alpha[l] if l > 0 else not alpha[-l]):
                break
        else:
            return False
    return True


def pbc_holds(c, alpha):
    c = list(c)
    s = sum(coef for coef, lit in c[:-2] if lit_holds(alpha, lit))
    op, rhs = c[-2], c[-1]
    return {"<=": s <= rhs, ">=": s >= rhs, "<": s < rhs, ">": s > rhs,
            "==": s == rhs, "!=": s != rhs}[op]


def opb_holds(constraints, alpha):
    return all(pbc_holds(c, alpha) for c in constraints)


def graph_by_some_history(n, edges):
    """the simple graph (n, edges) reached by one of several legal histories, chosen by the data itself:
    0 direct; 1 grown from a smaller graph by one update_vertex_number call; 2 grown vertex by vertex;
    3 with an extra edge added and removed again.  Families must see the same graph whichever way it was made."""
    from cnfgen.graphs import Graph
    edges = [tuple(e) for e in edges]
    route = (n * 31 + len(edges) * 7 + sum(u + v for u, v in edges)) % 4
    if route == 1 and n >= 2:
        G = Graph(n // 2 if n > 3 else 0)
        G.update_vertex_number(n)
    elif route == 2 and n >= 1:
        G = Graph(0)
        for k in range(1, n + 1):
            G.update_vertex_number(k)
    else:
        G = Graph(n)
    extra = None
    if route == 3 and n >= 2:
        present = set(edges) | set((v, u) for u, v in edges)
        for u in range(1, n + 1):
            for v in range(u + 1, n + 1):
                if (u, v) not in present:
                    extra = (u, v)
                    break
            if extra:
                break
    if extra:
        G.add_edge(*extra)
    for u, v in edges:
        G.add_edge(u, v)
    if extra:
        G.remove_edge(*extra)
    return G


# ---------------------------------------------------------------------------------------------------------------
# size probes derived from the CURRENT source: integer constants that an implementation compares sizes with
# (thresholds of fast paths, buffer sizes, cache limits).  Generators ask `probe_sizes(files, lo, hi)` for the
# values c-1, c, c+1 (and 2^c-1, 2^c, 2^c+1 for small c) of every such constant c that lie in their feasible
# range, so that a threshold introduced by a code change is crossed by the very next run.  Heuristic input
# selection only: it never decides anything.

_CONST_CACHE = {}


def source_constants(files, wide=False):
    """sorted integer constants (>= 2) occurring in comparisons, shifts, `range`/slice bounds, `maxsize=` keywords
    and assignments to ALL_CAPS names in the given files (paths relative to the package root `cnfgen/`).
    wide=True: also constant-valued assignments to ANY plain name or attribute (class attributes such as
    `max_table_bits = 12`, `self.limit = 1 << 10`) and constant default values of function parameters"""
    import ast
    key = tuple(files) + (("wide",) if wide else ())
    if key in _CONST_CACHE:
        return _CONST_CACHE[key]
    found = set()

    def ints(node):
        for n in ast.walk(node):
            if isinstance(n, ast.Constant) and isinstance(n.value, int) and not isinstance(n.value, bool):
                if 2 <= n.value <= 1 << 40:
                    found.add(n.value)
            elif isinstance(n, ast.BinOp) and isinstance(n.op, (ast.LShift, ast.Pow)):
                try:
                    v = eval(compile(ast.Expression(n), "<const>", "eval"), {"__builtins__": {}})
                    if isinstance(v, int) and 2 <= v <= 1 << 40:
                        found.add(v)
                except Exception:
                    pass

    def const_expr(node):
        """an integer literal or arithmetic over integer literals"""
        if isinstance(node, ast.Constant):
            return isinstance(node.value, int) and not isinstance(node.value, bool)
        if isinstance(node, ast.BinOp):
            return const_expr(node.left) and const_expr(node.right)
        if isinstance(node, ast.UnaryOp):
            return const_expr(node.operand)
        return False

    for rel in files:
        path = os.path.join(REPO, "cnfgen", rel)
        try:
            tree = ast.parse(open(path, encoding="utf-8").read())
        except (OSError, SyntaxError):
            continue
        for n in ast.walk(tree):
            if isinstance(n, ast.Compare):
                ints(n)
            elif isinstance(n, ast.Assign) and all(isinstance(t, ast.Name) and t.id.upper() == t.id for t in n.targets):
                ints(n.value)
            elif isinstance(n, ast.keyword) and n.arg in ("maxsize", "chunksize", "bufsize", "buffering", "limit"):
                ints(n.value)
            elif isinstance(n, ast.Call) and isinstance(n.func, ast.Attribute) and n.func.attr in ("read", "readlines"):
                for a in n.args:
                    ints(a)
            elif wide and isinstance(n, (ast.Assign, ast.AnnAssign)) and n.value is not None and const_expr(n.value):
                ints(n.value)
            elif wide and isinstance(n, (ast.FunctionDef, ast.Lambda)):
                for d in list(n.args.defaults) + [d for d in n.args.kw_defaults if d is not None]:
                    if const_expr(d):
                        ints(d)
    _CONST_CACHE[key] = sorted(found)
    return _CONST_CACHE[key]


def probe_sizes(files, lo, hi, powers=True, wide=False):
    """values around the source constants (see above) inside [lo, hi], ascending, without duplicates"""
    out = set()
    for c in source_constants(files, wide=wide):
        cand = [c - 1, c, c + 1]
        if powers and c <= 40:
            cand += [(1 << c) - 1, 1 << c, (1 << c) + 1]
        out.update(v for v in cand if lo <= v <= hi)
    return sorted(out)


# ---------------------------------------------------------------------------------------------------------------
# graph arguments in every legal form.  A family must see the same graph whether the caller built a cnfgen Graph
# edge by edge in any order / orientation, repeated an edge, removed and re-added one, or handed over a networkx
# graph whose nodes were inserted in an order that is not the sorted one ("If the vertices in the original graph
# have some kind of order, the order is preserved": vertex i of the formula is the i-th smallest node).

def _crc(*parts):
    import zlib
    return zlib.crc32(repr(parts).encode())


GRAPH_ROUTES = 10


def graph_argument(n, edges, salt=0, nx_ok=True, route=None):
    """the simple graph (n, edges) as a family argument, by one of GRAPH_ROUTES legal routes chosen from the data
    and `salt` (so that the same graph takes different routes in different cases, reproducibly):
    0-3 the histories of graph_by_some_history; 4 every edge added as (larger, smaller); 5 edges added, then some of
    them added AGAIN in either orientation; 6 some edges removed and re-added the other way round; 7 a networkx graph
    with non-contiguous integer labels, nodes inserted in scrambled order, edges in arbitrary orientation and order,
    one repeated; 8 a networkx graph with string labels whose nodes appear in the order the edges mention them;
    9 Graph.from_networkx of a route-7 object, called by the user."""
    from cnfgen.graphs import Graph
    edges = [tuple(e) for e in edges]
    key = _crc(n, sorted(map(sorted, edges)), salt)
    if route is None:
        route = key % GRAPH_ROUTES
    rng = Rng(key)
    if route < 4 or n == 0:
        return graph_by_some_history(n, edges)
    if route in (4, 5, 6):
        G = Graph(n)
        order = list(edges)
        rng.shuffle(order)
        for u, v in order:
            if route == 4:
                G.add_edge(max(u, v), min(u, v))
            else:
                G.add_edge(u, v)
        if route == 5:
            for u, v in order:
                r = rng.random()
                if r < .35:
                    G.add_edge(max(u, v), min(u, v))
                elif r < .6:
                    G.add_edge(min(u, v), max(u, v))
                elif r < .7:
                    G.add_edge(u, v)
                    G.add_edge(v, u)
        if route == 6:
            for u, v in order:
                if rng.random() < .5:
                    G.remove_edge(*((u, v) if rng.random() < .5 else (v, u)))
                    G.add_edge(max(u, v), min(u, v))
                    if rng.random() < .5:
                        G.add_edge(min(u, v), max(u, v))
        return G
    import networkx
    if route == 8:
        lab = {i: "v{:04d}".format(3 * i + 1) for i in range(1, n + 1)}
    else:
        lab, x = {}, rng.randint(-5, 5)
        for i in range(1, n + 1):
            lab[i] = x
            x += rng.randint(1, 4)
    H = networkx.Graph(name="a networkx graph")
    order = list(edges)
    rng.shuffle(order)
    if route != 8:
        nodes = list(range(1, n + 1))
        rng.shuffle(nodes)
        if nodes == sorted(nodes) and n >= 2:
            nodes.reverse()
        for i in nodes:
            H.add_node(lab[i])
    for u, v in order:
        if rng.random() < .5:
            u, v = v, u
        H.add_edge(lab[u], lab[v])
    if order:
        u, v = order[0]
        H.add_edge(lab[max(u, v)], lab[min(u, v)])
    for i in range(n, 0, -1):              # route 8: the vertices no edge mentions, largest first
        H.add_node(lab[i])
    if route == 9 or not nx_ok:
        return Graph.from_networkx(H)
    return H


# ---------------------------------------------------------------------------------------------------------------
# a second interpreter mode.  The same cases (suite, info) of a harness module are rebuilt and evaluated by a CHILD
# interpreter started with other flags (`-O`, `-OO`: assert statements and `if __debug__` blocks are not executed,
# docstrings are dropped); its answers are compared with the model like any other answer, and the child runs the
# module's own property oracle on what it built.  One child per batch, started when the first answer is needed.

_CHILD = r"""
import sys, json, importlib
from harness import common
mod = importlib.import_module(sys.argv[1])
items = json.load(sys.stdin)
out = []
for suite, info in items:
    try:
        c = mod.build(suite, info)
        a = common.run_impl(c)
        o = common.run_oracle(c)
    except BaseException as e:
        a, o = "CHILD-ERROR " + type(e).__name__, None
    out.append([a, o])
sys.stdout.write("\n@@RESULT@@" + json.dumps({"optimize": sys.flags.optimize, "out": out}, default=str))
"""


class ModeBatch:
    def __init__(self, module_name, flags, timeout=600):
        self.module_name, self.flags, self.timeout = module_name, list(flags), timeout
        self.items, self.results = [], None

    def add(self, suite, info):
        self.items.append([suite, info])
        return len(self.items) - 1

    def _run(self):
        env = dict(os.environ)
        env["PYTHONPATH"] = os.pathsep.join([REPO, VERIF] + [p for p in env.get("PYTHONPATH", "").split(os.pathsep) if p])
        env.pop("PYTHONOPTIMIZE", None)
        p = subprocess.run([sys.executable] + self.flags + ["-c", _CHILD, self.module_name],
                           input=json.dumps(self.items, default=str).encode(), stdout=subprocess.PIPE,
                           stderr=subprocess.PIPE, timeout=self.timeout, env=env, cwd=VERIF)
        text = p.stdout.decode(errors="replace")
        if p.returncode != 0 or "@@RESULT@@" not in text:
            msg = "CHILD-FAILED rc={} {}".format(p.returncode, p.stderr.decode(errors="replace")[-300:].replace("\n", " | "))
            self.results = [[msg, None] for _ in self.items]
            return
        data = json.loads(text.split("@@RESULT@@", 1)[1])
        self.results = data["out"]

    def get(self, idx):
        if self.results is None:
            self._run()
        return self.results[idx]


def mode_case(batch, inner_build, mode_suite, suite, info):
    """the case (suite, info) of `inner_build`, answered by the child interpreter of `batch`"""
    inner = inner_build(suite, info)
    idx = batch.add(suite, info)
    tag = "".join(batch.flags) or "default"
    return Case(mode_suite, inner.req, lambda: batch.get(idx)[0], lambda: batch.get(idx)[1],
                cls="{}:{}:{}".format(tag, suite, inner.cls), nontrivial=inner.nontrivial,
                info={"suite": suite, "info": info, "flags": list(batch.flags)})


def mode_build(module_name, inner_build, mode_suite, info):
    """`build` of a mode suite (replay): a batch of one"""
    batch = ModeBatch(module_name, info["flags"])
    return mode_case(batch, inner_build, mode_suite, info["suite"], info["info"])


def mode_cases(module_name, inner_build, mode_suite, built, rng, tier, first=2, extra=3):
    """mode cases for a stratified sample of the cases already built by a module: per (suite, input class) the first
    `first` and `extra` random others (x4 in the thorough tier); `-O` in both tiers, `-OO` too in the thorough one"""
    groups = {}
    for c in built:
        if c.suite == mode_suite or c.info is None:
            continue
        groups.setdefault((c.suite, c.cls), []).append(c)
    if tier == "thorough":
        first, extra = 4 * first, 4 * extra
    chosen = []
    for key in groups:
        g = groups[key]
        rest = g[first:]
        chosen += g[:first] + (rest if len(rest) <= extra else rng.sample(rest, extra))
    for flags in (["-O"], ["-OO"]) if tier == "thorough" else (["-O"],):
        batch = ModeBatch(module_name, flags)
        for c in chosen:
            yield mode_case(batch, inner_build, mode_suite, c.suite, c.info)


# ---------------------------------------------------------------------------------------------------------------
# the SAME mutable argument object used again and again.  A caller keeps ONE graph object, builds something on it,
# looks at the result, edits the object IN PLACE (mostly by edits that keep the number of vertices and of edges:
# one edge removed and another added, a degree-preserving switch, two labels exchanged, a vertex moved to the other
# side, the two sides exchanged), builds again on the very same object, ...  Every build is compared with the Lean
# model on the value the argument has AT THAT MOMENT and judged by the calling module's own property oracle.
#
#   value  : {"kind": "simple"|"digraph", "n", "edges"} or {"kind": "bipartite", "l", "r", "edges"} (sorted pairs over
#            1..n; simple: u < v) -- the harness's own bookkeeping, never read back from the object under test
#   form   : "cnfgen" (Graph / DirectedGraph / BipartiteGraph object) or "nx" (networkx Graph / DiGraph with odd labels)
#   op     : ["add", u, v] | ["rm", u, v] | ["swap", a, b] (bipartite: ["swap", side, a, b]) | ["vertex"] (bipartite:
#            ["vertex", side]) | ["move", side, i, targets] | ["sides"]      (the last two: bipartite networkx only)
#   history: {"slots": {name: {"value", "form", "salt"}}, "steps": [{"edits": [[slot, op], ...], "use": [suite, info]}]}

def gvalue(kind, size, edges):
    if kind == "bipartite":
        es = sorted({(int(u), int(v)) for u, v in edges})
        return {"kind": kind, "l": int(size[0]), "r": int(size[1]), "edges": [list(e) for e in es]}
    if kind == "simple":
        es = sorted({(min(int(u), int(v)), max(int(u), int(v))) for u, v in edges})
    else:
        es = sorted({(int(u), int(v)) for u, v in edges})
    return {"kind": kind, "n": int(size if isinstance(size, int) else size[0]), "edges": [list(e) for e in es]}


def _tr(a, b, x):
    return b if x == a else a if x == b else x


def value_after(value, op):
    """the value after one in-place edit (pure)"""
    kind = value["kind"]
    E = {tuple(e) for e in value["edges"]}
    t = op[0]
    if kind == "bipartite":
        l, r = value["l"], value["r"]
        if t == "add":
            E.add((op[1], op[2]))
        elif t == "rm":
            E.discard((op[1], op[2]))
        elif t == "swap":
            _, side, a, b = op
            E = {(_tr(a, b, u), v) if side == 0 else (u, _tr(a, b, v)) for u, v in E}
        elif t == "vertex":
            l, r = (l + 1, r) if op[1] == 0 else (l, r + 1)
        elif t == "sides":
            l, r = r, l
            E = {(v, u) for u, v in E}
        elif t == "move":
            _, side, i, targets = op
            if side == 0:       # left vertex i leaves (its edges go), the left side closes ranks, a new LAST right vertex
                E = {(u - (u > i), v) for u, v in E if u != i}
                l, r = l - 1, r + 1
                E |= {(x, r) for x in targets}
            else:
                E = {(u, v - (v > i)) for u, v in E if v != i}
                l, r = l + 1, r - 1
                E |= {(l, x) for x in targets}
        else:
            raise ValueError(op)
        return gvalue(kind, (l, r), E)
    n = value["n"]
    norm = (lambda u, v: (min(u, v), max(u, v))) if kind == "simple" else (lambda u, v: (u, v))
    if t == "add":
        E.add(norm(op[1], op[2]))
    elif t == "rm":
        E.discard(norm(op[1], op[2]))
    elif t == "swap":
        E = {norm(_tr(op[1], op[2], u), _tr(op[1], op[2], v)) for u, v in E}
    elif t == "vertex":
        n += 1
    else:
        raise ValueError(op)
    return gvalue(kind, n, E)


def reuse_caps(kind, form):
    """the in-place edits the argument form offers"""
    if form == "nx":
        return {"add", "rm", "swap", "vertex"} | ({"move", "sides"} if kind == "bipartite" else set())
    if kind == "simple":
        return {"add", "rm", "swap", "vertex"}          # Graph.remove_edge / update_vertex_number exist
    return {"add"}                                      # DirectedGraph / BipartiteGraph objects only grow


class LiveArg:
    """the one argument object of a history and the way its owner edits it"""

    def __init__(self, value, form, salt=0):
        self.value, self.form, self.kind = value, form, value["kind"]
        self.rng = Rng(_crc("live", json.dumps(value, sort_keys=True), form, salt))
        kind, rng = self.kind, self.rng
        edges = [tuple(e) for e in value["edges"]]
        rng.shuffle(edges)
        if form == "cnfgen":
            from cnfgen.graphs import DirectedGraph, BipartiteGraph
            if kind == "simple":
                self.obj = graph_argument(value["n"], edges, salt, route=_crc(salt, "route") % 7)
            elif kind == "digraph":
                self.obj = DirectedGraph(value["n"])
                for u, v in edges:
                    self.obj.add_edge(u, v)
            else:
                self.obj = BipartiteGraph(value["l"], value["r"])
                for u, v in edges:
                    self.obj.add_edge(u, v)
            return
        import networkx
        if kind == "bipartite":
            self.attr = rng.choice([(0, 1), (False, True), ("0", "1")])
            self.next = [value["l"] + 1, value["r"] + 1]
            self.lab = [[("a", i) for i in range(1, value["l"] + 1)], [("b", j) for j in range(1, value["r"] + 1)]]
            H = networkx.Graph(name="the caller's networkx graph")
            todo = [list(reversed(self.lab[0])), list(reversed(self.lab[1]))]
            while todo[0] or todo[1]:               # sides interleaved, each side in increasing order
                s = rng.choice([k for k in (0, 1) if todo[k]])
                H.add_node(todo[s].pop(), bipartite=self.attr[s])
            for u, v in edges:
                e = (self.lab[0][u - 1], self.lab[1][v - 1])
                H.add_edge(*(e if rng.random() < .5 else e[::-1]))
            self.obj = H
            return
        n = value["n"]
        self.style = rng.choice(["int", "int", "str"])
        self.lab, self.top = [], rng.randint(-5, 5)
        for _ in range(n):
            self.lab.append(self._fresh_label())
        H = (networkx.Graph if kind == "simple" else networkx.DiGraph)(name="the caller's networkx graph")
        nodes = list(self.lab)
        rng.shuffle(nodes)
        if nodes == self.lab and n >= 2:
            nodes.reverse()
        for x in nodes:
            H.add_node(x)
        for u, v in edges:
            a, b = self.lab[u - 1], self.lab[v - 1]
            if kind == "simple" and rng.random() < .5:
                a, b = b, a
            H.add_edge(a, b)
        self.obj = H

    def _fresh_label(self):
        self.top += self.rng.randint(1, 4)
        return self.top if self.style == "int" else "v{:05d}".format(self.top + 10)

    # -- in-place edits
    def apply(self, op):
        before = self.value
        getattr(self, "_" + self.form + "_" + ("bip" if self.kind == "bipartite" else "g"))(op, before)
        self.value = value_after(before, op)
        if self.form == "nx":
            seen = nx_value(self.obj, self.kind)
            if seen != self.value:
                raise AssertionError("harness bookkeeping differs from the networkx object: {} vs {}".format(seen, self.value))

    def _either(self, u, v):
        return (u, v) if (self.kind != "simple" or self.rng.random() < .5) else (v, u)

    def _cnfgen_g(self, op, before):
        G, t = self.obj, op[0]
        if t == "add":
            G.add_edge(*self._either(op[1], op[2]))
        elif t == "rm":
            G.remove_edge(*self._either(op[1], op[2]))
        elif t == "vertex":
            G.update_vertex_number(before["n"] + 1)
        elif t == "swap":
            a, b = op[1], op[2]
            old = [tuple(e) for e in before["edges"] if a in e or b in e]
            new = sorted({tuple(sorted((_tr(a, b, u), _tr(a, b, v)))) for u, v in old})
            for u, v in old:
                G.remove_edge(*self._either(u, v))
            for u, v in new:
                G.add_edge(*self._either(u, v))
        else:
            raise ValueError(op)

    def _cnfgen_bip(self, op, before):
        if op[0] != "add":
            raise ValueError(op)
        self.obj.add_edge(op[1], op[2])

    def _nx_g(self, op, before):
        import networkx
        H, t, lab = self.obj, op[0], self.lab
        if t == "add":
            u, v = self._either(op[1], op[2])
            H.add_edge(lab[u - 1], lab[v - 1])
        elif t == "rm":
            u, v = self._either(op[1], op[2])
            H.remove_edge(lab[u - 1], lab[v - 1])
        elif t == "vertex":
            lab.append(self._fresh_label())
            H.add_node(lab[-1])
        elif t == "swap":                               # the two labels change places (three in-place renamings)
            a, b = lab[op[1] - 1], lab[op[2] - 1]
            tmp = ("tmp", 0)
            for x, y in ((a, tmp), (b, a), (tmp, b)):
                networkx.relabel_nodes(H, {x: y}, copy=False)
        else:
            raise ValueError(op)

    def _nx_bip(self, op, before):
        H, t, lab = self.obj, op[0], self.lab

        def edge(u, v):
            e = (lab[0][u - 1], lab[1][v - 1])
            return e if self.rng.random() < .5 else e[::-1]
        if t == "add":
            H.add_edge(*edge(op[1], op[2]))
        elif t == "rm":
            H.remove_edge(*edge(op[1], op[2]))
        elif t == "vertex":
            s = op[1]
            lab[s].append(("ab"[s], self.next[s]))
            self.next[s] += 1
            H.add_node(lab[s][-1], bipartite=self.attr[s])
        elif t == "swap":                               # two vertices of one side exchange their neighbourhoods
            _, s, a, b = op
            old = [tuple(e) for e in before["edges"] if e[s] in (a, b)]
            new = sorted({(_tr(a, b, u), v) if s == 0 else (u, _tr(a, b, v)) for u, v in old})
            for u, v in old:
                H.remove_edge(*edge(u, v))
            for u, v in new:
                H.add_edge(*edge(u, v))
        elif t == "sides":
            flip = {self.attr[0]: self.attr[1], self.attr[1]: self.attr[0]}
            for x in H.nodes():
                H.nodes[x]["bipartite"] = flip[H.nodes[x]["bipartite"]]
            lab[0], lab[1] = lab[1], lab[0]
        elif t == "move":                               # the vertex is taken out and put back on the other side
            _, s, i, targets = op
            x = lab[s].pop(i - 1)
            H.remove_node(x)
            H.add_node(x, bipartite=self.attr[1 - s])
            lab[1 - s].append(x)
            for y in targets:                           # indices on the old side after it closed ranks
                H.add_edge(*((x, lab[s][y - 1]) if self.rng.random() < .5 else (lab[s][y - 1], x)))
        else:
            raise ValueError(op)


def nx_value(H, kind):
    """the harness's own reading of a networkx object as a family argument (documented: vertex i = i-th smallest node;
    bipartite: the i-th node of its side in node order)"""
    if kind == "bipartite":
        side = [[], []]
        for x in H.nodes():
            side[int(H.nodes[x]["bipartite"])].append(x)
        pos = [{x: i for i, x in enumerate(side[0], 1)}, {x: i for i, x in enumerate(side[1], 1)}]
        es = [(pos[0][a], pos[1][b]) if a in pos[0] else (pos[0][b], pos[1][a]) for a, b in H.edges()]
        return gvalue(kind, (len(side[0]), len(side[1])), es)
    pos = {x: i for i, x in enumerate(sorted(H.nodes()), 1)}
    return gvalue(kind, len(pos), [(pos[a], pos[b]) for a, b in H.edges()])


def gen_reuse_edit(rng, value, form, dag=False):
    """one edit of the owner = (name, short list of ops applicable to `form`); mostly edits that leave the number of
    vertices and the number of edges as they were.  dag: keep every edge increasing (digraphs used as DAGs)"""
    for _ in range(6):
        name, ops = _gen_reuse_edit(rng, value, form, dag)
        if ops:
            return name, ops
    return "none", []


def _gen_reuse_edit(rng, value, form, dag):
    kind = value["kind"]
    caps = reuse_caps(kind, form)
    E = [tuple(e) for e in value["edges"]]
    Es = set(E)
    if kind == "bipartite":
        l, r = value["l"], value["r"]
        allp = [(u, v) for u in range(1, l + 1) for v in range(1, r + 1)]
    else:
        n = value["n"]
        allp = [(u, v) for u in range(1, n + 1) for v in range(1, n + 1)
                if u != v and (u < v or (kind == "digraph" and not dag))]
    absent = [p for p in allp if p not in Es]
    menu = []
    if "rm" in caps and E and absent:
        menu += ["rewire"] * 5 + ["zero-run"] * 2
        if len(E) >= 2:
            menu += ["switch"] * 3
    if "swap" in caps:
        menu += ["swap"] * 2
    if "move" in caps and l + r >= 1:
        menu += ["move"] * 2
    if "sides" in caps:
        menu += ["sides"]
    if kind == "digraph" and "rm" in caps and E and not dag:
        menu += ["flip"] * 2
    if absent and (not menu or rng.random() < .2):
        menu += ["grow"] * (2 if menu else 1)
    if "vertex" in caps and rng.random() < .1:
        menu += ["vertex"]
    if "rm" in caps and E and rng.random() < .1:
        menu += ["shrink"]
    if not menu:
        return "none", []
    name = rng.choice(menu)
    if name == "rewire":
        e, f = rng.choice(E), rng.choice(absent)
        ops = [["rm", *e], ["add", *f]]
        if rng.random() < .4:
            ops.reverse()
        return name, ops
    if name == "zero-run":
        k = rng.randint(1, min(3, len(E), len(absent)))
        ops = [["rm", *e] for e in rng.sample(E, k)] + [["add", *f] for f in rng.sample(absent, k)]
        rng.shuffle(ops)
        return name, ops
    if name == "switch":
        for _ in range(20):
            (a, b), (c, d) = rng.sample(E, 2)
            if kind == "simple" and rng.random() < .5:
                c, d = d, c
            new = [(a, d), (c, b)]
            if kind == "simple":
                new = [(min(p), max(p)) for p in new]
            if a != c and b != d and (kind == "bipartite" or len({a, b, c, d}) == 4) \
                    and all(p in absent for p in new) and new[0] != new[1]:
                return name, [["rm", a, b], ["rm", c, d], ["add", *new[0]], ["add", *new[1]]]
        e, f = rng.choice(E), rng.choice(absent)
        return "rewire", [["rm", *e], ["add", *f]]
    if name == "swap":
        if kind == "bipartite":
            sides = [s for s in (0, 1) if (l, r)[s] >= 2]
            if not sides:
                return "none", []
            s = rng.choice(sides)
            a, b = rng.sample(range(1, (l, r)[s] + 1), 2)
            return name, [["swap", s, a, b]]
        if n < 2:
            return "none", []
        for _ in range(12):
            a, b = sorted(rng.sample(range(1, n + 1), 2))
            after = value_after(value, ["swap", a, b])
            if (not dag or all(u < v for u, v in after["edges"])) and (after != value or _ == 11):
                return name, [["swap", a, b]]
        return "none", []
    if name == "move":
        s = rng.choice([k for k in (0, 1) if (l, r)[k] >= 1])
        i = rng.randint(1, (l, r)[s])
        deg = sum(1 for e in E if e[s] == i)
        rest = (l, r)[s] - 1
        return name, [["move", s, i, sorted(rng.sample(range(1, rest + 1), min(deg, rest)))]]
    if name == "sides":
        return name, [["sides"]]
    if name == "flip":
        u, v = rng.choice(E)
        if (v, u) in Es or u == v:
            return "none", []
        return name, [["rm", u, v], ["add", v, u]]
    if name == "grow":
        return name, [["add", *f] for f in rng.sample(absent, min(len(absent), rng.choice([1, 1, 2])))]
    if name == "vertex":
        return name, [["vertex", rng.randint(0, 1)] if kind == "bipartite" else ["vertex"]]
    return name, [["rm", *rng.choice(E)]]


def gen_reuse_history(rng, slots, nuses, pick_use, dag=()):
    """slots: {name: {"value", "form", "salt"[, "frozen"]}}; pick_use(rng, values, previous use or None) -> [suite, info] of
    the module's own case on the CURRENT values.  Between two uses every slot is edited with probability 3/4 (at least one);
    a "frozen" slot is never edited (the same object handed over again and again as it is)"""
    values = {s: d["value"] for s, d in slots.items()}
    steps, prev = [], None
    for i in range(nuses):
        edits, names = [], []
        if i > 0:
            chosen = [s for s in sorted(slots) if rng.random() < .75] or [rng.choice(sorted(slots))]
            for s in chosen:
                if slots[s].get("frozen"):
                    continue
                for _ in range(rng.choice([1, 1, 1, 2])):
                    name, ops = gen_reuse_edit(rng, values[s], slots[s]["form"], dag=s in dag)
                    names.append(name)
                    for op in ops:
                        values[s] = value_after(values[s], op)
                        edits.append([s, op])
        prev = pick_use(rng, dict(values), prev)
        steps.append({"edits": edits, "moves": names, "use": prev})
    return {"slots": slots, "steps": steps}


class ReuseRun:
    """one history, run once when its first answer is needed: make the objects, then edit / build / judge in order"""

    def __init__(self, slots):
        self.slots, self.script, self.results, self.live = slots, [], None, None

    def arg(self, slot):
        return lambda: self.live[slot].obj

    def edit(self, slot, op):
        self.script.append(("edit", slot, op))

    def use(self, inner):
        self.script.append(("use", inner))
        return sum(1 for s in self.script if s[0] == "use") - 1

    def result(self, idx):
        if self.results is None:
            res = []
            self.live = {s: LiveArg(d["value"], d["form"], d.get("salt", 0)) for s, d in self.slots.items()}
            try:
                for item in self.script:
                    if item[0] == "edit":
                        self.live[item[1]].apply(item[2])
                    else:
                        res.append((run_impl(item[1]), run_oracle(item[1])))   # judged NOW, before the next edit
            except Exception as e:   # a refused edit is a harness error, made visible
                while len(res) < sum(1 for s in self.script if s[0] == "use"):
                    res.append(("HARNESS-ERROR {} {}".format(type(e).__name__, str(e)[:200]), None))
            self.results, self.live = res, None
        return self.results[idx]


def reuse_cases(hist, inner_build, suite):
    """the cases of one history: one per use, answered and judged while the history runs.
    inner_build(suite, info, args) builds the module's case with `args[slot]()` as the graph argument object"""
    run = ReuseRun(hist["slots"])
    args = {s: run.arg(s) for s in hist["slots"]}
    forms = "+".join("{}:{}".format(d["value"]["kind"], d["form"]) for _, d in sorted(hist["slots"].items()))
    out, sofar = [], []
    for i, st in enumerate(hist["steps"]):
        for slot, op in st["edits"]:
            run.edit(slot, op)
        sofar = sofar + [[list(e) for e in st["edits"]]]
        isuite, iinfo = st["use"]
        inner = inner_build(isuite, iinfo, args)
        idx = run.use(inner)

        def oracle(idx=idx, i=i, edits=sofar):
            r = run.result(idx)[1]
            if r is None:
                return None
            return {"the_same_argument_object": forms, "use_number": i + 1, "in_place_edits_before_each_use": edits,
                    "failure": r}
        out.append(Case(suite, inner.req, (lambda idx=idx: run.result(idx)[0]), oracle,
                        cls="{}:{}:{}".format(forms, "first" if i == 0 else "again", isuite),
                        nontrivial=inner.nontrivial, info={"hist": hist, "step": i}))
    return out


# file sizes as a dimension.  A reader may treat a file differently by its size (block-sized buffers, caches that
# skip small files, chunked parsing), so suites that read graph or formula FILES use the same content at several
# sizes: padded with comment lines of the format, which no reader may take for content.

COMMENT_LINE = {"kthlist": "c", "dimacs": "c", "cnf": "c", "matrix": "#", "gml": "#", "dot": "//", "opb": "*"}
FILE_ANCHORS = ["clitools/graph_fileinput.py", "clitools/graph_args.py", "clitools/cmdline.py", "graphs.py",
                "utils/parsedimacs.py", "clitools/kthlist2pebbling.py", "clihelpers/dimacs_helpers.py"]


def pad_text(text, fmt, size):
    """`text` preceded by comment lines of format `fmt` so that the result is exactly `size` characters (ASCII: bytes)
    long; `text` itself when it is already that long or the format has no comment syntax"""
    mark = COMMENT_LINE.get(fmt)
    need = size - len(text)
    if mark is None or need < len(mark) + 1:
        return text
    lines = []
    while need > 0:
        k = min(need, 72)
        if need - k in range(1, len(mark) + 1):      # never leave a rest too short for a comment line
            k -= len(mark) + 1
        lines.append(mark + " padding "[:max(0, k - len(mark) - 1)].ljust(k - len(mark) - 1, "."))
        need -= k
    return "\n".join(lines) + "\n" + text


def file_sizes(lo=64, hi=70000, fixed=(4096, 65536)):
    """file sizes worth trying: around the constants of the file-reading modules of the CURRENT source, plus fixed ones.
    For each such value P: P-1, P, P+1 and P+40 (pad_text puts the padding first, so with P+40 the P-th byte falls inside
    the content: a reader that treats the first P bytes apart meets the boundary in the middle of the graph)"""
    out = set()
    cs = source_constants(FILE_ANCHORS, wide=True)
    for f in list(fixed) + [c for c in cs if lo <= c <= hi] + [1 << c for c in cs if c <= 40 and lo <= (1 << c) <= hi]:
        out.update(x for x in (f - 1, f, f + 1, f + 40) if lo <= x <= hi)
    return sorted(out)
