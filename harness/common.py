"""Shared machinery of the correspondence harness.

Run with /venv/bin/python and PYTHONPATH=/repo:/verif (the `check` wrapper does
that).  Everything random in the harness comes from `random.Random` *instances*
seeded from VERIF_SEED; the module-level generator belongs to the code under
test.
"""
import hashlib
import json
import os
import random
import subprocess
import sys
import time
import traceback

VERIF = os.path.dirname(os.path.dirname(os.path.abspath(__file__)))
REPO = os.environ.get("CNFGEN_REPO", "/repo")
LEAN = os.path.join(VERIF, "lean")
DRIVER = os.path.join(LEAN, ".lake", "build", "bin", "driver")

OPCODE = {"<=": 0, ">=": 1, "<": 2, ">": 3, "==": 4, "!=": 5}


# ---------------------------------------------------------------- encoding
def enc_list(xs):
    xs = list(xs)
    return [len(xs)] + [int(x) for x in xs]


def enc_str(s):
    return enc_list(ord(c) for c in s)


def enc_pairs(ps):
    ps = list(ps)
    out = [len(ps)]
    for a, b in ps:
        out += [int(a), int(b)]
    return out


def enc_graph(G):
    """simple or directed graph literal: n m u1 v1 ..."""
    es = list(G.edges())
    return [G.number_of_vertices()] + enc_pairs(es)


def enc_bipartite(B):
    es = list(B.edges())
    return [B.left_order(), B.right_order()] + enc_pairs(es)


def fmt_formula(F):
    """canonical text of a CNF or OPB formula object (same as the driver's fmtFormula)"""
    from cnfgen.formula.baseopb import BaseOPB
    return fmt_opb(F) if isinstance(F, BaseOPB) else fmt_cnf(F)


def req(op, *parts):
    toks = [op]
    for p in parts:
        if isinstance(p, (list, tuple)):
            toks += [str(int(x)) for x in p]
        elif isinstance(p, bool):
            toks.append("1" if p else "0")
        else:
            toks.append(str(int(p)))
    return " ".join(toks)


def fmt_clauses(cs):
    cs = [list(c) for c in cs]
    out = [str(len(cs))]
    for c in cs:
        out += [str(l) for l in c]
        out.append("0")
    return " ".join(out)


def fmt_cnf(F):
    return "{} {}".format(F.number_of_variables(), fmt_clauses(F.clauses()))


def fmt_pbc(c):
    c = list(c)
    out = []
    for coef, lit in c[:-2]:
        out += [str(coef), str(lit)]
    out += [str(c[-2]), str(c[-1])]
    return " ".join(out)


def fmt_pbcs(cs):
    cs = list(cs)
    return " ; ".join([str(len(cs))] + [fmt_pbc(c) for c in cs])


def fmt_opb(F):
    return "{} {}".format(F.number_of_variables(), fmt_pbcs(F))


def ok(s):
    return "OK " + s


def exc_name(e):
    return "ERR " + type(e).__name__


# ---------------------------------------------------------------- cases
class Case:
    """One correspondence case.

    req    : request line for the Lean driver
    impl   : zero-argument callable running the REAL code, returning the
             canonical answer string (exceptions are mapped to `ERR <Name>`)
    oracle : optional zero-argument callable evaluating the PROPERTY itself on
             the real code for this input; returns None if it holds, else a
             JSON-able description of the failure (the failing input)
    cls    : label of the input class (used for the distribution printed in the
             evidence and for matching known findings)
    nontrivial : whether the case counts as non-trivial for the evidence
    """
    __slots__ = ("suite", "req", "impl", "oracle", "cls", "nontrivial", "info", "_mod", "stateless")

    def __init__(self, suite, req, impl, oracle=None, cls="", nontrivial=True, info=None):
        self.suite = suite
        self.req = req
        self.impl = impl
        self.oracle = oracle
        self.cls = cls
        self.nontrivial = nontrivial
        self.info = info
        self._mod = None
        self.stateless = True   # set False for cases whose impl() legitimately depends on process state


def _run_driver_once(lines, timeout):
    data = "\n".join(lines) + "\n"
    p = subprocess.run([DRIVER], input=data.encode(), stdout=subprocess.PIPE,
                       stderr=subprocess.PIPE, timeout=timeout)
    out = p.stdout.decode().split("\n")
    if out and out[-1] == "":
        out.pop()
    if p.returncode != 0 or len(out) != len(lines):
        raise RuntimeError("driver failed: rc={} lines={}/{} stderr={}".format(
            p.returncode, len(out), len(lines), p.stderr.decode()[:500]))
    return out


def run_driver(lines, timeout=600):
    """answers of the Lean driver, one per request line, in order.  The driver is a pure function of each line, so a
    batch with very long requests (graphs with 10^4 edges cost seconds each in the model) is spread over a few driver
    processes; the answers are the same."""
    if not lines:
        return []
    heavy = [i for i, l in enumerate(lines) if len(l) > 20000]
    if len(heavy) < 2:
        return _run_driver_once(lines, timeout)
    from concurrent.futures import ThreadPoolExecutor
    k = min(4, len(heavy))
    chunks = [[] for _ in range(k)]
    load = [0] * k
    for i in sorted(heavy, key=lambda i: -len(lines[i])):
        j = load.index(min(load))
        chunks[j].append(i)
        load[j] += len(lines[i]) ** 2
    hs = set(heavy)
    chunks.append([i for i in range(len(lines)) if i not in hs])
    chunks = [sorted(c) for c in chunks if c]
    with ThreadPoolExecutor(max_workers=len(chunks)) as ex:
        outs = list(ex.map(lambda c: _run_driver_once([lines[i] for i in c], timeout), chunks))
    res = [None] * len(lines)
    for c, o in zip(chunks, outs):
        for i, a in zip(c, o):
            res[i] = a
    return res


def run_impl(case):
    try:
        return case.impl()
    except RecursionError as e:
        return exc_name(e)
    except Exception as e:  # noqa: the kind of exception is the observation
        return exc_name(e)


def run_oracle(case):
    if case.oracle is None:
        return None
    try:
        return case.oracle()
    except Exception as e:
        return {"oracle_exception": type(e).__name__, "msg": str(e)[:200],
                "tb": traceback.format_exc()[-600:]}


class Rng(random.Random):
    """harness-owned generator"""

    def lits(self, n, maxvar=None, allow_repeat=True):
        maxvar = maxvar or max(n, 1) + 2
        out = []
        for _ in range(n):
            v = self.randint(1, maxvar)
            out.append(v if self.random() < 0.5 else -v)
        if not allow_repeat:
            seen = set()
            res = []
            for l in out:
                if abs(l) not in seen:
                    seen.add(abs(l))
                    res.append(l)
            return res
        return out


def seed_from_env():
    try:
        return int(os.environ.get("VERIF_SEED", "0"))
    except ValueError:
        return 0


def sub_rng(seed, *names):
    h = hashlib.sha256(("/".join([str(seed)] + [str(n) for n in names])).encode()).digest()
    return Rng(int.from_bytes(h[:8], "big"))


# ---------------------------------------------------------------- truth tables
def lit_holds(alpha, l):
    return alpha[abs(l)] if l > 0 else not alpha[abs(l)]


def assignments(n):
    """all assignments to variables 1..n as lists indexed by variable (index 0 unused)"""
    for bits in range(1 << n):
        yield [False] + [bool((bits >> i) & 1) for i in range(n)]


def cnf_holds(clauses, alpha):
    for c in clauses:
        for l in c:
            if (alpha[l] if l > 0 else not alpha[-l]):
                break
        else:
            return False
    return True


def pbc_holds(c, alpha):
    c = list(c)
    s = sum(coef for coef, lit in c[:-2] if lit_holds(alpha, lit))
    op, rhs = c[-2], c[-1]
    return {"<=": s <= rhs, ">=": s >= rhs, "<": s < rhs, ">": s > rhs,
            "==": s == rhs, "!=": s != rhs}[op]


def opb_holds(constraints, alpha):
    return all(pbc_holds(c, alpha) for c in constraints)


def graph_by_some_history(n, edges):
    """the simple graph (n, edges) reached by one of several legal histories, chosen by the data itself:
    0 direct; 1 grown from a smaller graph by one update_vertex_number call; 2 grown vertex by vertex;
    3 with an extra edge added and removed again.  Families must see the same graph whichever way it was made."""
    from cnfgen.graphs import Graph
    edges = [tuple(e) for e in edges]
    route = (n * 31 + len(edges) * 7 + sum(u + v for u, v in edges)) % 4
    if route == 1 and n >= 2:
        G = Graph(n // 2 if n > 3 else 0)
        G.update_vertex_number(n)
    elif route == 2 and n >= 1:
        G = Graph(0)
        for k in range(1, n + 1):
            G.update_vertex_number(k)
    else:
        G = Graph(n)
    extra = None
    if route == 3 and n >= 2:
        present = set(edges) | set((v, u) for u, v in edges)
        for u in range(1, n + 1):
            for v in range(u + 1, n + 1):
                if (u, v) not in present:
                    extra = (u, v)
                    break
            if extra:
                break
    if extra:
        G.add_edge(*extra)
    for u, v in edges:
        G.add_edge(u, v)
    if extra:
        G.remove_edge(*extra)
    return G


# ---------------------------------------------------------------------------------------------------------------
# size probes derived from the CURRENT source: integer constants that an implementation compares sizes with
# (thresholds of fast paths, buffer sizes, cache limits).  Generators ask `probe_sizes(files, lo, hi)` for the
# values c-1, c, c+1 (and 2^c-1, 2^c, 2^c+1 for small c) of every such constant c that lie in their feasible
# range, so that a threshold introduced by a code change is crossed by the very next run.  Heuristic input
# selection only: it never decides anything.

_CONST_CACHE = {}


def source_constants(files, wide=False):
    """sorted integer constants (>= 2) occurring in comparisons, shifts, `range`/slice bounds, `maxsize=` keywords
    and assignments to ALL_CAPS names in the given files (paths relative to the package root `cnfgen/`).
    wide=True: also constant-valued assignments to ANY plain name or attribute (class attributes such as
    `max_table_bits = 12`, `self.limit = 1 << 10`) and constant default values of function parameters"""
    import ast
    key = tuple(files) + (("wide",) if wide else ())
    if key in _CONST_CACHE:
        return _CONST_CACHE[key]
    found = set()

    def ints(node):
        for n in ast.walk(node):
            if isinstance(n, ast.Constant) and isinstance(n.value, int) and not isinstance(n.value, bool):
                if 2 <= n.value <= 1 << 40:
                    found.add(n.value)
            elif isinstance(n, ast.BinOp) and isinstance(n.op, (ast.LShift, ast.Pow)):
                try:
                    v = eval(compile(ast.Expression(n), "<const>", "eval"), {"__builtins__": {}})
                    if isinstance(v, int) and 2 <= v <= 1 << 40:
                        found.add(v)
                except Exception:
                    pass

    def const_expr(node):
        """an integer literal or arithmetic over integer literals"""
        if isinstance(node, ast.Constant):
            return isinstance(node.value, int) and not isinstance(node.value, bool)
        if isinstance(node, ast.BinOp):
            return const_expr(node.left) and const_expr(node.right)
        if isinstance(node, ast.UnaryOp):
            return const_expr(node.operand)
        return False

    for rel in files:
        path = os.path.join(REPO, "cnfgen", rel)
        try:
            tree = ast.parse(open(path, encoding="utf-8").read())
        except (OSError, SyntaxError):
            continue
        for n in ast.walk(tree):
            if isinstance(n, ast.Compare):
                ints(n)
            elif isinstance(n, ast.Assign) and all(isinstance(t, ast.Name) and t.id.upper() == t.id for t in n.targets):
                ints(n.value)
            elif isinstance(n, ast.keyword) and n.arg in ("maxsize", "chunksize", "bufsize", "buffering", "limit"):
                ints(n.value)
            elif isinstance(n, ast.Call) and isinstance(n.func, ast.Attribute) and n.func.attr in ("read", "readlines"):
                for a in n.args:
                    ints(a)
            elif wide and isinstance(n, (ast.Assign, ast.AnnAssign)) and n.value is not None and const_expr(n.value):
                ints(n.value)
            elif wide and isinstance(n, (ast.FunctionDef, ast.Lambda)):
                for d in list(n.args.defaults) + [d for d in n.args.kw_defaults if d is not None]:
                    if const_expr(d):
                        ints(d)
    _CONST_CACHE[key] = sorted(found)
    return _CONST_CACHE[key]


def probe_sizes(files, lo, hi, powers=True, wide=False):
    """values around the source constants (see above) inside [lo, hi], ascending, without duplicates"""
    out = set()
    for c in source_constants(files, wide=wide):
        cand = [c - 1, c, c + 1]
        if powers and c <= 40:
            cand += [(1 << c) - 1, 1 << c, (1 << c) + 1]
        out.update(v for v in cand if lo <= v <= hi)
    return sorted(out)


# ---------------------------------------------------------------------------------------------------------------
# graph arguments in every legal form.  A family must see the same graph whether the caller built a cnfgen Graph
# edge by edge in any order / orientation, repeated an edge, removed and re-added one, or handed over a networkx
# graph whose nodes were inserted in an order that is not the sorted one ("If the vertices in the original graph
# have some kind of order, the order is preserved": vertex i of the formula is the i-th smallest node).

def _crc(*parts):
    import zlib
    return zlib.crc32(repr(parts).encode())


GRAPH_ROUTES = 10


def graph_argument(n, edges, salt=0, nx_ok=True, route=None):
    """the simple graph (n, edges) as a family argument, by one of GRAPH_ROUTES legal routes chosen from the data
    and `salt` (so that the same graph takes different routes in different cases, reproducibly):
    0-3 the histories of graph_by_some_history; 4 every edge added as (larger, smaller); 5 edges added, then some of
    them added AGAIN in either orientation; 6 some edges removed and re-added the other way round; 7 a networkx graph
    with non-contiguous integer labels, nodes inserted in scrambled order, edges in arbitrary orientation and order,
    one repeated; 8 a networkx graph with string labels whose nodes appear in the order the edges mention them;
    9 Graph.from_networkx of a route-7 object, called by the user."""
    from cnfgen.graphs import Graph
    edges = [tuple(e) for e in edges]
    key = _crc(n, sorted(map(sorted, edges)), salt)
    if route is None:
        route = key % GRAPH_ROUTES
    rng = Rng(key)
    if route < 4 or n == 0:
        return graph_by_some_history(n, edges)
    if route in (4, 5, 6):
        G = Graph(n)
        order = list(edges)
        rng.shuffle(order)
        for u, v in order:
            if route == 4:
                G.add_edge(max(u, v), min(u, v))
            else:
                G.add_edge(u, v)
        if route == 5:
            for u, v in order:
                r = rng.random()
                if r < .35:
                    G.add_edge(max(u, v), min(u, v))
                elif r < .6:
                    G.add_edge(min(u, v), max(u, v))
                elif r < .7:
                    G.add_edge(u, v)
                    G.add_edge(v, u)
        if route == 6:
            for u, v in order:
                if rng.random() < .5:
                    G.remove_edge(*((u, v) if rng.random() < .5 else (v, u)))
                    G.add_edge(max(u, v), min(u, v))
                    if rng.random() < .5:
                        G.add_edge(min(u, v), max(u, v))
        return G
    import networkx
    if route == 8:
        lab = {i: "v{:04d}".format(3 * i + 1) for i in range(1, n + 1)}
    else:
        lab, x = {}, rng.randint(-5, 5)
        for i in range(1, n + 1):
            lab[i] = x
            x += rng.randint(1, 4)
    H = networkx.Graph(name="a networkx graph")
    order = list(edges)
    rng.shuffle(order)
    if route != 8:
        nodes = list(range(1, n + 1))
        rng.shuffle(nodes)
        if nodes == sorted(nodes) and n >= 2:
            nodes.reverse()
        for i in nodes:
            H.add_node(lab[i])
    for u, v in order:
        if rng.random() < .5:
            u, v = v, u
        H.add_edge(lab[u], lab[v])
    if order:
        u, v = order[0]
        H.add_edge(lab[max(u, v)], lab[min(u, v)])
    for i in range(n, 0, -1):              # route 8: the vertices no edge mentions, largest first
        H.add_node(lab[i])
    if route == 9 or not nx_ok:
        return Graph.from_networkx(H)
    return H


# ---------------------------------------------------------------------------------------------------------------
# a second interpreter mode.  The same cases (suite, info) of a harness module are rebuilt and evaluated by a CHILD
# interpreter started with other flags (`-O`, `-OO`: assert statements and `if __debug__` blocks are not executed,
# docstrings are dropped); its answers are compared with the model like any other answer, and the child runs the
# module's own property oracle on what it built.  One child per batch, started when the first answer is needed.

_CHILD = r"""
import sys, json, importlib
from harness import common
mod = importlib.import_module(sys.argv[1])
items = json.load(sys.stdin)
out = []
for suite, info in items:
    try:
        c = mod.build(suite, info)
        a = common.run_impl(c)
        o = common.run_oracle(c)
    except BaseException as e:
        a, o = "CHILD-ERROR " + type(e).__name__, None
    out.append([a, o])
sys.stdout.write("\n@@RESULT@@" + json.dumps({"optimize": sys.flags.optimize, "out": out}, default=str))
"""


class ModeBatch:
    def __init__(self, module_name, flags, timeout=600):
        self.module_name, self.flags, self.timeout = module_name, list(flags), timeout
        self.items, self.results = [], None

    def add(self, suite, info):
        self.items.append([suite, info])
        return len(self.items) - 1

    def _run(self):
        env = dict(os.environ)
        env["PYTHONPATH"] = os.pathsep.join([REPO, VERIF] + [p for p in env.get("PYTHONPATH", "").split(os.pathsep) if p])
        env.pop("PYTHONOPTIMIZE", None)
        p = subprocess.run([sys.executable] + self.flags + ["-c", _CHILD, self.module_name],
                           input=json.dumps(self.items, default=str).encode(), stdout=subprocess.PIPE,
                           stderr=subprocess.PIPE, timeout=self.timeout, env=env, cwd=VERIF)
        text = p.stdout.decode(errors="replace")
        if p.returncode != 0 or "@@RESULT@@" not in text:
            msg = "CHILD-FAILED rc={} {}".format(p.returncode, p.stderr.decode(errors="replace")[-300:].replace("\n", " | "))
            self.results = [[msg, None] for _ in self.items]
            return
        data = json.loads(text.split("@@RESULT@@", 1)[1])
        self.results = data["out"]

    def get(self, idx):
        if self.results is None:
            self._run()
        return self.results[idx]


def mode_case(batch, inner_build, mode_suite, suite, info):
    """the case (suite, info) of `inner_build`, answered by the child interpreter of `batch`"""
    inner = inner_build(suite, info)
    idx = batch.add(suite, info)
    tag = "".join(batch.flags) or "default"
    return Case(mode_suite, inner.req, lambda: batch.get(idx)[0], lambda: batch.get(idx)[1],
                cls="{}:{}:{}".format(tag, suite, inner.cls), nontrivial=inner.nontrivial,
                info={"suite": suite, "info": info, "flags": list(batch.flags)})


def mode_build(module_name, inner_build, mode_suite, info):
    """`build` of a mode suite (replay): a batch of one"""
    batch = ModeBatch(module_name, info["flags"])
    return mode_case(batch, inner_build, mode_suite, info["suite"], info["info"])


def mode_cases(module_name, inner_build, mode_suite, built, rng, tier, first=2, extra=3):
    """mode cases for a stratified sample of the cases already built by a module: per (suite, input class) the first
    `first` and `extra` random others (x4 in the thorough tier); `-O` in both tiers, `-OO` too in the thorough one"""
    groups = {}
    for c in built:
        if c.suite == mode_suite or c.info is None:
            continue
        groups.setdefault((c.suite, c.cls), []).append(c)
    if tier == "thorough":
        first, extra = 4 * first, 4 * extra
    chosen = []
    for key in groups:
        g = groups[key]
        rest = g[first:]
        chosen += g[:first] + (rest if len(rest) <= extra else rng.sample(rest, extra))
    for flags in (["-O"], ["-OO"]) if tier == "thorough" else (["-O"],):
        batch = ModeBatch(module_name, flags)
        for c in chosen:
            yield mode_case(batch, inner_build, mode_suite, c.suite, c.info)


# ---------------------------------------------------------------------------------------------------------------
# file sizes as a dimension.  A reader may treat a file differently by its size (block-sized buffers, caches that
# skip small files, chunked parsing), so suites that read graph or formula FILES use the same content at several
# sizes: padded with comment lines of the format, which no reader may take for content.

COMMENT_LINE = {"kthlist": "c", "dimacs": "c", "cnf": "c", "matrix": "#", "gml": "#", "dot": "//", "opb": "*"}
FILE_ANCHORS = ["clitools/graph_fileinput.py", "clitools/graph_args.py", "clitools/cmdline.py", "graphs.py",
                "utils/parsedimacs.py", "clitools/kthlist2pebbling.py", "clihelpers/dimacs_helpers.py"]


def pad_text(text, fmt, size):
    """`text` preceded by comment lines of format `fmt` so that the result is exactly `size` characters (ASCII: bytes)
    long; `text` itself when it is already that long or the format has no comment syntax"""
    mark = COMMENT_LINE.get(fmt)
    need = size - len(text)
    if mark is None or need < len(mark) + 1:
        return text
    lines = []
    while need > 0:
        k = min(need, 72)
        if need - k in range(1, len(mark) + 1):      # never leave a rest too short for a comment line
            k -= len(mark) + 1
        lines.append(mark + " padding "[:max(0, k - len(mark) - 1)].ljust(k - len(mark) - 1, "."))
        need -= k
    return "\n".join(lines) + "\n" + text


def file_sizes(lo=64, hi=70000, fixed=(4096, 65536)):
    """file sizes worth trying: around the constants of the file-reading modules of the CURRENT source, plus fixed ones.
    For each such value P: P-1, P, P+1 and P+40 (pad_text puts the padding first, so with P+40 the P-th byte falls inside
    the content: a reader that treats the first P bytes apart meets the boundary in the middle of the graph)"""
    out = set()
    cs = source_constants(FILE_ANCHORS, wide=True)
    for f in list(fixed) + [c for c in cs if lo <= c <= hi] + [1 << c for c in cs if c <= 40 and lo <= (1 << c) <= hi]:
        out.update(x for x in (f - 1, f, f + 1, f + 40) if lo <= x <= hi)
    return sorted(out)
