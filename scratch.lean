import Lemmas.HeapResult
open Cnfgen Cnfgen.Heap

def cfg0 : Cfg := ⟨[("generator", "g")]⟩
def s0 : Store := 
  let (s, f) := newCNF cfg0 #[] (some "d")
  (addAllVals s f true [[1, -2], [2, 3]]).1

#eval s0
#eval (Tr.apply cfg0 .flip s0 3)
#eval (Tr.apply cfg0 (.xor 2) s0 3)
#eval snap (Tr.apply cfg0 (.xor 2) s0 3).1 13
#eval snap (Tr.apply cfg0 (.shuffle none none none) s0 3).1 13
example : (snap (Tr.apply cfg0 .flip s0 3).1 3).map (·.clauses) = some [[1, -2], [2, 3]] := by decide
example : (Tr.apply cfg0 .flip s0 3).2 = .ok 13 := by decide
