#check @Int.natCast_emod
#check @Int.ofNat_emod
example (m n : Nat) : ((m % n : Nat) : Int) = (m : Int) % (n : Int) := by omega
example (m n : Nat) : ((m % n : Nat) : Int) = (m : Int) % (n : Int) := Int.natCast_emod m n
