import CnfgenModel.Generated.Funcs
import Lemmas.PyRt
import Lemmas.VarsBlock
open Cnfgen Cnfgen.Vars Cnfgen.PyGen
example (nv : Nat) (ranges : List Nat) (lit : Int) : (Group.block (nv + 1) ranges "").contains lit = true ↔ nv + 1 ≤ lit.natAbs ∧ lit.natAbs < nv + 1 + blockSize ranges := by
  simp only [Group.contains, Group.start, Group.len]
  set_option pp.all true in trace_state
  simp
