open List in
#check @List.dropLast_concat_getLast
#check @List.dropLast_append_getLast?
#check @List.getLast_mem
