"""Replays of C20-R1 / C20-R2 on the real cnfgen, WITHOUT monkeypatching: resource limits and shell-script solvers.
   PYTHONPATH=/repo /venv/bin/python notes/C20_replay_resource_defects.py"""
import os, resource, signal, stat, sys, tempfile, shutil
from cnfgen import CNF
base = tempfile.mkdtemp(prefix="c20-replay-")
bind, tmp = os.path.join(base, "bin"), os.path.join(base, "tmp")
os.mkdir(bind); os.mkdir(tmp)
def solver(name, script):
    p = os.path.join(bind, name)
    open(p, "w").write("#!/bin/sh\n[ \"$1\" = --help ] && exit 0\n" + script + "\n")
    os.chmod(p, 0o755)
os.environ["PATH"] = bind + ":/bin:/usr/bin"
tempfile.tempdir = tmp
F = CNF([[1, -2], [2]])
def show(label, call):
    try:
        r = ("returned", call())
    except Exception as e:
        r = ("raised", type(e).__name__, str(e)[:60])
    left = sorted(os.listdir(tmp))
    print("{:<46} {}   left in TMPDIR: {}".format(label, r, len(left)))
    for f in left:
        os.unlink(os.path.join(tmp, f))
# R1a: no file descriptor left for the SECOND temporary file (EMFILE)
solver("minisat", 'echo SAT > "$2"; echo "1 2 0" >> "$2"')
show("minisat, all is well", lambda: F.solve(cmd="minisat"))
def starved():
    soft, hard = resource.getrlimit(resource.RLIMIT_NOFILE)
    from cnfgen.utils.solver import _satsolve_filein_fileout
    resource.setrlimit(resource.RLIMIT_NOFILE, (len(os.listdir("/proc/self/fd")), hard))   # listdir itself held one: one fd is free
    try:
        return _satsolve_filein_fileout(F, "minisat")
    finally:
        resource.setrlimit(resource.RLIMIT_NOFILE, (soft, hard))
show("R1a second NamedTemporaryFile fails (EMFILE)", starved)
# R1b: the disk is full / file size limit while the formula is written (EFBIG at close)
def fsize():
    signal.signal(signal.SIGXFSZ, signal.SIG_IGN)
    soft, hard = resource.getrlimit(resource.RLIMIT_FSIZE)
    resource.setrlimit(resource.RLIMIT_FSIZE, (4, hard))
    try:
        return F.solve(cmd="minisat")
    finally:
        resource.setrlimit(resource.RLIMIT_FSIZE, (soft, hard))
show("R1b write of the formula fails (EFBIG)", fsize)
solver("sat4j", 'echo "s SATISFIABLE"; echo "v 1 2 0"')
def fsize2():
    signal.signal(signal.SIGXFSZ, signal.SIG_IGN)
    soft, hard = resource.getrlimit(resource.RLIMIT_FSIZE)
    resource.setrlimit(resource.RLIMIT_FSIZE, (4, hard))
    try:
        return F.solve(cmd="sat4j")
    finally:
        resource.setrlimit(resource.RLIMIT_FSIZE, (soft, hard))
show("R1b the same through sat4j (file-in/stdout)", fsize2)
# R2: solvers that delete their files
solver("minisat", 'echo SAT > "$2"; echo "1 2 0" >> "$2"; rm "$1"')
show("R2a minisat deletes its input file", lambda: F.solve(cmd="minisat"))
solver("minisat", 'rm "$2"')
show("R2b minisat deletes its result file", lambda: F.solve(cmd="minisat"))
solver("sat4j", 'echo "s SATISFIABLE"; echo "v 1 2 0"; rm "$1"')
show("R2c sat4j answers, then deletes its input file", lambda: F.solve(cmd="sat4j"))
shutil.rmtree(base)
