import CnfgenModel.Core.Sem
import CnfgenModel.Core.Iter
import CnfgenModel.Build.Linear
import CnfgenModel.Build.OPB
