import CnfgenModel
import CnfgenModel.Driver.Util
import CnfgenModel.Driver.L1
open Cnfgen Cnfgen.Driver

def handlers : List (String → Args → Option String) := [l1]

def dispatch (line : String) : String :=
  match (line.splitOn " ").filter (· ≠ "") with
  | [] => "BAD empty"
  | opname :: rest =>
    match rest.mapM String.toInt? with
    | none => "BAD args"
    | some a =>
      match handlers.findSome? (fun h => h opname a) with
      | some r => r
      | none => "BAD op"

partial def loop (hin : IO.FS.Stream) (hout : IO.FS.Stream) : IO Unit := do
  let line ← hin.getLine
  if line.isEmpty then return ()
  let l := (line.trimAscii.toString)
  hout.putStrLn (dispatch l)
  loop hin hout

def main : IO Unit := do
  let hin ← IO.getStdin
  let hout ← IO.getStdout
  loop hin hout
  hout.flush
