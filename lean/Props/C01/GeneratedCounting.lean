/-
C01 — `CountingPrinciple` as TRANSLATED from cnfgen/families/counting.py is `Fam.counting` of the model: the translated
`new_combinations`, the double loop `stars[i-1].append(var)` over `zip(X.indices(), X())`, one "exactly one" constraint
per element.
-/
import Lemmas.GenFamCounting
import Props.C01.Generated
import Props.C01.Counting
set_option linter.unusedSimpArgs false
namespace Cnfgen.C01
open Cnfgen Cnfgen.Vars Cnfgen.PyGen Cnfgen.GenVars Cnfgen.Fam Cnfgen.PyF Cnfgen.GenFam Cnfgen.C11

theorem zip_map_range' {α β γ : Type} (l : List α) (f : α → β) (g : Nat → γ) (k : Nat) :
    List.zip (l.map f) ((List.range' k l.length).map g) = (l.zipIdx k).map (fun S => (f S.1, g S.2)) := by
  induction l generalizing k with
  | nil => simp
  | cons a l ih => simp [List.range'_succ, ih]

theorem rows_init (m : Nat) :
    List.map (fun (_ : Int) => ([] : List Int)) (Py.Range.toList ⟨0, (m : Int)⟩) = rowsOf m (fun _ => []) := by
  simp [rowsOf, idx, rangeN, Py.range_zero_toList, List.map_map, Function.comp_def]

/-- **`CountingPrinciple` of the source is `Fam.counting` of the model** for all integers `M`, `p` -/
theorem gen_counting_eq_model (M p : Int) :
    CountingPrinciple M p = (Fam.counting M p).map stateOf := by
  unfold CountingPrinciple
  rw [counting_validation]
  simp only [gen_non_negative_int_eq, gen_positive_int_eq]
  by_cases hM : M < 0
  · simp [hM]
  by_cases hp : p < 1
  · simp [hM, hp]
  obtain ⟨m, rfl⟩ := Int.eq_ofNat_of_zero_le (by omega : 0 ≤ M)
  obtain ⟨q, rfl⟩ := Int.eq_ofNat_of_zero_le (by omega : 0 ≤ p)
  have hq : 1 ≤ q := by omega
  simp only [hM, hp, if_false, Py.ok_bind, Py.map_ok, Int.toNat_natCast]
  rw [new_combinations_eq PyF.empty 0 rfl m q]
  simp only [Py.ok_bind]
  have hnd := nodup_combosSeqs m q
  have hmem : ∀ S ∈ combosSeqs m q, S.Sublist (idx m) ∧ S.length = q := fun S hS => (Cnfgen.Fam.mem_combos _ _ _).1 hS
  have hne : [] ∉ combosSeqs m q := by
    intro h; have := (hmem [] h).2; simp at this; omega
  have hind : WordOfIndicesVariables.indices (wordSelf 0 (m : Int) (q : Int) "combinations" (combosSeqs m q)) [] =
      Except.ok ((combosSeqs m q).map upPat) := by
    rw [gen_word_indices_eq_model]; simp [Group.indices]
  rw [hind, Py.ok_bind, word_call_all 0 _ _ _ hnd hne, Py.ok_bind]
  simp only [Py.ok_bind]
  rw [rows_init]
  generalize hL : (combosSeqs m q).zipIdx.map (fun S => (S.1, (((0 + 1 + S.2 : Nat)) : Int))) = L
  have hzip : List.zip ((combosSeqs m q).map upPat)
      ((List.range (combosSeqs m q).length).map (fun j => ((0 + 1 + j : Nat) : Int))) =
      L.map (fun S => (upPat S.1, S.2)) := by
    rw [List.range_eq_range', zip_map_range', ← hL, List.map_map]
    rfl
  have hLmem : ∀ S ∈ L, S.1 ∈ combosSeqs m q := by
    rw [← hL]
    intro S hS
    simp only [List.mem_map] at hS
    obtain ⟨T, hT, rfl⟩ := hS
    exact (List.mem_zipIdx hT).2.2 ▸ List.getElem_mem _
  rw [hzip, star_outer m L
    (fun S hS => ((hmem S.1 (hLmem S hS)).1.nodup (idx_nodup m)))
    (fun S hS i hi => by
      have := (hmem S.1 (hLmem S hS)).1.subset hi
      simpa [mem_idx] using this), Py.ok_bind]
  have hstar : ∀ x, ([] : List Int) ++ L.filterMap (fun S => if S.1.contains x then some S.2 else none) =
      countingStar m q x := by
    intro x
    rw [← hL]
    simp [countingStar, List.filterMap_map, Function.comp_def, Nat.add_comm]
  simp only [hstar, rowsOf]
  have hwf := counting_wf m q
  have hnv : ((0 + (combosSeqs m q).length : Nat) : Int) = (((countingF m q).nvars : Nat) : Int) := by
    simp [countingF]
  rw [List.foldlM_map]
  rw [foldlM_push_nv (((countingF m q).nvars : Nat) : Int) (idx m) _
    (fun x => Con.lin (countingStar m q x) .eq 1) _ _ hnv]
  · simp [stateOf, PyF.empty, countingF]
  · intro s x hx hs
    have hc : Con.lin (countingStar m q x) .eq 1 ∈ (countingF m q).cons := by
      simp only [countingF, List.mem_map]; exact ⟨x, hx, rfl⟩
    exact cardinality_eq_wf hwf s hs _ 1 hc


/-- **the counting principle of the source is satisfiable exactly when `p` divides `M`** — on the generated
definition: for all `M` and `p ≥ 1` the translated generator succeeds, declares one variable per `p`-subset
(`M choose p`), and the formula it built (abstract constraints, CNF rendering, OPB rendering) has a satisfying
assignment iff `p ∣ M` -/
theorem gen_counting_sat_iff (M p : Nat) (hp : 1 ≤ p) :
    ∃ s : FState, CountingPrinciple (M : Int) (p : Int) = Except.ok s ∧ s.numvar = ((Nat.choose M p : Nat) : Int) ∧
      ((∃ α, (formulaOf s).holds α = true) ↔ p ∣ M) ∧
      ((∃ α, (formulaOf s).toCNF.holds α = true) ↔ p ∣ M) ∧
      ((∃ α, (formulaOf s).toOPB.holds α = true) ↔ p ∣ M) := by
  refine ⟨stateOf (countingF M p), ?_, ?_, ?_, ?_, ?_⟩
  · rw [gen_counting_eq_model, counting_validation]
    have h1 : ¬ ((M : Int) < 0) := by omega
    have h2 : ¬ ((p : Int) < 1) := by omega
    simp [h1, h2]
  · simp only [stateOf]; rw [counting_nvars]
  · rw [formulaOf_stateOf]; exact counting_sat_iff M p
  · rw [formulaOf_stateOf, ← counting_sat_iff M p]
    simp only [Formula.toCNF_holds _ _ (counting_wf M p)]
  · rw [formulaOf_stateOf, ← counting_sat_iff M p]
    simp only [Formula.toOPB_holds _ _ (counting_wf M p)]

/-- non-vacuity: `CountingPrinciple(3, 2)`: three pairs, each element in two of them -/
example : CountingPrinciple 3 2 =
    Except.ok ⟨3, [.lin [1, 2] .eq 1, .lin [1, 3] .eq 1, .lin [2, 3] .eq 1]⟩ := by
  rw [gen_counting_eq_model]; rfl

end Cnfgen.C01
