/-
C01 — CountingPrinciple(M, p): the satisfying assignments are the partitions of [M] into
p-element parts; satisfiable iff p divides M.
-/
import Lemmas.C01Counting
namespace Cnfgen.C01
open Cnfgen Cnfgen.Fam

/-- `S` is a `p`-subset of `[1..M]`, written as its increasing list (an index of `new_combinations(M, p)`) -/
def IsSubset (M p : Nat) (S : List Nat) : Prop :=
  S.Pairwise (· < ·) ∧ S.length = p ∧ ∀ x ∈ S, 1 ≤ x ∧ x ≤ M

/-- the variable `X(S)`: position of `S` in `combinations(range(1, M+1), p)`, 1-based -/
def countVar (M p : Nat) (S : List Nat) : Nat := 1 + (Vars.combosSeqs M p).idxOf S

/-- the indices of `new_combinations(M, p)` are exactly the `p`-subsets -/
theorem mem_combosSeqs_iff (M p : Nat) (S : List Nat) : S ∈ Vars.combosSeqs M p ↔ IsSubset M p S :=
  Fam.mem_combosSeqs M p S

/-- the documented statement about a family of chosen parts: every element of the domain is in
exactly one chosen part (so the chosen parts partition `[M]` into sets of size `p`) -/
def CountSpec (M p : Nat) (chosen : List Nat → Prop) : Prop :=
  ∀ x, 1 ≤ x → x ≤ M →
    ∃ S, IsSubset M p S ∧ x ∈ S ∧ chosen S ∧ ∀ S', IsSubset M p S' → x ∈ S' → chosen S' → S' = S

/-- T-C01.4: for all `M`, `p` and assignments -/
theorem counting_spec (M p : Nat) (α : Assign) :
    (countingF M p).holds α = true ↔ CountSpec M p (fun S => α (countVar M p S) = true) := by
  simp only [countingF, Formula.holds_mk, List.all_map, List.all_eq_true, mem_idx, Function.comp, Con.holds,
    Op.denote, decide_eq_true_eq, CountSpec]
  have hnd := nodup_combosSeqs M p
  constructor
  · intro h x h1 h2
    have hc := h x ⟨h1, h2⟩
    rw [count_countingStar] at hc
    have hc' : (Vars.combosSeqs M p).countP (fun S => α (Fam.countVar M p S) && S.contains x) = 1 := by omega
    obtain ⟨⟨S, hS, hαS⟩, huniq⟩ := (countP_eq_one_iff _ _ hnd).1 hc'
    simp only [Bool.and_eq_true, List.contains_iff_mem] at hαS huniq
    refine ⟨S, (mem_combosSeqs_iff M p S).1 hS, hαS.2, hαS.1, ?_⟩
    intro S' hS' hx' hα'
    exact huniq S' ((mem_combosSeqs_iff M p S').2 hS') S hS ⟨hα', hx'⟩ hαS
  · intro h x hx
    obtain ⟨S, hS, hxS, hαS, huniq⟩ := h x hx.1 hx.2
    rw [count_countingStar]
    have : (Vars.combosSeqs M p).countP (fun S => α (Fam.countVar M p S) && S.contains x) = 1 := by
      rw [countP_eq_one_iff _ _ hnd]
      simp only [Bool.and_eq_true, List.contains_iff_mem]
      refine ⟨⟨S, (mem_combosSeqs_iff M p S).2 hS, hαS, hxS⟩, ?_⟩
      intro a ha b hb pa pb
      rw [huniq a ((mem_combosSeqs_iff M p a).1 ha) pa.2 pa.1,
        huniq b ((mem_combosSeqs_iff M p b).1 hb) pb.2 pb.1]
    omega

/-- every partition into `p`-sets is described by an assignment; the canonical one for `p ∣ M`:
the blocks `{1..p}, {p+1..2p}, …` -/
theorem counting_blocks (M p : Nat) (hd : p ∣ M) :
    CountSpec M p (fun S => isBlock M p S = true) := by
  intro x h1 h2
  obtain ⟨q, rfl⟩ := hd
  have hp : 0 < p := by
    rcases Nat.eq_zero_or_pos p with h | h
    · subst h; simp at h2; omega
    · exact h
  have hdm := Nat.div_add_mod (x - 1) p
  have hm := Nat.mod_lt (x - 1) hp
  have hq : p * q / p = q := Nat.mul_div_cancel_left q hp
  have hb : (x - 1) / p < p * q / p := by
    rw [hq, Nat.div_lt_iff_lt_mul hp, Nat.mul_comm]; omega
  have hcomm : (x - 1) / p * p = p * ((x - 1) / p) := Nat.mul_comm _ _
  refine ⟨block p ((x - 1) / p), block_isSubset _ _ _ hb, ?_, ?_, ?_⟩
  · rw [mem_block]; omega
  · exact (isBlock_iff _ _ _).2 ⟨_, hb, rfl⟩
  · intro S' _ hx' hc'
    obtain ⟨b', _, rfl⟩ := (isBlock_iff _ _ _).1 hc'
    rw [mem_block] at hx'
    have : (x - 1) / p = b' := by
      apply Nat.div_eq_of_lt_le
      · omega
      · rw [Nat.add_mul, Nat.one_mul]; omega
    rw [this]

/-- T-C01.4 corollary: the counting principle is satisfiable exactly when `p` divides `M`
(`→` by double counting `p · #parts = M`, `←` by the block partition) -/
theorem counting_sat_iff (M p : Nat) : (∃ α, (countingF M p).holds α = true) ↔ p ∣ M := by
  constructor
  · rintro ⟨α, hα⟩
    simp only [countingF, Formula.holds_mk, List.all_map, List.all_eq_true, mem_idx, Function.comp,
      Con.holds, Op.denote, decide_eq_true_eq] at hα
    have := counting_double_count M p α (fun x h1 h2 => by have := hα x ⟨h1, h2⟩; omega)
    exact ⟨_, this⟩
  · intro hd
    refine ⟨blockAssign M p, (counting_spec M p _).2 ?_⟩
    intro x h1 h2
    obtain ⟨S, hS, hx, hc, hu⟩ := counting_blocks M p hd x h1 h2
    have hmem := (mem_combosSeqs_iff M p S).2 hS
    refine ⟨S, hS, hx, ?_, ?_⟩
    · show blockAssign M p (Fam.countVar M p S) = true
      rw [blockAssign_countVar M p S hmem]; exact hc
    · intro S' hS' hx' hc'
      have hmem' := (mem_combosSeqs_iff M p S').2 hS'
      apply hu S' hS' hx'
      have : blockAssign M p (Fam.countVar M p S') = true := hc'
      rw [blockAssign_countVar M p S' hmem'] at this; exact this

example : CountSpec 4 2 (fun S => S = [1, 3] ∨ S = [2, 4]) := by
  have h13 : IsSubset 4 2 [1, 3] := ⟨by simp, rfl, by simp⟩
  have h24 : IsSubset 4 2 [2, 4] := ⟨by simp, rfl, by simp⟩
  intro x h1 h2
  have hx : x = 1 ∨ x = 2 ∨ x = 3 ∨ x = 4 := by omega
  rcases hx with rfl | rfl | rfl | rfl
  · exact ⟨[1, 3], h13, by simp, Or.inl rfl, by rintro S' _ hx (rfl | rfl) <;> simp_all⟩
  · exact ⟨[2, 4], h24, by simp, Or.inr rfl, by rintro S' _ hx (rfl | rfl) <;> simp_all⟩
  · exact ⟨[1, 3], h13, by simp, Or.inl rfl, by rintro S' _ hx (rfl | rfl) <;> simp_all⟩
  · exact ⟨[2, 4], h24, by simp, Or.inr rfl, by rintro S' _ hx (rfl | rfl) <;> simp_all⟩

theorem counting_wf (M p : Nat) : (countingF M p).WF := by
  intro c hc
  simp only [countingF, List.mem_map] at hc
  obtain ⟨x, _, rfl⟩ := hc
  exact countingStar_wf M p x

/-- documented variable count: one variable per `p`-subset of `[M]` -/
theorem counting_nvars (M p : Nat) : (countingF M p).nvars = Nat.choose M p :=
  length_combosSeqs M p

theorem counting_validation (M p : Int) :
    counting M p = if M < 0 then .error .valueError else if p < 1 then .error .valueError
      else .ok (countingF M.toNat p.toNat) := rfl

theorem counting_cnf_spec (M p : Nat) (α : Assign) :
    (countingF M p).toCNF.holds α = true ↔ CountSpec M p (fun S => α (countVar M p S) = true) := by
  rw [Formula.toCNF_holds α _ (counting_wf M p)]; exact counting_spec M p α

theorem counting_opb_spec (M p : Nat) (α : Assign) :
    (countingF M p).toOPB.holds α = true ↔ CountSpec M p (fun S => α (countVar M p S) = true) := by
  rw [Formula.toOPB_holds α _ (counting_wf M p)]; exact counting_spec M p α

end Cnfgen.C01
