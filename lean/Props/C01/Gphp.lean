/-
C01 — GraphPigeonholePrinciple(G, functional, onto) on an arbitrary bipartite graph object.
-/
import Lemmas.FamBip
import CnfgenModel.Fam.Php
namespace Cnfgen.C01
open Cnfgen Cnfgen.Fam

/-- "pigeon `u` flies to hole `v`": the variable `p_{u,v}` of `new_sparse_mapping(G)` is true -/
def gphpRel (B : BipG) (α : Assign) (u v : Nat) : Prop := α (Vars.bipId B 1 u v) = true

/-- the documented statement of `GraphPigeonholePrinciple(G, functional, onto)`: a set of edges
`E' = {(u,v) ∈ E | R u v}` with at least one edge at every left vertex, at most one at every right
vertex [, at most one at every left vertex] [, at least one at every right vertex] -/
structure GPHPSpec (B : BipG) (functional onto : Bool) (R : Nat → Nat → Prop) : Prop where
  total : ∀ u, 1 ≤ u → u ≤ B.l → ∃ v, v ∈ B.rnbrs u ∧ R u v
  inj : ∀ v, 1 ≤ v → v ≤ B.r → ∀ u ∈ B.lnbrs v, ∀ u' ∈ B.lnbrs v, R u v → R u' v → u = u'
  func : functional = true →
    ∀ u, 1 ≤ u → u ≤ B.l → ∀ v ∈ B.rnbrs u, ∀ v' ∈ B.rnbrs u, R u v → R u v' → v = v'
  surj : onto = true → ∀ v, 1 ≤ v → v ≤ B.r → ∃ u, u ∈ B.lnbrs v ∧ R u v

/-- the bipartite graph objects the theorems are about: the two adjacency tables are duplicate
free and describe the same edges (invariant of `BipartiteGraph.add_edge`) -/
abbrev GoodBip := Fam.GoodBip

/-- T-C01.1: for every consistent bipartite graph, both flags and every assignment -/
theorem gphp_spec (B : BipG) (hg : GoodBip B) (f o : Bool) (α : Assign) :
    (gphp B f o).holds α = true ↔ GPHPSpec B f o (gphpRel B α) := by
  have hs : 0 < (SMap.mk B 1).start := by simp
  have hcols := SMap.GoodBip.cols hg
  have hC : (SMap.mk B 1).forceComplete.all (Con.holds α) = true ↔
      ∀ u, 1 ≤ u → u ≤ B.l → ∃ v, v ∈ B.rnbrs u ∧ gphpRel B α u v := by
    simp only [SMap.forceComplete, List.all_map, List.all_eq_true, mem_idx, Function.comp, Con.holds]
    constructor
    · intro h u h1 h2; exact (SMap.clause_row _ hs α h1 h2).1 (h u ⟨h1, h2⟩)
    · intro h u hu; exact (SMap.clause_row _ hs α hu.1 hu.2).2 (h u hu.1 hu.2)
  have hS : (SMap.mk B 1).forceSurjective.all (Con.holds α) = true ↔
      ∀ v, 1 ≤ v → v ≤ B.r → ∃ u, u ∈ B.lnbrs v ∧ gphpRel B α u v := by
    simp only [SMap.forceSurjective, List.all_map, List.all_eq_true, mem_idx, Function.comp, Con.holds]
    constructor
    · intro h v h1 h2; exact (SMap.clause_col _ hs α (hcols v h1 h2)).1 (h v ⟨h1, h2⟩)
    · intro h v hv; exact (SMap.clause_col _ hs α (hcols v hv.1 hv.2)).2 (h v hv.1 hv.2)
  have hI : (SMap.mk B 1).forceInjective.all (Con.holds α) = true ↔
      ∀ v, 1 ≤ v → v ≤ B.r → ∀ u ∈ B.lnbrs v, ∀ u' ∈ B.lnbrs v,
        gphpRel B α u v → gphpRel B α u' v → u = u' := by
    simp only [SMap.forceInjective, List.all_map, List.all_eq_true, mem_idx, Function.comp]
    constructor
    · intro h v h1 h2
      exact (SMap.atMostOne_col _ hs α (hcols v h1 h2) (hg.lnodup v)).1 (h v ⟨h1, h2⟩)
    · intro h v hv
      exact (SMap.atMostOne_col _ hs α (hcols v hv.1 hv.2) (hg.lnodup v)).2 (h v hv.1 hv.2)
  have hF : (SMap.mk B 1).forceFunctional.all (Con.holds α) = true ↔
      ∀ u, 1 ≤ u → u ≤ B.l → ∀ v ∈ B.rnbrs u, ∀ v' ∈ B.rnbrs u,
        gphpRel B α u v → gphpRel B α u v' → v = v' := by
    simp only [SMap.forceFunctional, List.all_map, List.all_eq_true, mem_idx, Function.comp]
    constructor
    · intro h u h1 h2
      exact (SMap.atMostOne_row _ hs α h1 h2 (hg.rnodup u)).1 (h u ⟨h1, h2⟩)
    · intro h u hu
      exact (SMap.atMostOne_row _ hs α hu.1 hu.2 (hg.rnodup u)).2 (h u hu.1 hu.2)
  simp only [gphp, Formula.holds_mk, List.all_append, Bool.and_eq_true]
  rw [hC, hI]
  have hsur : ((if o = true then (SMap.mk B 1).forceSurjective else []).all (Con.holds α) = true) ↔
      (o = true → ∀ v, 1 ≤ v → v ≤ B.r → ∃ u, u ∈ B.lnbrs v ∧ gphpRel B α u v) := by
    cases o
    · simp
    · simp [hS]
  have hfun : ((if f = true then (SMap.mk B 1).forceFunctional else []).all (Con.holds α) = true) ↔
      (f = true → ∀ u, 1 ≤ u → u ≤ B.l → ∀ v ∈ B.rnbrs u, ∀ v' ∈ B.rnbrs u,
        gphpRel B α u v → gphpRel B α u v' → v = v') := by
    cases f
    · simp
    · simp [hF]
  rw [hsur, hfun]
  constructor
  · rintro ⟨⟨⟨h1, h2⟩, h3⟩, h4⟩; exact ⟨h1, h3, h4, h2⟩
  · rintro ⟨h1, h3, h4, h2⟩; exact ⟨⟨⟨h1, h2⟩, h3⟩, h4⟩

theorem gphp_wf (B : BipG) (hg : GoodBip B) (f o : Bool) : (gphp B f o).WF := by
  have hs : 0 < (SMap.mk B 1).start := by simp
  have hN : (SMap.mk B 1).start + (SMap.mk B 1).B.numberOfEdges ≤ B.numberOfEdges + 1 := by
    simp; omega
  exact ConsWF_append (ConsWF_append (ConsWF_append (SMap.forceComplete_wf _ hs hg hN)
    (ConsWF_ite (SMap.forceSurjective_wf _ hs hg hN))) (SMap.forceInjective_wf _ hs hg hN))
    (ConsWF_ite (SMap.forceFunctional_wf _ hs hg hN))

/-- one variable per edge -/
theorem gphp_nvars (B : BipG) (f o : Bool) : (gphp B f o).nvars = B.numberOfEdges := rfl

theorem gphp_cnf_spec (B : BipG) (hg : GoodBip B) (f o : Bool) (α : Assign) :
    (gphp B f o).toCNF.holds α = true ↔ GPHPSpec B f o (gphpRel B α) := by
  rw [Formula.toCNF_holds α _ (gphp_wf B hg f o)]; exact gphp_spec B hg f o α

theorem gphp_opb_spec (B : BipG) (hg : GoodBip B) (f o : Bool) (α : Assign) :
    (gphp B f o).toOPB.holds α = true ↔ GPHPSpec B f o (gphpRel B α) := by
  rw [Formula.toOPB_holds α _ (gphp_wf B hg f o)]; exact gphp_spec B hg f o α

end Cnfgen.C01
