/-
C01 — GraphPigeonholePrinciple(G, functional, onto) on an arbitrary bipartite graph object.
-/
import Lemmas.C01GraphInv
import Lemmas.C01Complete
import Lemmas.C01Pigeon
import CnfgenModel.Fam.Php
namespace Cnfgen.C01
open Cnfgen Cnfgen.Fam

/-- "pigeon `u` flies to hole `v`": the variable `p_{u,v}` of `new_sparse_mapping(G)` is true -/
def gphpRel (B : BipG) (α : Assign) (u v : Nat) : Prop := α (Vars.bipId B 1 u v) = true

/-- the documented statement of `GraphPigeonholePrinciple(G, functional, onto)`: a set of edges
`E' = {(u,v) ∈ E | R u v}` with at least one edge at every left vertex, at most one at every right
vertex [, at most one at every left vertex] [, at least one at every right vertex] -/
structure GPHPSpec (B : BipG) (functional onto : Bool) (R : Nat → Nat → Prop) : Prop where
  total : ∀ u, 1 ≤ u → u ≤ B.l → ∃ v, v ∈ B.rnbrs u ∧ R u v
  inj : ∀ v, 1 ≤ v → v ≤ B.r → ∀ u ∈ B.lnbrs v, ∀ u' ∈ B.lnbrs v, R u v → R u' v → u = u'
  func : functional = true →
    ∀ u, 1 ≤ u → u ≤ B.l → ∀ v ∈ B.rnbrs u, ∀ v' ∈ B.rnbrs u, R u v → R u v' → v = v'
  surj : onto = true → ∀ v, 1 ≤ v → v ≤ B.r → ∃ u, u ∈ B.lnbrs v ∧ R u v

/-- the bipartite graph objects the theorems are about: the two adjacency tables are duplicate
free and describe the same edges (invariant of `BipartiteGraph.add_edge`) -/
abbrev GoodBip := Fam.GoodBip

/-- T-C01.1: for every consistent bipartite graph, both flags and every assignment -/
theorem gphp_spec (B : BipG) (hg : GoodBip B) (f o : Bool) (α : Assign) :
    (gphp B f o).holds α = true ↔ GPHPSpec B f o (gphpRel B α) := by
  have hs : 0 < (SMap.mk B 1).start := by simp
  have hcols := SMap.GoodBip.cols hg
  have hC : (SMap.mk B 1).forceComplete.all (Con.holds α) = true ↔
      ∀ u, 1 ≤ u → u ≤ B.l → ∃ v, v ∈ B.rnbrs u ∧ gphpRel B α u v := by
    simp only [SMap.forceComplete, List.all_map, List.all_eq_true, mem_idx, Function.comp, Con.holds]
    constructor
    · intro h u h1 h2; exact (SMap.clause_row _ hs α h1 h2).1 (h u ⟨h1, h2⟩)
    · intro h u hu; exact (SMap.clause_row _ hs α hu.1 hu.2).2 (h u hu.1 hu.2)
  have hS : (SMap.mk B 1).forceSurjective.all (Con.holds α) = true ↔
      ∀ v, 1 ≤ v → v ≤ B.r → ∃ u, u ∈ B.lnbrs v ∧ gphpRel B α u v := by
    simp only [SMap.forceSurjective, List.all_map, List.all_eq_true, mem_idx, Function.comp, Con.holds]
    constructor
    · intro h v h1 h2; exact (SMap.clause_col _ hs α (hcols v h1 h2)).1 (h v ⟨h1, h2⟩)
    · intro h v hv; exact (SMap.clause_col _ hs α (hcols v hv.1 hv.2)).2 (h v hv.1 hv.2)
  have hI : (SMap.mk B 1).forceInjective.all (Con.holds α) = true ↔
      ∀ v, 1 ≤ v → v ≤ B.r → ∀ u ∈ B.lnbrs v, ∀ u' ∈ B.lnbrs v,
        gphpRel B α u v → gphpRel B α u' v → u = u' := by
    simp only [SMap.forceInjective, List.all_map, List.all_eq_true, mem_idx, Function.comp]
    constructor
    · intro h v h1 h2
      exact (SMap.atMostOne_col _ hs α (hcols v h1 h2) (hg.lnodup v)).1 (h v ⟨h1, h2⟩)
    · intro h v hv
      exact (SMap.atMostOne_col _ hs α (hcols v hv.1 hv.2) (hg.lnodup v)).2 (h v hv.1 hv.2)
  have hF : (SMap.mk B 1).forceFunctional.all (Con.holds α) = true ↔
      ∀ u, 1 ≤ u → u ≤ B.l → ∀ v ∈ B.rnbrs u, ∀ v' ∈ B.rnbrs u,
        gphpRel B α u v → gphpRel B α u v' → v = v' := by
    simp only [SMap.forceFunctional, List.all_map, List.all_eq_true, mem_idx, Function.comp]
    constructor
    · intro h u h1 h2
      exact (SMap.atMostOne_row _ hs α h1 h2 (hg.rnodup u)).1 (h u ⟨h1, h2⟩)
    · intro h u hu
      exact (SMap.atMostOne_row _ hs α hu.1 hu.2 (hg.rnodup u)).2 (h u hu.1 hu.2)
  simp only [gphp, Formula.holds_mk, List.all_append, Bool.and_eq_true]
  rw [hC, hI]
  have hsur : ((if o = true then (SMap.mk B 1).forceSurjective else []).all (Con.holds α) = true) ↔
      (o = true → ∀ v, 1 ≤ v → v ≤ B.r → ∃ u, u ∈ B.lnbrs v ∧ gphpRel B α u v) := by
    cases o
    · simp
    · simp [hS]
  have hfun : ((if f = true then (SMap.mk B 1).forceFunctional else []).all (Con.holds α) = true) ↔
      (f = true → ∀ u, 1 ≤ u → u ≤ B.l → ∀ v ∈ B.rnbrs u, ∀ v' ∈ B.rnbrs u,
        gphpRel B α u v → gphpRel B α u v' → v = v') := by
    cases f
    · simp
    · simp [hF]
  rw [hsur, hfun]
  constructor
  · rintro ⟨⟨⟨h1, h2⟩, h3⟩, h4⟩; exact ⟨h1, h3, h4, h2⟩
  · rintro ⟨h1, h3, h4, h2⟩; exact ⟨⟨⟨h1, h2⟩, h3⟩, h4⟩

theorem gphp_wf (B : BipG) (hg : GoodBip B) (f o : Bool) : (gphp B f o).WF := by
  have hs : 0 < (SMap.mk B 1).start := by simp
  have hN : (SMap.mk B 1).start + (SMap.mk B 1).B.numberOfEdges ≤ B.numberOfEdges + 1 := by
    simp; omega
  exact ConsWF_append (ConsWF_append (ConsWF_append (SMap.forceComplete_wf _ hs hg hN)
    (ConsWF_ite (SMap.forceSurjective_wf _ hs hg hN))) (SMap.forceInjective_wf _ hs hg hN))
    (ConsWF_ite (SMap.forceFunctional_wf _ hs hg hN))

/-- one variable per edge -/
theorem gphp_nvars (B : BipG) (f o : Bool) : (gphp B f o).nvars = B.numberOfEdges := rfl

theorem gphp_cnf_spec (B : BipG) (hg : GoodBip B) (f o : Bool) (α : Assign) :
    (gphp B f o).toCNF.holds α = true ↔ GPHPSpec B f o (gphpRel B α) := by
  rw [Formula.toCNF_holds α _ (gphp_wf B hg f o)]; exact gphp_spec B hg f o α

theorem gphp_opb_spec (B : BipG) (hg : GoodBip B) (f o : Bool) (α : Assign) :
    (gphp B f o).toOPB.holds α = true ↔ GPHPSpec B f o (gphpRel B α) := by
  rw [Formula.toOPB_holds α _ (gphp_wf B hg f o)]; exact gphp_spec B hg f o α

/-- the hypothesis of the theorems above holds for every graph object the real class can
represent: `BipartiteGraph(l, r)` followed by any sequence of successful `add_edge` calls -/
theorem goodBip_ofEdges (l r : Nat) (es : List (Nat × Nat)) (B : BipG)
    (h : BipG.ofEdges l r es = .ok B) : GoodBip B := Fam.goodBip_ofEdges l r es B h

theorem gphp_spec_ofEdges (l r : Nat) (es : List (Nat × Nat)) (B : BipG)
    (h : BipG.ofEdges l r es = .ok B) (f o : Bool) (α : Assign) :
    (gphp B f o).holds α = true ↔ GPHPSpec B f o (gphpRel B α) :=
  gphp_spec B (goodBip_ofEdges l r es B h) f o α

/-- non-vacuity: a graph with an isolated right vertex, edges inserted out of order -/
example : ∃ B, BipG.ofEdges 2 3 [(2, 1), (1, 2), (1, 1), (2, 1)] = .ok B ∧ B.rnbrs 1 = [1, 2] ∧
    B.lnbrs 3 = [] := ⟨_, rfl, rfl, rfl⟩

/-- non-vacuity of the specification on that graph: pigeon 1 in hole 2, pigeon 2 in hole 1 -/
example : ∃ B, BipG.ofEdges 2 3 [(2, 1), (1, 2), (1, 1), (2, 1)] = .ok B ∧
    GPHPSpec B true false (fun u v => (u = 1 ∧ v = 2) ∨ (u = 2 ∧ v = 1)) := by
  refine ⟨_, rfl, ?_, ?_, ?_, by simp⟩
  · intro u h1 h2
    have h2' : u ≤ 2 := h2
    have : u = 1 ∨ u = 2 := by omega
    rcases this with rfl | rfl
    · exact ⟨2, by decide, Or.inl ⟨rfl, rfl⟩⟩
    · exact ⟨1, by decide, Or.inr ⟨rfl, rfl⟩⟩
  · intro v _ _ u _ u' _ e e'; omega
  · intro _ u _ _ v _ v' _ e e'; omega

/-- the specification only looks at the edges of the graph -/
theorem GPHPSpec_congr {B : BipG} (hg : GoodBip B) {f o : Bool} {R R' : Nat → Nat → Prop}
    (h : ∀ u v, 1 ≤ u → u ≤ B.l → v ∈ B.rnbrs u → (R u v ↔ R' u v)) :
    GPHPSpec B f o R → GPHPSpec B f o R' := by
  have hl : ∀ v, 1 ≤ v → v ≤ B.r → ∀ u ∈ B.lnbrs v, (R u v ↔ R' u v) := by
    intro v hv1 hv2 u hu
    have := (hg.adj u v).2 ⟨hv1, hv2, hu⟩
    exact h u v this.1 this.2.1 this.2.2
  rintro ⟨h1, h2, h3, h4⟩
  refine ⟨?_, ?_, ?_, ?_⟩
  · intro u a b
    obtain ⟨v, c, d⟩ := h1 u a b
    exact ⟨v, c, (h u v a b c).1 d⟩
  · intro v a b u c u' c' e e'
    exact h2 v a b u c u' c' ((hl v a b u c).2 e) ((hl v a b u' c').2 e')
  · intro hf u a b v c v' c' e e'
    exact h3 hf u a b v c v' c' ((h u v a b c).2 e) ((h u v' a b c').2 e')
  · intro ho v a b
    obtain ⟨u, c, d⟩ := h4 ho v a b
    exact ⟨u, c, (hl v a b u c).1 d⟩

/-- every edge set with the documented properties is described by a satisfying assignment -/
theorem gphp_realises (B : BipG) (hg : GoodBip B) (f o : Bool) (R : Nat → Nat → Bool)
    (h : GPHPSpec B f o (fun u v => R u v = true)) :
    (gphp B f o).holds ((SMap.mk B 1).assignOf R) = true := by
  rw [gphp_spec B hg]
  refine GPHPSpec_congr hg ?_ h
  intro u v h1 h2 hv
  have := (SMap.mk B 1).assignOf_var R h1 h2 hv
  simp only [SMap.var] at this
  simp only [gphpRel, this]

/-- the docstring's "satisfiable if and only if the graph has a matching of size |L|":
a choice `g` of a neighbour for every left vertex, injective on the left side -/
theorem gphp_sat_iff_matching (B : BipG) (hg : GoodBip B) (f : Bool) :
    (∃ α, (gphp B f false).holds α = true) ↔
      ∃ g : Nat → Nat, (∀ u, 1 ≤ u → u ≤ B.l → g u ∈ B.rnbrs u) ∧
        (∀ u, 1 ≤ u → u ≤ B.l → ∀ u', 1 ≤ u' → u' ≤ B.l → g u = g u' → u = u') := by
  constructor
  · rintro ⟨α, hα⟩
    obtain ⟨h1, h2, _, _⟩ := (gphp_spec B hg f false α).1 hα
    have hex : ∀ u, ∃ v, (1 ≤ u ∧ u ≤ B.l) → v ∈ B.rnbrs u ∧ gphpRel B α u v := by
      intro u
      by_cases hu : 1 ≤ u ∧ u ≤ B.l
      · obtain ⟨v, hv⟩ := h1 u hu.1 hu.2
        exact ⟨v, fun _ => hv⟩
      · exact ⟨0, fun h => absurd h hu⟩
    refine ⟨fun u => Classical.choose (hex u), ?_, ?_⟩
    · intro u a b; exact (Classical.choose_spec (hex u) ⟨a, b⟩).1
    · intro u a b u' a' b' e
      have s := Classical.choose_spec (hex u) ⟨a, b⟩
      have s' := Classical.choose_spec (hex u') ⟨a', b'⟩
      simp only [] at e
      have hv := (hg.adj u _).1 ⟨a, b, s.1⟩
      have hv' := (hg.adj u' _).1 ⟨a', b', s'.1⟩
      rw [← e] at hv' s'
      exact h2 _ hv.1 hv.2.1 u hv.2.2 u' hv'.2.2 s.2 s'.2
  · rintro ⟨g, hg1, hg2⟩
    refine ⟨_, gphp_realises B hg f false (fun u v => decide (v = g u)) ⟨?_, ?_, ?_, by simp⟩⟩
    · intro u a b; exact ⟨g u, hg1 u a b, by simp⟩
    · intro v a b u hu u' hu' e e'
      have c := (hg.adj u v).2 ⟨a, b, hu⟩
      have c' := (hg.adj u' v).2 ⟨a, b, hu'⟩
      simp only [decide_eq_true_eq] at e e'
      exact hg2 u c.1 c.2.1 u' c'.1 c'.2.1 (e.symm.trans e')
    · intro _ u _ _ v _ v' _ e e'
      simp only [decide_eq_true_eq] at e e'
      exact e.trans e'.symm

/-- `PigeonholePrinciple(m, n, …)` is `GraphPigeonholePrinciple(CompleteBipartiteGraph(m, n), …)`:
the same variables, the same constraints in the same order -/
theorem php_eq_gphp_complete (m n : Nat) (f o : Bool) :
    phpF m n f o = gphp (BipG.complete m n) f o := Fam.phpF_eq_gphp_complete m n f o

end Cnfgen.C01
