/-
C01 — "every such object is described by a satisfying assignment — by exactly one when the
documented variables are just the object": explicit bijections between the satisfying
assignments restricted to the variables `1..nvars` and the combinatorial objects.
-/
import Lemmas.C01Bij
import Props.C01.Php
import Props.C01.Counting
import Mathlib.Data.List.Nodup
namespace Cnfgen.C01
open Cnfgen Cnfgen.Fam

/-- assignments to the variables `1..N`, read as total assignments (`false` elsewhere) -/
abbrev extend {N : Nat} (a : Fin N → Bool) : Assign := Fam.extend a

/-- a well-formed formula only depends on the restriction of the assignment to `1..nvars` -/
theorem holds_restrict (F : Formula) (hwf : F.WF) (α : Assign) :
    F.holds (extend (Fam.restrict F.nvars α)) = F.holds α :=
  Fam.Formula.holds_extend_restrict F hwf α

/-! ### pigeonhole: assignments ↔ placements -/

/-- a placement of `m` pigeons into `n` holes: a relation `R ⊆ [m] × [n]` (as a 0/1 matrix) in
which every pigeon has a hole and no hole has two pigeons [, functional] [, onto] -/
structure Placement (m n : Nat) (functional onto : Bool) (R : Fin m → Fin n → Bool) : Prop where
  total : ∀ i, ∃ j, R i j = true
  inj : ∀ j i i', R i j = true → R i' j = true → i = i'
  func : functional = true → ∀ i j j', R i j = true → R i j' = true → j = j'
  surj : onto = true → ∀ j, ∃ i, R i j = true

theorem idx_lt {m n : Nat} (i : Fin m) (j : Fin n) : i.val * n + j.val < m * n := by
  have : (i.val + 1) * n ≤ m * n := Nat.mul_le_mul_right _ i.isLt
  rw [Nat.add_mul] at this
  have := j.isLt
  omega

theorem div_lt {m n : Nat} (x : Fin (m * n)) : x.val / n < m := by
  have hn : 0 < n := by
    rcases Nat.eq_zero_or_pos n with h | h
    · have h1 := x.isLt
      have h2 : m * n = 0 := by rw [h]; rfl
      omega
    · exact h
  rw [Nat.div_lt_iff_lt_mul hn]; exact x.isLt

theorem mod_lt {m n : Nat} (x : Fin (m * n)) : x.val % n < n := by
  have hn : 0 < n := by
    rcases Nat.eq_zero_or_pos n with h | h
    · have h1 := x.isLt
      have h2 : m * n = 0 := by rw [h]; rfl
      omega
    · exact h
  exact Nat.mod_lt _ hn

/-- the placement described by an assignment: `R i j` is the value of `p_{i+1,j+1}` -/
def phpToObj (m n : Nat) (a : Fin (m * n) → Bool) : Fin m → Fin n → Bool :=
  fun i j => a ⟨i.val * n + j.val, idx_lt i j⟩

/-- the assignment describing a placement -/
def phpOfObj (m n : Nat) (R : Fin m → Fin n → Bool) : Fin (m * n) → Bool :=
  fun x => R ⟨x.val / n, div_lt x⟩ ⟨x.val % n, mod_lt x⟩

theorem php_ofObj_toObj (m n : Nat) (a : Fin (m * n) → Bool) : phpOfObj m n (phpToObj m n a) = a := by
  funext x
  simp only [phpOfObj, phpToObj]
  congr 1
  apply Fin.ext
  simp only []
  have := Nat.div_add_mod x.val n
  rw [Nat.mul_comm] at this; exact this

theorem php_toObj_ofObj (m n : Nat) (R : Fin m → Fin n → Bool) : phpToObj m n (phpOfObj m n R) = R := by
  funext i j
  have hn : 0 < n := Nat.lt_of_le_of_lt (Nat.zero_le _) j.isLt
  simp only [phpToObj, phpOfObj]
  have h1 : (i.val * n + j.val) / n = i.val := by
    rw [Nat.add_comm, Nat.add_mul_div_right _ _ hn, Nat.div_eq_of_lt j.isLt, Nat.zero_add]
  have h2 : (i.val * n + j.val) % n = j.val := by
    rw [Nat.add_comm, Nat.add_mul_mod_self_right, Nat.mod_eq_of_lt j.isLt]
  congr 1 <;> apply Fin.ext <;> simp only [h1, h2]

/-- the variable `p_{u,v}` under `extend a` is the matrix entry `(u-1, v-1)` -/
theorem phpRel_extend (m n : Nat) (a : Fin (m * n) → Bool) (i : Fin m) (j : Fin n) :
    phpRel n (extend a) (i.val + 1) (j.val + 1) ↔ phpToObj m n a i j = true := by
  have hlt := idx_lt i j
  have hid : Vars.mapId 1 n (i.val + 1) (j.val + 1) = i.val * n + j.val + 1 := by
    simp only [Vars.mapId, Nat.add_sub_cancel]; omega
  simp only [phpRel, hid, phpToObj]
  rw [show extend a (i.val * n + j.val + 1) = a ⟨i.val * n + j.val + 1 - 1, by omega⟩ from
    Fam.extend_apply a (by omega) (by omega)]
  simp only [Nat.add_sub_cancel]

/-- the satisfying assignments (restricted to the `m·n` variables) are exactly the assignments
that describe a placement; together with `php_ofObj_toObj` / `php_toObj_ofObj` this is the
bijection "satisfying assignments ↔ placements" for all four flag combinations -/
theorem php_holds_iff_placement (m n : Nat) (f o : Bool) (a : Fin (m * n) → Bool) :
    (phpF m n f o).holds (extend a) = true ↔ Placement m n f o (phpToObj m n a) := by
  rw [php_spec]
  have key := phpRel_extend m n a
  constructor
  · rintro ⟨h1, h2, h3, h4⟩
    refine ⟨?_, ?_, ?_, ?_⟩
    · intro i
      obtain ⟨v, hv1, hv2, hR⟩ := h1 (i.val + 1) (by omega) i.isLt
      refine ⟨⟨v - 1, by omega⟩, (key i ⟨v - 1, by omega⟩).1 ?_⟩
      simpa [Nat.sub_add_cancel hv1] using hR
    · intro j i i' e e'
      have := h2 (j.val + 1) (by omega) j.isLt (i.val + 1) (by omega) i.isLt (i'.val + 1) (by omega) i'.isLt
        ((key i j).2 e) ((key i' j).2 e')
      exact Fin.ext (by omega)
    · intro hf i j j' e e'
      have := h3 hf (i.val + 1) (by omega) i.isLt (j.val + 1) (by omega) j.isLt (j'.val + 1) (by omega) j'.isLt
        ((key i j).2 e) ((key i j').2 e')
      exact Fin.ext (by omega)
    · intro ho j
      obtain ⟨u, hu1, hu2, hR⟩ := h4 ho (j.val + 1) (by omega) j.isLt
      refine ⟨⟨u - 1, by omega⟩, (key ⟨u - 1, by omega⟩ j).1 ?_⟩
      simpa [Nat.sub_add_cancel hu1] using hR
  · rintro ⟨h1, h2, h3, h4⟩
    have key' : ∀ u v (hu1 : 1 ≤ u) (hu : u ≤ m) (hv1 : 1 ≤ v) (hv : v ≤ n),
        phpRel n (extend a) u v ↔ phpToObj m n a ⟨u - 1, by omega⟩ ⟨v - 1, by omega⟩ = true := by
      intro u v hu1 hu hv1 hv
      have := key ⟨u - 1, by omega⟩ ⟨v - 1, by omega⟩
      simpa [Nat.sub_add_cancel hu1, Nat.sub_add_cancel hv1] using this
    refine ⟨?_, ?_, ?_, ?_⟩
    · intro u hu1 hu
      obtain ⟨j, hj⟩ := h1 ⟨u - 1, by omega⟩
      refine ⟨j.val + 1, by omega, j.isLt, (key' u (j.val + 1) hu1 hu (by omega) j.isLt).2 ?_⟩
      simpa using hj
    · intro v hv1 hv u hu1 hu u' hu1' hu' e e'
      have := h2 _ _ _ ((key' u v hu1 hu hv1 hv).1 e) ((key' u' v hu1' hu' hv1 hv).1 e')
      have := congrArg Fin.val this
      simp only [] at this; omega
    · intro hf u hu1 hu v hv1 hv v' hv1' hv' e e'
      have := h3 hf _ _ _ ((key' u v hu1 hu hv1 hv).1 e) ((key' u v' hu1 hu hv1' hv').1 e')
      have := congrArg Fin.val this
      simp only [] at this; omega
    · intro ho v hv1 hv
      obtain ⟨i, hi⟩ := h4 ho ⟨v - 1, by omega⟩
      refine ⟨i.val + 1, by omega, i.isLt, (key' (i.val + 1) v (by omega) i.isLt hv1 hv).2 ?_⟩
      simpa using hi

/-- the bijection, packaged: `phpToObj` maps the satisfying restricted assignments one-to-one
onto the placements -/
theorem php_bijection (m n : Nat) (f o : Bool) :
    (∀ a, (phpF m n f o).holds (extend a) = true → Placement m n f o (phpToObj m n a)) ∧
    (∀ R, Placement m n f o R → (phpF m n f o).holds (extend (phpOfObj m n R)) = true) ∧
    (∀ a, phpOfObj m n (phpToObj m n a) = a) ∧ (∀ R, phpToObj m n (phpOfObj m n R) = R) :=
  ⟨fun a h => (php_holds_iff_placement m n f o a).1 h,
   fun R h => (php_holds_iff_placement m n f o _).2 (by rw [php_toObj_ofObj]; exact h),
   php_ofObj_toObj m n, php_toObj_ofObj m n⟩

/-! ### functional placements are injections, matchings are bijections -/

/-- the 0/1 matrix of a function -/
def graphOf {m n : Nat} (g : Fin m → Fin n) : Fin m → Fin n → Bool := fun i j => decide (g i = j)

theorem graphOf_injective {m n : Nat} : Function.Injective (graphOf (m := m) (n := n)) := by
  intro g g' h
  funext i
  have := congrFun (congrFun h i) (g i)
  simp only [graphOf, decide_true] at this
  exact (of_decide_eq_true this.symm).symm

/-- functional PHP: the objects are the injections `[m] → [n]`; matching: the bijections -/
theorem placement_graphOf_iff {m n : Nat} (o : Bool) (g : Fin m → Fin n) :
    Placement m n true o (graphOf g) ↔
      Function.Injective g ∧ (o = true → Function.Surjective g) := by
  constructor
  · rintro ⟨_, h2, _, h4⟩
    refine ⟨fun i i' e => h2 (g i) i i' (by simp [graphOf]) (by simp [graphOf, e]), ?_⟩
    intro ho j
    obtain ⟨i, hi⟩ := h4 ho j
    exact ⟨i, by simpa [graphOf] using hi⟩
  · rintro ⟨hinj, hsur⟩
    refine ⟨fun i => ⟨g i, by simp [graphOf]⟩, ?_, ?_, ?_⟩
    · intro j i i' e e'
      simp only [graphOf, decide_eq_true_eq] at e e'
      exact hinj (e.trans e'.symm)
    · intro _ i j j' e e'
      simp only [graphOf, decide_eq_true_eq] at e e'
      exact e.symm.trans e'
    · intro ho j
      obtain ⟨i, hi⟩ := hsur ho j
      exact ⟨i, by simp [graphOf, hi]⟩

/-- every functional placement is the matrix of exactly one function -/
theorem placement_functional_unique {m n : Nat} (o : Bool) (R : Fin m → Fin n → Bool)
    (h : Placement m n true o R) : ∃ g : Fin m → Fin n, R = graphOf g ∧ ∀ g', R = graphOf g' → g' = g := by
  have hex : ∀ i, ∃ j, R i j = true := h.total
  refine ⟨fun i => Classical.choose (hex i), ?_, ?_⟩
  · funext i j
    have hs := Classical.choose_spec (hex i)
    by_cases hj : R i j = true
    · have := h.func rfl i _ _ hs hj
      simp [graphOf, hj, this]
    · have hne : Classical.choose (hex i) ≠ j := fun e => hj (e ▸ hs)
      simp only [Bool.not_eq_true] at hj
      simp [graphOf, hj, hne]
  · intro g' hg'
    funext i
    have hs := Classical.choose_spec (hex i)
    have hs' : graphOf g' i (Classical.choose (hex i)) = true := by rw [← hg']; exact hs
    simp only [graphOf, decide_eq_true_eq] at hs'
    exact hs'

/-- Matching formula (functional + onto): the satisfying assignments on `1..m·n` are in
one-to-one correspondence with the bijections `[m] → [n]`; functional PHP: with the injections -/
theorem php_functional_bijection (m n : Nat) (o : Bool) :
    (∀ g : Fin m → Fin n, Function.Injective g → (o = true → Function.Surjective g) →
      (phpF m n true o).holds (extend (phpOfObj m n (graphOf g))) = true) ∧
    (∀ a, (phpF m n true o).holds (extend a) = true →
      ∃ g : Fin m → Fin n, Function.Injective g ∧ (o = true → Function.Surjective g) ∧
        a = phpOfObj m n (graphOf g) ∧ ∀ g', a = phpOfObj m n (graphOf g') → g' = g) := by
  refine ⟨?_, ?_⟩
  · intro g hi hs
    rw [php_holds_iff_placement, php_toObj_ofObj]
    exact (placement_graphOf_iff o g).2 ⟨hi, hs⟩
  · intro a ha
    have hp := (php_holds_iff_placement m n true o a).1 ha
    obtain ⟨g, hg, huniq⟩ := placement_functional_unique o _ hp
    have hpg := (placement_graphOf_iff o g).1 (hg ▸ hp)
    refine ⟨g, hpg.1, hpg.2, ?_, ?_⟩
    · rw [← hg, php_ofObj_toObj]
    · intro g' hg'
      apply huniq
      rw [hg', php_toObj_ofObj]

example : Placement 2 2 true true (graphOf (fun i : Fin 2 => i)) :=
  (placement_graphOf_iff true _).2 ⟨fun _ _ h => h, fun _ j => ⟨j, rfl⟩⟩

/-! ### counting principle: assignments ↔ partitions into `p`-sets -/

/-- the `p`-subsets of `[1..M]` -/
abbrev PSubset (M p : Nat) := {S : List Nat // IsSubset M p S}

/-- `T` (a family of `p`-subsets, as an indicator) partitions `[1..M]`: every element lies in
exactly one member of the family -/
def IsPartition (M p : Nat) (T : PSubset M p → Bool) : Prop :=
  ∀ x, 1 ≤ x → x ≤ M →
    ∃ S : PSubset M p, x ∈ S.1 ∧ T S = true ∧ ∀ S' : PSubset M p, x ∈ S'.1 → T S' = true → S' = S

theorem psubset_idx_lt {M p : Nat} (S : PSubset M p) :
    (Vars.combosSeqs M p).idxOf S.1 < (countingF M p).nvars :=
  List.idxOf_lt_length_iff.2 ((mem_combosSeqs_iff M p S.1).2 S.2)

/-- the family described by an assignment: `S` is chosen iff `X(S)` is true -/
def countToObj (M p : Nat) (a : Fin (countingF M p).nvars → Bool) : PSubset M p → Bool :=
  fun S => a ⟨(Vars.combosSeqs M p).idxOf S.1, psubset_idx_lt S⟩

/-- the assignment describing a family -/
def countOfObj (M p : Nat) (T : PSubset M p → Bool) : Fin (countingF M p).nvars → Bool :=
  fun i => T ⟨(Vars.combosSeqs M p)[i.val]'i.isLt,
    (mem_combosSeqs_iff M p _).1 (List.getElem_mem i.isLt)⟩

theorem count_ofObj_toObj (M p : Nat) (a : Fin (countingF M p).nvars → Bool) :
    countOfObj M p (countToObj M p a) = a := by
  funext i
  simp only [countOfObj, countToObj]
  congr 1
  apply Fin.ext
  exact (nodup_combosSeqs M p).idxOf_getElem i.val i.isLt

theorem count_toObj_ofObj (M p : Nat) (T : PSubset M p → Bool) :
    countToObj M p (countOfObj M p T) = T := by
  funext S
  simp only [countOfObj, countToObj]
  congr 1
  apply Subtype.ext
  exact List.getElem_idxOf _

/-- the satisfying assignments (restricted to the `C(M,p)` variables) are exactly those that
describe a partition of `[M]` into `p`-sets; with the two inverse laws above this is the bijection
"satisfying assignments ↔ partitions" -/
theorem counting_holds_iff_partition (M p : Nat) (a : Fin (countingF M p).nvars → Bool) :
    (countingF M p).holds (extend a) = true ↔ IsPartition M p (countToObj M p a) := by
  rw [counting_spec]
  have key : ∀ S : PSubset M p, extend a (countVar M p S.1) = countToObj M p a S := by
    intro S
    have hlt := psubset_idx_lt S
    simp only [countVar, countToObj]
    rw [show extend a (1 + (Vars.combosSeqs M p).idxOf S.1)
        = a ⟨1 + (Vars.combosSeqs M p).idxOf S.1 - 1, by omega⟩ from
      Fam.extend_apply a (by omega) (by omega)]
    congr 1; apply Fin.ext; simp
  constructor
  · intro h x h1 h2
    obtain ⟨S, hS, hx, hc, hu⟩ := h x h1 h2
    refine ⟨⟨S, hS⟩, hx, by rw [← key]; exact hc, ?_⟩
    intro S' hx' hc'
    apply Subtype.ext
    exact hu S'.1 S'.2 hx' (show extend a (countVar M p S'.1) = true by rw [key]; exact hc')
  · intro h x h1 h2
    obtain ⟨S, hx, hc, hu⟩ := h x h1 h2
    refine ⟨S.1, S.2, hx, show extend a (countVar M p S.1) = true by rw [key]; exact hc, ?_⟩
    intro S' hS' hx' hc'
    have := hu ⟨S', hS'⟩ hx' (by rw [← key]; exact hc')
    exact congrArg Subtype.val this

theorem counting_bijection (M p : Nat) :
    (∀ a, (countingF M p).holds (extend a) = true → IsPartition M p (countToObj M p a)) ∧
    (∀ T, IsPartition M p T → (countingF M p).holds (extend (countOfObj M p T)) = true) ∧
    (∀ a, countOfObj M p (countToObj M p a) = a) ∧ (∀ T, countToObj M p (countOfObj M p T) = T) :=
  ⟨fun a h => (counting_holds_iff_partition M p a).1 h,
   fun T h => (counting_holds_iff_partition M p _).2 (by rw [count_toObj_ofObj]; exact h),
   count_ofObj_toObj M p, count_toObj_ofObj M p⟩

end Cnfgen.C01
