/-
C01 — family generators as TRANSLATED from cnfgen/families/*.py (`Generated/Funcs.lean`, regenerated from the source on
every run): the generator is a procedure on the formula object (`Core/PyFormula.lean`: number of variables + abstract
constraints in order); it calls the translated `VariablesManager` procedures (`new_mapping`, `force_*_mapping`), which
call the translated group classes.  The state it returns is the hand-written family model — so the specification,
satisfiability and bijection theorems of `Props/C01/*.lean` (and C08, C10) speak about what the source does now.
-/
import Lemmas.GenFam
import Props.C01.Php
import Props.C01.Bphp
import Props.C01.Gphp
set_option linter.unusedSimpArgs false
namespace Cnfgen.C01
open Cnfgen Cnfgen.Vars Cnfgen.PyGen Cnfgen.GenVars Cnfgen.Fam Cnfgen.PyF Cnfgen.GenFam

/-- the state of the formula object that a model `Formula` stands for -/
def stateOf (F : Formula) : FState := ⟨F.nvars, F.cons⟩

theorem gen_non_negative_int_eq (v : Int) (name : String) :
    non_negative_int v name = if v < 0 then Except.error Err.valueError else Except.ok () := by
  simp [non_negative_int]

/-- **`PigeonholePrinciple` of the source is `Fam.php` of the model**: every argument tuple (negative sizes included),
all four flag combinations — the same ValueError or the same number of variables and the same constraints in order -/
theorem gen_php_eq_model (pigeons holes : Int) (functional onto : Bool) :
    PigeonholePrinciple pigeons holes functional onto = (Fam.php pigeons holes functional onto).map stateOf := by
  unfold PigeonholePrinciple Fam.php
  simp only [gen_non_negative_int_eq]
  by_cases hp : pigeons < 0
  · simp [hp]
  · by_cases hh : holes < 0
    · simp [hp, hh]
    · have hneg : ¬ (pigeons < 0 ∨ holes < 0) := by omega
      simp only [hp, hh, if_false, Py.ok_bind, hneg]
      rw [new_mapping_eq PyF.empty 0 rfl, if_neg hneg]
      simp only [Py.tryExcept, Py.ok_bind]
      have hw := BipG.wf_complete pigeons.toNat holes.toNat
      rw [force_complete_unary_eq _ 0 hw, Py.ok_bind]
      rw [phpF_eq_gphp_complete]
      cases onto <;> cases functional <;>
        simp [force_surjective_unary_eq _ 0 hw, force_injective_unary_eq _ 0 hw, force_functional_unary_eq _ 0 hw,
          gphp, stateOf, PyF.empty, numberOfEdges_complete]

/-- the formula a state of the formula object stands for -/
def formulaOf (s : FState) : Formula := ⟨s.numvar.toNat, s.cons⟩

theorem formulaOf_stateOf (F : Formula) : formulaOf (stateOf F) = F := by
  cases F; simp [formulaOf, stateOf]

/-- **the pigeonhole principle of the source is unsatisfiable exactly when there are more pigeons than holes** — stated
on the generated definition: for all sizes and with or without the functional axioms, the translated generator
succeeds, declares `m·n` variables, and the formula it built (as abstract constraints, as the CNF the class `CNF`
renders, as the OPB the class `OPB` renders) has no satisfying assignment iff `n < m` -/
theorem gen_php_unsat_iff (m n : Nat) (f : Bool) :
    ∃ s : FState, PigeonholePrinciple (m : Int) (n : Int) f false = Except.ok s ∧ s.numvar = ((m * n : Nat) : Int) ∧
      ((¬ ∃ α, (formulaOf s).holds α = true) ↔ n < m) ∧
      ((¬ ∃ α, (formulaOf s).toCNF.holds α = true) ↔ n < m) ∧
      ((¬ ∃ α, (formulaOf s).toOPB.holds α = true) ↔ n < m) := by
  refine ⟨stateOf (phpF m n f false), ?_, rfl, ?_, ?_, ?_⟩
  · rw [gen_php_eq_model]
    have h : ¬ ((m : Int) < 0 ∨ (n : Int) < 0) := by omega
    simp [Fam.php, h]
  · rw [formulaOf_stateOf]; exact php_unsat_iff m n f
  · rw [formulaOf_stateOf]; exact php_cnf_unsat_iff m n f
  · rw [formulaOf_stateOf, ← php_unsat_iff m n f]
    simp only [Formula.toOPB_holds _ _ (php_wf m n f false)]

/-- non-vacuity: `PigeonholePrinciple(2, 1)`: 2 variables, two unit clauses and one "at most one" -/
example : PigeonholePrinciple 2 1 false false =
    Except.ok ⟨2, [.clause [1], .clause [2], .lin [1, 2] .le 1]⟩ := by rw [gen_php_eq_model]; rfl

/-! ## GraphPigeonholePrinciple -/

/-- **`GraphPigeonholePrinciple` of the source is `Fam.gphp` of the model**, for every well-formed bipartite graph
object (what `BipartiteGraph` maintains: C16) and all four flag combinations -/
theorem gen_gphp_eq_model {G : BipG} (h : G.WF) (functional onto : Bool) :
    GraphPigeonholePrinciple (absBip G) functional onto = Except.ok (stateOf (gphp G functional onto)) := by
  unfold GraphPigeonholePrinciple
  simp only []
  rw [new_sparse_mapping_eq PyF.empty 0 rfl h]
  simp only [Py.tryExcept, Py.ok_bind]
  rw [force_complete_unary_eq _ 0 h, Py.ok_bind]
  cases onto <;> cases functional <;>
    simp [force_surjective_unary_eq _ 0 h, force_injective_unary_eq _ 0 h, force_functional_unary_eq _ 0 h,
      gphp, stateOf, PyF.empty]

/-- **the graph pigeonhole principle of the source is satisfiable exactly when the graph has a matching that covers the
pigeons**, on the generated definition, for every bipartite graph object built by `add_edge` -/
theorem gen_gphp_sat_iff_matching (l r : Nat) (es : List (Nat × Nat)) (B : BipG) (h : BipG.ofEdges l r es = .ok B)
    (f : Bool) :
    ∃ s : FState, GraphPigeonholePrinciple (absBip B) f false = Except.ok s ∧
      s.numvar = ((B.numberOfEdges : Nat) : Int) ∧
      ((∃ α, (formulaOf s).holds α = true) ↔
        ∃ g : Nat → Nat, (∀ u, 1 ≤ u → u ≤ B.l → g u ∈ B.rnbrs u) ∧
          (∀ u, 1 ≤ u → u ≤ B.l → ∀ u', 1 ≤ u' → u' ≤ B.l → g u = g u' → u = u')) := by
  refine ⟨stateOf (gphp B f false), gen_gphp_eq_model (BipG.wf_ofEdges h).1 f false, rfl, ?_⟩
  rw [formulaOf_stateOf]
  exact gphp_sat_iff_matching B (goodBip_ofEdges l r es B h) f

/-! ## BinaryPigeonholePrinciple -/

/-- **`BinaryPigeonholePrinciple` of the source is `Fam.bphp` of the model**: `new_binary_mapping`, then
`force_complete_mapping` (the bit strings `holes … 2^bits - 1` are forbidden for every pigeon) and
`force_injective_mapping` (two pigeons never spell the same hole), through the translated `forbid` -/
theorem gen_bphp_eq_model (pigeons holes : Int) :
    BinaryPigeonholePrinciple pigeons holes = (Fam.bphp pigeons holes).map stateOf := by
  unfold BinaryPigeonholePrinciple Fam.bphp
  simp only [gen_non_negative_int_eq]
  by_cases hp : pigeons < 0
  · simp [hp]
  · by_cases hh : holes < 0
    · simp [hp, hh]
    · have hneg : ¬ (pigeons < 0 ∨ holes < 0) := by omega
      simp only [hp, hh, if_false, Py.ok_bind, hneg]
      rw [new_binary_mapping_eq PyF.empty 0 rfl, if_neg hneg]
      simp only [Py.ok_bind]
      rw [force_complete_binary_eq, Py.ok_bind, force_injective_binary_eq]
      simp [stateOf, bphpF, PyF.empty]

/-- **binary PHP of the source is satisfiable exactly when the pigeons fit**, on the generated definition, for the
abstract constraints and both renderings -/
theorem gen_bphp_sat_iff (m n : Nat) :
    ∃ s : FState, BinaryPigeonholePrinciple (m : Int) (n : Int) = Except.ok s ∧
      s.numvar = ((m * clog2 n : Nat) : Int) ∧
      ((∃ α, (formulaOf s).holds α = true) ↔ m ≤ n) ∧
      ((∃ α, (formulaOf s).toCNF.holds α = true) ↔ m ≤ n) ∧
      ((∃ α, (formulaOf s).toOPB.holds α = true) ↔ m ≤ n) := by
  refine ⟨stateOf (bphpF m n), ?_, rfl, ?_, ?_, ?_⟩
  · rw [gen_bphp_eq_model]
    have h : ¬ ((m : Int) < 0 ∨ (n : Int) < 0) := by omega
    simp [Fam.bphp, h]
  · rw [formulaOf_stateOf]; exact bphp_sat_iff m n
  · rw [formulaOf_stateOf, ← bphp_sat_iff m n]
    simp only [Formula.toCNF_holds _ _ (bphp_wf m n)]
  · rw [formulaOf_stateOf, ← bphp_sat_iff m n]
    simp only [Formula.toOPB_holds _ _ (bphp_wf m n)]

end Cnfgen.C01
