/-
C01 — BinaryPigeonholePrinciple(pigeons, holes): the satisfying assignments are the injections
from pigeons to holes, written in binary.
-/
import Lemmas.C01Binary
import Lemmas.C01Pigeon
namespace Cnfgen.C01
open Cnfgen Cnfgen.Fam

/-- the hole (0-based) that the bits `v(i, k-1) … v(i, 0)` of pigeon `i` spell under `α`,
`k = ⌈log₂ n⌉` bits per pigeon: `Σ_b [α(v(i,b))] · 2^b` -/
def bphpVal (α : Assign) (n i : Nat) : Nat :=
  Nat.ofBits (fun b : Fin (Vars.clog2 n) => α (Vars.binId 1 (Vars.clog2 n) i b))

/-- the documented statement: every pigeon names a hole `0 … n-1`, no two pigeons the same -/
structure BPHPSpec (m n : Nat) (val : Nat → Nat) : Prop where
  inRange : ∀ i, 1 ≤ i → i ≤ m → val i < n
  inj : ∀ i, 1 ≤ i → i ≤ m → ∀ i', 1 ≤ i' → i' ≤ m → val i = val i' → i = i'

/-- the bit length used by the generator is the least `k` with `n ≤ 2^k` -/
theorem bphp_bits (n : Nat) : n ≤ 2 ^ Vars.clog2 n ∧ ∀ b, b < Vars.clog2 n → 2 ^ b < n :=
  ⟨clog2_spec n, clog2_min n⟩

/-- T-C01.2: for all sizes and assignments -/
theorem bphp_spec (m n : Nat) (α : Assign) :
    (bphpF m n).holds α = true ↔ BPHPSpec m n (bphpVal α n) := by
  have hk := clog2_spec n
  have hval : ∀ i, bphpVal α n i = bval α 1 (Vars.clog2 n) i := fun _ => rfl
  simp only [bphpF, Formula.holds_mk, List.all_append, Bool.and_eq_true, List.all_flatMap, List.all_map,
    List.all_eq_true, mem_idx, mem_rangeN, List.mem_range, Function.comp, Con.holds]
  constructor
  · rintro ⟨h1, h2⟩
    have hr : ∀ i, 1 ≤ i → i ≤ m → bphpVal α n i < n := by
      intro i hi1 hi2
      rcases Nat.lt_or_ge (bphpVal α n i) n with hlt | hge
      · exact hlt
      · have hlt2 : bphpVal α n i < 2 ^ Vars.clog2 n := bval_lt α 1 _ i
        have := (forbid_true_iff α (Nat.le_refl 1) hi1 hlt2).1 (h1 i ⟨hi1, hi2⟩ _ ⟨hge, hlt2⟩)
        exact absurd (hval i).symm this
    refine ⟨hr, ?_⟩
    have key : ∀ i i', 1 ≤ i → i' ≤ m → i < i' → bphpVal α n i ≠ bphpVal α n i' := by
      intro i i' hi1 hi2' hlt heq
      have hy := hr i hi1 (by omega)
      have hc := h2 (bphpVal α n i) hy (i, i') (mem_pairs_idx.2 ⟨hi1, hlt, hi2'⟩)
      rw [clauseHolds_append, Bool.or_eq_true,
        forbid_true_iff α (Nat.le_refl 1) hi1 (by omega),
        forbid_true_iff α (Nat.le_refl 1) (show 1 ≤ i' by omega) (by omega)] at hc
      rcases hc with hc | hc
      · exact hc rfl
      · exact hc heq.symm
    intro i hi1 hi2 i' hi1' hi2' heq
    rcases Nat.lt_trichotomy i i' with hlt | he | hgt
    · exact absurd heq (key i i' hi1 hi2' hlt)
    · exact he
    · exact absurd heq.symm (key i' i hi1' hi2 hgt)
  · rintro ⟨hr, hi⟩
    refine ⟨?_, ?_⟩
    · intro i hi' j hj
      rw [forbid_true_iff α (Nat.le_refl 1) hi'.1 hj.2, ← hval]
      have := hr i hi'.1 hi'.2
      omega
    · intro y hy x hx
      obtain ⟨x1, x2⟩ := x
      rw [mem_pairs_idx] at hx
      rw [clauseHolds_append, Bool.or_eq_true,
        forbid_true_iff α (Nat.le_refl 1) hx.1 (by omega),
        forbid_true_iff α (Nat.le_refl 1) (show 1 ≤ x2 by omega) (by omega), ← hval, ← hval]
      by_cases h1 : bphpVal α n x1 = y
      · right
        intro h2
        have := hi x1 hx.1 (by omega) x2 (by omega) hx.2.2 (h1.trans h2.symm)
        omega
      · exact Or.inl h1

example : BPHPSpec 3 5 (fun i => i - 1) := ⟨by intros; omega, by intros; omega⟩

/-- every injection `g : [1..m] → {0..n-1}` is described by a satisfying assignment … -/
theorem bphp_realises (m n : Nat) (g : Nat → Nat) (h : BPHPSpec m n g) :
    (bphpF m n).holds (binAssignOf (Vars.clog2 n) g) = true ∧
    ∀ i, 1 ≤ i → i ≤ m → bphpVal (binAssignOf (Vars.clog2 n) g) n i = g i := by
  have hk := clog2_spec n
  have hv : ∀ i, 1 ≤ i → i ≤ m → bphpVal (binAssignOf (Vars.clog2 n) g) n i = g i :=
    fun i h1 h2 => bval_binAssignOf g h1 (by have := h.inRange i h1 h2; omega)
  refine ⟨(bphp_spec m n _).2 ⟨?_, ?_⟩, hv⟩
  · intro i h1 h2; rw [hv i h1 h2]; exact h.inRange i h1 h2
  · intro i h1 h2 i' h1' h2' e
    rw [hv i h1 h2, hv i' h1' h2'] at e
    exact h.inj i h1 h2 i' h1' h2' e

/-- … and by only one: two assignments that spell the same holes agree on every variable of
the formula (the variables `v(i, b)`, `1 ≤ i ≤ m`, `b < ⌈log₂ n⌉`) -/
theorem bphp_val_determines (m n : Nat) (α β : Assign)
    (h : ∀ i, 1 ≤ i → i ≤ m → bphpVal α n i = bphpVal β n i) :
    ∀ i b, 1 ≤ i → i ≤ m → b < Vars.clog2 n →
      α (Vars.binId 1 (Vars.clog2 n) i b) = β (Vars.binId 1 (Vars.clog2 n) i b) :=
  fun i b h1 h2 hb => bval_inj α β 1 _ i (h i h1 h2) b hb

/-- T-C01.2 corollary: satisfiable exactly when there are at most as many pigeons as holes
(`→` pigeonhole principle on the spelled holes, `←` pigeon `i` spells `i - 1`) -/
theorem bphp_sat_iff (m n : Nat) : (∃ α, (bphpF m n).holds α = true) ↔ m ≤ n := by
  constructor
  · rintro ⟨α, hα⟩
    obtain ⟨hr, hi⟩ := (bphp_spec m n α).1 hα
    apply le_of_total_injective m n (fun i v => bphpVal α n i + 1 = v)
    · intro i h1 h2; exact ⟨_, by omega, by have := hr i h1 h2; omega, rfl⟩
    · intro v _ _ i h1 h2 i' h1' h2' e e'
      exact hi i h1 h2 i' h1' h2' (by omega)
  · intro hmn
    exact ⟨_, (bphp_realises m n (fun i => i - 1) ⟨by intros; omega, by intros; omega⟩).1⟩

theorem bphp_wf (m n : Nat) : (bphpF m n).WF := by
  intro c hc
  simp only [bphpF, List.mem_append, List.mem_flatMap, List.mem_map, mem_idx] at hc
  rcases hc with ⟨i, hi, j, _, rfl⟩ | ⟨y, _, x, hx, rfl⟩
  · exact forbidLits_wf hi.1 hi.2
  · obtain ⟨x1, x2⟩ := x
    rw [mem_pairs_idx] at hx
    intro l hl
    rcases List.mem_append.1 hl with h | h
    · exact forbidLits_wf hx.1 (by omega) l h
    · exact forbidLits_wf (by omega) hx.2.2 l h

/-- documented variable count: `⌈log₂ holes⌉` bits per pigeon -/
theorem bphp_nvars (m n : Nat) : (bphpF m n).nvars = m * Vars.clog2 n := rfl

/-- parameter validation: ValueError exactly for a negative argument (the documented contract) -/
theorem bphp_validation (p h : Int) :
    bphp p h = if p < 0 ∨ h < 0 then .error .valueError else .ok (bphpF p.toNat h.toNat) := rfl

/-- what the docstring promises: every non-negative pair of parameters yields a formula -/
def BphpDocumentedDomain : Prop := ∀ p h : Int, 0 ≤ p → 0 ≤ h → ∃ F, bphp p h = .ok F

/-- the documented domain (`pigeons ≥ 0`, `holes ≥ 0`) is the accepted one.  Before the fix of D42 the code refused
zero pigeons and zero holes (`bphp 0 1` raised ValueError; the negation of this statement was proved here). -/
theorem bphp_documented_domain : BphpDocumentedDomain := by
  intro p h hp hh
  refine ⟨bphpF p.toNat h.toNat, ?_⟩
  rw [bphp_validation]
  have : ¬ (p < 0 ∨ h < 0) := by omega
  simp [this]

/-- regression witnesses of D42: no pigeons ⇒ the empty (satisfiable) formula; a pigeon and no hole ⇒ unsatisfiable -/
example : bphp 0 1 = .ok ⟨0, []⟩ := by rfl
example : ∃ F, bphp 1 0 = .ok F ∧ ¬ ∃ α, F.holds α = true :=
  ⟨bphpF 1 0, rfl, by rw [bphp_sat_iff]; omega⟩

theorem bphp_domain (p h : Int) (hp : 0 ≤ p) (hh : 0 ≤ h) :
    bphp p h = .ok (bphpF p.toNat h.toNat) := by
  rw [bphp_validation]
  have : ¬ (p < 0 ∨ h < 0) := by omega
  simp [this]

theorem bphp_cnf_spec (m n : Nat) (α : Assign) :
    (bphpF m n).toCNF.holds α = true ↔ BPHPSpec m n (bphpVal α n) := by
  rw [Formula.toCNF_holds α _ (bphp_wf m n)]; exact bphp_spec m n α

theorem bphp_opb_spec (m n : Nat) (α : Assign) :
    (bphpF m n).toOPB.holds α = true ↔ BPHPSpec m n (bphpVal α n) := by
  rw [Formula.toOPB_holds α _ (bphp_wf m n)]; exact bphp_spec m n α

end Cnfgen.C01
