/-
C01 — `PerfectMatchingPrinciple` as TRANSLATED from cnfgen/families/counting.py is `Fam.pmF` of the model, on every simple
graph object that satisfies the representation invariant of `Graph` (C16): the translated `new_graph_edges` builds the
auxiliary bipartite graph with the source's own loop (`Vars.graphAux`), whose neighbour lists are those of the model's
closed form `auxBip` (Lemmas/GenAuxBip.lean); `e(u, None)` goes through the translated `indices` (local generator) and
`_unsafe_index_to_lit`.
-/
import Lemmas.GenFamGraph
import Props.C01.Generated
import Props.C01.Matching
set_option linter.unusedSimpArgs false
namespace Cnfgen.C01
open Cnfgen Cnfgen.Vars Cnfgen.PyGen Cnfgen.GenVars Cnfgen.Fam Cnfgen.PyF Cnfgen.GenFam Cnfgen.C11 Cnfgen.GenAuxBip

/-- the invariant of `Graph` objects gives the hypotheses of the matching theorems -/
theorem goodSimple_of_inv (G : SimpleG) (h : SimpleG.Inv G) : GoodSimple G where
  nodup := fun u => h.nbrs_nodup u
  noloop := fun u hu => (h.nbrs_range hu).2.2.2.2 rfl
  sym := fun u v ⟨_, _, hv⟩ => by
    have r := h.nbrs_range hv
    exact ⟨r.2.2.1, r.2.2.2.1, h.mem_nbrs_comm.1 hv⟩

/-- **`PerfectMatchingPrinciple` of the source is `Fam.pmF` of the model** on every graph object with the invariant -/
theorem gen_pmp_eq_model (G : SimpleG) (hG : SimpleG.Inv G) :
    PerfectMatchingPrinciple (absGraph G) = Except.ok (stateOf (pmF G)) := by
  obtain ⟨B, hB⟩ := graphAux_ok G hG
  have hwfB := (graphAux_spec hB).1
  have hl : B.l = G.n := (graphAux_spec hB).2.1
  have hr : B.r = G.n := (graphAux_spec hB).2.2.1
  have hlt : ∀ a b, (a, b) ∈ B.edgeset → a < b := fun a b hab => ((graphAux_mem_edgeset hG hB a b).1 hab).1
  unfold PerfectMatchingPrinciple
  simp only []
  rw [new_graph_edges_eq PyF.empty 0 rfl hB]
  simp only [Py.ok_bind]
  have hverts : Py.Range.toList (absGraph G).vertices = ints (idx G.n) := range_toList_nat G.n
  have hwf := pm_wf G (goodSimple_of_inv G hG)
  have hnum := graphAux_numberOfEdges hG hB
  have hnv : ((0 + B.numberOfEdges : Nat) : Int) = (((pmF G).nvars : Nat) : Int) := by
    rw [pm_nvars, hnum, Nat.zero_add]
  rw [hverts, foldlM_push_nv (((pmF G).nvars : Nat) : Int) (ints (idx G.n)) _
    (fun u => Con.lin (pmStar G u.toNat) .eq 1) _ _ hnv]
  · simp [stateOf, PyF.empty, pmF, ints, List.map_map, Function.comp_def, hnum]
  · intro s x hx hs
    simp only [ints, List.mem_map] at hx
    obtain ⟨u, hu, rfl⟩ := hx
    have hu' := Fam.mem_idx.1 hu
    simp only [Int.ofNat_eq_natCast, Int.toNat_natCast,
      graph_call_row 0 hwfB hlt u ⟨⟨hu'.1, by omega⟩, ⟨hu'.1, by omega⟩⟩, Py.ok_bind, Nat.zero_add,
      graphAux_row hG hB, graphAux_col hG hB]
    have hc : Con.lin (pmStar G u) .eq 1 ∈ (pmF G).cons := by
      simp only [pmF, List.mem_map]; exact ⟨u, hu, rfl⟩
    exact cardinality_eq_wf hwf s hs _ 1 hc

/-- **the perfect matching principle of the source encodes the perfect matchings of the graph** — on the generated
definition, for every graph object built by `add_edge`: one variable per edge, and an assignment satisfies the formula
(abstract constraints, CNF, OPB) iff every vertex has exactly one selected incident edge -/
theorem gen_pmp_holds_iff (G : SimpleG) (hG : SimpleG.Inv G) :
    ∃ s : FState, PerfectMatchingPrinciple (absGraph G) = Except.ok s ∧
      s.numvar = (((auxBip G).numberOfEdges : Nat) : Int) ∧
      ∀ α, ((formulaOf s).holds α = true ↔ PMSpec G (pmRel G α)) ∧
        ((formulaOf s).toCNF.holds α = true ↔ PMSpec G (pmRel G α)) ∧
        ((formulaOf s).toOPB.holds α = true ↔ PMSpec G (pmRel G α)) := by
  have hg := goodSimple_of_inv G hG
  refine ⟨stateOf (pmF G), gen_pmp_eq_model G hG, rfl, ?_⟩
  intro α
  rw [formulaOf_stateOf]
  exact ⟨pm_spec G hg α, pm_cnf_spec G hg α, pm_opb_spec G hg α⟩

end Cnfgen.C01
