/-
C01 — `RelativizedPigeonholePrinciple` as TRANSLATED from cnfgen/families/pigeonhole.py is `Fam.rphp` of the model:
two complete mappings and a block created one after the other, five loops adding clauses with `check=True`
(the checks pass and leave the variable count alone because the formula is well formed: `rphp_wf`).
-/
import Lemmas.GenFamRphp
import Props.C01.Rphp
import Props.C01.Generated
set_option linter.unusedSimpArgs false
namespace Cnfgen.C01
open Cnfgen Cnfgen.Vars Cnfgen.PyGen Cnfgen.GenVars Cnfgen.Fam Cnfgen.PyF Cnfgen.GenFam Cnfgen.C11

theorem gen_rphp_eq_model (pigeons resting holes : Int) :
    RelativizedPigeonholePrinciple pigeons resting holes = (Fam.rphp pigeons resting holes).map stateOf := by
  unfold RelativizedPigeonholePrinciple Fam.rphp
  simp only [gen_non_negative_int_eq]
  by_cases hp : pigeons < 0
  · simp [hp]
  by_cases hr : resting < 0
  · simp [hp, hr]
  by_cases hh : holes < 0
  · simp [hp, hr, hh]
  have hneg : ¬ (pigeons < 0 ∨ resting < 0 ∨ holes < 0) := by omega
  simp only [hp, hr, hh, if_false, Py.ok_bind, hneg]
  obtain ⟨m, rfl⟩ := Int.eq_ofNat_of_zero_le (by omega : 0 ≤ pigeons)
  obtain ⟨r, rfl⟩ := Int.eq_ofNat_of_zero_le (by omega : 0 ≤ resting)
  obtain ⟨n, rfl⟩ := Int.eq_ofNat_of_zero_le (by omega : 0 ≤ holes)
  simp only [Int.toNat_natCast]
  -- p, q, r
  rw [new_mapping_eq PyF.empty 0 rfl, if_neg (by omega)]
  simp only [Py.tryExcept, Py.ok_bind, Int.toNat_natCast]
  rw [new_mapping_eq _ (0 + m * r) rfl, if_neg (by omega)]
  simp only [Py.tryExcept, Py.ok_bind, Int.toNat_natCast, Nat.zero_add]
  have hdomp := gen_unary_domain_none 0 (BipG.complete m r)
  have hrngp := gen_unary_range_none 0 (BipG.complete m r)
  have hdomq := gen_unary_domain_none (m * r) (BipG.complete r n)
  have hrngq := gen_unary_range_none (m * r) (BipG.complete r n)
  have hl1 : (BipG.complete m r).l = m := rfl
  have hl2 : (BipG.complete m r).r = r := rfl
  have hl3 : (BipG.complete r n).l = r := rfl
  have hl4 : (BipG.complete r n).r = n := rfl
  rw [hl1] at hdomp; rw [hl2] at hrngp; rw [hl3] at hdomq; rw [hl4] at hrngq
  rw [hdomp, hrngp, hdomq, hrngq]
  simp only [Py.ok_bind, range'_eq_idx]
  have hwf := rphp_wf m r n
  have hN : (rphpF m r n).nvars = m * r + r * n + r := rfl
  by_cases hr0 : r = 0
  · subst hr0
    simp only [Int.natCast_zero, gt_iff_lt, Int.lt_irrefl, if_false, Py.ok_bind]
    have hnv0 : ((m * 0 + 0 * n : Nat) : Int) = (((rphpF m 0 n).nvars : Nat) : Int) := by rw [hN]; rfl
    rw [foldlM_push_nv ((rphpF m 0 n).nvars : Int) (ints (idx m)) _
      (fun u => Con.clause ((UMap.mk 1 m 0).row u.toNat)) _ _ hnv0]
    rotate_left
    · intro s x hx hs
      simp only [ints, List.mem_map] at hx
      obtain ⟨a, ha, rfl⟩ := hx
      have ha' := mem_idx.1 ha
      simp only [Int.ofNat_eq_natCast, unary_call_row 0 (BipG.wf_complete m 0) a ha', Py.ok_bind, Int.toNat_natCast,
        smap_row_complete_start (0 + 1) m 0 a ha', Nat.zero_add]
      exact add_clause_wf hwf s hs _
        (by simp only [rphpF, List.mem_append, List.mem_map]; exact Or.inl (Or.inl (Or.inl (Or.inl ⟨a, ha, rfl⟩))))
    have hi0 : idx 0 = [] := rfl
    simp only [Py.ok_bind, hi0, ints, List.map_nil, Py.product2, Py.combos2, List.flatMap_nil, List.foldlM_nil, pure,
      Except.pure, Py.map_ok, stateOf, rphpF, PyF.empty, pairs, List.append_nil, List.nil_append,
      List.map_map, Function.comp_def, Int.toNat_natCast, Int.ofNat_eq_natCast]
    have hfm : ∀ (l : List Int), List.flatMap (fun (_ : Int) => ([] : List (Int × Int × Int))) l = [] := by
      intro l; induction l <;> simp_all
    have hfn : ∀ (l : List Nat), List.flatMap (fun (_ : Nat) => ([] : List Con)) l = [] := by
      intro l; induction l <;> simp_all
    simp [hfm, hfn, stateOf]
  · have hrpos : (r : Int) > 0 := by omega
    rw [if_pos hrpos]
    have hlen : Py.len [(r : Int)] ≥ 1 := by simp
    rw [if_pos hlen, new_block_one_eq _ (m * r + r * n) rfl r]
    simp only [Py.ok_bind, Py.bound]
    have hnv : ((m * r + r * n + r : Nat) : Int) = (((rphpF m r n).nvars : Nat) : Int) := by
      rw [hN]
    -- (3.1a)
    rw [foldlM_push_nv ((rphpF m r n).nvars : Int) (ints (idx m)) _
      (fun u => Con.clause ((UMap.mk 1 m r).row u.toNat)) _ _ hnv]
    rotate_left
    · intro s x hx hs
      simp only [ints, List.mem_map] at hx
      obtain ⟨a, ha, rfl⟩ := hx
      have ha' := mem_idx.1 ha
      simp only [Int.ofNat_eq_natCast, unary_call_row 0 (BipG.wf_complete m r) a ha', Py.ok_bind, Int.toNat_natCast,
        smap_row_complete_start (0 + 1) m r a ha', Nat.zero_add]
      exact add_clause_wf hwf s hs _
        (by simp only [rphpF, List.mem_append, List.mem_map]; exact Or.inl (Or.inl (Or.inl (Or.inl ⟨a, ha, rfl⟩))))
    simp only [Py.ok_bind]
    -- (3.1b)
    rw [foldlM_push_nv ((rphpF m r n).nvars : Int) (ints (idx r)) _
      (fun v => Con.lin ((UMap.mk 1 m r).col v.toNat) .le 1) _ _ hnv]
    rotate_left
    · intro s x hx hs
      simp only [ints, List.mem_map] at hx
      obtain ⟨a, ha, rfl⟩ := hx
      have ha' := mem_idx.1 ha
      simp only [Int.ofNat_eq_natCast, unary_call_col 0 (BipG.wf_complete m r) a ha', Py.ok_bind, Int.toNat_natCast,
        smap_col_complete_start (0 + 1) m r a ha', Nat.zero_add]
      exact cardinality_leq_wf hwf s hs _ _
        (by simp only [rphpF, List.mem_append, List.mem_map]; exact Or.inl (Or.inl (Or.inl (Or.inr ⟨a, ha, rfl⟩))))
    simp only [Py.ok_bind]
    -- (3.1c)
    have hstart : m * r + r * n + 1 = 1 + m * r + r * n := by omega
    rw [foldlM_push_nv ((rphpF m r n).nvars : Int) (Py.product2 (ints (idx r)) (ints (idx m))) _
      (fun x => Con.clause [-((UMap.mk 1 m r).lit x.2.toNat x.1.toNat), rphpR m r n x.1.toNat]) _ _ hnv]
    rotate_left
    · intro s x hx hs
      simp only [Py.product2, ints, List.mem_flatMap, List.mem_map] at hx
      obtain ⟨v', ⟨v, hv, rfl⟩, u', ⟨u, hu, rfl⟩, rfl⟩ := hx
      have hv' := mem_idx.1 hv
      have hu' := mem_idx.1 hu
      simp only [Int.ofNat_eq_natCast, unary_call_pair_complete 0 m r u v hu' hv', Py.ok_bind,
        block_call_one (m * r + r * n) r v hv', Int.toNat_natCast, Nat.zero_add, hstart]
      exact add_clause_wf hwf s hs _
        (by simp only [rphpF, rphpR, List.mem_append, List.mem_map, List.mem_flatMap]
            exact Or.inl (Or.inl (Or.inr ⟨v, hv, u, hu, rfl⟩)))
    simp only [Py.ok_bind]
    -- (3.1d)
    rw [foldlM_push_nv ((rphpF m r n).nvars : Int) (ints (idx r)) _
      (fun v => Con.clause (-(rphpR m r n v.toNat) :: (UMap.mk (1 + m * r) r n).row v.toNat)) _ _ hnv]
    rotate_left
    · intro s x hx hs
      simp only [ints, List.mem_map] at hx
      obtain ⟨v, hv, rfl⟩ := hx
      have hv' := mem_idx.1 hv
      have hq : m * r + 1 = 1 + m * r := by omega
      simp only [Int.ofNat_eq_natCast, block_call_one (m * r + r * n) r v hv', Py.ok_bind,
        unary_call_row (m * r) (BipG.wf_complete r n) v hv', Int.toNat_natCast,
        smap_row_complete_start (1 + m * r) r n v hv', hstart, hq, List.singleton_append]
      exact add_clause_wf hwf s hs _
        (by simp only [rphpF, rphpR, List.mem_append, List.mem_map, List.mem_flatMap]
            exact Or.inl (Or.inr ⟨v, hv, rfl⟩))
    simp only [Py.ok_bind]
    -- (3.1e)
    rw [foldlM_push_nv ((rphpF m r n).nvars : Int) (Py.product2 (ints (idx n)) (Py.combos2 (ints (idx r)))) _
      (fun x => Con.clause [-(rphpR m r n x.2.1.toNat), -(rphpR m r n x.2.2.toNat),
        -((UMap.mk (1 + m * r) r n).lit x.2.1.toNat x.1.toNat), -((UMap.mk (1 + m * r) r n).lit x.2.2.toNat x.1.toNat)]) _ _ hnv]
    rotate_left
    · intro s x hx hs
      simp only [Py.product2, combos2_eq_pairs, ints, pairs_map, List.mem_flatMap, List.mem_map] at hx
      obtain ⟨w', ⟨w, hw, rfl⟩, x', ⟨⟨v1, v2⟩, hv, rfl⟩, rfl⟩ := hx
      have hw' := mem_idx.1 hw
      have hvv := mem_pairs_idx.1 hv
      have h1 : 1 ≤ v1 ∧ v1 ≤ r := by omega
      have h2 : 1 ≤ v2 ∧ v2 ≤ r := by omega
      have hq : m * r + 1 = 1 + m * r := by omega
      simp only [Int.ofNat_eq_natCast, block_call_one (m * r + r * n) r v1 h1,
        block_call_one (m * r + r * n) r v2 h2, Py.ok_bind,
        unary_call_pair_complete (m * r) r n v1 w h1 hw', unary_call_pair_complete (m * r) r n v2 w h2 hw',
        Int.toNat_natCast, hstart, hq]
      exact add_clause_wf hwf s hs _
        (by simp only [rphpF, rphpR, List.mem_append, List.mem_map, List.mem_flatMap]
            exact Or.inr ⟨w, hw, (v1, v2), hv, rfl⟩)
    -- the state is the model's formula
    simp only [Py.ok_bind, Py.map_ok, stateOf, rphpF, PyF.empty]
    congr 1
    simp only [Py.product2, combos2_eq_pairs, ints, pairs_map, List.map_map, List.flatMap_map, List.map_flatMap,
      Function.comp_def, Int.toNat_natCast, Int.ofNat_eq_natCast, List.nil_append]
    rfl

/-- **the relativized pigeonhole principle of the source is satisfiable exactly when `m ≤ r` and `m ≤ n`**, on the
generated definition, for the abstract constraints and both renderings -/
theorem gen_rphp_sat_iff (m r n : Nat) :
    ∃ s : FState, RelativizedPigeonholePrinciple (m : Int) (r : Int) (n : Int) = Except.ok s ∧
      s.numvar = ((m * r + r * n + r : Nat) : Int) ∧
      ((∃ α, (formulaOf s).holds α = true) ↔ m ≤ r ∧ m ≤ n) ∧
      ((∃ α, (formulaOf s).toCNF.holds α = true) ↔ m ≤ r ∧ m ≤ n) ∧
      ((∃ α, (formulaOf s).toOPB.holds α = true) ↔ m ≤ r ∧ m ≤ n) := by
  refine ⟨stateOf (rphpF m r n), ?_, rfl, ?_, ?_, ?_⟩
  · rw [gen_rphp_eq_model]
    have h : ¬ ((m : Int) < 0 ∨ (r : Int) < 0 ∨ (n : Int) < 0) := by omega
    simp [Fam.rphp, h]
  · rw [formulaOf_stateOf]; exact rphp_sat_iff m r n
  · rw [formulaOf_stateOf, ← rphp_sat_iff m r n]
    simp only [Formula.toCNF_holds _ _ (rphp_wf m r n)]
  · rw [formulaOf_stateOf, ← rphp_sat_iff m r n]
    simp only [Formula.toOPB_holds _ _ (rphp_wf m r n)]

end Cnfgen.C01
