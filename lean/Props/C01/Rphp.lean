/-
C01 — RelativizedPigeonholePrinciple(pigeons, resting_places, holes): axioms 3.1a–e say what
they are documented to say; satisfiable iff `m ≤ r` and `m ≤ n`.
-/
import Lemmas.C01Rphp
namespace Cnfgen.C01
open Cnfgen Cnfgen.Fam

/-- `p_{u,v}`: pigeon `u` rests at place `v` -/
def rphpP (r : Nat) (α : Assign) (u v : Nat) : Prop := α (Vars.mapId 1 r u v) = true
/-- `q_{v,w}`: the pigeon resting at `v` flies to hole `w` -/
def rphpQ (m r n : Nat) (α : Assign) (v w : Nat) : Prop := α (Vars.mapId (1 + m * r) n v w) = true
/-- `r_v`: resting place `v` is active -/
def rphpA (m r n : Nat) (α : Assign) (v : Nat) : Prop := α (1 + m * r + r * n + (v - 1)) = true

/-- the documented statement (axioms 3.1a–3.1e of [ALN16]) -/
structure RPHPSpec (m r n : Nat) (P : Nat → Nat → Prop) (A : Nat → Prop) (Q : Nat → Nat → Prop) : Prop where
  /-- 3.1a each pigeon rests somewhere -/
  rest : ∀ u, 1 ≤ u → u ≤ m → ∃ v, 1 ≤ v ∧ v ≤ r ∧ P u v
  /-- 3.1b no two pigeons rest in the same place -/
  noShare : ∀ v, 1 ≤ v → v ≤ r → ∀ u, 1 ≤ u → u ≤ m → ∀ u', 1 ≤ u' → u' ≤ m → P u v → P u' v → u = u'
  /-- 3.1c a place where a pigeon rests is active -/
  active : ∀ v, 1 ≤ v → v ≤ r → ∀ u, 1 ≤ u → u ≤ m → P u v → A v
  /-- 3.1d from an active place the pigeon flies to some hole -/
  leave : ∀ v, 1 ≤ v → v ≤ r → A v → ∃ w, 1 ≤ w ∧ w ≤ n ∧ Q v w
  /-- 3.1e two active places do not send to the same hole -/
  noClash : ∀ w, 1 ≤ w → w ≤ n → ∀ v₁ v₂, 1 ≤ v₁ → v₁ < v₂ → v₂ ≤ r →
    ¬ (A v₁ ∧ A v₂ ∧ Q v₁ w ∧ Q v₂ w)

/-- T-C01.3: for all sizes and assignments -/
theorem rphp_spec (m r n : Nat) (α : Assign) :
    (rphpF m r n).holds α = true ↔
      RPHPSpec m r n (rphpP r α) (rphpA m r n α) (rphpQ m r n α) := by
  have hp : 0 < (UMap.mk 1 m r).start := by simp
  have hq : 0 < (UMap.mk (1 + m * r) r n).start := by simp only []; omega
  have ha := UMap.forceComplete_holds (UMap.mk 1 m r) hp α
  have hb := UMap.forceInjective_holds (UMap.mk 1 m r) hp α
  simp only [UMap.forceComplete, UMap.forceInjective] at ha hb
  have hc : ((idx r).flatMap fun v => (idx m).map fun u =>
        Con.clause [-((UMap.mk 1 m r).lit u v), rphpR m r n v]).all (Con.holds α) = true ↔
      ∀ v, 1 ≤ v → v ≤ r → ∀ u, 1 ≤ u → u ≤ m → rphpP r α u v → rphpA m r n α v := by
    simp only [List.all_flatMap, List.all_map, List.all_eq_true, mem_idx, Function.comp, Con.holds,
      rphp_c_holds]
    exact ⟨fun h v a b u c d => h v ⟨a, b⟩ u ⟨c, d⟩, fun h v hv u hu => h v hv.1 hv.2 u hu.1 hu.2⟩
  have hd : ((idx r).map fun v =>
        Con.clause (-(rphpR m r n v) :: (UMap.mk (1 + m * r) r n).row v)).all (Con.holds α) = true ↔
      ∀ v, 1 ≤ v → v ≤ r → rphpA m r n α v → ∃ w, 1 ≤ w ∧ w ≤ n ∧ rphpQ m r n α v w := by
    simp only [List.all_map, List.all_eq_true, mem_idx, Function.comp, Con.holds,
      rphp_d_holds α _ hq]
    exact ⟨fun h v a b => h v ⟨a, b⟩, fun h v hv => h v hv.1 hv.2⟩
  have he : ((idx n).flatMap fun w => (pairs (idx r)).map fun v =>
        Con.clause [-(rphpR m r n v.1), -(rphpR m r n v.2), -((UMap.mk (1 + m * r) r n).lit v.1 w),
          -((UMap.mk (1 + m * r) r n).lit v.2 w)]).all (Con.holds α) = true ↔
      ∀ w, 1 ≤ w → w ≤ n → ∀ v₁ v₂, 1 ≤ v₁ → v₁ < v₂ → v₂ ≤ r →
        ¬ (rphpA m r n α v₁ ∧ rphpA m r n α v₂ ∧ rphpQ m r n α v₁ w ∧ rphpQ m r n α v₂ w) := by
    simp only [List.all_flatMap, List.all_map, List.all_eq_true, mem_idx, Function.comp, Con.holds,
      rphp_e_holds]
    constructor
    · intro h w a b v₁ v₂ c d e
      exact h w ⟨a, b⟩ (v₁, v₂) (mem_pairs_idx.2 ⟨c, d, e⟩)
    · intro h w hw x hx
      obtain ⟨v₁, v₂⟩ := x
      rw [mem_pairs_idx] at hx
      exact h w hw.1 hw.2 v₁ v₂ hx.1 hx.2.1 hx.2.2
  simp only [rphpF, Formula.holds_mk, List.all_append, Bool.and_eq_true]
  rw [ha, hb, hc, hd, he]
  constructor
  · rintro ⟨⟨⟨⟨h1, h2⟩, h3⟩, h4⟩, h5⟩; exact ⟨h1, h2, h3, h4, h5⟩
  · rintro ⟨h1, h2, h3, h4, h5⟩; exact ⟨⟨⟨⟨h1, h2⟩, h3⟩, h4⟩, h5⟩

example : RPHPSpec 1 2 1 (fun u v => u = 1 ∧ v = 2) (fun v => v = 2) (fun v w => v = 2 ∧ w = 1) :=
  ⟨fun u _ _ => ⟨2, by omega, by omega, by omega, rfl⟩, by intros; omega,
   by intro v _ _ u _ _ h; exact h.2, by intro v _ _ h; exact ⟨1, by omega, by omega, h, rfl⟩,
   by intro w _ _ v₁ v₂ _ _ _ h; omega⟩

theorem rphp_wf (m r n : Nat) : (rphpF m r n).WF := by
  have hp : 0 < (UMap.mk 1 m r).start := by simp
  have hq : 0 < (UMap.mk (1 + m * r) r n).start := by simp only []; omega
  have hNp : (UMap.mk 1 m r).start + (UMap.mk 1 m r).dom * (UMap.mk 1 m r).rng ≤ (m * r + r * n + r) + 1 := by
    simp only []; omega
  have hNq : (UMap.mk (1 + m * r) r n).start + (UMap.mk (1 + m * r) r n).dom * (UMap.mk (1 + m * r) r n).rng
      ≤ (m * r + r * n + r) + 1 := by simp only []; omega
  intro c hc
  simp only [rphpF, List.mem_append, List.mem_flatMap, List.mem_map] at hc
  rcases hc with (((⟨u, hu, rfl⟩ | ⟨v, hv, rfl⟩) | ⟨v, hv, u, hu, rfl⟩) | ⟨v, hv, rfl⟩) | ⟨w, hw, x, hx, rfl⟩
  · exact UMap.row_wf _ hp hNp hu
  · exact UMap.col_wf _ hp hNp hv
  · intro l hl
    simp only [Con.lits, List.mem_cons, List.not_mem_nil, or_false] at hl
    rcases hl with rfl | rfl
    · exact UMap.neg_lit_wf _ hp hNp hu hv
    · exact ⟨(rphpR_wf m r n v hv).1, (rphpR_wf m r n v hv).2.1⟩
  · intro l hl
    simp only [Con.lits, List.mem_cons] at hl
    rcases hl with rfl | hl
    · exact ⟨(rphpR_wf m r n v hv).2.2.1, (rphpR_wf m r n v hv).2.2.2⟩
    · exact UMap.row_wf _ hq hNq hv l hl
  · obtain ⟨v₁, v₂⟩ := x
    have hx' := mem_pairs_idx.1 hx
    have h1 : v₁ ∈ idx r := mem_idx.2 ⟨hx'.1, by omega⟩
    have h2 : v₂ ∈ idx r := mem_idx.2 ⟨by omega, hx'.2.2⟩
    intro l hl
    simp only [Con.lits, List.mem_cons, List.not_mem_nil, or_false] at hl
    rcases hl with rfl | rfl | rfl | rfl
    · exact ⟨(rphpR_wf m r n v₁ h1).2.2.1, (rphpR_wf m r n v₁ h1).2.2.2⟩
    · exact ⟨(rphpR_wf m r n v₂ h2).2.2.1, (rphpR_wf m r n v₂ h2).2.2.2⟩
    · exact UMap.neg_lit_wf _ hq hNq h1 hw
    · exact UMap.neg_lit_wf _ hq hNq h2 hw

/-- documented variable count: `p` (m·r), `q` (r·n) and `r` (r) -/
theorem rphp_nvars (m r n : Nat) : (rphpF m r n).nvars = m * r + r * n + r := rfl

theorem rphp_validation (p t h : Int) :
    rphp p t h = if p < 0 ∨ t < 0 ∨ h < 0 then .error .valueError
      else .ok (rphpF p.toNat t.toNat h.toNat) := rfl

theorem rphp_cnf_spec (m r n : Nat) (α : Assign) :
    (rphpF m r n).toCNF.holds α = true ↔
      RPHPSpec m r n (rphpP r α) (rphpA m r n α) (rphpQ m r n α) := by
  rw [Formula.toCNF_holds α _ (rphp_wf m r n)]; exact rphp_spec m r n α

theorem rphp_opb_spec (m r n : Nat) (α : Assign) :
    (rphpF m r n).toOPB.holds α = true ↔
      RPHPSpec m r n (rphpP r α) (rphpA m r n α) (rphpQ m r n α) := by
  rw [Formula.toOPB_holds α _ (rphp_wf m r n)]; exact rphp_spec m r n α

/-- the specification only looks at in-range indices -/
theorem RPHPSpec_congr {m r n : Nat} {P P' : Nat → Nat → Prop} {A A' : Nat → Prop} {Q Q' : Nat → Nat → Prop}
    (hP : ∀ u v, 1 ≤ u → u ≤ m → 1 ≤ v → v ≤ r → (P u v ↔ P' u v))
    (hA : ∀ v, 1 ≤ v → v ≤ r → (A v ↔ A' v))
    (hQ : ∀ v w, 1 ≤ v → v ≤ r → 1 ≤ w → w ≤ n → (Q v w ↔ Q' v w)) :
    RPHPSpec m r n P A Q → RPHPSpec m r n P' A' Q' := by
  rintro ⟨h1, h2, h3, h4, h5⟩
  refine ⟨?_, ?_, ?_, ?_, ?_⟩
  · intro u a b
    obtain ⟨v, c, d, e⟩ := h1 u a b
    exact ⟨v, c, d, (hP u v a b c d).1 e⟩
  · intro v a b u c d u' c' d' e e'
    exact h2 v a b u c d u' c' d' ((hP u v c d a b).2 e) ((hP u' v c' d' a b).2 e')
  · intro v a b u c d e
    exact (hA v a b).1 (h3 v a b u c d ((hP u v c d a b).2 e))
  · intro v a b e
    obtain ⟨w, c, d, f⟩ := h4 v a b ((hA v a b).2 e)
    exact ⟨w, c, d, (hQ v w a b c d).1 f⟩
  · intro w a b v₁ v₂ c d e ⟨f1, f2, f3, f4⟩
    exact h5 w a b v₁ v₂ c d e ⟨(hA v₁ c (by omega)).2 f1, (hA v₂ (by omega) e).2 f2,
      (hQ v₁ w c (by omega) a b).2 f3, (hQ v₂ w (by omega) e a b).2 f4⟩

/-- every triple (resting relation, active places, flying relation) with the documented
properties is described by a satisfying assignment -/
theorem rphp_realises (m r n : Nat) (P Q : Nat → Nat → Bool) (A : Nat → Bool)
    (h : RPHPSpec m r n (fun u v => P u v = true) (fun v => A v = true) (fun v w => Q v w = true)) :
    (rphpF m r n).holds (rphpAssign m r n P Q A) = true := by
  rw [rphp_spec]
  refine RPHPSpec_congr ?_ ?_ ?_ h
  · intro u v a b c d; simp only [rphpP, rphpAssign_p m r n P Q A a b c d]
  · intro v a _; simp only [rphpA, rphpAssign_r m r n P Q A a]
  · intro v w a b c d; simp only [rphpQ, rphpAssign_q m r n P Q A a b c d]

/-- T-C01.3 corollary: satisfiable exactly when `m ≤ r` and `m ≤ n`.  (The docstring's
"only satisfiable when m ≤ t ≤ n" is not the exact condition: `t ≤ n` is not necessary.) -/
theorem rphp_sat_iff (m r n : Nat) : (∃ α, (rphpF m r n).holds α = true) ↔ m ≤ r ∧ m ≤ n := by
  constructor
  · rintro ⟨α, hα⟩
    obtain ⟨h1, h2, h3, h4, h5⟩ := (rphp_spec m r n α).1 hα
    refine ⟨le_of_total_injective m r _ h1 h2, ?_⟩
    -- pigeon ↦ hole of its resting place is total and injective
    apply le_of_total_injective m n
      (fun u w => ∃ v, 1 ≤ v ∧ v ≤ r ∧ rphpP r α u v ∧ rphpA m r n α v ∧ rphpQ m r n α v w)
    · intro u hu1 hu2
      obtain ⟨v, hv1, hv2, hP⟩ := h1 u hu1 hu2
      have hA := h3 v hv1 hv2 u hu1 hu2 hP
      obtain ⟨w, hw1, hw2, hQ⟩ := h4 v hv1 hv2 hA
      exact ⟨w, hw1, hw2, v, hv1, hv2, hP, hA, hQ⟩
    · rintro w hw1 hw2 u hu1 hu2 u' hu1' hu2' ⟨v, hv1, hv2, hP, hA, hQ⟩ ⟨v', hv1', hv2', hP', hA', hQ'⟩
      have hvv : v = v' := by
        rcases Nat.lt_trichotomy v v' with hlt | he | hgt
        · exact absurd ⟨hA, hA', hQ, hQ'⟩ (h5 w hw1 hw2 v v' hv1 hlt hv2')
        · exact he
        · exact absurd ⟨hA', hA, hQ', hQ⟩ (h5 w hw1 hw2 v' v hv1' hgt hv2)
      subst hvv
      exact h2 v hv1 hv2 u hu1 hu2 u' hu1' hu2' hP hP'
  · rintro ⟨hmr, hmn⟩
    -- pigeon u rests at place u, which is active and sends it to hole u
    refine ⟨_, rphp_realises m r n (fun u v => u == v) (fun v w => v == w && decide (v ≤ m))
      (fun v => decide (v ≤ m)) ⟨?_, ?_, ?_, ?_, ?_⟩⟩
    · intro u hu1 hu2; exact ⟨u, hu1, by omega, by simp⟩
    · intro v _ _ u _ _ u' _ _ hP hP'
      simp only [beq_iff_eq] at hP hP'; omega
    · intro v _ _ u _ _ hP
      simp only [beq_iff_eq] at hP
      simp only [decide_eq_true_eq]; omega
    · intro v hv1 _ hA
      simp only [decide_eq_true_eq] at hA
      exact ⟨v, hv1, by omega, by simp [hA]⟩
    · intro w _ _ v₁ v₂ _ _ _ ⟨_, _, hQ, hQ'⟩
      simp only [Bool.and_eq_true, beq_iff_eq] at hQ hQ'
      omega

end Cnfgen.C01
