/-
C01 — "every such object is described by a satisfying assignment — by exactly one when the
documented variables are just the object": explicit bijections between the satisfying assignments
restricted to the variables `1..nvars` and the combinatorial objects, for the families not
covered by `Bijection.lean` (php, counting).  For every family: `…ToObj` / `…OfObj`, the two
inverse laws, `…_holds_iff_…` (satisfying ⇔ the described object is a documented object),
`…_bijection` (packaged as `php_bijection`), `…_bijection_unique` / `bphp_bijection` (`∃!` both
ways), `…_unique` (two total assignments describing the same object agree on `1..nvars`), and a
concrete non-trivial instance.

1. graph pigeonhole `gphp B f o` (`GoodBip B`): the sets of edges of `B` forming a left-total,
   right-injective [, functional] [, onto] relation (`EdgePlacement`);
2. perfect matching `pmF G` (`GoodSimple G`): the sets of edges of `G` covering every vertex
   exactly once (`IsPerfectMatching`);
3. subset cardinality `subsetCardF B eq` (`GoodBip B`): the 0/1 labellings of the edges of `B`
   within the degree bounds (`IsSCLabelling`);
   — in 1–3 the variable of an edge is `1 +` its position in `B.edges()` (`Lemmas/C01Bij2.lean`,
   `edgeIndex`), so an assignment to `1..|E|` *is* an indicator function on the edges;
4. binary pigeonhole `bphpF m n`: the injective functions `Fin m → Fin n`;
5. relativized pigeonhole `rphpF m r n`: the triples (resting relation, active places, flying
   relation) satisfying 3.1a–e (`RelPlacement`); the resting relation ALONE does not determine
   the assignment (`rphp_not_determined_by_resting`);
6. clique-colouring `cliqueColoringF n k c`: the triples (graph, clique map, colouring)
   (`CliqueColouring`).
-/
import Lemmas.C01Bij2
import Lemmas.C01BijSum
import Lemmas.C01CCIndex
import Props.C01.Bijection
import Props.C01.Gphp
import Props.C01.Matching
import Props.C01.SubsetCard
import Props.C01.Bphp
import Props.C01.Rphp
import Props.C01.CliqueColoring
import Mathlib.Logic.ExistsUnique
namespace Cnfgen.C01
open Cnfgen Cnfgen.Fam

/-! ## graph pigeonhole, perfect matching, subset cardinality -/

/-- a set of edges of the bipartite graph object `B`, as an indicator on the entries of
`B.edges()` (equivalently: a 0/1 labelling of the edges) -/
abbrev EdgeSet (B : BipG) := BEdge B → Bool

/-- the relation `{(u, v) ∈ E(B) | T (u, v)}` of an edge set -/
def relOf {B : BipG} (T : EdgeSet B) (u v : Nat) : Prop := edgeFn T u v = true

/-- an edge set is a sub-relation of `B` -/
theorem relOf_sub {B : BipG} (T : EdgeSet B) {u v : Nat} (h : relOf T u v) :
    1 ≤ u ∧ u ≤ B.l ∧ v ∈ B.rnbrs u := (mem_bip_edges B u v).1 (edgeFn_mem T h)

theorem relOf_iff {B : BipG} (T : EdgeSet B) (u v : Nat) :
    relOf T u v ↔ ∃ e : BEdge B, e.1 = (u, v) ∧ T e = true := by
  constructor
  · intro h
    have hm := edgeFn_mem T h
    exact ⟨⟨(u, v), hm⟩, rfl, by rw [← edgeFn_edge T hm]; exact h⟩
  · rintro ⟨⟨⟨u', v'⟩, hm⟩, he, hT⟩
    simp only [Prod.mk.injEq] at he
    obtain ⟨rfl, rfl⟩ := he
    show edgeFn T u' v' = true
    rw [edgeFn_edge T hm]; exact hT

/-! ### graph pigeonhole principle: assignments ↔ edge sets placing the pigeons -/

/-- the documented object of `GraphPigeonholePrinciple(B, functional, onto)`: a set `T` of edges
of `B` such that every left vertex has a selected edge, no two selected edges share their right
endpoint [, no two share their left endpoint] [, every right vertex has a selected edge] -/
structure EdgePlacement (B : BipG) (functional onto : Bool) (T : EdgeSet B) : Prop where
  total : ∀ u, 1 ≤ u → u ≤ B.l → ∃ e : BEdge B, e.1.1 = u ∧ T e = true
  inj : ∀ e e' : BEdge B, T e = true → T e' = true → e.1.2 = e'.1.2 → e = e'
  func : functional = true → ∀ e e' : BEdge B, T e = true → T e' = true → e.1.1 = e'.1.1 → e = e'
  surj : onto = true → ∀ v, 1 ≤ v → v ≤ B.r → ∃ e : BEdge B, e.1.2 = v ∧ T e = true

/-- the intrinsic description agrees with the specification over the adjacency lists -/
theorem edgePlacement_iff_spec (B : BipG) (hg : GoodBip B) (f o : Bool) (T : EdgeSet B) :
    EdgePlacement B f o T ↔ GPHPSpec B f o (relOf T) := by
  have hrel : ∀ e : BEdge B, T e = true → relOf T e.1.1 e.1.2 :=
    fun e h => (relOf_iff T _ _).2 ⟨e, rfl, h⟩
  constructor
  · rintro ⟨h1, h2, h3, h4⟩
    refine ⟨?_, ?_, ?_, ?_⟩
    · intro u a b
      obtain ⟨e, rfl, hT⟩ := h1 u a b
      exact ⟨e.1.2, e.spec.2.2, hrel e hT⟩
    · intro v _ _ u _ u' _ r r'
      obtain ⟨e, he, hT⟩ := (relOf_iff T u v).1 r
      obtain ⟨e', he', hT'⟩ := (relOf_iff T u' v).1 r'
      have := h2 e e' hT hT' (by rw [he, he'])
      rw [this, he'] at he
      exact (congrArg Prod.fst he).symm
    · intro hf u _ _ v _ v' _ r r'
      obtain ⟨e, he, hT⟩ := (relOf_iff T u v).1 r
      obtain ⟨e', he', hT'⟩ := (relOf_iff T u v').1 r'
      have := h3 hf e e' hT hT' (by rw [he, he'])
      rw [this, he'] at he
      exact (congrArg Prod.snd he).symm
    · intro ho v a b
      obtain ⟨e, rfl, hT⟩ := h4 ho v a b
      exact ⟨e.1.1, ((hg.adj _ _).1 e.spec).2.2, hrel e hT⟩
  · rintro ⟨h1, h2, h3, h4⟩
    refine ⟨?_, ?_, ?_, ?_⟩
    · intro u a b
      obtain ⟨v, _, r⟩ := h1 u a b
      obtain ⟨e, he, hT⟩ := (relOf_iff T u v).1 r
      exact ⟨e, by rw [he], hT⟩
    · intro e e' hT hT' hv
      have s := (hg.adj _ _).1 e.spec
      have s' := (hg.adj _ _).1 e'.spec
      rw [← hv] at s'
      have := h2 _ s.1 s.2.1 _ s.2.2 _ s'.2.2 (hrel e hT) (by rw [hv]; exact hrel e' hT')
      exact Subtype.ext (Prod.ext this hv)
    · intro hf e e' hT hT' hu
      have s := e.spec
      have s' := e'.spec
      rw [← hu] at s'
      have := h3 hf _ s.1 s.2.1 _ s.2.2 _ s'.2.2 (hrel e hT) (by rw [hu]; exact hrel e' hT')
      exact Subtype.ext (Prod.ext hu this)
    · intro ho v a b
      obtain ⟨u, _, r⟩ := h4 ho v a b
      obtain ⟨e, he, hT⟩ := (relOf_iff T u v).1 r
      exact ⟨e, by rw [he], hT⟩

/-- the edge set described by an assignment: the edge `(u, v)` is selected iff `p_{u,v}` is true -/
def gphpToObj (B : BipG) (hg : GoodBip B) (a : Fin B.numberOfEdges → Bool) : EdgeSet B :=
  (edgeIndex B hg).toObj a

/-- the assignment describing an edge set -/
def gphpOfObj (B : BipG) (hg : GoodBip B) (T : EdgeSet B) : Fin B.numberOfEdges → Bool :=
  (edgeIndex B hg).ofObj T

theorem gphp_ofObj_toObj (B : BipG) (hg : GoodBip B) (a : Fin B.numberOfEdges → Bool) :
    gphpOfObj B hg (gphpToObj B hg a) = a := (edgeIndex B hg).ofObj_toObj a

theorem gphp_toObj_ofObj (B : BipG) (hg : GoodBip B) (T : EdgeSet B) :
    gphpToObj B hg (gphpOfObj B hg T) = T := (edgeIndex B hg).toObj_ofObj T

/-- the variable `p_{u,v}` under `extend a` says whether the edge `(u, v)` is selected -/
theorem gphpRel_extend (B : BipG) (hg : GoodBip B) (a : Fin B.numberOfEdges → Bool) {u v : Nat}
    (h1 : 1 ≤ u) (h2 : u ≤ B.l) (hv : v ∈ B.rnbrs u) :
    gphpRel B (extend a) u v ↔ relOf (gphpToObj B hg a) u v := by
  simp only [gphpRel, relOf, gphpToObj]
  rw [show extend a (Vars.bipId B 1 u v) = _ from extend_bipId B hg a h1 h2 hv]

/-- the satisfying assignments (restricted to the `|E|` variables) are exactly the assignments
that describe a placement along the edges; with the two inverse laws this is the bijection
"satisfying assignments ↔ edge placements", for both flags and every graph object -/
theorem gphp_holds_iff_obj (B : BipG) (hg : GoodBip B) (f o : Bool) (a : Fin B.numberOfEdges → Bool) :
    (gphp B f o).holds (extend a) = true ↔ EdgePlacement B f o (gphpToObj B hg a) := by
  rw [gphp_spec B hg, edgePlacement_iff_spec B hg]
  constructor
  · exact GPHPSpec_congr hg (fun u v h1 h2 hv => gphpRel_extend B hg a h1 h2 hv)
  · exact GPHPSpec_congr hg (fun u v h1 h2 hv => (gphpRel_extend B hg a h1 h2 hv).symm)

/-- the bijection, packaged as in `php_bijection` -/
theorem gphp_bijection (B : BipG) (hg : GoodBip B) (f o : Bool) :
    (∀ a, (gphp B f o).holds (extend a) = true → EdgePlacement B f o (gphpToObj B hg a)) ∧
    (∀ T, EdgePlacement B f o T → (gphp B f o).holds (extend (gphpOfObj B hg T)) = true) ∧
    (∀ a, gphpOfObj B hg (gphpToObj B hg a) = a) ∧ (∀ T, gphpToObj B hg (gphpOfObj B hg T) = T) :=
  ⟨fun a h => (gphp_holds_iff_obj B hg f o a).1 h,
   fun T h => (gphp_holds_iff_obj B hg f o _).2 (by rw [gphp_toObj_ofObj]; exact h),
   gphp_ofObj_toObj B hg, gphp_toObj_ofObj B hg⟩

/-- … and as "exactly one": every satisfying restricted assignment is described by exactly one
edge placement, every edge placement by exactly one satisfying restricted assignment -/
theorem gphp_bijection_unique (B : BipG) (hg : GoodBip B) (f o : Bool) :
    (∀ a, (gphp B f o).holds (extend a) = true →
      ∃! T, EdgePlacement B f o T ∧ gphpOfObj B hg T = a) ∧
    (∀ T, EdgePlacement B f o T →
      ∃! a, (gphp B f o).holds (extend a) = true ∧ gphpToObj B hg a = T) :=
  (edgeIndex B hg).existsUnique _ _ (gphp_holds_iff_obj B hg f o)

/-- every satisfying (total) assignment describes the edge placement read off its restriction -/
theorem gphp_describes (B : BipG) (hg : GoodBip B) (f o : Bool) (α : Assign) :
    (gphp B f o).holds α = true ↔
      EdgePlacement B f o (gphpToObj B hg (Fam.restrict B.numberOfEdges α)) := by
  rw [← gphp_holds_iff_obj B hg f o, ← holds_restrict _ (gphp_wf B hg f o) α]
  rfl

/-- uniqueness for total assignments: two assignments that select the same edges agree on every
variable of the formula -/
theorem gphp_unique (B : BipG) (hg : GoodBip B) (f o : Bool) (α β : Assign)
    (h : ∀ u v, 1 ≤ u → u ≤ B.l → v ∈ B.rnbrs u → (gphpRel B α u v ↔ gphpRel B β u v)) :
    ∀ x, 1 ≤ x → x ≤ (gphp B f o).nvars → α x = β x := by
  apply (edgeIndex B hg).agree_of_toObj_eq
  intro e
  have := h _ _ e.spec.1 e.spec.2.1 e.spec.2.2
  simp only [gphpRel] at this
  rw [edgeIndex_var, Bool.eq_iff_iff]; exact this

/-! ### perfect matching principle: assignments ↔ perfect matchings -/

/-- the edges of the simple graph object `G`: the pairs `(u, v)`, `u < v`, `v` adjacent to `u`
(the oriented copy built by `GraphEdgesVariables`) -/
abbrev GEdge (G : SimpleG) := BEdge (auxBip G)

theorem GEdge.spec' {G : SimpleG} (e : GEdge G) :
    1 ≤ e.1.1 ∧ e.1.1 ≤ G.n ∧ e.1.2 ∈ G.nbrs e.1.1 ∧ e.1.1 < e.1.2 := by
  have s := BEdge.spec e
  rw [auxBip_l, auxBip_rnbrs, if_pos ⟨s.1, s.2.1⟩, List.mem_filter] at s
  exact ⟨s.1, s.2.1, s.2.2.1, by simpa using s.2.2.2⟩

theorem mem_auxBip_edges (G : SimpleG) (hg : GoodSimple G) {w x : Nat} (h1 : 1 ≤ w) (h2 : w ≤ G.n)
    (hx : x ∈ G.nbrs w) : (min w x, max w x) ∈ (auxBip G).edges := by
  rw [mem_bip_edges]
  have hs := hg.sym w x ⟨h1, h2, hx⟩
  have hne : x ≠ w := fun e => hg.noloop w (e ▸ hx)
  rw [auxBip_l, auxBip_rnbrs]
  rcases Nat.lt_or_gt_of_ne hne with hlt | hgt
  · have e1 : min w x = x := by omega
    have e2 : max w x = w := by omega
    rw [e1, e2, if_pos ⟨hs.1, hs.2.1⟩]
    exact ⟨hs.1, hs.2.1, List.mem_filter.2 ⟨hs.2.2, by simpa using hlt⟩⟩
  · have e1 : min w x = w := by omega
    have e2 : max w x = x := by omega
    rw [e1, e2, if_pos ⟨h1, h2⟩]
    exact ⟨h1, h2, List.mem_filter.2 ⟨hx, by simpa using hgt⟩⟩

/-- the edge `{w, x}` of `G` -/
def gEdge (G : SimpleG) (hg : GoodSimple G) {w x : Nat} (h1 : 1 ≤ w) (h2 : w ≤ G.n)
    (hx : x ∈ G.nbrs w) : GEdge G := ⟨(min w x, max w x), mem_auxBip_edges G hg h1 h2 hx⟩

/-- the documented object of `PerfectMatchingPrinciple(G)`: a set `T` of edges of `G` such that
every vertex is an endpoint of exactly one selected edge -/
def IsPerfectMatching (G : SimpleG) (T : EdgeSet (auxBip G)) : Prop :=
  ∀ w, 1 ≤ w → w ≤ G.n →
    ∃ e : GEdge G, (e.1.1 = w ∨ e.1.2 = w) ∧ T e = true ∧
      ∀ e' : GEdge G, (e'.1.1 = w ∨ e'.1.2 = w) → T e' = true → e' = e

/-- "the edge `{a, b}` is selected" -/
def pmRelOf {G : SimpleG} (T : EdgeSet (auxBip G)) (a b : Nat) : Prop :=
  relOf T (min a b) (max a b)

/-- the intrinsic description agrees with the specification over the adjacency lists -/
theorem isPerfectMatching_iff_spec (G : SimpleG) (hg : GoodSimple G) (T : EdgeSet (auxBip G)) :
    IsPerfectMatching G T ↔ PMSpec G (pmRelOf T) := by
  -- an edge at `w` is `{w, y}` for a neighbour `y` of `w`
  have other : ∀ (e : GEdge G) w, (e.1.1 = w ∨ e.1.2 = w) →
      ∃ y, y ∈ G.nbrs w ∧ y ≠ w ∧ e.1 = (min w y, max w y) := by
    intro e w hw
    have s := e.spec'
    rcases hw with rfl | rfl
    · refine ⟨e.1.2, s.2.2.1, by omega, ?_⟩
      apply Prod.ext <;> simp only [] <;> omega
    · refine ⟨e.1.1, (hg.sym _ _ ⟨s.1, s.2.1, s.2.2.1⟩).2.2, by omega, ?_⟩
      apply Prod.ext <;> simp only [] <;> omega
  have sel : ∀ (e : GEdge G) w y, e.1 = (min w y, max w y) → (T e = true ↔ pmRelOf T w y) := by
    intro e w y he
    rw [pmRelOf, relOf_iff]
    constructor
    · intro h; exact ⟨e, he, h⟩
    · rintro ⟨e', he', h⟩
      have : e' = e := Subtype.ext (he'.trans he.symm)
      rw [← this]; exact h
  constructor
  · intro h w h1 h2
    obtain ⟨e, hw, hT, hu⟩ := h w h1 h2
    obtain ⟨x, hx, hxw, he⟩ := other e w hw
    refine ⟨x, hx, (sel e w x he).1 hT, ?_⟩
    intro y hy hR
    have hyw : y ≠ w := fun e => hg.noloop w (e ▸ hy)
    have hcov : (gEdge G hg h1 h2 hy).1.1 = w ∨ (gEdge G hg h1 h2 hy).1.2 = w := by
      simp only [gEdge]; omega
    have := hu (gEdge G hg h1 h2 hy) hcov ((sel _ w y rfl).2 hR)
    have := congrArg Subtype.val this
    rw [he] at this
    simp only [gEdge, Prod.mk.injEq] at this
    omega
  · intro h w h1 h2
    obtain ⟨x, hx, hR, hu⟩ := h w h1 h2
    have hxw : x ≠ w := fun e => hg.noloop w (e ▸ hx)
    refine ⟨gEdge G hg h1 h2 hx, ?_, (sel _ w x rfl).2 hR, ?_⟩
    · simp only [gEdge]; omega
    · intro e' hw' hT'
      obtain ⟨y, hy, _, he'⟩ := other e' w hw'
      have := hu y hy ((sel e' w y he').1 hT')
      subst this
      exact Subtype.ext he'

/-- the edge set described by an assignment: `{u, v}` is selected iff `e_{u,v}` is true -/
def pmToObj (G : SimpleG) (hg : GoodSimple G) (a : Fin (auxBip G).numberOfEdges → Bool) :
    EdgeSet (auxBip G) := (edgeIndex (auxBip G) (goodBip_auxBip G hg)).toObj a

/-- the assignment describing an edge set -/
def pmOfObj (G : SimpleG) (hg : GoodSimple G) (T : EdgeSet (auxBip G)) :
    Fin (auxBip G).numberOfEdges → Bool := (edgeIndex (auxBip G) (goodBip_auxBip G hg)).ofObj T

theorem pm_ofObj_toObj (G : SimpleG) (hg : GoodSimple G) (a : Fin (auxBip G).numberOfEdges → Bool) :
    pmOfObj G hg (pmToObj G hg a) = a := (edgeIndex _ _).ofObj_toObj a

theorem pm_toObj_ofObj (G : SimpleG) (hg : GoodSimple G) (T : EdgeSet (auxBip G)) :
    pmToObj G hg (pmOfObj G hg T) = T := (edgeIndex _ _).toObj_ofObj T

theorem PMSpec_congr {G : SimpleG} {R R' : Nat → Nat → Prop}
    (h : ∀ w x, 1 ≤ w → w ≤ G.n → x ∈ G.nbrs w → (R w x ↔ R' w x)) : PMSpec G R → PMSpec G R' := by
  intro hs w h1 h2
  obtain ⟨x, hx, hR, hu⟩ := hs w h1 h2
  exact ⟨x, hx, (h w x h1 h2 hx).1 hR, fun y hy hy' => hu y hy ((h w y h1 h2 hy).2 hy')⟩

/-- the variable `e_{w,x}` under `extend a` says whether the edge `{w, x}` is selected -/
theorem pmRel_extend (G : SimpleG) (hg : GoodSimple G) (a : Fin (auxBip G).numberOfEdges → Bool)
    {w x : Nat} (h1 : 1 ≤ w) (h2 : w ≤ G.n) (hx : x ∈ G.nbrs w) :
    pmRel G (extend a) w x ↔ pmRelOf (pmToObj G hg a) w x := by
  have hm := (mem_bip_edges _ _ _).1 (mem_auxBip_edges G hg h1 h2 hx)
  simp only [pmRel, pmRelOf, relOf, pmToObj]
  rw [show extend a (Vars.bipId (auxBip G) 1 (min w x) (max w x)) = _ from
    extend_bipId (auxBip G) (goodBip_auxBip G hg) a hm.1 hm.2.1 hm.2.2]

/-- the satisfying assignments (restricted to the `|E|` variables) are exactly the assignments
that describe a perfect matching of `G` -/
theorem pm_holds_iff_obj (G : SimpleG) (hg : GoodSimple G) (a : Fin (auxBip G).numberOfEdges → Bool) :
    (pmF G).holds (extend a) = true ↔ IsPerfectMatching G (pmToObj G hg a) := by
  rw [pm_spec G hg, isPerfectMatching_iff_spec G hg]
  constructor
  · exact PMSpec_congr (fun w x h1 h2 hx => pmRel_extend G hg a h1 h2 hx)
  · exact PMSpec_congr (fun w x h1 h2 hx => (pmRel_extend G hg a h1 h2 hx).symm)

theorem pm_bijection (G : SimpleG) (hg : GoodSimple G) :
    (∀ a, (pmF G).holds (extend a) = true → IsPerfectMatching G (pmToObj G hg a)) ∧
    (∀ T, IsPerfectMatching G T → (pmF G).holds (extend (pmOfObj G hg T)) = true) ∧
    (∀ a, pmOfObj G hg (pmToObj G hg a) = a) ∧ (∀ T, pmToObj G hg (pmOfObj G hg T) = T) :=
  ⟨fun a h => (pm_holds_iff_obj G hg a).1 h,
   fun T h => (pm_holds_iff_obj G hg _).2 (by rw [pm_toObj_ofObj]; exact h),
   pm_ofObj_toObj G hg, pm_toObj_ofObj G hg⟩

theorem pm_bijection_unique (G : SimpleG) (hg : GoodSimple G) :
    (∀ a, (pmF G).holds (extend a) = true → ∃! T, IsPerfectMatching G T ∧ pmOfObj G hg T = a) ∧
    (∀ T, IsPerfectMatching G T →
      ∃! a, (pmF G).holds (extend a) = true ∧ pmToObj G hg a = T) :=
  (edgeIndex _ _).existsUnique _ _ (pm_holds_iff_obj G hg)

/-- every satisfying (total) assignment describes the perfect matching read off its restriction -/
theorem pm_describes (G : SimpleG) (hg : GoodSimple G) (α : Assign) :
    (pmF G).holds α = true ↔
      IsPerfectMatching G (pmToObj G hg (Fam.restrict (auxBip G).numberOfEdges α)) := by
  rw [← pm_holds_iff_obj G hg, ← holds_restrict _ (pm_wf G hg) α]
  rfl

/-- uniqueness for total assignments: two assignments that select the same edges of `G` agree on
every variable of the formula -/
theorem pm_unique (G : SimpleG) (hg : GoodSimple G) (α β : Assign)
    (h : ∀ w x, 1 ≤ w → w ≤ G.n → x ∈ G.nbrs w → (pmRel G α w x ↔ pmRel G β w x)) :
    ∀ x, 1 ≤ x → x ≤ (pmF G).nvars → α x = β x := by
  apply (edgeIndex (auxBip G) (goodBip_auxBip G hg)).agree_of_toObj_eq
  intro e
  have s := GEdge.spec' e
  have := h _ _ s.1 s.2.1 s.2.2.1
  simp only [pmRel, show min e.1.1 e.1.2 = e.1.1 by omega, show max e.1.1 e.1.2 = e.1.2 by omega] at this
  rw [edgeIndex_var, Bool.eq_iff_iff]; exact this

/-! ### subset cardinality formula: assignments ↔ edge labellings within the degree bounds -/

/-- the documented object of `SubsetCardinalityFormula(B, equalities)`: a 0/1 labelling `T` of
the edges of `B` with at least half (exactly `⌈d/2⌉`) ones at every left vertex and at most half
(exactly `⌊d/2⌋`) ones at every right vertex -/
def IsSCLabelling (B : BipG) (eq : Bool) (T : EdgeSet B) : Prop := SCSpec B eq (edgeFn T)

theorem SCSpec_congr {B : BipG} (hg : Fam.GoodBip B) {eq : Bool} {x x' : Nat → Nat → Bool}
    (h : ∀ u v, 1 ≤ u → u ≤ B.l → v ∈ B.rnbrs u → x u v = x' u v) :
    SCSpec B eq x → SCSpec B eq x' := by
  have hl : ∀ u, 1 ≤ u → u ≤ B.l →
      (B.rnbrs u).countP (fun v => x u v) = (B.rnbrs u).countP (fun v => x' u v) :=
    fun u h1 h2 => List.countP_congr (fun v hv => by simp only [h u v h1 h2 hv])
  have hr : ∀ v, 1 ≤ v → v ≤ B.r →
      (B.lnbrs v).countP (fun u => x u v) = (B.lnbrs v).countP (fun u => x' u v) := by
    intro v h1 h2
    apply List.countP_congr
    intro u hu
    have c := (hg.adj u v).2 ⟨h1, h2, hu⟩
    simp only [h u v c.1 c.2.1 c.2.2]
  rintro ⟨a, b⟩
  refine ⟨fun u h1 h2 => ?_, fun v h1 h2 => ?_⟩
  · rw [← hl u h1 h2]; exact a u h1 h2
  · rw [← hr v h1 h2]; exact b v h1 h2

/-- the labelling described by an assignment: the label of `(u, v)` is the value of `x_{u,v}` -/
def scToObj (B : BipG) (hg : Fam.GoodBip B) (a : Fin B.numberOfEdges → Bool) : EdgeSet B :=
  (edgeIndex B hg).toObj a

/-- the assignment describing a labelling -/
def scOfObj (B : BipG) (hg : Fam.GoodBip B) (T : EdgeSet B) : Fin B.numberOfEdges → Bool :=
  (edgeIndex B hg).ofObj T

theorem sc_ofObj_toObj (B : BipG) (hg : Fam.GoodBip B) (a : Fin B.numberOfEdges → Bool) :
    scOfObj B hg (scToObj B hg a) = a := (edgeIndex B hg).ofObj_toObj a

theorem sc_toObj_ofObj (B : BipG) (hg : Fam.GoodBip B) (T : EdgeSet B) :
    scToObj B hg (scOfObj B hg T) = T := (edgeIndex B hg).toObj_ofObj T

/-- the satisfying assignments (restricted to the `|E|` variables) are exactly the assignments
that describe a labelling within the degree bounds -/
theorem sc_holds_iff_obj (B : BipG) (hg : Fam.GoodBip B) (eq : Bool) (a : Fin B.numberOfEdges → Bool) :
    (subsetCardF B eq).holds (extend a) = true ↔ IsSCLabelling B eq (scToObj B hg a) := by
  rw [sc_spec B hg]
  have key : ∀ u v, 1 ≤ u → u ≤ B.l → v ∈ B.rnbrs u →
      scLabel B (extend a) u v = edgeFn (scToObj B hg a) u v :=
    fun u v h1 h2 hv => extend_bipId B hg a h1 h2 hv
  constructor
  · exact SCSpec_congr hg key
  · exact SCSpec_congr hg (fun u v h1 h2 hv => (key u v h1 h2 hv).symm)

theorem sc_bijection (B : BipG) (hg : Fam.GoodBip B) (eq : Bool) :
    (∀ a, (subsetCardF B eq).holds (extend a) = true → IsSCLabelling B eq (scToObj B hg a)) ∧
    (∀ T, IsSCLabelling B eq T → (subsetCardF B eq).holds (extend (scOfObj B hg T)) = true) ∧
    (∀ a, scOfObj B hg (scToObj B hg a) = a) ∧ (∀ T, scToObj B hg (scOfObj B hg T) = T) :=
  ⟨fun a h => (sc_holds_iff_obj B hg eq a).1 h,
   fun T h => (sc_holds_iff_obj B hg eq _).2 (by rw [sc_toObj_ofObj]; exact h),
   sc_ofObj_toObj B hg, sc_toObj_ofObj B hg⟩

theorem sc_bijection_unique (B : BipG) (hg : Fam.GoodBip B) (eq : Bool) :
    (∀ a, (subsetCardF B eq).holds (extend a) = true →
      ∃! T, IsSCLabelling B eq T ∧ scOfObj B hg T = a) ∧
    (∀ T, IsSCLabelling B eq T →
      ∃! a, (subsetCardF B eq).holds (extend a) = true ∧ scToObj B hg a = T) :=
  (edgeIndex B hg).existsUnique _ _ (sc_holds_iff_obj B hg eq)

/-- every satisfying (total) assignment describes the labelling read off its restriction -/
theorem sc_describes (B : BipG) (hg : Fam.GoodBip B) (eq : Bool) (α : Assign) :
    (subsetCardF B eq).holds α = true ↔
      IsSCLabelling B eq (scToObj B hg (Fam.restrict B.numberOfEdges α)) := by
  rw [← sc_holds_iff_obj B hg eq, ← holds_restrict _ (sc_wf B hg eq) α]
  rfl

/-- uniqueness for total assignments: two assignments that label the edges alike agree on every
variable of the formula -/
theorem sc_unique (B : BipG) (hg : Fam.GoodBip B) (eq : Bool) (α β : Assign)
    (h : ∀ u v, 1 ≤ u → u ≤ B.l → v ∈ B.rnbrs u → scLabel B α u v = scLabel B β u v) :
    ∀ x, 1 ≤ x → x ≤ (subsetCardF B eq).nvars → α x = β x := by
  apply (edgeIndex B hg).agree_of_toObj_eq
  intro e
  exact h _ _ e.spec.1 e.spec.2.1 e.spec.2.2

/-! ### concrete instances -/

/-- the graph objects of the examples below, as the `add_edge` calls leave them -/
def exGphpB : BipG := ⟨2, 3, [[], [1, 2], [1]], [[], [1, 2], [1], []], [(1, 1), (1, 2), (2, 1)]⟩
def exScB : BipG := ⟨2, 2, [[], [1, 2], [1, 2]], [[], [1, 2], [1, 2]], [(2, 2), (2, 1), (1, 2), (1, 1)]⟩
def exPmG : SimpleG :=
  ⟨4, 3, [[], [3], [3, 4], [1, 2], [2]], [(3, 2), (2, 3), (4, 2), (2, 4), (3, 1), (1, 3)]⟩

theorem exGphpB_eq : BipG.ofEdges 2 3 [(2, 1), (1, 2), (1, 1), (2, 1)] = .ok exGphpB := rfl
theorem exScB_eq : BipG.ofEdges 2 2 [(1, 1), (1, 2), (2, 1), (2, 2)] = .ok exScB := rfl
theorem exPmG_eq : SimpleG.ofEdges 4 [(3, 1), (2, 4), (2, 3)] = .ok exPmG := rfl

theorem exGphpB_good : GoodBip exGphpB := goodBip_ofEdges _ _ _ _ exGphpB_eq
theorem exScB_good : GoodBip exScB := goodBip_ofEdges _ _ _ _ exScB_eq
theorem exPmG_good : GoodSimple exPmG := goodSimple_ofEdges _ _ _ exPmG_eq

/-- the edge set {(1,2), (2,1)} of the graph with edges (1,1), (1,2), (2,1) and an isolated
right vertex -/
def exGphpT : EdgeSet exGphpB := fun e => decide (e.1 = (1, 2) ∨ e.1 = (2, 1))

theorem exGphpT_placement : EdgePlacement exGphpB true false exGphpT := by
  have hsel : ∀ e e' : BEdge exGphpB, exGphpT e = true → exGphpT e' = true →
      (e.1.2 = e'.1.2 ∨ e.1.1 = e'.1.1) → e = e' := by
    intro e e' h h' hc
    simp only [exGphpT, decide_eq_true_eq] at h h'
    apply Subtype.ext
    rcases h with h | h <;> rcases h' with h' | h' <;> rw [h, h'] at hc ⊢ <;> simp at hc
  refine ⟨?_, fun e e' h h' hc => hsel e e' h h' (Or.inl hc),
    fun _ e e' h h' hc => hsel e e' h h' (Or.inr hc), by simp⟩
  intro u h1 h2
  have h2' : u ≤ 2 := h2
  have : u = 1 ∨ u = 2 := by omega
  rcases this with rfl | rfl
  · exact ⟨⟨(1, 2), by decide⟩, rfl, by decide⟩
  · exact ⟨⟨(2, 1), by decide⟩, rfl, by decide⟩

/-- non-vacuity (graph pigeonhole): exactly one assignment to the three variables describes the
functional placement {(1,2), (2,1)} -/
example : ∃! a, (gphp exGphpB true false).holds (extend a) = true ∧
    gphpToObj exGphpB exGphpB_good a = exGphpT :=
  (gphp_bijection_unique exGphpB exGphpB_good true false).2 exGphpT exGphpT_placement

/-- the perfect matching {1,3}, {2,4} of the path 1-3, 3-2, 2-4 -/
def exPmT : EdgeSet (auxBip exPmG) := fun e => decide (e.1 = (1, 3) ∨ e.1 = (2, 4))

theorem exPmT_matching : IsPerfectMatching exPmG exPmT := by
  intro w h1 h2
  have h2' : w ≤ 4 := h2
  have hu : ∀ (e e' : GEdge exPmG) (w : Nat), (e.1 = (1, 3) ∨ e.1 = (2, 4)) →
      (e.1.1 = w ∨ e.1.2 = w) → (e'.1.1 = w ∨ e'.1.2 = w) → exPmT e' = true → e' = e := by
    intro e e' w h hc hc' h'
    simp only [exPmT, decide_eq_true_eq] at h'
    apply Subtype.ext
    rcases h with h | h <;> rcases h' with h' | h' <;> rw [h] at hc ⊢ <;> rw [h'] at hc' ⊢ <;>
      simp only [] at hc hc' <;> omega
  have : w = 1 ∨ w = 2 ∨ w = 3 ∨ w = 4 := by omega
  rcases this with rfl | rfl | rfl | rfl
  · exact ⟨⟨(1, 3), by decide⟩, Or.inl rfl, by decide, fun e' hc' h' =>
      hu ⟨(1, 3), by decide⟩ e' 1 (Or.inl rfl) (Or.inl rfl) hc' h'⟩
  · exact ⟨⟨(2, 4), by decide⟩, Or.inl rfl, by decide, fun e' hc' h' =>
      hu ⟨(2, 4), by decide⟩ e' 2 (Or.inr rfl) (Or.inl rfl) hc' h'⟩
  · exact ⟨⟨(1, 3), by decide⟩, Or.inr rfl, by decide, fun e' hc' h' =>
      hu ⟨(1, 3), by decide⟩ e' 3 (Or.inl rfl) (Or.inr rfl) hc' h'⟩
  · exact ⟨⟨(2, 4), by decide⟩, Or.inr rfl, by decide, fun e' hc' h' =>
      hu ⟨(2, 4), by decide⟩ e' 4 (Or.inr rfl) (Or.inr rfl) hc' h'⟩

/-- non-vacuity (perfect matching): exactly one assignment to the three edge variables describes
the matching {1,3}, {2,4} -/
example : ∃! a, (pmF exPmG).holds (extend a) = true ∧ pmToObj exPmG exPmG_good a = exPmT :=
  (pm_bijection_unique exPmG exPmG_good).2 exPmT exPmT_matching

/-- the labelling "1 on (1,1) and (2,2)" of the 4-cycle -/
def exScT : EdgeSet exScB := fun e => e.1.1 == e.1.2

theorem exScT_labelling : IsSCLabelling exScB true exScT := by
  refine ⟨?_, ?_⟩
  · intro u h1 h2
    have h2' : u ≤ 2 := h2
    have : u = 1 ∨ u = 2 := by omega
    rcases this with rfl | rfl <;> decide
  · intro v h1 h2
    have h2' : v ≤ 2 := h2
    have : v = 1 ∨ v = 2 := by omega
    rcases this with rfl | rfl <;> decide

/-- non-vacuity (subset cardinality): exactly one assignment to the four variables describes it -/
example : ∃! a, (subsetCardF exScB true).holds (extend a) = true ∧
    scToObj exScB exScB_good a = exScT :=
  (sc_bijection_unique exScB exScB_good true).2 exScT exScT_labelling

/-! ## binary pigeonhole principle

BinaryPigeonholePrinciple(pigeons, holes): the explicit bijection between the satisfying assignments of
`bphpF m n` restricted to its variables `1..m·k` (`k = ⌈log₂ n⌉` bits per pigeon) and the injective
functions from the `m` pigeons to the `n` holes.

* `bphpToObj` / `bphpOfObj` with both inverse laws: assignments to the `m·k` variables ↔ functions
  `[m] → {0 … 2^k - 1}` (every assignment spells such a function and every function is spelled);
* `bphp_holds_iff_injection`: the satisfying ones are those whose function is injective with all
  values below `n`;
* `bphp_bijection`: packaged with the documented objects (injections `Fin m → Fin n`), `∃!` both ways;
* `bphp_unique`: two total assignments spelling the same function agree on every variable.
-/

/-! ### every variable `1..m·k` is a bit `v(i, b)` -/

/-- the variables `1..m·k` are exactly the bits `v(i, b)`, `1 ≤ i ≤ m`, `b < k`
(MSB first: `i = (x-1)/k + 1`, `b = k - 1 - (x-1) % k`) -/
theorem bphp_var_is_bit (m k x : Nat) (h1 : 1 ≤ x) (h2 : x ≤ m * k) :
    ∃ i b, 1 ≤ i ∧ i ≤ m ∧ b < k ∧ x = Vars.binId 1 k i b := by
  have hk : 0 < k := by
    rcases Nat.eq_zero_or_pos k with h | h
    · rw [h, Nat.mul_zero] at h2; omega
    · exact h
  have hdm := Nat.div_add_mod (x - 1) k
  have hr := Nat.mod_lt (x - 1) hk
  have hq : (x - 1) / k < m := by
    rw [Nat.div_lt_iff_lt_mul hk]; omega
  rw [Nat.mul_comm] at hdm
  generalize (x - 1) / k = q at hdm hq
  generalize (x - 1) % k = r at hdm hr
  refine ⟨q + 1, k - 1 - r, Nat.succ_pos q, hq, by omega, ?_⟩
  simp only [Vars.binId, Nat.add_mul, Nat.one_mul]
  omega

/-- the hole spelled by a pigeon only depends on the variables `1..m·k` -/
theorem bphpVal_extend_restrict (m n : Nat) (β : Assign) (i : Nat) (hi1 : 1 ≤ i) (hi2 : i ≤ m) :
    bphpVal (extend (Fam.restrict (m * Vars.clog2 n) β)) n i = bphpVal β n i := by
  have : (fun b : Fin (Vars.clog2 n) =>
        extend (Fam.restrict (m * Vars.clog2 n) β) (Vars.binId 1 (Vars.clog2 n) i b))
      = fun b : Fin (Vars.clog2 n) => β (Vars.binId 1 (Vars.clog2 n) i b) := by
    funext b
    have hb := binId_le (bits := Vars.clog2 n) (b := b.val) hi1 hi2 b.isLt
    exact Fam.extend_restrict _ β hb.1 hb.2
  simp only [bphpVal, this]

/-! ### assignments ↔ functions into `{0 … 2^k - 1}` -/

/-- the function described by an assignment: pigeon `i` (0-based) goes to the hole spelled by the
bits `v(i+1, k-1) … v(i+1, 0)` -/
def bphpToObj (m n : Nat) (a : Fin (m * Vars.clog2 n) → Bool) : Fin m → Fin (2 ^ Vars.clog2 n) :=
  fun i => ⟨bphpVal (extend a) n (i.val + 1), bval_lt (extend a) 1 (Vars.clog2 n) (i.val + 1)⟩

/-- the 1-based, `Nat`-valued version of a function on `Fin m` (0 outside `1..m`) -/
def bphpNatFn {m N : Nat} (g : Fin m → Fin N) : Nat → Nat :=
  fun i => if h : 1 ≤ i ∧ i ≤ m then (g ⟨i - 1, by omega⟩).val else 0

theorem bphpNatFn_apply {m N : Nat} (g : Fin m → Fin N) (i : Fin m) :
    bphpNatFn g (i.val + 1) = (g i).val := by
  have h : 1 ≤ i.val + 1 ∧ i.val + 1 ≤ m := ⟨by omega, i.isLt⟩
  simp only [bphpNatFn, dif_pos h]
  congr

/-- the assignment spelling a function in binary -/
def bphpOfObj (m n : Nat) (g : Fin m → Fin (2 ^ Vars.clog2 n)) : Fin (m * Vars.clog2 n) → Bool :=
  Fam.restrict (m * Vars.clog2 n) (binAssignOf (Vars.clog2 n) (bphpNatFn g))

theorem bphp_ofObj_toObj (m n : Nat) (a : Fin (m * Vars.clog2 n) → Bool) :
    bphpOfObj m n (bphpToObj m n a) = a := by
  funext x
  obtain ⟨i, b, hi1, hi2, hb, hx⟩ :=
    bphp_var_is_bit m (Vars.clog2 n) (x.val + 1) (by omega) x.isLt
  have hv : bphpNatFn (bphpToObj m n a) i = bphpVal (extend a) n i := by
    have := bphpNatFn_apply (bphpToObj m n a) ⟨i - 1, by omega⟩
    simp only [Nat.sub_add_cancel hi1] at this
    rw [this]
    simp only [bphpToObj, Nat.sub_add_cancel hi1]
  have hbit : (bphpVal (extend a) n i).testBit b = extend a (Vars.binId 1 (Vars.clog2 n) i b) := by
    simp only [bphpVal, Nat.testBit_ofBits_lt _ b hb]
  have hxa : extend a (x.val + 1) = a x := by
    rw [show extend a (x.val + 1) = a ⟨x.val + 1 - 1, by omega⟩ from
      Fam.extend_apply a (by omega) x.isLt]
    congr
  show binAssignOf (Vars.clog2 n) (bphpNatFn (bphpToObj m n a)) (x.val + 1) = a x
  rw [hx, binAssignOf_binId _ hi1 hb, hv, hbit, ← hx, hxa]

theorem bphp_toObj_ofObj (m n : Nat) (g : Fin m → Fin (2 ^ Vars.clog2 n)) :
    bphpToObj m n (bphpOfObj m n g) = g := by
  funext i
  apply Fin.ext
  show bphpVal (extend (Fam.restrict (m * Vars.clog2 n)
      (binAssignOf (Vars.clog2 n) (bphpNatFn g)))) n (i.val + 1) = (g i).val
  rw [bphpVal_extend_restrict m n _ (i.val + 1) (by omega) i.isLt, ← bphpNatFn_apply g i]
  exact bval_binAssignOf (bphpNatFn g) (by omega) (by rw [bphpNatFn_apply]; exact (g i).isLt)

/-! ### the satisfying assignments are the injections into the `n` holes -/

/-- the satisfying assignments (restricted to the `m·k` variables) are exactly those that spell an
injective function all of whose values are holes `0 … n-1`; with the two inverse laws above this
is the bijection "satisfying assignments ↔ injections `[m] → [n]`" -/
theorem bphp_holds_iff_injection (m n : Nat) (a : Fin (m * Vars.clog2 n) → Bool) :
    (bphpF m n).holds (extend a) = true ↔
      (∀ i, (bphpToObj m n a i).val < n) ∧ Function.Injective (bphpToObj m n a) := by
  rw [bphp_spec]
  constructor
  · rintro ⟨hr, hi⟩
    refine ⟨fun i => hr (i.val + 1) (by omega) i.isLt, ?_⟩
    intro i i' e
    have e' : bphpVal (extend a) n (i.val + 1) = bphpVal (extend a) n (i'.val + 1) :=
      congrArg Fin.val e
    have := hi (i.val + 1) (by omega) i.isLt (i'.val + 1) (by omega) i'.isLt e'
    exact Fin.ext (by omega)
  · rintro ⟨hr, hi⟩
    refine ⟨?_, ?_⟩
    · intro i h1 h2
      have := hr ⟨i - 1, by omega⟩
      simpa only [bphpToObj, Nat.sub_add_cancel h1] using this
    · intro i h1 h2 i' h1' h2' e
      have : (⟨i - 1, by omega⟩ : Fin m) = ⟨i' - 1, by omega⟩ := by
        apply hi
        apply Fin.ext
        simpa only [bphpToObj, Nat.sub_add_cancel h1, Nat.sub_add_cancel h1'] using e
      have := congrArg Fin.val this
      simp only [] at this
      omega

/-- a function into the `n` holes, seen as a function into `{0 … 2^k - 1}` (`n ≤ 2^k`) -/
def bphpLift {m : Nat} (n : Nat) (g : Fin m → Fin n) : Fin m → Fin (2 ^ Vars.clog2 n) :=
  fun i => ⟨(g i).val, Nat.lt_of_lt_of_le (g i).isLt (clog2_spec n)⟩

/-- the bijection, packaged with the documented objects: every satisfying restricted assignment
spells exactly one injection `[m] → [n]`, and every injection `[m] → [n]` is spelled by exactly
one satisfying restricted assignment -/
theorem bphp_bijection (m n : Nat) :
    (∀ a, (bphpF m n).holds (extend a) = true →
      ∃! g : Fin m → Fin n, Function.Injective g ∧ ∀ i, (bphpToObj m n a i).val = (g i).val) ∧
    (∀ g : Fin m → Fin n, Function.Injective g →
      ∃! a, (bphpF m n).holds (extend a) = true ∧ ∀ i, (bphpToObj m n a i).val = (g i).val) := by
  refine ⟨?_, ?_⟩
  · intro a ha
    obtain ⟨hr, hi⟩ := (bphp_holds_iff_injection m n a).1 ha
    refine ⟨fun i => ⟨(bphpToObj m n a i).val, hr i⟩, ⟨?_, fun _ => rfl⟩, ?_⟩
    · intro i i' e
      have e' := congrArg Fin.val e
      exact hi (Fin.ext e')
    · rintro g' ⟨_, hg'⟩
      funext i
      exact Fin.ext (hg' i).symm
  · intro g hg
    have hto : bphpToObj m n (bphpOfObj m n (bphpLift n g)) = bphpLift n g := bphp_toObj_ofObj m n _
    refine ⟨bphpOfObj m n (bphpLift n g), ⟨?_, ?_⟩, ?_⟩
    · rw [bphp_holds_iff_injection, hto]
      refine ⟨fun i => (g i).isLt, ?_⟩
      intro i i' e
      have e' := congrArg Fin.val e
      exact hg (Fin.ext e')
    · intro i; rw [hto]; rfl
    · rintro a' ⟨_, ha'⟩
      have : bphpToObj m n a' = bphpLift n g := by
        funext i; exact Fin.ext (ha' i)
      rw [← this, bphp_ofObj_toObj]

/-! ### uniqueness on total assignments -/

/-- two total assignments that spell the same function agree on every variable of the formula
(no satisfaction hypothesis is needed) -/
theorem bphp_unique (m n : Nat) (α β : Assign)
    (h : ∀ i, 1 ≤ i → i ≤ m → bphpVal α n i = bphpVal β n i) :
    ∀ x, 1 ≤ x → x ≤ (bphpF m n).nvars → α x = β x := by
  intro x h1 h2
  obtain ⟨i, b, hi1, hi2, hb, rfl⟩ := bphp_var_is_bit m (Vars.clog2 n) x h1 h2
  exact bphp_val_determines m n α β h i b hi1 hi2 hb

/-- in particular a satisfying total assignment is determined, on the variables of the formula,
by the injection it spells -/
theorem bphp_unique_sat (m n : Nat) (α β : Assign)
    (_ : (bphpF m n).holds α = true) (_ : (bphpF m n).holds β = true)
    (h : ∀ i, 1 ≤ i → i ≤ m → bphpVal α n i = bphpVal β n i) :
    ∀ x, 1 ≤ x → x ≤ (bphpF m n).nvars → α x = β x :=
  bphp_unique m n α β h

/-! ### a concrete instance: 2 pigeons, 3 holes (2 bits per pigeon, 4 variables) -/

/-- the function `0 ↦ 2, 1 ↦ 0` -/
def bphpExample : Fin 2 → Fin 3 := fun i => ⟨2 - 2 * i.val, by omega⟩

theorem bphpExample_injective : Function.Injective bphpExample := by
  intro i i' e
  have := congrArg Fin.val e
  simp only [bphpExample] at this
  exact Fin.ext (by omega)

/-- it is injective, so exactly one satisfying assignment to the 4 variables spells it -/
example : ∃! a : Fin (2 * Vars.clog2 3) → Bool, (bphpF 2 3).holds (extend a) = true ∧
    ∀ i, (bphpToObj 2 3 a i).val = (bphpExample i).val :=
  (bphp_bijection 2 3).2 bphpExample bphpExample_injective

/-- degenerate sizes: with no pigeon the empty assignment is the only one, and it is satisfying -/
example : ∃! a : Fin (0 * Vars.clog2 5) → Bool, (bphpF 0 5).holds (extend a) = true ∧
    ∀ i, (bphpToObj 0 5 a i).val = ((fun i => i.elim0 : Fin 0 → Fin 5) i).val :=
  (bphp_bijection 0 5).2 _ (fun i => i.elim0)

/-! ## relativized pigeonhole principle

C01 — RelativizedPigeonholePrinciple(pigeons m, resting places r, holes n): the satisfying
assignments restricted to the variables `1..m·r+r·n+r` are in one-to-one correspondence with the
documented objects, the triples (resting relation `P ⊆ [m]×[r]`, set of active places `A ⊆ [r]`,
flying relation `Q ⊆ [r]×[n]`) satisfying axioms 3.1a–e.  For all `m r n` (zeros included).
-/

/-- the documented objects: pigeons rest (3.1a) at distinct places (3.1b), which are active
(3.1c); from every active place a pigeon flies to a hole (3.1d) and two active places never send
to the same hole (3.1e) -/
structure RelPlacement (m r n : Nat) (P : Fin m → Fin r → Bool) (A : Fin r → Bool)
    (Q : Fin r → Fin n → Bool) : Prop where
  /-- 3.1a each pigeon rests somewhere -/
  rest : ∀ u, ∃ v, P u v = true
  /-- 3.1b no two pigeons rest in the same place -/
  noShare : ∀ v u u', P u v = true → P u' v = true → u = u'
  /-- 3.1c a place where a pigeon rests is active -/
  active : ∀ v u, P u v = true → A v = true
  /-- 3.1d from an active place the pigeon flies to some hole -/
  leave : ∀ v, A v = true → ∃ w, Q v w = true
  /-- 3.1e two active places do not send to the same hole -/
  noClash : ∀ w v₁ v₂, v₁ < v₂ → ¬ (A v₁ = true ∧ A v₂ = true ∧ Q v₁ w = true ∧ Q v₂ w = true)

/-- the index type of the variables: `p_{u,v}`, then `q_{v,w}`, then `r_v` -/
abbrev RphpIx (m r n : Nat) : Type := ((Fin m × Fin r) ⊕ (Fin r × Fin n)) ⊕ Fin r

/-- the numbering of the variables of `rphpF m r n`: the mapping `p` (`m·r` variables), then the
mapping `q` (`r·n` variables), then the block `r` (`r` variables) -/
def rphpIdx (m r n : Nat) : VarIndex (RphpIx m r n) (m * r + r * n + r) :=
  ((VarIndex.gridIdx m r).sumIdx (VarIndex.gridIdx r n)).sumIdx (VarIndex.finIdx r)

theorem rphpIdx_p (m r n : Nat) (u : Fin m) (v : Fin r) :
    (rphpIdx m r n).var (.inl (.inl (u, v))) = Vars.mapId 1 r (u.val + 1) (v.val + 1) := by
  show u.val * r + v.val + 1 = _
  simp only [Vars.mapId, Nat.add_sub_cancel]; omega

theorem rphpIdx_q (m r n : Nat) (v : Fin r) (w : Fin n) :
    (rphpIdx m r n).var (.inl (.inr (v, w))) = Vars.mapId (1 + m * r) n (v.val + 1) (w.val + 1) := by
  show m * r + (v.val * n + w.val + 1) = _
  simp only [Vars.mapId, Nat.add_sub_cancel]; omega

theorem rphpIdx_a (m r n : Nat) (v : Fin r) :
    (rphpIdx m r n).var (.inr v) = 1 + m * r + r * n + (v.val + 1 - 1) := by
  show m * r + r * n + (v.val + 1) = _
  simp only [Nat.add_sub_cancel]; omega

/-- a triple as a Boolean function on the index type -/
def rphpPack {m r n : Nat}
    (T : (Fin m → Fin r → Bool) × (Fin r → Bool) × (Fin r → Fin n → Bool)) : RphpIx m r n → Bool :=
  Sum.elim (Sum.elim (fun p => T.1 p.1 p.2) (fun p => T.2.2 p.1 p.2)) T.2.1

/-- a Boolean function on the index type as a triple -/
def rphpUnpack {m r n : Nat} (f : RphpIx m r n → Bool) :
    (Fin m → Fin r → Bool) × (Fin r → Bool) × (Fin r → Fin n → Bool) :=
  (fun u v => f (.inl (.inl (u, v))), fun v => f (.inr v), fun v w => f (.inl (.inr (v, w))))

theorem rphpPack_unpack {m r n : Nat} (f : RphpIx m r n → Bool) : rphpPack (rphpUnpack f) = f := by
  funext i
  rcases i with (⟨u, v⟩ | ⟨v, w⟩) | v <;> rfl

theorem rphpUnpack_pack {m r n : Nat}
    (T : (Fin m → Fin r → Bool) × (Fin r → Bool) × (Fin r → Fin n → Bool)) :
    rphpUnpack (rphpPack T) = T := rfl

/-- the triple described by an assignment: `P u v` is the value of `p_{u+1,v+1}`, `A v` the value
of `r_{v+1}`, `Q v w` the value of `q_{v+1,w+1}` -/
def rphpToObj (m r n : Nat) (a : Fin (m * r + r * n + r) → Bool) :
    (Fin m → Fin r → Bool) × (Fin r → Bool) × (Fin r → Fin n → Bool) :=
  rphpUnpack ((rphpIdx m r n).toObj a)

/-- the assignment describing a triple -/
def rphpOfObj (m r n : Nat)
    (T : (Fin m → Fin r → Bool) × (Fin r → Bool) × (Fin r → Fin n → Bool)) :
    Fin (m * r + r * n + r) → Bool :=
  (rphpIdx m r n).ofObj (rphpPack T)

theorem rphp_ofObj_toObj (m r n : Nat) (a : Fin (m * r + r * n + r) → Bool) :
    rphpOfObj m r n (rphpToObj m r n a) = a := by
  simp only [rphpOfObj, rphpToObj, rphpPack_unpack, VarIndex.ofObj_toObj]

theorem rphp_toObj_ofObj (m r n : Nat)
    (T : (Fin m → Fin r → Bool) × (Fin r → Bool) × (Fin r → Fin n → Bool)) :
    rphpToObj m r n (rphpOfObj m r n T) = T := by
  simp only [rphpOfObj, rphpToObj, VarIndex.toObj_ofObj, rphpUnpack_pack]

/-- the variable `p_{u,v}` under `extend a` is the entry `(u-1, v-1)` of the resting relation -/
theorem rphpP_extend (m r n : Nat) (a : Fin (m * r + r * n + r) → Bool) (u : Fin m) (v : Fin r) :
    rphpP r (extend a) (u.val + 1) (v.val + 1) ↔ (rphpToObj m r n a).1 u v = true := by
  simp only [rphpP, ← rphpIdx_p m r n u v]
  rw [show extend a _ = _ from (rphpIdx m r n).extend_var a _]
  rfl

/-- the variable `q_{v,w}` under `extend a` is the entry `(v-1, w-1)` of the flying relation -/
theorem rphpQ_extend (m r n : Nat) (a : Fin (m * r + r * n + r) → Bool) (v : Fin r) (w : Fin n) :
    rphpQ m r n (extend a) (v.val + 1) (w.val + 1) ↔ (rphpToObj m r n a).2.2 v w = true := by
  simp only [rphpQ, ← rphpIdx_q m r n v w]
  rw [show extend a _ = _ from (rphpIdx m r n).extend_var a _]
  rfl

/-- the variable `r_v` under `extend a` is the membership of `v-1` in the active set -/
theorem rphpA_extend (m r n : Nat) (a : Fin (m * r + r * n + r) → Bool) (v : Fin r) :
    rphpA m r n (extend a) (v.val + 1) ↔ (rphpToObj m r n a).2.1 v = true := by
  simp only [rphpA, ← rphpIdx_a m r n v]
  rw [show extend a _ = _ from (rphpIdx m r n).extend_var a _]
  rfl

/-- the documented statement in `Fin` terms: a triple of relations on `1..` indices that is read
off a triple of 0/1 matrices -/
theorem RPHPSpec_iff_RelPlacement (m r n : Nat) (P' : Nat → Nat → Prop) (A' : Nat → Prop)
    (Q' : Nat → Nat → Prop) (P : Fin m → Fin r → Bool) (A : Fin r → Bool) (Q : Fin r → Fin n → Bool)
    (hP : ∀ u v, P' (u.val + 1) (v.val + 1) ↔ P u v = true)
    (hA : ∀ v, A' (v.val + 1) ↔ A v = true)
    (hQ : ∀ v w, Q' (v.val + 1) (w.val + 1) ↔ Q v w = true) :
    RPHPSpec m r n P' A' Q' ↔ RelPlacement m r n P A Q := by
  have hP' : ∀ u v (hu1 : 1 ≤ u) (hu : u ≤ m) (hv1 : 1 ≤ v) (hv : v ≤ r),
      P' u v ↔ P ⟨u - 1, by omega⟩ ⟨v - 1, by omega⟩ = true := by
    intro u v hu1 hu hv1 hv
    have := hP ⟨u - 1, by omega⟩ ⟨v - 1, by omega⟩
    simpa [Nat.sub_add_cancel hu1, Nat.sub_add_cancel hv1] using this
  have hA' : ∀ v (hv1 : 1 ≤ v) (hv : v ≤ r), A' v ↔ A ⟨v - 1, by omega⟩ = true := by
    intro v hv1 hv
    have := hA ⟨v - 1, by omega⟩
    simpa [Nat.sub_add_cancel hv1] using this
  have hQ' : ∀ v w (hv1 : 1 ≤ v) (hv : v ≤ r) (hw1 : 1 ≤ w) (hw : w ≤ n),
      Q' v w ↔ Q ⟨v - 1, by omega⟩ ⟨w - 1, by omega⟩ = true := by
    intro v w hv1 hv hw1 hw
    have := hQ ⟨v - 1, by omega⟩ ⟨w - 1, by omega⟩
    simpa [Nat.sub_add_cancel hv1, Nat.sub_add_cancel hw1] using this
  constructor
  · rintro ⟨h1, h2, h3, h4, h5⟩
    refine ⟨?_, ?_, ?_, ?_, ?_⟩
    · intro u
      obtain ⟨v, hv1, hv2, hR⟩ := h1 (u.val + 1) (by omega) u.isLt
      refine ⟨⟨v - 1, by omega⟩, (hP u ⟨v - 1, by omega⟩).1 ?_⟩
      simpa [Nat.sub_add_cancel hv1] using hR
    · intro v u u' e e'
      have := h2 (v.val + 1) (by omega) v.isLt (u.val + 1) (by omega) u.isLt (u'.val + 1) (by omega)
        u'.isLt ((hP u v).2 e) ((hP u' v).2 e')
      exact Fin.ext (by omega)
    · intro v u e
      exact (hA v).1 (h3 (v.val + 1) (by omega) v.isLt (u.val + 1) (by omega) u.isLt ((hP u v).2 e))
    · intro v e
      obtain ⟨w, hw1, hw2, hR⟩ := h4 (v.val + 1) (by omega) v.isLt ((hA v).2 e)
      refine ⟨⟨w - 1, by omega⟩, (hQ v ⟨w - 1, by omega⟩).1 ?_⟩
      simpa [Nat.sub_add_cancel hw1] using hR
    · rintro w v₁ v₂ hlt ⟨e1, e2, e3, e4⟩
      have hlt' : v₁.val < v₂.val := hlt
      exact h5 (w.val + 1) (by omega) w.isLt (v₁.val + 1) (v₂.val + 1) (by omega) (by omega) v₂.isLt
        ⟨(hA v₁).2 e1, (hA v₂).2 e2, (hQ v₁ w).2 e3, (hQ v₂ w).2 e4⟩
  · rintro ⟨h1, h2, h3, h4, h5⟩
    refine ⟨?_, ?_, ?_, ?_, ?_⟩
    · intro u hu1 hu
      obtain ⟨v, hv⟩ := h1 ⟨u - 1, by omega⟩
      refine ⟨v.val + 1, by omega, v.isLt, (hP' u (v.val + 1) hu1 hu (by omega) v.isLt).2 ?_⟩
      simpa using hv
    · intro v hv1 hv u hu1 hu u' hu1' hu' e e'
      have := h2 _ _ _ ((hP' u v hu1 hu hv1 hv).1 e) ((hP' u' v hu1' hu' hv1 hv).1 e')
      have := congrArg Fin.val this
      simp only [] at this; omega
    · intro v hv1 hv u hu1 hu e
      exact (hA' v hv1 hv).2 (h3 _ _ ((hP' u v hu1 hu hv1 hv).1 e))
    · intro v hv1 hv e
      obtain ⟨w, hw⟩ := h4 _ ((hA' v hv1 hv).1 e)
      refine ⟨w.val + 1, by omega, w.isLt, (hQ' v (w.val + 1) hv1 hv (by omega) w.isLt).2 ?_⟩
      simpa using hw
    · rintro w hw1 hw v₁ v₂ hv1 hlt hv2 ⟨e1, e2, e3, e4⟩
      refine h5 ⟨w - 1, by omega⟩ ⟨v₁ - 1, by omega⟩ ⟨v₂ - 1, by omega⟩ ?_
        ⟨(hA' v₁ hv1 (by omega)).1 e1, (hA' v₂ (by omega) hv2).1 e2,
         (hQ' v₁ w hv1 (by omega) hw1 hw).1 e3, (hQ' v₂ w (by omega) hv2 hw1 hw).1 e4⟩
      show v₁ - 1 < v₂ - 1
      omega

/-- the satisfying assignments (restricted to the `m·r+r·n+r` variables) are exactly the
assignments that describe a triple with the documented properties; together with
`rphp_ofObj_toObj` / `rphp_toObj_ofObj` this is the bijection "satisfying assignments ↔ triples
(resting relation, active set, flying relation)" -/
theorem rphp_holds_iff_obj (m r n : Nat) (a : Fin (m * r + r * n + r) → Bool) :
    (rphpF m r n).holds (extend a) = true ↔
      RelPlacement m r n (rphpToObj m r n a).1 (rphpToObj m r n a).2.1 (rphpToObj m r n a).2.2 := by
  rw [rphp_spec]
  exact RPHPSpec_iff_RelPlacement m r n _ _ _ _ _ _ (rphpP_extend m r n a) (rphpA_extend m r n a)
    (rphpQ_extend m r n a)

/-- the bijection, packaged: `rphpToObj` maps the satisfying restricted assignments one-to-one
onto the documented triples -/
theorem rphp_bijection (m r n : Nat) :
    (∀ a, (rphpF m r n).holds (extend a) = true →
      RelPlacement m r n (rphpToObj m r n a).1 (rphpToObj m r n a).2.1 (rphpToObj m r n a).2.2) ∧
    (∀ T : (Fin m → Fin r → Bool) × (Fin r → Bool) × (Fin r → Fin n → Bool),
      RelPlacement m r n T.1 T.2.1 T.2.2 → (rphpF m r n).holds (extend (rphpOfObj m r n T)) = true) ∧
    (∀ a, rphpOfObj m r n (rphpToObj m r n a) = a) ∧ (∀ T, rphpToObj m r n (rphpOfObj m r n T) = T) :=
  ⟨fun a h => (rphp_holds_iff_obj m r n a).1 h,
   fun T h => (rphp_holds_iff_obj m r n _).2 (by rw [rphp_toObj_ofObj]; exact h),
   rphp_ofObj_toObj m r n, rphp_toObj_ofObj m r n⟩

/-- every satisfying restricted assignment describes exactly one documented triple, and every
documented triple is described by exactly one satisfying restricted assignment -/
theorem rphp_bijection_unique (m r n : Nat) :
    (∀ a, (rphpF m r n).holds (extend a) = true →
      ∃! T : (Fin m → Fin r → Bool) × (Fin r → Bool) × (Fin r → Fin n → Bool),
        RelPlacement m r n T.1 T.2.1 T.2.2 ∧ rphpOfObj m r n T = a) ∧
    (∀ T : (Fin m → Fin r → Bool) × (Fin r → Bool) × (Fin r → Fin n → Bool),
      RelPlacement m r n T.1 T.2.1 T.2.2 →
      ∃! a, (rphpF m r n).holds (extend a) = true ∧ rphpToObj m r n a = T) := by
  refine ⟨?_, ?_⟩
  · intro a ha
    refine ⟨rphpToObj m r n a, ⟨(rphp_holds_iff_obj m r n a).1 ha, rphp_ofObj_toObj m r n a⟩, ?_⟩
    rintro T ⟨_, hT⟩
    rw [← hT, rphp_toObj_ofObj]
  · intro T hT
    refine ⟨rphpOfObj m r n T,
      ⟨(rphp_holds_iff_obj m r n _).2 (by rw [rphp_toObj_ofObj]; exact hT), rphp_toObj_ofObj m r n T⟩, ?_⟩
    rintro a ⟨_, ha⟩
    rw [← ha, rphp_ofObj_toObj]

/-- two (total) assignments that describe the same triple agree on every variable of the formula -/
theorem rphp_unique (m r n : Nat) (α β : Assign)
    (hP : ∀ u v, 1 ≤ u → u ≤ m → 1 ≤ v → v ≤ r → (rphpP r α u v ↔ rphpP r β u v))
    (hQ : ∀ v w, 1 ≤ v → v ≤ r → 1 ≤ w → w ≤ n → (rphpQ m r n α v w ↔ rphpQ m r n β v w))
    (hA : ∀ v, 1 ≤ v → v ≤ r → (rphpA m r n α v ↔ rphpA m r n β v)) :
    ∀ x, 1 ≤ x → x ≤ (rphpF m r n).nvars → α x = β x := by
  apply (rphpIdx m r n).agree_of_toObj_eq α β
  intro i
  rw [Bool.eq_iff_iff]
  rcases i with (⟨u, v⟩ | ⟨v, w⟩) | v
  · rw [rphpIdx_p]
    exact hP (u.val + 1) (v.val + 1) (by omega) u.isLt (by omega) v.isLt
  · rw [rphpIdx_q]
    exact hQ (v.val + 1) (w.val + 1) (by omega) v.isLt (by omega) w.isLt
  · rw [rphpIdx_a]
    exact hA (v.val + 1) (by omega) v.isLt

/-- the satisfying total assignments that describe the same triple agree on all the variables: a
total satisfying assignment is determined on `1..nvars` by the triple of its restriction -/
theorem rphp_toObj_restrict_eq (m r n : Nat) (α β : Assign)
    (h : rphpToObj m r n (restrict (m * r + r * n + r) α)
       = rphpToObj m r n (restrict (m * r + r * n + r) β)) :
    ∀ x, 1 ≤ x → x ≤ (rphpF m r n).nvars → α x = β x := by
  apply (rphpIdx m r n).agree_of_toObj_eq α β
  intro i
  have h' := congrArg rphpPack h
  simp only [rphpToObj, rphpPack_unpack] at h'
  have := congrFun h' i
  rwa [VarIndex.toObj_restrict, VarIndex.toObj_restrict] at this

/-! ### a concrete object -/

/-- one pigeon, two resting places, one hole: the pigeon rests at place 2 (index 1), which is the
only active place and sends it to hole 1 (index 0) -/
def rphpExample : (Fin 1 → Fin 2 → Bool) × (Fin 2 → Bool) × (Fin 2 → Fin 1 → Bool) :=
  (fun _ v => decide (v = 1), fun v => decide (v = 1), fun v _ => decide (v = 1))

example : RelPlacement 1 2 1 rphpExample.1 rphpExample.2.1 rphpExample.2.2 :=
  ⟨by decide, by decide, by decide, by decide, by decide⟩

/-- … and exactly one restricted satisfying assignment describes it -/
example : ∃! a, (rphpF 1 2 1).holds (extend a) = true ∧ rphpToObj 1 2 1 a = rphpExample :=
  (rphp_bijection_unique 1 2 1).2 rphpExample ⟨by decide, by decide, by decide, by decide, by decide⟩

/-- that assignment: `p_{1,2}`, `q_{2,1}` and `r_2` (variables 2, 4, 6) are true, the rest false -/
example : rphpOfObj 1 2 1 rphpExample = fun x => decide (x.val = 1 ∨ x.val = 3 ∨ x.val = 5) := by
  decide

/-! ### the object is the whole triple, not the resting relation alone -/

/-- the same resting relation as `rphpExample`, but the (inactive) place 1 also carries a flying
edge to hole 1 — 3.1d/3.1e only constrain the active places -/
def rphpExample' : (Fin 1 → Fin 2 → Bool) × (Fin 2 → Bool) × (Fin 2 → Fin 1 → Bool) :=
  (fun _ v => decide (v = 1), fun v => decide (v = 1), fun _ _ => true)

/-- the documented variables are the triple `(P, A, Q)`: the "placement of the pigeons" `P` alone
does not determine the assignment (two different satisfying restricted assignments describe the
same resting relation), so "exactly one assignment" is a statement about triples -/
theorem rphp_not_determined_by_resting :
    ∃ a b, a ≠ b ∧ (rphpF 1 2 1).holds (extend a) = true ∧ (rphpF 1 2 1).holds (extend b) = true ∧
      (rphpToObj 1 2 1 a).1 = (rphpToObj 1 2 1 b).1 := by
  refine ⟨rphpOfObj 1 2 1 rphpExample, rphpOfObj 1 2 1 rphpExample', ?_,
    (rphp_bijection 1 2 1).2.1 _ ⟨by decide, by decide, by decide, by decide, by decide⟩,
    (rphp_bijection 1 2 1).2.1 _ ⟨by decide, by decide, by decide, by decide, by decide⟩, ?_⟩
  · intro h
    have := congrArg (rphpToObj 1 2 1) h
    rw [rphp_toObj_ofObj, rphp_toObj_ofObj] at this
    have := congrFun (congrFun (congrArg (fun T => T.2.2) this) 0) 0
    exact absurd this (by decide)
  · rw [rphp_toObj_ofObj, rphp_toObj_ofObj]; rfl

/-! ## clique-colouring

C01 — CliqueColoring(n, k, c), "every such object is described by exactly one satisfying
assignment": an explicit bijection between the satisfying assignments restricted to the variables
`1..nvars` and the documented objects, the triples (graph `E` on `[n]`, clique map `Q : [k] → [n]`,
colouring `R : [n] → [c]`) in which `Q` is an injective function whose image is a clique of `E`
and `R` is a function that colours `E` properly.  For all `n`, `k`, `c` (zeros included).

The three variable groups (`e_{u,v}` : position in `combinations(range(1, n+1), 2)`, `q_{i,v}` and
`r_{v,ℓ}` : row-major grids) are numbered by the `Fam.VarIndex` `ccIndex`; the inverse laws come
from the generic `VarIndex.ofObj_toObj` / `VarIndex.toObj_ofObj`.
-/

/-! ### the objects -/

/-- the potential edges of a graph on `[n]`: the pairs `(u, v)` with `1 ≤ u < v ≤ n`
(`mem_pairs_idx`), i.e. the entries of `combinations(range(1, n+1), 2)` -/
abbrev CCPair (n : Nat) := {e : Nat × Nat // e ∈ pairs (idx n)}

/-- the potential edge between the (0-based) vertices `u < v` -/
def ccPair {n : Nat} (u v : Fin n) (h : u.val < v.val) : CCPair n :=
  ⟨(u.val + 1, v.val + 1), mem_pairs_idx.2 ⟨by omega, by omega, v.isLt⟩⟩

theorem ccPair_val {n : Nat} (u v : Fin n) (h : u.val < v.val) :
    (ccPair u v h).1 = (u.val + 1, v.val + 1) := rfl

/-- every potential edge is `ccPair u v _` (for exactly one pair of vertices `u < v`) -/
theorem ccPair_surj {n : Nat} (e : CCPair n) :
    ∃ (u v : Fin n) (h : u.val < v.val), e = ccPair u v h ∧
      ∀ (u' v' : Fin n) (h' : u'.val < v'.val), e = ccPair u' v' h' → u' = u ∧ v' = v := by
  obtain ⟨⟨a, b⟩, he⟩ := e
  have hm := mem_pairs_idx.1 he
  refine ⟨⟨a - 1, by omega⟩, ⟨b - 1, by omega⟩, by simp only []; omega, ?_, ?_⟩
  · apply Subtype.ext
    simp only [ccPair_val, Prod.mk.injEq]; omega
  · intro u' v' h' e'
    have := congrArg Subtype.val e'
    simp only [ccPair_val, Prod.mk.injEq] at this
    exact ⟨Fin.ext (by simp only []; omega), Fin.ext (by simp only []; omega)⟩

/-- the objects: a graph (indicator of the edges among the pairs `u < v`), a relation
`[k] × [n]` and a relation `[n] × [c]` (0/1 matrices) -/
abbrev CCObj (n k c : Nat) :=
  (CCPair n → Bool) × (Fin k → Fin n → Bool) × (Fin n → Fin c → Bool)

/-- the documented properties of the triple (graph `E`, clique map `Q`, colouring `R`):
`Q` is an injective function `[k] → [n]` whose image is a clique of `E`, and `R` is a function
`[n] → [c]` that is a proper colouring of `E` -/
structure CliqueColouring (n k c : Nat) (E : CCPair n → Bool) (Q : Fin k → Fin n → Bool)
    (R : Fin n → Fin c → Bool) : Prop where
  qTotal : ∀ i, ∃ v, Q i v = true
  qFunc : ∀ i v v', Q i v = true → Q i v' = true → v = v'
  qInj : ∀ v i i', Q i v = true → Q i' v = true → i = i'
  clique : ∀ (u v : Fin n) (h : u.val < v.val) (i j : Fin k), i ≠ j →
    Q i u = true → Q j v = true → E (ccPair u v h) = true
  rTotal : ∀ v, ∃ l, R v l = true
  rFunc : ∀ v l l', R v l = true → R v l' = true → l = l'
  proper : ∀ (u v : Fin n) (h : u.val < v.val), E (ccPair u v h) = true →
    ∀ l, ¬ (R u l = true ∧ R v l = true)

/-! ### the numbering of the variables -/

/-- the index type of the variables: `e` (pairs), then `q` (`k × n`), then `r` (`n × c`) -/
abbrev CCIdx (n k c : Nat) := (CCPair n ⊕ (Fin k × Fin n)) ⊕ (Fin n × Fin c)

/-- the numbering of the three variable groups by `1..nvars` -/
def ccIndex (n k c : Nat) : VarIndex (CCIdx n k c) (cliqueColoringF n k c).nvars :=
  VarIndex.sumIdx (VarIndex.sumIdx (ccListIndex (pairs (idx n)) (nodup_pairs _ (idx_nodup n)))
    (VarIndex.gridIdx k n)) (VarIndex.gridIdx n c)

/-- `e_{u,v}` is the variable `1 + position of (u, v)` -/
theorem ccIndex_e (n k c : Nat) (e : CCPair n) :
    (ccIndex n k c).var (.inl (.inl e)) = 1 + (pairs (idx n)).idxOf e.1 := rfl

/-- `q_{i+1,v+1}` is the variable the formula uses (`ccQrel`) -/
theorem ccIndex_q (n k c : Nat) (i : Fin k) (v : Fin n) :
    (ccIndex n k c).var (.inl (.inr (i, v))) = Vars.mapId (1 + ccNE n) n (i.val + 1) (v.val + 1) := by
  show (pairs (idx n)).length + (i.val * n + v.val + 1) = _
  simp only [Vars.mapId, ccNE, Nat.add_sub_cancel]; omega

/-- `r_{v+1,ℓ+1}` is the variable the formula uses (`ccRrel`) -/
theorem ccIndex_r (n k c : Nat) (v : Fin n) (l : Fin c) :
    (ccIndex n k c).var (.inr (v, l)) =
      Vars.mapId (1 + ccNE n + k * n) c (v.val + 1) (l.val + 1) := by
  show (pairs (idx n)).length + k * n + (v.val * c + l.val + 1) = _
  simp only [Vars.mapId, ccNE, Nat.add_sub_cancel]; omega

/-! ### assignments ↔ objects -/

/-- a triple as one Boolean function on the index type -/
def ccObjFn {n k c : Nat} (T : CCObj n k c) : CCIdx n k c → Bool
  | .inl (.inl e) => T.1 e
  | .inl (.inr p) => T.2.1 p.1 p.2
  | .inr p => T.2.2 p.1 p.2

/-- the triple described by an assignment: `E e` is the value of `e_{u,v}`, `Q i v` the value of
`q_{i+1,v+1}`, `R v l` the value of `r_{v+1,l+1}` -/
def ccToObj (n k c : Nat) (a : Fin (cliqueColoringF n k c).nvars → Bool) : CCObj n k c :=
  (fun e => (ccIndex n k c).toObj a (.inl (.inl e)),
   fun i v => (ccIndex n k c).toObj a (.inl (.inr (i, v))),
   fun v l => (ccIndex n k c).toObj a (.inr (v, l)))

/-- the assignment describing a triple -/
def ccOfObj (n k c : Nat) (T : CCObj n k c) : Fin (cliqueColoringF n k c).nvars → Bool :=
  (ccIndex n k c).ofObj (ccObjFn T)

theorem ccObjFn_toObj (n k c : Nat) (a : Fin (cliqueColoringF n k c).nvars → Bool) :
    ccObjFn (ccToObj n k c a) = (ccIndex n k c).toObj a := by
  funext s
  rcases s with (e | ⟨i, v⟩) | ⟨v, l⟩ <;> rfl

theorem cc_ofObj_toObj (n k c : Nat) (a : Fin (cliqueColoringF n k c).nvars → Bool) :
    ccOfObj n k c (ccToObj n k c a) = a := by
  rw [ccOfObj, ccObjFn_toObj, VarIndex.ofObj_toObj]

theorem cc_toObj_ofObj (n k c : Nat) (T : CCObj n k c) : ccToObj n k c (ccOfObj n k c T) = T := by
  simp only [ccToObj, ccOfObj, VarIndex.toObj_ofObj]
  rfl

/-- the variable `e_{u+1,v+1}` under `extend a` is the object's edge indicator -/
theorem ccE_extend (n k c : Nat) (a : Fin (cliqueColoringF n k c).nvars → Bool) (u v : Fin n)
    (h : u.val < v.val) :
    ccE n (extend a) (u.val + 1) (v.val + 1) ↔ (ccToObj n k c a).1 (ccPair u v h) = true := by
  have := (ccIndex n k c).extend_var a (.inl (.inl (ccPair u v h)))
  rw [ccIndex_e, ccPair_val] at this
  simp only [ccE, extend, this, ccToObj]

/-- the variable `q_{i+1,v+1}` under `extend a` is the matrix entry `Q i v` -/
theorem ccQ_extend (n k c : Nat) (a : Fin (cliqueColoringF n k c).nvars → Bool) (i : Fin k)
    (v : Fin n) :
    ccQrel n (extend a) (i.val + 1) (v.val + 1) ↔ (ccToObj n k c a).2.1 i v = true := by
  have := (ccIndex n k c).extend_var a (.inl (.inr (i, v)))
  rw [ccIndex_q] at this
  simp only [ccQrel, extend, this, ccToObj]

/-- the variable `r_{v+1,l+1}` under `extend a` is the matrix entry `R v l` -/
theorem ccR_extend (n k c : Nat) (a : Fin (cliqueColoringF n k c).nvars → Bool) (v : Fin n)
    (l : Fin c) :
    ccRrel n k c (extend a) (v.val + 1) (l.val + 1) ↔ (ccToObj n k c a).2.2 v l = true := by
  have := (ccIndex n k c).extend_var a (.inr (v, l))
  rw [ccIndex_r] at this
  simp only [ccRrel, extend, this, ccToObj]

/-- the satisfying assignments (restricted to the `C(n,2) + k·n + n·c` variables) are exactly the
assignments that describe a graph with a `k`-clique and a `c`-colouring; together with
`cc_ofObj_toObj` / `cc_toObj_ofObj` this is the bijection "satisfying assignments ↔ triples" -/
theorem cc_holds_iff_obj (n k c : Nat) (a : Fin (cliqueColoringF n k c).nvars → Bool) :
    (cliqueColoringF n k c).holds (extend a) = true ↔
      CliqueColouring n k c (ccToObj n k c a).1 (ccToObj n k c a).2.1 (ccToObj n k c a).2.2 := by
  rw [cc_spec]
  have keyE := ccE_extend n k c a
  have keyQ := ccQ_extend n k c a
  have keyR := ccR_extend n k c a
  constructor
  · rintro ⟨a1, a2, a3, a4, a5, a6, a7⟩
    refine ⟨?_, ?_, ?_, ?_, ?_, ?_, ?_⟩
    · intro i
      obtain ⟨v, hv1, hv2, hQ⟩ := a1 (i.val + 1) (by omega) i.isLt
      refine ⟨⟨v - 1, by omega⟩, (keyQ i ⟨v - 1, by omega⟩).1 ?_⟩
      simpa [Nat.sub_add_cancel hv1] using hQ
    · intro i v v' e e'
      have := a2 (i.val + 1) (by omega) i.isLt (v.val + 1) (by omega) v.isLt (v'.val + 1) (by omega)
        v'.isLt ((keyQ i v).2 e) ((keyQ i v').2 e')
      exact Fin.ext (by omega)
    · intro v i i' e e'
      have := a3 (v.val + 1) (by omega) v.isLt (i.val + 1) (by omega) i.isLt (i'.val + 1) (by omega)
        i'.isLt ((keyQ i v).2 e) ((keyQ i' v).2 e')
      exact Fin.ext (by omega)
    · intro u v h i j hij e e'
      exact (keyE u v h).1 (a4 (u.val + 1) (v.val + 1) (by omega) (by omega) v.isLt
        (i.val + 1) (by omega) i.isLt (j.val + 1) (by omega) j.isLt
        (fun he => hij (Fin.ext (by omega))) ((keyQ i u).2 e) ((keyQ j v).2 e'))
    · intro v
      obtain ⟨l, hl1, hl2, hR⟩ := a5 (v.val + 1) (by omega) v.isLt
      refine ⟨⟨l - 1, by omega⟩, (keyR v ⟨l - 1, by omega⟩).1 ?_⟩
      simpa [Nat.sub_add_cancel hl1] using hR
    · intro v l l' e e'
      have := a6 (v.val + 1) (by omega) v.isLt (l.val + 1) (by omega) l.isLt (l'.val + 1) (by omega)
        l'.isLt ((keyR v l).2 e) ((keyR v l').2 e')
      exact Fin.ext (by omega)
    · intro u v h hE l hRR
      exact a7 (u.val + 1) (v.val + 1) (by omega) (by omega) v.isLt (l.val + 1) (by omega) l.isLt
        ((keyE u v h).2 hE) ⟨(keyR u l).2 hRR.1, (keyR v l).2 hRR.2⟩
  · rintro ⟨a1, a2, a3, a4, a5, a6, a7⟩
    have keyE' : ∀ u v (hu1 : 1 ≤ u) (huv : u < v) (hv : v ≤ n),
        ccE n (extend a) u v ↔
          (ccToObj n k c a).1 (ccPair ⟨u - 1, by omega⟩ ⟨v - 1, by omega⟩
            (by simp only []; omega)) = true := by
      intro u v hu1 huv hv
      have := keyE ⟨u - 1, by omega⟩ ⟨v - 1, by omega⟩ (by simp only []; omega)
      simpa [Nat.sub_add_cancel hu1, Nat.sub_add_cancel (show 1 ≤ v by omega)] using this
    have keyQ' : ∀ i v (hi1 : 1 ≤ i) (hi : i ≤ k) (hv1 : 1 ≤ v) (hv : v ≤ n),
        ccQrel n (extend a) i v ↔
          (ccToObj n k c a).2.1 ⟨i - 1, by omega⟩ ⟨v - 1, by omega⟩ = true := by
      intro i v hi1 hi hv1 hv
      have := keyQ ⟨i - 1, by omega⟩ ⟨v - 1, by omega⟩
      simpa [Nat.sub_add_cancel hi1, Nat.sub_add_cancel hv1] using this
    have keyR' : ∀ v l (hv1 : 1 ≤ v) (hv : v ≤ n) (hl1 : 1 ≤ l) (hl : l ≤ c),
        ccRrel n k c (extend a) v l ↔
          (ccToObj n k c a).2.2 ⟨v - 1, by omega⟩ ⟨l - 1, by omega⟩ = true := by
      intro v l hv1 hv hl1 hl
      have := keyR ⟨v - 1, by omega⟩ ⟨l - 1, by omega⟩
      simpa [Nat.sub_add_cancel hv1, Nat.sub_add_cancel hl1] using this
    refine ⟨?_, ?_, ?_, ?_, ?_, ?_, ?_⟩
    · intro i hi1 hi
      obtain ⟨v, hv⟩ := a1 ⟨i - 1, by omega⟩
      refine ⟨v.val + 1, by omega, v.isLt, (keyQ' i (v.val + 1) hi1 hi (by omega) v.isLt).2 ?_⟩
      simpa using hv
    · intro i hi1 hi v hv1 hv v' hv1' hv' e e'
      have := a2 _ _ _ ((keyQ' i v hi1 hi hv1 hv).1 e) ((keyQ' i v' hi1 hi hv1' hv').1 e')
      have := congrArg Fin.val this
      simp only [] at this; omega
    · intro v hv1 hv i hi1 hi i' hi1' hi' e e'
      have := a3 _ _ _ ((keyQ' i v hi1 hi hv1 hv).1 e) ((keyQ' i' v hi1' hi' hv1 hv).1 e')
      have := congrArg Fin.val this
      simp only [] at this; omega
    · intro u v hu1 huv hv i hi1 hi j hj1 hj hij e e'
      refine (keyE' u v hu1 huv hv).2 (a4 _ _ _ ⟨i - 1, by omega⟩ ⟨j - 1, by omega⟩ ?_
        ((keyQ' i u hi1 hi hu1 (by omega)).1 e) ((keyQ' j v hj1 hj (by omega) hv).1 e'))
      intro he
      have := congrArg Fin.val he
      simp only [] at this; omega
    · intro v hv1 hv
      obtain ⟨l, hl⟩ := a5 ⟨v - 1, by omega⟩
      refine ⟨l.val + 1, by omega, l.isLt, (keyR' v (l.val + 1) hv1 hv (by omega) l.isLt).2 ?_⟩
      simpa using hl
    · intro v hv1 hv l hl1 hl l' hl1' hl' e e'
      have := a6 _ _ _ ((keyR' v l hv1 hv hl1 hl).1 e) ((keyR' v l' hv1 hv hl1' hl').1 e')
      have := congrArg Fin.val this
      simp only [] at this; omega
    · intro u v hu1 huv hv l hl1 hl hE hRR
      exact a7 _ _ _ ((keyE' u v hu1 huv hv).1 hE) ⟨l - 1, by omega⟩
        ⟨(keyR' u l hu1 (by omega) hl1 hl).1 hRR.1, (keyR' v l (by omega) hv hl1 hl).1 hRR.2⟩

/-- the bijection, packaged: `ccToObj` maps the satisfying restricted assignments one-to-one onto
the triples (graph, clique map, colouring) with the documented properties -/
theorem cc_bijection (n k c : Nat) :
    (∀ a, (cliqueColoringF n k c).holds (extend a) = true →
      CliqueColouring n k c (ccToObj n k c a).1 (ccToObj n k c a).2.1 (ccToObj n k c a).2.2) ∧
    (∀ T : CCObj n k c, CliqueColouring n k c T.1 T.2.1 T.2.2 →
      (cliqueColoringF n k c).holds (extend (ccOfObj n k c T)) = true) ∧
    (∀ a, ccOfObj n k c (ccToObj n k c a) = a) ∧ (∀ T, ccToObj n k c (ccOfObj n k c T) = T) :=
  ⟨fun a h => (cc_holds_iff_obj n k c a).1 h,
   fun T h => (cc_holds_iff_obj n k c _).2 (by rw [cc_toObj_ofObj]; exact h),
   cc_ofObj_toObj n k c, cc_toObj_ofObj n k c⟩

/-- every satisfying restricted assignment is described by exactly one triple with the documented
properties, and every such triple is described by exactly one satisfying restricted assignment -/
theorem cc_bijection_unique (n k c : Nat) :
    (∀ a, (cliqueColoringF n k c).holds (extend a) = true →
      ∃! T : CCObj n k c, CliqueColouring n k c T.1 T.2.1 T.2.2 ∧ ccOfObj n k c T = a) ∧
    (∀ T : CCObj n k c, CliqueColouring n k c T.1 T.2.1 T.2.2 →
      ∃! a, (cliqueColoringF n k c).holds (extend a) = true ∧ ccToObj n k c a = T) := by
  refine ⟨?_, ?_⟩
  · intro a ha
    refine ⟨ccToObj n k c a, ⟨(cc_holds_iff_obj n k c a).1 ha, cc_ofObj_toObj n k c a⟩, ?_⟩
    rintro T ⟨_, hT⟩
    rw [← hT, cc_toObj_ofObj]
  · intro T hT
    refine ⟨ccOfObj n k c T,
      ⟨(cc_holds_iff_obj n k c _).2 (by rw [cc_toObj_ofObj]; exact hT), cc_toObj_ofObj n k c T⟩, ?_⟩
    rintro a ⟨_, ha⟩
    rw [← ha, cc_ofObj_toObj]

/-! ### total assignments: the same triple ⇒ the same values on every variable -/

/-- two (total) assignments that describe the same triple (graph, clique map, colouring) agree on
every variable of the formula -/
theorem cc_unique (n k c : Nat) (α β : Assign)
    (hE : ∀ u v, 1 ≤ u → u < v → v ≤ n → (ccE n α u v ↔ ccE n β u v))
    (hQ : ∀ i v, 1 ≤ i → i ≤ k → 1 ≤ v → v ≤ n → (ccQrel n α i v ↔ ccQrel n β i v))
    (hR : ∀ v l, 1 ≤ v → v ≤ n → 1 ≤ l → l ≤ c → (ccRrel n k c α v l ↔ ccRrel n k c β v l)) :
    ∀ x, 1 ≤ x → x ≤ (cliqueColoringF n k c).nvars → α x = β x := by
  apply (ccIndex n k c).agree_of_toObj_eq α β
  intro s
  rw [Bool.eq_iff_iff]
  rcases s with (e | ⟨i, v⟩) | ⟨v, l⟩
  · obtain ⟨⟨u, v⟩, he⟩ := e
    have hm := mem_pairs_idx.1 he
    rw [ccIndex_e]
    exact hE u v hm.1 hm.2.1 hm.2.2
  · rw [ccIndex_q]
    exact hQ (i.val + 1) (v.val + 1) (by omega) i.isLt (by omega) v.isLt
  · rw [ccIndex_r]
    exact hR (v.val + 1) (l.val + 1) (by omega) v.isLt (by omega) l.isLt

/-- in particular: a satisfying total assignment is determined on `1..nvars` by its triple, i.e.
its restriction is the assignment `ccOfObj` of the triple it describes -/
theorem cc_restrict_eq (n k c : Nat) (α : Assign) :
    ccOfObj n k c (ccToObj n k c (Fam.restrict (cliqueColoringF n k c).nvars α)) =
      Fam.restrict (cliqueColoringF n k c).nvars α := cc_ofObj_toObj n k c _

/-- total assignments: `α` satisfies the formula iff the triple described by its restriction to
`1..nvars` has the documented properties -/
theorem cc_holds_iff_obj_total (n k c : Nat) (α : Assign) :
    (cliqueColoringF n k c).holds α = true ↔
      CliqueColouring n k c (ccToObj n k c (Fam.restrict (cliqueColoringF n k c).nvars α)).1
        (ccToObj n k c (Fam.restrict (cliqueColoringF n k c).nvars α)).2.1
        (ccToObj n k c (Fam.restrict (cliqueColoringF n k c).nvars α)).2.2 := by
  rw [← holds_restrict _ (cc_wf n k c) α]
  exact cc_holds_iff_obj n k c _

/-! ### a concrete object -/

/-- the graph on `{1, 2}` with the single edge `{1,2}`, clique members `1 ↦ 1`, `2 ↦ 2`,
colours `1 ↦ 1`, `2 ↦ 2` -/
theorem cc_obj_222 : CliqueColouring 2 2 2 (fun _ => true) (fun i v => decide (i = v))
    (fun v l => decide (v = l)) := by
  refine ⟨fun i => ⟨i, by simp⟩, ?_, ?_, fun _ _ _ _ _ _ _ _ => rfl, fun v => ⟨v, by simp⟩, ?_, ?_⟩
  · intro i v v' e e'
    simp only [decide_eq_true_eq] at e e'
    exact e.symm.trans e'
  · intro v i i' e e'
    simp only [decide_eq_true_eq] at e e'
    exact e.trans e'.symm
  · intro v l l' e e'
    simp only [decide_eq_true_eq] at e e'
    exact e.symm.trans e'
  · intro u v h _ l hRR
    simp only [decide_eq_true_eq] at hRR
    have := hRR.1.trans hRR.2.symm
    rw [this] at h
    exact Nat.lt_irrefl _ h

/-- exactly one assignment to the `1 + 4 + 4` variables of CliqueColoring(2,2,2) describes it -/
example : ∃! a, (cliqueColoringF 2 2 2).holds (extend a) = true ∧
    ccToObj 2 2 2 a = (fun _ => true, fun i v => decide (i = v), fun v l => decide (v = l)) :=
  (cc_bijection_unique 2 2 2).2 (fun _ => true, fun i v => decide (i = v), fun v l => decide (v = l))
    cc_obj_222

/-- and, because a 2-clique needs the edge, no triple with the empty graph is described -/
example : ¬ CliqueColouring 2 2 2 (fun _ => false) (fun i v => decide (i = v))
    (fun v l => decide (v = l)) := by
  intro h
  have := h.clique ⟨0, by omega⟩ ⟨1, by omega⟩ (by simp) ⟨0, by omega⟩ ⟨1, by omega⟩ (by simp)
    (by simp) (by simp)
  simp at this

end Cnfgen.C01
