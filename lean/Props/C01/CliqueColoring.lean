/-
C01 — CliqueColoring(n, k, c): a graph on [n] with a k-clique and a c-colouring.
-/
import Lemmas.C01CC
namespace Cnfgen.C01
open Cnfgen Cnfgen.Fam

/-- number of edge variables; equals `n choose 2` (`cc_edges_count`) -/
def ccNE (n : Nat) : Nat := (pairs (idx n)).length

theorem cc_edges_count (n : Nat) : ccNE n = Nat.choose n 2 := by
  rw [ccNE, length_pairs, length_idx]

/-- `e_{u,v}` (`u < v`): `{u,v}` is an edge of the graph; the pairs are numbered in the order of
`combinations(range(1, n+1), 2)` -/
def ccE (n : Nat) (α : Assign) (u v : Nat) : Prop := α (1 + (pairs (idx n)).idxOf (u, v)) = true
/-- `q_{i,v}`: vertex `v` is the `i`-th member of the clique -/
def ccQrel (n : Nat) (α : Assign) (i v : Nat) : Prop := α (Vars.mapId (1 + ccNE n) n i v) = true
/-- `r_{v,ℓ}`: vertex `v` has colour `ℓ` -/
def ccRrel (n k c : Nat) (α : Assign) (v l : Nat) : Prop :=
  α (Vars.mapId (1 + ccNE n + k * n) c v l) = true

/-- the documented statement: `Q` is an injective function `[k] → [n]` whose image is a clique of
the graph `E`, and `R` is a function `[n] → [c]` that is a proper colouring of `E` -/
structure CCSpec (n k c : Nat) (E Q R : Nat → Nat → Prop) : Prop where
  qTotal : ∀ i, 1 ≤ i → i ≤ k → ∃ v, 1 ≤ v ∧ v ≤ n ∧ Q i v
  qFunc : ∀ i, 1 ≤ i → i ≤ k → ∀ v, 1 ≤ v → v ≤ n → ∀ v', 1 ≤ v' → v' ≤ n → Q i v → Q i v' → v = v'
  qInj : ∀ v, 1 ≤ v → v ≤ n → ∀ i, 1 ≤ i → i ≤ k → ∀ i', 1 ≤ i' → i' ≤ k → Q i v → Q i' v → i = i'
  clique : ∀ u v, 1 ≤ u → u < v → v ≤ n → ∀ i, 1 ≤ i → i ≤ k → ∀ j, 1 ≤ j → j ≤ k → i ≠ j →
    Q i u → Q j v → E u v
  rTotal : ∀ v, 1 ≤ v → v ≤ n → ∃ l, 1 ≤ l ∧ l ≤ c ∧ R v l
  rFunc : ∀ v, 1 ≤ v → v ≤ n → ∀ l, 1 ≤ l → l ≤ c → ∀ l', 1 ≤ l' → l' ≤ c → R v l → R v l' → l = l'
  proper : ∀ u v, 1 ≤ u → u < v → v ≤ n → ∀ l, 1 ≤ l → l ≤ c → E u v → ¬ (R u l ∧ R v l)

/-- T-C01.5 (clique-colouring): for all sizes and assignments -/
theorem cc_spec (n k c : Nat) (α : Assign) :
    (cliqueColoringF n k c).holds α = true ↔
      CCSpec n k c (ccE n α) (ccQrel n α) (ccRrel n k c α) := by
  have hq : 0 < (ccQ n k).start := by simp only [ccQ]; omega
  have hr : 0 < (ccR n k c).start := by simp only [ccR]; omega
  have h1 := UMap.forceComplete_holds (ccQ n k) hq α
  have h2 := UMap.forceFunctional_holds (ccQ n k) hq α
  have h3 := UMap.forceInjective_holds (ccQ n k) hq α
  have h5 := UMap.forceComplete_holds (ccR n k c) hr α
  have h6 := UMap.forceFunctional_holds (ccR n k c) hr α
  have h4 : ((ccEdges n).flatMap fun e => (pairs (idx k)).flatMap fun i =>
        [Con.clause [((1 + e.2 : Nat) : Int), -((ccQ n k).lit i.1 e.1.1), -((ccQ n k).lit i.2 e.1.2)],
         Con.clause [((1 + e.2 : Nat) : Int), -((ccQ n k).lit i.1 e.1.2), -((ccQ n k).lit i.2 e.1.1)]]).all
        (Con.holds α) = true ↔
      ∀ u v, 1 ≤ u → u < v → v ≤ n → ∀ i j, 1 ≤ i → i < j → j ≤ k →
        (ccQrel n α i u → ccQrel n α j v → ccE n α u v) ∧
        (ccQrel n α i v → ccQrel n α j u → ccE n α u v) := by
    rw [ccEdges_eq]
    simp only [List.flatMap_map, List.all_flatMap, List.all_cons, List.all_nil, Bool.and_true,
      Bool.and_eq_true, List.all_eq_true, Con.holds, cc_clique_holds]
    constructor
    · intro h u v a b c' i j d e f
      exact h (u, v) (mem_pairs_idx.2 ⟨a, b, c'⟩) (i, j) (mem_pairs_idx.2 ⟨d, e, f⟩)
    · intro h x hx y hy
      obtain ⟨u, v⟩ := x
      obtain ⟨i, j⟩ := y
      rw [mem_pairs_idx] at hx hy
      exact h u v hx.1 hx.2.1 hx.2.2 i j hy.1 hy.2.1 hy.2.2
  have h7 : ((ccEdges n).flatMap fun e => (idx c).map fun l =>
        Con.clause [-((1 + e.2 : Nat) : Int), -((ccR n k c).lit e.1.1 l), -((ccR n k c).lit e.1.2 l)]).all
        (Con.holds α) = true ↔
      ∀ u v, 1 ≤ u → u < v → v ≤ n → ∀ l, 1 ≤ l → l ≤ c →
        ccE n α u v → ¬ (ccRrel n k c α u l ∧ ccRrel n k c α v l) := by
    rw [ccEdges_eq]
    simp only [List.flatMap_map, List.all_flatMap, List.all_map, List.all_eq_true, Function.comp,
      Con.holds, cc_proper_holds, mem_idx]
    constructor
    · intro h u v a b c' l d e
      exact h (u, v) (mem_pairs_idx.2 ⟨a, b, c'⟩) l ⟨d, e⟩
    · intro h x hx l hl
      obtain ⟨u, v⟩ := x
      rw [mem_pairs_idx] at hx
      exact h u v hx.1 hx.2.1 hx.2.2 l hl.1 hl.2
  simp only [cliqueColoringF, Formula.holds_mk, List.all_append, Bool.and_eq_true]
  rw [h1, h2, h3, h4, h5, h6, h7]
  constructor
  · rintro ⟨⟨⟨⟨⟨⟨a1, a2⟩, a3⟩, a4⟩, a5⟩, a6⟩, a7⟩
    refine ⟨a1, a2, a3, ?_, a5, a6, a7⟩
    intro u v hu huv hv i hi1 hi2 j hj1 hj2 hij hQi hQj
    rcases Nat.lt_or_gt_of_ne hij with hlt | hgt
    · exact (a4 u v hu huv hv i j hi1 hlt hj2).1 hQi hQj
    · exact (a4 u v hu huv hv j i hj1 hgt hi2).2 hQj hQi
  · rintro ⟨a1, a2, a3, a4, a5, a6, a7⟩
    refine ⟨⟨⟨⟨⟨⟨a1, a2⟩, a3⟩, ?_⟩, a5⟩, a6⟩, a7⟩
    intro u v hu huv hv i j hi hij hj
    exact ⟨a4 u v hu huv hv i hi (by omega) j (by omega) hj (by omega),
      fun hQi hQj => a4 u v hu huv hv j (by omega) hj i hi (by omega) (by omega) hQj hQi⟩

example : CCSpec 2 2 2 (fun _ _ => True) (fun i v => i = v) (fun v l => v = l) :=
  ⟨fun i a b => ⟨i, a, b, rfl⟩, by intros; omega, by intros; omega, by intros; trivial,
   fun v a b => ⟨v, a, b, rfl⟩, by intros; omega, by intro u v _ _ _ l _ _ _ h; omega⟩

theorem cc_wf (n k c : Nat) : (cliqueColoringF n k c).WF := by
  have hq : 0 < (ccQ n k).start := by simp only [ccQ]; omega
  have hr : 0 < (ccR n k c).start := by simp only [ccR]; omega
  have hNq : (ccQ n k).start + (ccQ n k).dom * (ccQ n k).rng
      ≤ ((pairs (idx n)).length + k * n + n * c) + 1 := by simp only [ccQ]; omega
  have hNr : (ccR n k c).start + (ccR n k c).dom * (ccR n k c).rng
      ≤ ((pairs (idx n)).length + k * n + n * c) + 1 := by simp only [ccR]; omega
  have hE : ∀ e ∈ ccEdges n, e.1.1 ∈ idx n ∧ e.1.2 ∈ idx n ∧
      ((1 + e.2 : Nat) : Int) ≠ 0 ∧ ((1 + e.2 : Nat) : Int).natAbs ≤ (pairs (idx n)).length + k * n + n * c ∧
      -((1 + e.2 : Nat) : Int) ≠ 0 ∧ (-((1 + e.2 : Nat) : Int)).natAbs ≤ (pairs (idx n)).length + k * n + n * c := by
    intro e he
    rw [ccEdges_eq, List.mem_map] at he
    obtain ⟨⟨u, v⟩, huv, rfl⟩ := he
    have := mem_pairs_mem _ _ _ huv
    have hlt := List.idxOf_lt_length_iff.2 huv
    refine ⟨this.1, this.2, ?_, ?_, ?_, ?_⟩ <;> simp only [] <;> omega
  have hI : ∀ i ∈ pairs (idx k), i.1 ∈ idx k ∧ i.2 ∈ idx k := fun i hi => mem_pairs_mem _ i.1 i.2 hi
  intro cn hc
  simp only [cliqueColoringF, List.mem_append, List.mem_flatMap, List.mem_map, List.mem_cons,
    List.not_mem_nil, or_false] at hc
  rcases hc with (((((h | h) | h) | ⟨e, he, i, hi, h⟩) | h) | h) | ⟨e, he, l, hl, rfl⟩
  · exact UMap.forceComplete_wf _ hq hNq cn h
  · exact UMap.forceFunctional_wf _ hq hNq cn h
  · exact UMap.forceInjective_wf _ hq hNq cn h
  · obtain ⟨e1, e2, e3, e4, _, _⟩ := hE e he
    obtain ⟨i1, i2⟩ := hI i hi
    rcases h with rfl | rfl
    · intro l hl
      simp only [Con.lits, List.mem_cons, List.not_mem_nil, or_false] at hl
      rcases hl with rfl | rfl | rfl
      · exact ⟨e3, e4⟩
      · exact UMap.neg_lit_wf _ hq hNq i1 e1
      · exact UMap.neg_lit_wf _ hq hNq i2 e2
    · intro l hl
      simp only [Con.lits, List.mem_cons, List.not_mem_nil, or_false] at hl
      rcases hl with rfl | rfl | rfl
      · exact ⟨e3, e4⟩
      · exact UMap.neg_lit_wf _ hq hNq i1 e2
      · exact UMap.neg_lit_wf _ hq hNq i2 e1
  · exact UMap.forceComplete_wf _ hr hNr cn h
  · exact UMap.forceFunctional_wf _ hr hNr cn h
  · obtain ⟨e1, e2, _, _, e5, e6⟩ := hE e he
    intro l' hl'
    simp only [Con.lits, List.mem_cons, List.not_mem_nil, or_false] at hl'
    rcases hl' with rfl | rfl | rfl
    · exact ⟨e5, e6⟩
    · exact UMap.neg_lit_wf _ hr hNr e1 hl
    · exact UMap.neg_lit_wf _ hr hNr e2 hl

/-- documented variable count: `e` (n choose 2), `q` (k·n), `r` (n·c) -/
theorem cc_nvars (n k c : Nat) : (cliqueColoringF n k c).nvars = Nat.choose n 2 + k * n + n * c := by
  show (pairs (idx n)).length + k * n + n * c = _
  rw [length_pairs, length_idx]

theorem cc_validation (n k c : Int) :
    cliqueColoring n k c = if n < 0 ∨ k < 0 ∨ c < 0 then .error .valueError
      else .ok (cliqueColoringF n.toNat k.toNat c.toNat) := rfl

theorem cc_cnf_spec (n k c : Nat) (α : Assign) :
    (cliqueColoringF n k c).toCNF.holds α = true ↔
      CCSpec n k c (ccE n α) (ccQrel n α) (ccRrel n k c α) := by
  rw [Formula.toCNF_holds α _ (cc_wf n k c)]; exact cc_spec n k c α

theorem cc_opb_spec (n k c : Nat) (α : Assign) :
    (cliqueColoringF n k c).toOPB.holds α = true ↔
      CCSpec n k c (ccE n α) (ccQrel n α) (ccRrel n k c α) := by
  rw [Formula.toOPB_holds α _ (cc_wf n k c)]; exact cc_spec n k c α

/-- the specification only looks at in-range indices (and at pairs `u < v`) -/
theorem CCSpec_congr {n k c : Nat} {E E' Q Q' R R' : Nat → Nat → Prop}
    (hE : ∀ u v, 1 ≤ u → u < v → v ≤ n → (E u v ↔ E' u v))
    (hQ : ∀ i v, 1 ≤ i → i ≤ k → 1 ≤ v → v ≤ n → (Q i v ↔ Q' i v))
    (hR : ∀ v l, 1 ≤ v → v ≤ n → 1 ≤ l → l ≤ c → (R v l ↔ R' v l)) :
    CCSpec n k c E Q R → CCSpec n k c E' Q' R' := by
  rintro ⟨a1, a2, a3, a4, a5, a6, a7⟩
  refine ⟨?_, ?_, ?_, ?_, ?_, ?_, ?_⟩
  · intro i x y
    obtain ⟨v, p, q, r⟩ := a1 i x y
    exact ⟨v, p, q, (hQ i v x y p q).1 r⟩
  · intro i x y v p q v' p' q' e e'
    exact a2 i x y v p q v' p' q' ((hQ i v x y p q).2 e) ((hQ i v' x y p' q').2 e')
  · intro v x y i p q i' p' q' e e'
    exact a3 v x y i p q i' p' q' ((hQ i v p q x y).2 e) ((hQ i' v p' q' x y).2 e')
  · intro u v x y z i p q j p' q' hij e e'
    exact (hE u v x y z).1 (a4 u v x y z i p q j p' q' hij
      ((hQ i u p q x (by omega)).2 e) ((hQ j v p' q' (by omega) z).2 e'))
  · intro v x y
    obtain ⟨l, p, q, r⟩ := a5 v x y
    exact ⟨l, p, q, (hR v l x y p q).1 r⟩
  · intro v x y l p q l' p' q' e e'
    exact a6 v x y l p q l' p' q' ((hR v l x y p q).2 e) ((hR v l' x y p' q').2 e')
  · intro u v x y z l p q e ⟨f, f'⟩
    exact a7 u v x y z l p q ((hE u v x y z).2 e)
      ⟨(hR u l x (by omega) p q).2 f, (hR v l (by omega) z p q).2 f'⟩

/-- every triple (graph, clique map, colouring) with the documented properties is described
by a satisfying assignment -/
theorem cc_realises (n k c : Nat) (E Q R : Nat → Nat → Bool)
    (h : CCSpec n k c (fun u v => E u v = true) (fun i v => Q i v = true) (fun v l => R v l = true)) :
    (cliqueColoringF n k c).holds (ccAssign n k c E Q R) = true := by
  rw [cc_spec]
  refine CCSpec_congr ?_ ?_ ?_ h
  · intro u v a b c'
    have := ccAssign_e n k c E Q R (mem_pairs_idx.2 ⟨a, b, c'⟩)
    simp only [ccEVar] at this
    simp only [ccE, this]
  · intro i v a b c' d
    have := ccAssign_q n k c E Q R a b c' d
    simp only [ccQ, UMap.var] at this
    simp only [ccQrel, ccNE, this]
  · intro v l a _ c' d
    have := ccAssign_r n k c E Q R a c' d
    simp only [ccR, UMap.var] at this
    simp only [ccRrel, ccNE, this]

/-- T-C01.5 corollary: a graph on `n` vertices with a `k`-clique and a `c`-colouring exists
exactly when `k ≤ n`, `k ≤ c` and (if there is a vertex at all) there is a colour.
In particular `k = c + 1` is unsatisfiable. -/
theorem cc_sat_iff (n k c : Nat) :
    (∃ α, (cliqueColoringF n k c).holds α = true) ↔ k ≤ n ∧ k ≤ c ∧ (n = 0 ∨ 1 ≤ c) := by
  constructor
  · rintro ⟨α, hα⟩
    obtain ⟨a1, a2, a3, a4, a5, a6, a7⟩ := (cc_spec n k c α).1 hα
    refine ⟨le_of_total_injective k n _ a1 a3, ?_, ?_⟩
    · -- the colours of the clique members are pairwise distinct
      apply le_of_total_injective k c
        (fun i l => ∃ v, 1 ≤ v ∧ v ≤ n ∧ ccQrel n α i v ∧ ccRrel n k c α v l)
      · intro i hi1 hi2
        obtain ⟨v, hv1, hv2, hQ⟩ := a1 i hi1 hi2
        obtain ⟨l, hl1, hl2, hR⟩ := a5 v hv1 hv2
        exact ⟨l, hl1, hl2, v, hv1, hv2, hQ, hR⟩
      · rintro l hl1 hl2 i hi1 hi2 i' hi1' hi2' ⟨v, hv1, hv2, hQ, hR⟩ ⟨v', hv1', hv2', hQ', hR'⟩
        by_cases hii : i = i'
        · exact hii
        · exfalso
          rcases Nat.lt_trichotomy v v' with hlt | he | hgt
          · exact a7 v v' hv1 hlt hv2' l hl1 hl2
              (a4 v v' hv1 hlt hv2' i hi1 hi2 i' hi1' hi2' hii hQ hQ') ⟨hR, hR'⟩
          · subst he; exact hii (a3 v hv1 hv2 i hi1 hi2 i' hi1' hi2' hQ hQ')
          · exact a7 v' v hv1' hgt hv2 l hl1 hl2
              (a4 v' v hv1' hgt hv2 i' hi1' hi2' i hi1 hi2 (fun h => hii h.symm) hQ' hQ) ⟨hR', hR⟩
    · rcases Nat.eq_zero_or_pos n with h | h
      · exact Or.inl h
      · obtain ⟨l, hl1, hl2, _⟩ := a5 1 (by omega) h
        right; omega
  · rintro ⟨hkn, hkc, hnc⟩
    -- clique = the first k vertices (member i is vertex i), vertex v gets colour min v c
    refine ⟨_, cc_realises n k c (fun _ v => decide (v ≤ k)) (fun i v => i == v)
      (fun v l => l == min v c) ⟨?_, ?_, ?_, ?_, ?_, ?_, ?_⟩⟩
    · intro i a b; exact ⟨i, a, by omega, by simp⟩
    · intro i _ _ v _ _ v' _ _ h h'
      simp only [beq_iff_eq] at h h'; omega
    · intro v _ _ i _ _ i' _ _ h h'
      simp only [beq_iff_eq] at h h'; omega
    · intro u v _ _ _ i _ _ j _ g _ _ h'
      simp only [beq_iff_eq] at h'
      simp only [decide_eq_true_eq]; omega
    · intro v a b
      have hc1 : 1 ≤ c := by omega
      exact ⟨min v c, by omega, by omega, by simp⟩
    · intro v _ _ l _ _ l' _ _ h h'
      simp only [beq_iff_eq] at h h'; omega
    · intro u v _ _ _ l _ _ hEuv ⟨h, h'⟩
      simp only [decide_eq_true_eq] at hEuv
      simp only [beq_iff_eq] at h h'
      omega

end Cnfgen.C01
