/-
C01 — PigeonholePrinciple(pigeons, holes, functional, onto): the satisfying assignments are
exactly the placements of pigeons; satisfiable iff such a placement exists.
Property theorems only; helper lemmas are in `Lemmas/Fam*.lean`.
-/
import Lemmas.C01Pigeon
import CnfgenModel.Fam.Php
namespace Cnfgen.C01
open Cnfgen Cnfgen.Fam

/-- "pigeon `u` flies to hole `v`" under `α`: the variable `p_{u,v}` of `new_mapping(m, n)` is true -/
def phpRel (n : Nat) (α : Assign) (u v : Nat) : Prop := α (Vars.mapId 1 n u v) = true

/-- the documented statement of `PigeonholePrinciple(m, n, functional, onto)` about a relation
`R ⊆ [m] × [n]` ("pigeon u sits in hole v") -/
structure PHPSpec (m n : Nat) (functional onto : Bool) (R : Nat → Nat → Prop) : Prop where
  /-- every pigeon sits in some hole -/
  total : ∀ u, 1 ≤ u → u ≤ m → ∃ v, 1 ≤ v ∧ v ≤ n ∧ R u v
  /-- no two pigeons in the same hole -/
  inj : ∀ v, 1 ≤ v → v ≤ n → ∀ u, 1 ≤ u → u ≤ m → ∀ u', 1 ≤ u' → u' ≤ m → R u v → R u' v → u = u'
  /-- FPHP: at most one hole per pigeon -/
  func : functional = true →
    ∀ u, 1 ≤ u → u ≤ m → ∀ v, 1 ≤ v → v ≤ n → ∀ v', 1 ≤ v' → v' ≤ n → R u v → R u v' → v = v'
  /-- onto-PHP: every hole is covered -/
  surj : onto = true → ∀ v, 1 ≤ v → v ≤ n → ∃ u, 1 ≤ u ∧ u ≤ m ∧ R u v

/-- T-C01.1 (complete graph): the formula holds exactly under the assignments that describe
a placement of the documented kind — for all sizes, both flags, all assignments. -/
theorem php_spec (m n : Nat) (f o : Bool) (α : Assign) :
    (phpF m n f o).holds α = true ↔ PHPSpec m n f o (phpRel n α) := by
  have hs : 0 < (UMap.mk 1 m n).start := by simp
  simp only [phpF, Formula.holds_mk, List.all_append, Bool.and_eq_true]
  rw [UMap.forceComplete_holds _ hs, UMap.forceInjective_holds _ hs]
  have hsur : ((if o = true then (UMap.mk 1 m n).forceSurjective else []).all (Con.holds α) = true) ↔
      (o = true → (UMap.mk 1 m n).Onto ((UMap.mk 1 m n).Rel α)) := by
    cases o
    · simp
    · simp [UMap.forceSurjective_holds _ hs]
  have hfun : ((if f = true then (UMap.mk 1 m n).forceFunctional else []).all (Con.holds α) = true) ↔
      (f = true → (UMap.mk 1 m n).Functional ((UMap.mk 1 m n).Rel α)) := by
    cases f
    · simp
    · simp [UMap.forceFunctional_holds _ hs]
  rw [hsur, hfun]
  constructor
  · rintro ⟨⟨⟨h1, h2⟩, h3⟩, h4⟩; exact ⟨h1, h3, h4, h2⟩
  · rintro ⟨h1, h3, h4, h2⟩; exact ⟨⟨⟨h1, h2⟩, h3⟩, h4⟩

example : PHPSpec 2 3 true false (fun u v => u = v) :=
  ⟨fun u h1 h2 => ⟨u, h1, by omega, rfl⟩, by intros; omega, by intros; omega, by simp⟩

/-- every literal is a variable of the formula (serves C08 and C10) -/
theorem php_wf (m n : Nat) (f o : Bool) : (phpF m n f o).WF := by
  have hs : 0 < (UMap.mk 1 m n).start := by simp
  have hN : (UMap.mk 1 m n).start + (UMap.mk 1 m n).dom * (UMap.mk 1 m n).rng ≤ m * n + 1 := by
    simp; omega
  exact ConsWF_append (ConsWF_append (ConsWF_append (UMap.forceComplete_wf _ hs hN)
    (ConsWF_ite (UMap.forceSurjective_wf _ hs hN))) (UMap.forceInjective_wf _ hs hN))
    (ConsWF_ite (UMap.forceFunctional_wf _ hs hN))

/-- documented variable count: one variable per (pigeon, hole) pair -/
theorem php_nvars (m n : Nat) (f o : Bool) : (phpF m n f o).nvars = m * n := rfl

/-- parameter validation: `ValueError` exactly for a negative argument -/
theorem php_validation (p h : Int) (f o : Bool) :
    php p h f o = if p < 0 ∨ h < 0 then .error .valueError else .ok (phpF p.toNat h.toNat f o) := rfl

/-- transfer to the rendered formulas of both classes -/
theorem php_cnf_spec (m n : Nat) (f o : Bool) (α : Assign) :
    (phpF m n f o).toCNF.holds α = true ↔ PHPSpec m n f o (phpRel n α) := by
  rw [Formula.toCNF_holds α _ (php_wf m n f o)]; exact php_spec m n f o α

theorem php_opb_spec (m n : Nat) (f o : Bool) (α : Assign) :
    (phpF m n f o).toOPB.holds α = true ↔ PHPSpec m n f o (phpRel n α) := by
  rw [Formula.toOPB_holds α _ (php_wf m n f o)]; exact php_spec m n f o α

/-- the specification only looks at in-range pairs -/
theorem PHPSpec_congr {m n : Nat} {f o : Bool} {R R' : Nat → Nat → Prop}
    (h : ∀ u v, 1 ≤ u → 1 ≤ v → v ≤ n → (R u v ↔ R' u v)) :
    PHPSpec m n f o R → PHPSpec m n f o R' := by
  rintro ⟨h1, h2, h3, h4⟩
  refine ⟨?_, ?_, ?_, ?_⟩
  · intro u a b
    obtain ⟨v, c, d, e⟩ := h1 u a b
    exact ⟨v, c, d, (h u v a c d).1 e⟩
  · intro v a b u c d u' c' d' e e'
    exact h2 v a b u c d u' c' d' ((h u v c a b).2 e) ((h u' v c' a b).2 e')
  · intro hf u a b v c d v' c' d' e e'
    exact h3 hf u a b v c d v' c' d' ((h u v a c d).2 e) ((h u v' a c' d').2 e')
  · intro ho v a b
    obtain ⟨u, c, d, e⟩ := h4 ho v a b
    exact ⟨u, c, d, (h u v c a b).1 e⟩

/-- a placement exists exactly when … (closed form; checked against the real code by brute force) -/
def PHPSatisfiable (m n : Nat) (f o : Bool) : Prop :=
  m ≤ n ∧ (o = true → (f = true → n ≤ m) ∧ (m = 0 → n = 0))

/-- every relation with the documented properties is described by an assignment -/
theorem php_realises (m n : Nat) (f o : Bool) (R : Nat → Nat → Bool)
    (h : PHPSpec m n f o (fun u v => R u v = true)) :
    (phpF m n f o).holds ((UMap.mk 1 m n).assignOf R) = true := by
  rw [php_spec]
  refine PHPSpec_congr ?_ h
  intro u v hu hv hv'
  simp only [phpRel]
  have := (UMap.mk 1 m n).assignOf_var R hu hv hv'
  simp only [UMap.var] at this
  rw [this]

/-- T-C01.1 corollary: satisfiable exactly when a placement exists, in closed form -/
theorem php_sat_iff (m n : Nat) (f o : Bool) :
    (∃ α, (phpF m n f o).holds α = true) ↔ PHPSatisfiable m n f o := by
  constructor
  · rintro ⟨α, hα⟩
    obtain ⟨h1, h2, h3, h4⟩ := (php_spec m n f o α).1 hα
    refine ⟨le_of_total_injective m n _ h1 h2, ?_⟩
    intro ho
    refine ⟨?_, ?_⟩
    · intro hf
      -- holes → pigeons is total (onto) and injective (functional)
      exact le_of_total_injective n m (fun v u => phpRel n α u v) (h4 ho)
        (fun u a b v c d v' c' d' e e' => h3 hf u a b v c d v' c' d' e e')
    · intro hm
      by_contra hn
      obtain ⟨u, a, b, _⟩ := h4 ho 1 (by omega) (by omega)
      omega
  · rintro ⟨hmn, ho⟩
    cases o
    · -- pigeon u in hole u
      refine ⟨_, php_realises m n f false (fun u v => decide (u = v)) ?_⟩
      refine ⟨fun u a b => ⟨u, a, by omega, by simp⟩, ?_, ?_, by simp⟩
      · intro v _ _ u _ _ u' _ _ e e'; simp at e e'; omega
      · intro _ u _ _ v _ _ v' _ _ e e'; simp at e e'; omega
    · -- hole v takes pigeon min v m
      have ho := ho rfl
      refine ⟨_, php_realises m n f true (fun u v => decide (u = min v m)) ?_⟩
      refine ⟨fun u a b => ⟨u, a, by omega, by simp; omega⟩, ?_, ?_, ?_⟩
      · intro v _ _ u _ _ u' _ _ e e'; simp at e e'; omega
      · intro hf u _ _ v _ _ v' _ _ e e'
        have := ho.1 hf
        simp at e e'; omega
      · intro _ v a b
        refine ⟨min v m, by omega, by omega, by simp⟩

/-- "the pigeonhole principle is unsatisfiable if and only if there are more pigeons than holes" -/
theorem php_unsat_iff (m n : Nat) (f : Bool) :
    (¬ ∃ α, (phpF m n f false).holds α = true) ↔ n < m := by
  rw [php_sat_iff]; simp [PHPSatisfiable]

/-- the same for the rendered CNF and OPB formulas -/
theorem php_cnf_unsat_iff (m n : Nat) (f : Bool) :
    (¬ ∃ α, (phpF m n f false).toCNF.holds α = true) ↔ n < m := by
  rw [← php_unsat_iff m n f]; simp only [Formula.toCNF_holds _ _ (php_wf m n f false)]

theorem php_opb_unsat_iff (m n : Nat) (f : Bool) :
    (¬ ∃ α, (phpF m n f false).toOPB.holds α = true) ↔ n < m := by
  rw [← php_unsat_iff m n f]; simp only [Formula.toOPB_holds _ _ (php_wf m n f false)]

/-- matching (functional + onto) is satisfiable iff `m = n` -/
theorem php_matching_sat_iff (m n : Nat) :
    (∃ α, (phpF m n true true).holds α = true) ↔ m = n := by
  rw [php_sat_iff]; unfold PHPSatisfiable; constructor
  · intro h; have h2 := h.2 rfl; have := h2.1 rfl; omega
  · intro h; subst h; simp

end Cnfgen.C01
