/-
C01 — SubsetCardinalityFormula(B, equalities) on an arbitrary bipartite graph object.
-/
import Lemmas.C01GraphInv
import CnfgenModel.Fam.SubsetCard
namespace Cnfgen.C01
open Cnfgen Cnfgen.Fam

/-- the edge labelling described by `α`: the value of `x_{u,v}` (`new_bipartite_edges(B)`) -/
def scLabel (B : BipG) (α : Assign) (u v : Nat) : Bool := α (Vars.bipId B 1 u v)

/-- the documented statement about an edge labelling `x`: at least half of the edges at every left
vertex are 1, at most half of the edges at every right vertex are 1; with `equalities`, exactly
`⌈d/2⌉` resp. `⌊d/2⌋` of them -/
structure SCSpec (B : BipG) (equalities : Bool) (x : Nat → Nat → Bool) : Prop where
  left : ∀ u, 1 ≤ u → u ≤ B.l →
    if equalities then (B.rnbrs u).countP (fun v => x u v) = ((B.rnbrs u).length + 1) / 2
    else (B.rnbrs u).length ≤ 2 * (B.rnbrs u).countP (fun v => x u v)
  right : ∀ v, 1 ≤ v → v ≤ B.r →
    if equalities then (B.lnbrs v).countP (fun u => x u v) = (B.lnbrs v).length / 2
    else 2 * (B.lnbrs v).countP (fun u => x u v) ≤ (B.lnbrs v).length

/-- T-C01.5 (subset cardinality): for every consistent bipartite graph, flag and assignment -/
theorem sc_spec (B : BipG) (hg : Fam.GoodBip B) (eq : Bool) (α : Assign) :
    (subsetCardF B eq).holds α = true ↔ SCSpec B eq (scLabel B α) := by
  have hs : 0 < (SMap.mk B 1).start := by simp
  have hcols := SMap.GoodBip.cols hg
  have hrow : ∀ u, 1 ≤ u → u ≤ B.l →
      count α ((SMap.mk B 1).row u) = (B.rnbrs u).countP (fun v => scLabel B α u v) :=
    fun u h1 h2 => SMap.count_row _ hs α h1 h2
  have hcol : ∀ v, 1 ≤ v → v ≤ B.r →
      count α ((SMap.mk B 1).col v) = (B.lnbrs v).countP (fun u => scLabel B α u v) :=
    fun v h1 h2 => SMap.count_col _ hs α (hcols v h1 h2)
  have lrow : ∀ u, ((SMap.mk B 1).row u).length = (B.rnbrs u).length := fun u => by simp [SMap.row]
  have lcol : ∀ v, ((SMap.mk B 1).col v).length = (B.lnbrs v).length := fun v => by simp [SMap.col]
  simp only [subsetCardF, Formula.holds_mk, List.all_append, Bool.and_eq_true, List.all_map,
    List.all_eq_true, mem_idx, Function.comp]
  constructor
  · rintro ⟨hl, hr⟩
    refine ⟨fun u h1 h2 => ?_, fun v h1 h2 => ?_⟩
    · have := hl u ⟨h1, h2⟩
      cases eq
      · simpa [Con.holds, lrow, hrow u h1 h2] using this
      · simp only [if_true, Con.holds, Op.denote, decide_eq_true_eq, hrow u h1 h2] at this ⊢; omega
    · have := hr v ⟨h1, h2⟩
      cases eq
      · simpa [Con.holds, lcol, hcol v h1 h2] using this
      · simp only [if_true, Con.holds, Op.denote, decide_eq_true_eq, hcol v h1 h2] at this ⊢; omega
  · rintro ⟨hl, hr⟩
    refine ⟨fun u hu => ?_, fun v hv => ?_⟩
    · have := hl u hu.1 hu.2
      cases eq
      · simpa [Con.holds, lrow, hrow u hu.1 hu.2] using this
      · simp only [if_true, Con.holds, Op.denote, decide_eq_true_eq, hrow u hu.1 hu.2] at this ⊢; omega
    · have := hr v hv.1 hv.2
      cases eq
      · simpa [Con.holds, lcol, hcol v hv.1 hv.2] using this
      · simp only [if_true, Con.holds, Op.denote, decide_eq_true_eq, hcol v hv.1 hv.2] at this ⊢; omega

theorem sc_wf (B : BipG) (hg : Fam.GoodBip B) (eq : Bool) : (subsetCardF B eq).WF := by
  have hs : 0 < (SMap.mk B 1).start := by simp
  have hN : (SMap.mk B 1).start + (SMap.mk B 1).B.numberOfEdges ≤ B.numberOfEdges + 1 := by
    simp; omega
  intro c hc
  simp only [subsetCardF, List.mem_append, List.mem_map] at hc
  rcases hc with ⟨u, hu, rfl⟩ | ⟨v, hv, rfl⟩
  · cases eq <;> exact SMap.row_wf _ hs hg hN hu
  · cases eq <;> exact SMap.col_wf _ hs hg hN hv

/-- one variable per edge -/
theorem sc_nvars (B : BipG) (eq : Bool) : (subsetCardF B eq).nvars = B.numberOfEdges := rfl

theorem sc_cnf_spec (B : BipG) (hg : Fam.GoodBip B) (eq : Bool) (α : Assign) :
    (subsetCardF B eq).toCNF.holds α = true ↔ SCSpec B eq (scLabel B α) := by
  rw [Formula.toCNF_holds α _ (sc_wf B hg eq)]; exact sc_spec B hg eq α

theorem sc_opb_spec (B : BipG) (hg : Fam.GoodBip B) (eq : Bool) (α : Assign) :
    (subsetCardF B eq).toOPB.holds α = true ↔ SCSpec B eq (scLabel B α) := by
  rw [Formula.toOPB_holds α _ (sc_wf B hg eq)]; exact sc_spec B hg eq α

theorem sc_spec_ofEdges (l r : Nat) (es : List (Nat × Nat)) (B : BipG)
    (h : BipG.ofEdges l r es = .ok B) (eq : Bool) (α : Assign) :
    (subsetCardF B eq).holds α = true ↔ SCSpec B eq (scLabel B α) :=
  sc_spec B (Fam.goodBip_ofEdges l r es B h) eq α

/-- non-vacuity of the specification: the 4-cycle, alternate edges labelled 1 -/
example : ∃ B, BipG.ofEdges 2 2 [(1, 1), (1, 2), (2, 1), (2, 2)] = .ok B ∧
    SCSpec B true (fun u v => u == v) := by
  refine ⟨_, rfl, ?_, ?_⟩
  · intro u h1 h2
    have h2' : u ≤ 2 := h2
    have : u = 1 ∨ u = 2 := by omega
    rcases this with rfl | rfl <;> decide
  · intro v h1 h2
    have h2' : v ≤ 2 := h2
    have : v = 1 ∨ v = 2 := by omega
    rcases this with rfl | rfl <;> decide

/-- every edge labelling with the documented property is described by a satisfying assignment -/
theorem sc_realises (B : BipG) (hg : Fam.GoodBip B) (eq : Bool) (x : Nat → Nat → Bool)
    (h : SCSpec B eq x) : (subsetCardF B eq).holds ((SMap.mk B 1).assignOf x) = true := by
  rw [sc_spec B hg]
  have hl : ∀ u, 1 ≤ u → u ≤ B.l →
      (B.rnbrs u).countP (fun v => scLabel B ((SMap.mk B 1).assignOf x) u v) = (B.rnbrs u).countP (fun v => x u v) := by
    intro u h1 h2
    apply List.countP_congr
    intro v hv
    have := (SMap.mk B 1).assignOf_var x h1 h2 hv
    simp only [SMap.var] at this
    simp only [scLabel, this]
  have hr : ∀ v, 1 ≤ v → v ≤ B.r →
      (B.lnbrs v).countP (fun u => scLabel B ((SMap.mk B 1).assignOf x) u v) = (B.lnbrs v).countP (fun u => x u v) := by
    intro v h1 h2
    apply List.countP_congr
    intro u hu
    have c := (hg.adj u v).2 ⟨h1, h2, hu⟩
    have := (SMap.mk B 1).assignOf_var x c.1 c.2.1 c.2.2
    simp only [SMap.var] at this
    simp only [scLabel, this]
  refine ⟨fun u h1 h2 => ?_, fun v h1 h2 => ?_⟩
  · rw [hl u h1 h2]; exact h.left u h1 h2
  · rw [hr v h1 h2]; exact h.right v h1 h2

end Cnfgen.C01
