/-
C01 — PerfectMatchingPrinciple(G) on an arbitrary simple graph object.
-/
import Lemmas.FamGraph
namespace Cnfgen.C01
open Cnfgen Cnfgen.Fam

/-- "the edge `{a, b}` is selected": the variable `e_{min,max}` of `new_graph_edges(G)` is true -/
def pmRel (G : SimpleG) (α : Assign) (a b : Nat) : Prop :=
  α (Vars.bipId (auxBip G) 1 (min a b) (max a b)) = true

/-- the documented statement: every vertex has exactly one selected incident edge -/
def PMSpec (G : SimpleG) (R : Nat → Nat → Prop) : Prop :=
  ∀ w, 1 ≤ w → w ≤ G.n → ∃ x, x ∈ G.nbrs w ∧ R w x ∧ ∀ y ∈ G.nbrs w, R w y → y = x

/-- the simple graph objects the theorem is about: duplicate-free, loop-free, symmetric adjacency
lists within the vertex range (invariant of `Graph.add_edge`) -/
abbrev GoodSimple := Fam.GoodSimple

/-- T-C01.5 (perfect matching): for every consistent simple graph and every assignment -/
theorem pm_spec (G : SimpleG) (hg : GoodSimple G) (α : Assign) :
    (pmF G).holds α = true ↔ PMSpec G (pmRel G α) := by
  simp only [pmF, Formula.holds_mk, List.all_map, List.all_eq_true, mem_idx, Function.comp, Con.holds,
    Op.denote, decide_eq_true_eq, PMSpec]
  constructor
  · intro h w h1 h2
    have hc := h w ⟨h1, h2⟩
    rw [count_pmStar G hg α h1 h2] at hc
    have hc' : (G.nbrs w).countP (fun x => α (pmVar G w x)) = 1 := by omega
    obtain ⟨⟨x, hx, hαx⟩, huniq⟩ := (countP_eq_one_iff _ _ (hg.nodup w)).1 hc'
    exact ⟨x, hx, hαx, fun y hy hαy => huniq y hy x hx hαy hαx⟩
  · intro h w hw
    obtain ⟨x, hx, hαx, huniq⟩ := h w hw.1 hw.2
    rw [count_pmStar G hg α hw.1 hw.2]
    have : (G.nbrs w).countP (fun x => α (pmVar G w x)) = 1 := by
      rw [countP_eq_one_iff _ _ (hg.nodup w)]
      refine ⟨⟨x, hx, hαx⟩, ?_⟩
      intro a ha b hb pa pb
      rw [huniq a ha pa, huniq b hb pb]
    omega

theorem pm_wf (G : SimpleG) (hg : GoodSimple G) : (pmF G).WF := by
  intro c hc
  simp only [pmF, List.mem_map] at hc
  obtain ⟨w, hw, rfl⟩ := hc
  exact pmStar_wf G hg hw

/-- one variable per edge (of the oriented copy built by `GraphEdgesVariables`) -/
theorem pm_nvars (G : SimpleG) : (pmF G).nvars = (auxBip G).numberOfEdges := rfl

theorem pm_cnf_spec (G : SimpleG) (hg : GoodSimple G) (α : Assign) :
    (pmF G).toCNF.holds α = true ↔ PMSpec G (pmRel G α) := by
  rw [Formula.toCNF_holds α _ (pm_wf G hg)]; exact pm_spec G hg α

theorem pm_opb_spec (G : SimpleG) (hg : GoodSimple G) (α : Assign) :
    (pmF G).toOPB.holds α = true ↔ PMSpec G (pmRel G α) := by
  rw [Formula.toOPB_holds α _ (pm_wf G hg)]; exact pm_spec G hg α

end Cnfgen.C01
