/-
C01 — PerfectMatchingPrinciple(G) on an arbitrary simple graph object.
-/
import Lemmas.C01GraphInv
namespace Cnfgen.C01
open Cnfgen Cnfgen.Fam

/-- "the edge `{a, b}` is selected": the variable `e_{min,max}` of `new_graph_edges(G)` is true -/
def pmRel (G : SimpleG) (α : Assign) (a b : Nat) : Prop :=
  α (Vars.bipId (auxBip G) 1 (min a b) (max a b)) = true

/-- the documented statement: every vertex has exactly one selected incident edge -/
def PMSpec (G : SimpleG) (R : Nat → Nat → Prop) : Prop :=
  ∀ w, 1 ≤ w → w ≤ G.n → ∃ x, x ∈ G.nbrs w ∧ R w x ∧ ∀ y ∈ G.nbrs w, R w y → y = x

/-- the simple graph objects the theorem is about: duplicate-free, loop-free, symmetric adjacency
lists within the vertex range (invariant of `Graph.add_edge`) -/
abbrev GoodSimple := Fam.GoodSimple

/-- T-C01.5 (perfect matching): for every consistent simple graph and every assignment -/
theorem pm_spec (G : SimpleG) (hg : GoodSimple G) (α : Assign) :
    (pmF G).holds α = true ↔ PMSpec G (pmRel G α) := by
  simp only [pmF, Formula.holds_mk, List.all_map, List.all_eq_true, mem_idx, Function.comp, Con.holds,
    Op.denote, decide_eq_true_eq, PMSpec]
  constructor
  · intro h w h1 h2
    have hc := h w ⟨h1, h2⟩
    rw [count_pmStar G hg α h1 h2] at hc
    have hc' : (G.nbrs w).countP (fun x => α (pmVar G w x)) = 1 := by omega
    obtain ⟨⟨x, hx, hαx⟩, huniq⟩ := (countP_eq_one_iff _ _ (hg.nodup w)).1 hc'
    exact ⟨x, hx, hαx, fun y hy hαy => huniq y hy x hx hαy hαx⟩
  · intro h w hw
    obtain ⟨x, hx, hαx, huniq⟩ := h w hw.1 hw.2
    rw [count_pmStar G hg α hw.1 hw.2]
    have : (G.nbrs w).countP (fun x => α (pmVar G w x)) = 1 := by
      rw [countP_eq_one_iff _ _ (hg.nodup w)]
      refine ⟨⟨x, hx, hαx⟩, ?_⟩
      intro a ha b hb pa pb
      rw [huniq a ha pa, huniq b hb pb]
    omega

theorem pm_wf (G : SimpleG) (hg : GoodSimple G) : (pmF G).WF := by
  intro c hc
  simp only [pmF, List.mem_map] at hc
  obtain ⟨w, hw, rfl⟩ := hc
  exact pmStar_wf G hg hw

/-- one variable per edge (of the oriented copy built by `GraphEdgesVariables`) -/
theorem pm_nvars (G : SimpleG) : (pmF G).nvars = (auxBip G).numberOfEdges := rfl

theorem pm_cnf_spec (G : SimpleG) (hg : GoodSimple G) (α : Assign) :
    (pmF G).toCNF.holds α = true ↔ PMSpec G (pmRel G α) := by
  rw [Formula.toCNF_holds α _ (pm_wf G hg)]; exact pm_spec G hg α

theorem pm_opb_spec (G : SimpleG) (hg : GoodSimple G) (α : Assign) :
    (pmF G).toOPB.holds α = true ↔ PMSpec G (pmRel G α) := by
  rw [Formula.toOPB_holds α _ (pm_wf G hg)]; exact pm_spec G hg α

/-- the hypothesis holds for every graph object the real class can represent:
`Graph(n)` followed by any sequence of successful `add_edge` calls -/
theorem goodSimple_ofEdges (n : Nat) (es : List (Nat × Nat)) (G : SimpleG)
    (h : SimpleG.ofEdges n es = .ok G) : GoodSimple G := Fam.goodSimple_ofEdges n es G h

theorem pm_spec_ofEdges (n : Nat) (es : List (Nat × Nat)) (G : SimpleG)
    (h : SimpleG.ofEdges n es = .ok G) (α : Assign) :
    (pmF G).holds α = true ↔ PMSpec G (pmRel G α) :=
  pm_spec G (goodSimple_ofEdges n es G h) α

/-- non-vacuity: the path 1-3, 3-2, 2-4 with its perfect matching {1,3}, {2,4} -/
example : ∃ G, SimpleG.ofEdges 4 [(3, 1), (2, 4), (2, 3)] = .ok G ∧
    PMSpec G (fun a b => (min a b, max a b) = (1, 3) ∨ (min a b, max a b) = (2, 4)) := by
  refine ⟨_, rfl, ?_⟩
  intro w h1 h2
  have h2' : w ≤ 4 := h2
  have : w = 1 ∨ w = 2 ∨ w = 3 ∨ w = 4 := by omega
  rcases this with rfl | rfl | rfl | rfl
  · exact ⟨3, by decide, by decide, by decide⟩
  · exact ⟨4, by decide, by decide, by decide⟩
  · exact ⟨1, by decide, by decide, by decide⟩
  · exact ⟨2, by decide, by decide, by decide⟩

/-- every perfect matching (a set `R` of edges, given on ordered pairs `u < v`) is described by a
satisfying assignment -/
theorem pm_realises (G : SimpleG) (hg : GoodSimple G) (R : Nat → Nat → Bool)
    (h : PMSpec G (fun a b => R (min a b) (max a b) = true)) :
    (pmF G).holds ((SMap.mk (auxBip G) 1).assignOf R) = true := by
  rw [pm_spec G hg]
  have key : ∀ w x, 1 ≤ w → w ≤ G.n → x ∈ G.nbrs w →
      (pmRel G ((SMap.mk (auxBip G) 1).assignOf R) w x ↔ R (min w x) (max w x) = true) := by
    intro w x h1 h2 hx
    have hs := hg.sym w x ⟨h1, h2, hx⟩
    have hne : x ≠ w := fun e => hg.noloop w (e ▸ hx)
    have hedge : 1 ≤ min w x ∧ min w x ≤ (auxBip G).l ∧ max w x ∈ (auxBip G).rnbrs (min w x) := by
      rw [auxBip_l, auxBip_rnbrs]
      rcases Nat.lt_or_gt_of_ne hne with hlt | hgt
      · have e1 : min w x = x := by omega
        have e2 : max w x = w := by omega
        rw [e1, e2, if_pos ⟨hs.1, hs.2.1⟩]
        exact ⟨hs.1, hs.2.1, List.mem_filter.2 ⟨hs.2.2, by simpa using hlt⟩⟩
      · have e1 : min w x = w := by omega
        have e2 : max w x = x := by omega
        rw [e1, e2, if_pos ⟨h1, h2⟩]
        exact ⟨h1, h2, List.mem_filter.2 ⟨hx, by simpa using hgt⟩⟩
    have := (SMap.mk (auxBip G) 1).assignOf_var R hedge.1 hedge.2.1 hedge.2.2
    simp only [SMap.var] at this
    simp only [pmRel, this]
  intro w h1 h2
  obtain ⟨x, hx, hR, hu⟩ := h w h1 h2
  refine ⟨x, hx, (key w x h1 h2 hx).2 hR, ?_⟩
  intro y hy hy'
  exact hu y hy ((key w y h1 h2 hy).1 hy')

end Cnfgen.C01
