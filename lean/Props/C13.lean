/-
C13 — Random k-CNF and k-XOR formulas have exactly the promised shape.
Property theorems only; helper lemmas are in `Lemmas/Rand*.lean`.

The samplers are pure functions of the list of draws (`Rand.Draw` = one recorded call of a
function of Python's `random` module, request and answer).  Everything below holds for ALL
draw lists satisfying `Rand.Legal` — the documented contract of `random.sample / choice /
randint` — which is the only thing assumed about the generator.  `σ : Int → List Draw` is what
`random.seed` does (unknown; a function of the seed only).

Vocabulary used in the statements
* `usedStream σ seed rng` — the generator state the sampler reads: `σ s` if `seed = some s`, else `rng`;
* `Completed r` — `r` is neither `outOfDraws` nor `mismatch`, i.e. the draw list is a complete
  recording of a run of this program (every list recorded by the harness is);
* `drawBudget k m = 10·m·(k+1) + 1`, `drawBudgetX m = 10·m·2 + 1` — "enough" draws;
* `sysMaxsize = 2^63 − 1` — `sys.maxsize`: up to that many variables `sample_variables(n, k)` is ONE
  `random.sample` draw; beyond, it is the code's rejection loop over `randint(1, n)` draws (`rejectVars`,
  recursion over the draw list).  The shape theorems cover both branches.  The error theorems are `…_partial`
  (hypothesis `n ≤ sysMaxsize`): beyond, the dense fallback raises OverflowError (defect C13-H1); the full
  statements `OnlyValueError`, `ValueErrorIff` are refuted on the model (`onlyValueError_fails`, `valueErrorIff_fails`);
* `allClauses k n planted` — the dense enumeration `all_clauses` of the code; `allClauses_spec` /
  `allClauses_nodup` show that it lists every clause over k distinct variables of 1..n that is
  compatible with the planted assignments exactly once, so its length IS "the number of clauses
  compatible with the planted assignments".
-/
import Lemmas.RandWitness
import Lemmas.RandCount
import Lemmas.RandCli
namespace Cnfgen.C13
open Cnfgen Cnfgen.Rand

/-! ## the space of compatible clauses -/

/-- T-C13.0a `all_clauses(k,n,planted)` contains exactly the clauses of `k` literals over distinct
variables of `1..n` (written in increasing order of variable) that contain a literal of every
planted assignment -/
theorem allClauses_spec (k n : Nat) (planted : List (List Int)) (c : Clause) :
    c ∈ allClauses k n planted ↔
      (c.length = k ∧ (c.map Int.natAbs).Pairwise (· < ·) ∧ ∀ l ∈ c, 1 ≤ l.natAbs ∧ l.natAbs ≤ n) ∧
      ∀ a ∈ planted, ∃ l ∈ c, l ∈ a := by
  rw [mem_allClauses, clauseSatisfied_iff]; rfl

/-- T-C13.0b … each exactly once -/
theorem allClauses_nodup (k n : Nat) (planted : List (List Int)) : (allClauses k n planted).Nodup :=
  nodup_allClauses k n planted

/-- T-C13.0c the exact maximum without planted assignments is `C(n,k)·2^k` -/
theorem allClauses_count_unplanted (k n : Nat) : (allClauses k n []).length = n.choose k * 2 ^ k :=
  length_allClauses_nil k n

example : (allClauses 2 3 [[1, -2, 3]]).length = 9 := by decide

/-! ## T-C13.1 shape of a successful run -/

/-- T-C13.1 for every legal draw list: if `sample_clauses` returns, it returns exactly `m` pairwise
distinct clauses, each of `k` literals over distinct variables within `1..n` in increasing order,
each containing a literal of every planted assignment -/
theorem sampleClauses_shape (k n m : Nat) (planted : List (List Int)) (draws rest : List Draw)
    (cls : List Clause) (hL : Legal draws) (h : sampleClauses k n m planted draws = .ok (cls, rest)) :
    cls.length = m ∧ cls.Nodup ∧
      ∀ c ∈ cls, (c.length = k ∧ (c.map Int.natAbs).Pairwise (· < ·) ∧
        ∀ l ∈ c, 1 ≤ l.natAbs ∧ l.natAbs ≤ n) ∧ ∀ a ∈ planted, ∃ l ∈ c, l ∈ a := by
  obtain ⟨⟨hn, hm, _⟩, hlen, _, _⟩ := sampleClauses_ok hL h
  exact ⟨hlen, hn, fun c hc => (allClauses_spec k n planted c).1 (hm c hc)⟩

/-- the clauses are distinct as SETS of literals as well (not only as lists) -/
theorem sampleClauses_distinct_as_sets (k n m : Nat) (planted : List (List Int)) (draws rest : List Draw)
    (cls : List Clause) (hL : Legal draws) (h : sampleClauses k n m planted draws = .ok (cls, rest))
    (c c' : Clause) (hc : c ∈ cls) (hc' : c' ∈ cls) (hset : ∀ l, l ∈ c ↔ l ∈ c') : c = c' := by
  obtain ⟨_, _, hs⟩ := sampleClauses_shape k n m planted draws rest cls hL h
  exact eq_of_same_literals (hs c hc).1.2.1 (hs c' hc').1.2.1 hset

/-- T-C13.1 for `RandomKCNF`: exactly `n` variables, and the clause list of the CNF has the shape above -/
theorem randomKCNF_shape (σ : Int → List Draw) (k n m : Nat) (seed : Option Int) (planted : List (List Int))
    (rng rest : List Draw) (F : Formula) (hL : Legal (usedStream σ seed rng))
    (h : randomKCNF σ k n m seed planted rng = .ok (F, rest)) :
    F.toCNF.nvars = n ∧ F.toCNF.clauses.length = m ∧ F.toCNF.clauses.Nodup ∧ F.toCNF.WF ∧
      ∀ c ∈ F.toCNF.clauses, (c.length = k ∧ (c.map Int.natAbs).Pairwise (· < ·) ∧
        ∀ l ∈ c, 1 ≤ l.natAbs ∧ l.natAbs ≤ n) ∧ ∀ a ∈ planted, ∃ l ∈ c, l ∈ a := by
  obtain ⟨_, cls, hs, rfl⟩ := randomKCNF_ok h
  rw [toCNF_clauses]
  obtain ⟨h1, h2, h3⟩ := sampleClauses_shape k n m planted _ rest cls hL hs
  refine ⟨rfl, h1, h2, ?_, h3⟩
  intro c hc l hl
  rw [toCNF_clauses] at hc
  have := (h3 c hc).1.2.2 l hl
  show l ≠ 0 ∧ l.natAbs ≤ n
  omega

/-- every planted assignment (read as a Boolean assignment; it must not contain a variable with both
signs — "undefined behaviour" in the docstring) satisfies the formula -/
theorem randomKCNF_planted_satisfies (σ : Int → List Draw) (k n m : Nat) (seed : Option Int)
    (planted : List (List Int)) (rng rest : List Draw) (F : Formula) (hL : Legal (usedStream σ seed rng))
    (h : randomKCNF σ k n m seed planted rng = .ok (F, rest)) (a : List Int) (ha : a ∈ planted)
    (hc : Consistent a) : F.toCNF.holds (asg a) = true := by
  obtain ⟨_, _, _, _, hs⟩ := randomKCNF_shape σ k n m seed planted rng rest F hL h
  simp only [CNF.holds, List.all_eq_true]
  intro c hcm
  exact clauseHolds_of_satisfied hc ((hs c hcm).2 a ha)

/-- non-vacuity: a recorded run (k=2, n=3, m=2, planted {x1, ¬x2, x3}) -/
example : Legal [.sample 3 2 [2, 0], .choice 2 0, .choice 2 1, .sample 3 2 [1, 2], .choice 2 1, .choice 2 0] ∧
    (randomKCNF (fun _ => []) 2 3 2 none [[1, -2, 3]]
      [.sample 3 2 [2, 0], .choice 2 0, .choice 2 1, .sample 3 2 [1, 2], .choice 2 1, .choice 2 0]).toOption.map
        (fun r => r.1.toCNF.clauses) = some [[1, -3], [-2, 3]] := by decide

/-! ## T-C13.2 ValueError exactly when … -/

/-- for ALL `n`: the only Python exceptions that can come out of `RandomKCNF` are ValueError and —
beyond `sys.maxsize` variables, when the dense fallback is reached — OverflowError (defect C13-H1) -/
theorem randomKCNF_error_kinds (σ : Int → List Draw) (k n m : Nat) (seed : Option Int)
    (planted : List (List Int)) (rng : List Draw) (e : Err) (hL : Legal (usedStream σ seed rng))
    (h : randomKCNF σ k n m seed planted rng = .error (.py e)) :
    e = .valueError ∨ (e = .overflowError ∧ sysMaxsize < n) := by
  rcases randomKCNF_error h with ⟨h', _⟩ | ⟨_, h'⟩
  · cases h'; exact Or.inl rfl
  · rcases sampleClauses_error hL h' with ⟨h'', _⟩ | ⟨h'', _⟩ | h'' | ⟨h'', hb⟩
    · cases h''; exact Or.inl rfl
    · cases h''
    · cases h''
    · cases h''; exact Or.inr ⟨rfl, hb⟩

/-- the FULL statement "no Python exception other than ValueError comes out of `RandomKCNF`" -/
def OnlyValueError : Prop :=
  ∀ (σ : Int → List Draw) (k n m : Nat) (seed : Option Int) (planted : List (List Int)) (rng : List Draw)
    (e : Err), Legal (usedStream σ seed rng) → randomKCNF σ k n m seed planted rng = .error (.py e) →
    e = .valueError

/-- defect C13-H1: `RandomKCNF(0, 2**63, 2)` (one compatible clause, two requested) raises OverflowError,
not ValueError: `all_clauses` hands `range(1, n+1)` to `itertools.combinations` -/
theorem randomKCNF_huge_dense_overflow :
    randomKCNF (fun _ => []) 0 (2 ^ 63) 2 none [] [] = .error (.py .overflowError) := by rfl

/-- … so the full statement is FALSE of the code as it is -/
theorem onlyValueError_fails : ¬ OnlyValueError := by
  intro h
  have := h (fun _ => []) 0 (2 ^ 63) 2 none [] [] .overflowError Legal.nil randomKCNF_huge_dense_overflow
  cases this

/-- up to `sys.maxsize` variables no Python exception other than ValueError can come out of `RandomKCNF`
(partial: `OnlyValueError` restricted to `n ≤ sys.maxsize`; false beyond, see `onlyValueError_fails`) -/
theorem randomKCNF_only_valueError_partial (σ : Int → List Draw) (k n m : Nat) (seed : Option Int)
    (planted : List (List Int)) (rng : List Draw) (e : Err) (hS : n ≤ sysMaxsize)
    (hL : Legal (usedStream σ seed rng))
    (h : randomKCNF σ k n m seed planted rng = .error (.py e)) : e = .valueError := by
  rcases randomKCNF_error_kinds σ k n m seed planted rng e hL h with h' | ⟨_, h'⟩
  · exact h'
  · omega

example : (2 : Nat) ≤ sysMaxsize := by decide

/-- T-C13.2 on every legal, complete draw list: ValueError exactly when `k > n` or `m` exceeds the
number of clauses compatible with the planted assignments (`m = 0`, `k = 0` and the exact maximum
included: nothing is assumed about `k n m`) -/
theorem randomKCNF_valueError_iff_partial (σ : Int → List Draw) (k n m : Nat) (seed : Option Int)
    (planted : List (List Int)) (rng : List Draw) (hS : n ≤ sysMaxsize) (hL : Legal (usedStream σ seed rng))
    (hC : Completed (randomKCNF σ k n m seed planted rng)) :
    randomKCNF σ k n m seed planted rng = .error (.py .valueError) ↔
      n < k ∨ (allClauses k n planted).length < m := by
  constructor
  · intro h
    rcases randomKCNF_error h with ⟨_, h'⟩ | ⟨_, h'⟩
    · exact Or.inl h'
    · rcases sampleClauses_error hL h' with ⟨_, h''⟩ | ⟨h'', _⟩ | h'' | ⟨h'', _⟩
      · rcases h'' with h'' | ⟨h'', _⟩
        · exact Or.inl h''
        · exact Or.inr h''
      · cases h''
      · cases h''
      · cases h''
  · intro hcond
    cases hr : randomKCNF σ k n m seed planted rng with
    | ok p =>
      obtain ⟨F, rest⟩ := p
      obtain ⟨hk, cls, hs, _⟩ := randomKCNF_ok hr
      obtain ⟨⟨hn, hm, _⟩, hlen, _, _⟩ := sampleClauses_ok hL hs
      have := length_le_allClauses hn hm
      omega
    | error e =>
      rcases randomKCNF_error hr with ⟨h', _⟩ | ⟨_, h'⟩
      · rw [h']
      · rcases sampleClauses_error hL h' with ⟨h'', _⟩ | ⟨h'', _⟩ | h'' | ⟨_, hb⟩
        · rw [h'']
        · rw [h''] at hr; exact absurd hr hC.1
        · rw [h''] at hr; exact absurd hr hC.2
        · omega

/-- for ALL `n`, on every legal draw list: a ValueError is never spurious — it means `k > n` or `m`
exceeds the number of compatible clauses (the "only if" half of T-C13.2 holds beyond `sys.maxsize` too) -/
theorem randomKCNF_valueError_only_if (σ : Int → List Draw) (k n m : Nat) (seed : Option Int)
    (planted : List (List Int)) (rng : List Draw) (hL : Legal (usedStream σ seed rng))
    (h : randomKCNF σ k n m seed planted rng = .error (.py .valueError)) :
    n < k ∨ (allClauses k n planted).length < m := by
  rcases randomKCNF_error h with ⟨_, h'⟩ | ⟨_, h'⟩
  · exact Or.inl h'
  · rcases sampleClauses_error hL h' with ⟨_, h''⟩ | ⟨h'', _⟩ | h'' | ⟨h'', _⟩
    · rcases h'' with h'' | ⟨h'', _⟩
      · exact Or.inl h''
      · exact Or.inr h''
    · cases h''
    · cases h''
    · cases h''

/-- the FULL statement of T-C13.2 -/
def ValueErrorIff : Prop :=
  ∀ (σ : Int → List Draw) (k n m : Nat) (seed : Option Int) (planted : List (List Int)) (rng : List Draw),
    Legal (usedStream σ seed rng) → Completed (randomKCNF σ k n m seed planted rng) →
    (randomKCNF σ k n m seed planted rng = .error (.py .valueError) ↔
      n < k ∨ (allClauses k n planted).length < m)

/-- … is FALSE beyond `sys.maxsize` (defect C13-H1): k = 0, n = 2^63, m = 2 — one compatible clause,
two requested, OverflowError instead of ValueError -/
theorem valueErrorIff_fails : ¬ ValueErrorIff := by
  intro h
  have hr := randomKCNF_huge_dense_overflow
  have := (h (fun _ => []) 0 (2 ^ 63) 2 none [] [] Legal.nil (by rw [hr]; exact ⟨by simp, by simp⟩)).2
    (Or.inr (by rw [allClauses_count_unplanted]; simp))
  rw [hr] at this
  cases this

/-- the whole defect region of T-C13.2 for `RandomKCNF`: beyond `sys.maxsize` variables, EVERY request that
should fail with ValueError because `m` exceeds the number of compatible clauses fails with OverflowError
instead (on every legal complete recording) -/
theorem randomKCNF_huge_too_many_overflow (σ : Int → List Draw) (k n m : Nat) (seed : Option Int)
    (planted : List (List Int)) (rng : List Draw) (hB : sysMaxsize < n) (hk : k ≤ n)
    (hm : (allClauses k n planted).length < m) (hL : Legal (usedStream σ seed rng))
    (hC : Completed (randomKCNF σ k n m seed planted rng)) :
    randomKCNF σ k n m seed planted rng = .error (.py .overflowError) := by
  cases hr : randomKCNF σ k n m seed planted rng with
  | ok p =>
    obtain ⟨F, rest⟩ := p
    obtain ⟨_, cls, hs, _⟩ := randomKCNF_ok hr
    obtain ⟨⟨hn, hmem, _⟩, hlen, _, _⟩ := sampleClauses_ok hL hs
    have := length_le_allClauses hn hmem
    omega
  | error e =>
    rcases randomKCNF_error hr with ⟨_, h'⟩ | ⟨_, h'⟩
    · omega
    · rcases sampleClauses_error hL h' with ⟨_, h''⟩ | ⟨h'', _⟩ | h'' | ⟨h'', _⟩
      · rcases h'' with h'' | ⟨_, h''⟩ <;> omega
      · rw [h''] at hr; exact absurd hr hC.1
      · rw [h''] at hr; exact absurd hr hC.2
      · rw [h'']

/-- non-vacuity: the hypotheses hold for k = 0, n = 2^63, m = 2 (no draws needed) -/
example : randomKCNF (fun _ => []) 0 (2 ^ 63) 2 none [] [] = .error (.py .overflowError) :=
  randomKCNF_huge_too_many_overflow _ 0 (2 ^ 63) 2 none [] [] (by decide) (by omega)
    (by rw [allClauses_count_unplanted]; simp) Legal.nil
    (by rw [randomKCNF_huge_dense_overflow]; exact ⟨by simp, by simp⟩)

/-- … and otherwise the run returns a formula (never anything else) -/
theorem randomKCNF_ok_iff_partial (σ : Int → List Draw) (k n m : Nat) (seed : Option Int)
    (planted : List (List Int)) (rng : List Draw) (hS : n ≤ sysMaxsize) (hL : Legal (usedStream σ seed rng))
    (hC : Completed (randomKCNF σ k n m seed planted rng)) :
    (∃ F rest, randomKCNF σ k n m seed planted rng = .ok (F, rest)) ↔
      k ≤ n ∧ m ≤ (allClauses k n planted).length := by
  have hiff := randomKCNF_valueError_iff_partial σ k n m seed planted rng hS hL hC
  cases hr : randomKCNF σ k n m seed planted rng with
  | ok p =>
    obtain ⟨F, rest⟩ := p
    rw [hr] at hiff
    simp only [reduceCtorEq, false_iff, not_or, Nat.not_lt] at hiff
    simp [hiff]
  | error e =>
    rw [hr] at hiff hC
    simp only [reduceCtorEq, exists_const, false_iff, not_and, Nat.not_le]
    intro hk
    have he : e = .py .valueError := by
      cases e with
      | py e' => rw [randomKCNF_only_valueError_partial σ k n m seed planted rng e' hS hL hr]
      | outOfDraws => exact absurd rfl hC.1
      | mismatch => exact absurd rfl hC.2
    rw [he] at hiff
    have := hiff.1 rfl
    omega

/-- "enough": up to `sys.maxsize` variables a legal stream of at least `10·m·(k+1) + 1` draws never runs
out.  (Beyond, `sample_variables` is a rejection loop without a bound: no finite number of legal draws is
enough for EVERY legal stream — see `sample_variables_terminates` for what makes it end.) -/
theorem randomKCNF_enough_draws (σ : Int → List Draw) (k n m : Nat) (seed : Option Int)
    (planted : List (List Int)) (rng : List Draw) (hS : n ≤ sysMaxsize) (hL : Legal (usedStream σ seed rng))
    (hlen : drawBudget k m ≤ (usedStream σ seed rng).length) :
    randomKCNF σ k n m seed planted rng ≠ .error .outOfDraws := by
  intro h
  rcases randomKCNF_error h with ⟨h', _⟩ | ⟨_, h'⟩
  · cases h'
  · rcases sampleClauses_error hL h' with ⟨h'', _⟩ | ⟨_, h''⟩ | h'' | ⟨h'', _⟩
    · cases h''
    · have := h'' hS; omega
    · cases h''
    · cases h''

/-- a successful run consumes at most `drawBudget k m` draws -/
theorem randomKCNF_draws_consumed (σ : Int → List Draw) (k n m : Nat) (seed : Option Int)
    (planted : List (List Int)) (rng rest : List Draw) (F : Formula) (hS : n ≤ sysMaxsize)
    (hL : Legal (usedStream σ seed rng))
    (h : randomKCNF σ k n m seed planted rng = .ok (F, rest)) :
    (usedStream σ seed rng).length ≤ rest.length + drawBudget k m := by
  obtain ⟨_, cls, hs, _⟩ := randomKCNF_ok h
  exact (sampleClauses_ok hL hs).2.2.2 hS

/-- the dense path needs exactly one draw -/
theorem dense_path_one_draw (k n m : Nat) (planted : List (List Int)) (draws rest : List Draw)
    (cls : List Clause) (hL : Legal draws) (h : denseClauses k n m planted draws = .ok (cls, rest)) :
    draws.length = rest.length + 1 ∧ m ≤ (allClauses k n planted).length ∧ n ≤ sysMaxsize := by
  obtain ⟨⟨hn, hm, _⟩, hlen, _, e, hS⟩ := denseClauses_ok hL h
  have := length_le_allClauses hn hm
  exact ⟨e, by omega, hS⟩

/-- the hypotheses of `randomKCNF_valueError_iff_partial` are satisfiable for EVERY input (any `n`): there
is a legal draw list of at most `drawBudget (2·k) m` draws (`drawBudget k m` up to `sys.maxsize` variables)
on which the run is complete -/
theorem randomKCNF_completing_draws_exist (σ : Int → List Draw) (k n m : Nat) (planted : List (List Int)) :
    ∃ rng, Legal rng ∧ (rng.length ≤ drawBudget (2 * k) m ∧ (n ≤ sysMaxsize → rng.length ≤ drawBudget k m)) ∧
      Completed (randomKCNF σ k n m none planted rng) := by
  by_cases hk : n < k
  · refine ⟨[], Legal.nil, by simp, ?_⟩
    rw [randomKCNF_eq]; simp only [hk, if_true]
    exact ⟨by simp, by simp⟩
  · have hk' : k ≤ n := by omega
    refine ⟨witnessDraws k n m planted, witnessDraws_legal hk' m planted, witnessDraws_length k n m planted, ?_⟩
    have hw := sampleClauses_witness hk' m planted
    rw [randomKCNF_eq]; simp only [hk, if_false, usedStream]
    cases hs : sampleClauses k n m planted (witnessDraws k n m planted) with
    | ok p => obtain ⟨a, b⟩ := p; exact ⟨by simp, by simp⟩
    | error e =>
      rw [hs] at hw
      exact ⟨fun h => hw.1 (by simpa using h), fun h => hw.2 (by simpa using h)⟩

/-- termination of `sample_variables(n, k)` beyond `sys.maxsize`: the rejection loop
`while len(chosen) < k: chosen.add(random.randint(1, n))` has no bound of its own, but it ends (and returns)
on EVERY list of `randint(1, n)` answers among which there are `k` distinct values — however many repeats
come in between -/
theorem sample_variables_terminates (k n : Nat) (hn : sysMaxsize < n) (hk : k ≤ n) (ds : List Draw)
    (hds : ∀ d ∈ ds, ∃ v, d = .randint 1 n v) (vs : List Int) (hvs : vs.Nodup) (hlen : vs.length = k)
    (hmem : ∀ v ∈ vs, Draw.randint 1 n v ∈ ds) :
    ∃ sel rest, drawVars k n ds = .ok (sel, rest) := by
  rw [drawVars_big (by omega), if_neg (by omega)]
  obtain ⟨sel, rest, h⟩ := rejectVars_terminates (k := k) (n := n) ds [] vs hds hvs
    (fun v hv => ⟨by simp, hmem v hv⟩) (by simp [hlen])
  exact ⟨isort sel, rest, by rw [RandM.bind_apply, h]; rfl⟩

/-- … and what it returns is then (legal answers) a strictly increasing `k`-list over `1..n` -/
theorem sample_variables_shape (k n : Nat) (ds rest : List Draw) (sel : List Int) (hL : Legal ds)
    (h : drawVars k n ds = .ok (sel, rest)) :
    sel.length = k ∧ sel.Pairwise (· < ·) ∧ ∀ x ∈ sel, 1 ≤ x ∧ x ≤ (n : Int) :=
  mem_combos_vars.1 (drawVars_ok hL h).2.1

/-- non-vacuity: n = 2^63, k = 2, answers 7, 7 (repeat, not added), 3 -/
example : drawVars 2 (2 ^ 63) [.randint 1 (2 ^ 63) 7, .randint 1 (2 ^ 63) 7, .randint 1 (2 ^ 63) 3, .choice 2 0] =
    .ok ([3, 7], [.choice 2 0]) := by rfl

/-- non-vacuity of the shape theorems beyond `sys.maxsize`: a recorded run with k = 2, n = 2^63, m = 1 -/
example : (randomKCNF (fun _ => []) 2 (2 ^ 63) 1 none [[3]]
      [.randint 1 (2 ^ 63) 7, .randint 1 (2 ^ 63) 7, .randint 1 (2 ^ 63) 3, .choice 2 0, .choice 2 1]).toOption.map
        (fun r => r.1.toCNF.clauses) = some [[3, -7]] := by decide

/-- arbitrary integer arguments: `non_negative_int` rejects negatives with ValueError first -/
theorem randomKCNFInt_valueError_iff_partial (σ : Int → List Draw) (k n m : Int) (seed : Option Int)
    (planted : List (List Int)) (rng : List Draw) (hS : n ≤ (sysMaxsize : Int)) (hL : Legal (usedStream σ seed rng))
    (hC : Completed (randomKCNFInt σ k n m seed planted rng)) :
    randomKCNFInt σ k n m seed planted rng = .error (.py .valueError) ↔
      n < 0 ∨ m < 0 ∨ k < 0 ∨ n < k ∨ ((allClauses k.toNat n.toNat planted).length : Int) < m := by
  unfold randomKCNFInt at hC ⊢
  by_cases hneg : n < 0 ∨ m < 0 ∨ k < 0
  · simp only [hneg, if_true, RandM.raise_apply, true_iff]
    omega
  · simp only [hneg, if_false] at hC ⊢
    rw [randomKCNF_valueError_iff_partial σ _ _ _ seed planted rng (by omega) hL hC]
    omega

/-! ## T-C13.3 k-XOR -/

/-- the dense enumeration `all_good_parities` under total planted assignments: it succeeds, and lists
exactly once every `(X, b)` with `X` a strictly increasing `k`-list over `1..n`, `b ∈ {0,1}`, that
agrees with every planted assignment -/
theorem allGoodParities_spec (k n : Nat) (planted : List (List Int)) (hT : ∀ a ∈ planted, TotalOn n a) :
    ∃ full, allGoodParities k n planted = .ok full ∧ full.Nodup ∧
      ∀ X b, (X, b) ∈ full ↔
        (X.length = k ∧ X.Pairwise (· < ·) ∧ ∀ x ∈ X, 1 ≤ x ∧ x ≤ n) ∧ (b = 0 ∨ b = 1) ∧
        ∀ a ∈ planted, ((xorCount a X : Nat) : Int) % 2 = b := by
  obtain ⟨full, h1, h2, h3⟩ := allGoodParities_total (k := k) hT
  refine ⟨full, h1, h3, fun X b => ?_⟩
  rw [h2 (X, b)]
  simp only [IsGood, mem_combos_vars, ParityOK]

/-- the exact maximum without planted assignments is `2·C(n,k)` -/
theorem allGoodParities_count_unplanted (k n : Nat) :
    ∃ full, allGoodParities k n [] = .ok full ∧ full.length = 2 * n.choose k :=
  length_allGoodParities_nil k n

/-- T-C13.3a shape: exactly `m` pairwise distinct parities on `k` distinct variables of `1..n` each,
constants in `{0,1}`, all satisfied by every planted assignment -/
theorem randomKXOR_shape (σ : Int → List Draw) (k n m : Nat) (seed : Option Int) (planted : List (List Int))
    (hT : ∀ a ∈ planted, TotalOn n a) (rng rest : List Draw) (sys : List Parity)
    (hL : Legal (usedStream σ seed rng))
    (h : randomKXORSys σ k n m seed planted rng = .ok (sys, rest)) :
    sys.length = m ∧ sys.Nodup ∧
      ∀ p ∈ sys, (p.1.length = k ∧ p.1.Pairwise (· < ·) ∧ ∀ x ∈ p.1, 1 ≤ x ∧ x ≤ n) ∧ (p.2 = 0 ∨ p.2 = 1) ∧
        ∀ a ∈ planted, ((count (asg a) p.1 : Nat) : Int) % 2 = p.2 := by
  rw [randomKXORSys_eq] at h
  by_cases hk : n < k
  · simp [hk] at h
  · simp only [hk, if_false] at h
    obtain ⟨full, hfull, _, _⟩ := allGoodParities_total (k := k) hT
    obtain ⟨⟨hn, hm, _⟩, hlen, _, _⟩ := sampleParities_ok hT hfull hL h
    refine ⟨hlen, hn, fun p hp => ?_⟩
    obtain ⟨h1, h2, h3⟩ := hm p hp
    have hX := mem_combos_vars.1 h1
    refine ⟨hX, h2, fun a ha => ?_⟩
    rw [count_asg_pos (fun x hx => by have := hX.2.2 x hx; omega)]
    exact h3 a ha

/-- T-C13.3b the formula returned by `RandomKXOR` has `n` variables and — in its CNF and in its OPB
rendering — is satisfied exactly by the solutions of the parity system (through C04's `parity_holds`) -/
theorem randomKXOR_holds (σ : Int → List Draw) (k n m : Nat) (seed : Option Int) (planted : List (List Int))
    (hT : ∀ a ∈ planted, TotalOn n a) (rng rest : List Draw) (F : Formula)
    (hL : Legal (usedStream σ seed rng))
    (h : randomKXOR σ k n m seed planted rng = .ok (F, rest)) :
    ∃ sys, randomKXORSys σ k n m seed planted rng = .ok (sys, rest) ∧ F = kxorFormula n sys ∧
      F.toCNF.nvars = n ∧ F.WF ∧
      ∀ α : Assign, (F.toCNF.holds α = true ↔ ∀ p ∈ sys, ((count α p.1 : Nat) : Int) % 2 = p.2) ∧
        (F.toOPB.holds α = true ↔ ∀ p ∈ sys, ((count α p.1 : Nat) : Int) % 2 = p.2) := by
  rw [randomKXOR_eq] at h
  cases hs : randomKXORSys σ k n m seed planted rng with
  | error e => rw [hs] at h; cases h
  | ok p =>
    obtain ⟨sys, rest'⟩ := p
    rw [hs] at h
    simp only [Except.ok.injEq, Prod.mk.injEq] at h
    obtain ⟨rfl, rfl⟩ := h
    obtain ⟨_, _, hshape⟩ := randomKXOR_shape σ k n m seed planted hT rng rest' sys hL hs
    have hWF : (kxorFormula n sys).WF :=
      kxorFormula_WF (k := k) (fun p hp => mem_combos_vars.2 (hshape p hp).1)
    refine ⟨sys, rfl, rfl, rfl, hWF, fun α => ?_⟩
    rw [Formula.toCNF_holds α _ hWF, Formula.toOPB_holds α _ hWF]
    have := kxorFormula_holds (n := n) α (fun p hp => (hshape p hp).2.1)
    exact ⟨this, this⟩

/-- every planted assignment is a solution -/
theorem randomKXOR_planted_satisfies (σ : Int → List Draw) (k n m : Nat) (seed : Option Int)
    (planted : List (List Int)) (hT : ∀ a ∈ planted, TotalOn n a) (rng rest : List Draw) (F : Formula)
    (hL : Legal (usedStream σ seed rng))
    (h : randomKXOR σ k n m seed planted rng = .ok (F, rest)) (a : List Int) (ha : a ∈ planted) :
    F.toCNF.holds (asg a) = true := by
  obtain ⟨sys, hs, _, _, _, hsem⟩ := randomKXOR_holds σ k n m seed planted hT rng rest F hL h
  rw [(hsem (asg a)).1]
  intro p hp
  exact ((randomKXOR_shape σ k n m seed planted hT rng rest sys hL hs).2.2 p hp).2.2 a ha

/-- non-vacuity: a recorded run (k=2, n=3, m=2, planted {x1, ¬x2, x3}) -/
example : (randomKXORSys (fun _ => []) 2 3 2 none [[1, -2, 3]]
      [.sample 3 2 [2, 0], .randint 0 1 0, .sample 3 2 [1, 0], .randint 0 1 1]).toOption.map Prod.fst
    = some [([1, 3], 0), ([1, 2], 1)] := by decide

example : TotalOn 3 [1, -2, 3] := by
  intro v h1 h2
  rcases (by omega : v = 1 ∨ v = 2 ∨ v = 3) with rfl | rfl | rfl <;> simp

/-- T-C13.3c for ALL `n`: ValueError, or — beyond `sys.maxsize` variables, when the dense fallback is
reached — OverflowError (defect C13-H1), and nothing else -/
theorem randomKXOR_error_kinds (σ : Int → List Draw) (k n m : Nat) (seed : Option Int)
    (planted : List (List Int)) (hT : ∀ a ∈ planted, TotalOn n a) (rng : List Draw) (e : Err)
    (hL : Legal (usedStream σ seed rng))
    (h : randomKXORSys σ k n m seed planted rng = .error (.py e)) :
    e = .valueError ∨ (e = .overflowError ∧ sysMaxsize < n) := by
  rw [randomKXORSys_eq] at h
  by_cases hk : n < k
  · simp only [hk, if_true, Except.error.injEq, RErr.py.injEq] at h; exact Or.inl h.symm
  · simp only [hk, if_false] at h
    obtain ⟨full, hfull, _, _⟩ := allGoodParities_total (k := k) hT
    rcases sampleParities_error hT hfull hL h with ⟨h'', _⟩ | ⟨h'', _⟩ | h'' | ⟨h'', hb⟩
    · cases h''; exact Or.inl rfl
    · cases h''
    · cases h''
    · cases h''; exact Or.inr ⟨rfl, hb⟩

/-- defect C13-H1 for k-XOR: `RandomKXOR(0, 2**63, 3)` (two compatible parities, three requested; the
30 `randint(0,1)` answers are irrelevant) raises OverflowError, not ValueError -/
theorem randomKXOR_huge_dense_overflow :
    randomKXORSys (fun _ => []) 0 (2 ^ 63) 3 none [] (List.replicate 30 (.randint 0 1 0)) =
      .error (.py .overflowError) := by rfl

/-- T-C13.3c (partial: `n ≤ sys.maxsize`; false beyond, `randomKXOR_huge_dense_overflow`) no Python
exception other than ValueError -/
theorem randomKXOR_only_valueError_partial (σ : Int → List Draw) (k n m : Nat) (seed : Option Int)
    (planted : List (List Int)) (hT : ∀ a ∈ planted, TotalOn n a) (rng : List Draw) (e : Err)
    (hS : n ≤ sysMaxsize) (hL : Legal (usedStream σ seed rng))
    (h : randomKXORSys σ k n m seed planted rng = .error (.py e)) : e = .valueError := by
  rcases randomKXOR_error_kinds σ k n m seed planted hT rng e hL h with h' | ⟨_, h'⟩
  · exact h'
  · omega

/-- T-C13.3d (partial: `n ≤ sys.maxsize`; beyond, the "if" half fails — `randomKXOR_huge_dense_overflow`,
where `full.length = 2 < 3 = m`) ValueError exactly when `k > n` or `m` exceeds the number of compatible parities -/
theorem randomKXOR_valueError_iff_partial (σ : Int → List Draw) (k n m : Nat) (seed : Option Int)
    (planted : List (List Int)) (hT : ∀ a ∈ planted, TotalOn n a) (rng : List Draw)
    (full : List Parity) (hfull : allGoodParities k n planted = .ok full)
    (hS : n ≤ sysMaxsize) (hL : Legal (usedStream σ seed rng))
    (hC : Completed (randomKXORSys σ k n m seed planted rng)) :
    randomKXORSys σ k n m seed planted rng = .error (.py .valueError) ↔ n < k ∨ full.length < m := by
  rw [randomKXORSys_eq] at hC ⊢
  by_cases hk : n < k
  · simp [hk]
  · simp only [hk, if_false, false_or] at hC ⊢
    constructor
    · intro h
      rcases sampleParities_error hT hfull hL h with ⟨_, h''⟩ | ⟨h'', _⟩ | h'' | ⟨h'', _⟩
      · rcases h'' with h'' | ⟨h'', _⟩
        · exact absurd h'' hk
        · exact h''
      · cases h''
      · cases h''
      · cases h''
    · intro hcond
      cases hr : sampleParities k n m planted (usedStream σ seed rng) with
      | ok p =>
        obtain ⟨sys, rest⟩ := p
        obtain ⟨⟨hn, hm, _⟩, hlen, _, _⟩ := sampleParities_ok hT hfull hL hr
        obtain ⟨full', h1, h2, _⟩ := allGoodParities_total (k := k) hT
        rw [hfull] at h1; cases h1
        have := length_le_of_nodup_subset hn (fun p hp => (h2 p).2 (hm p hp))
        omega
      | error e =>
        rcases sampleParities_error hT hfull hL hr with ⟨h'', _⟩ | ⟨h'', _⟩ | h'' | ⟨_, hb⟩
        · rw [h'']
        · rw [h''] at hr; exact absurd hr hC.1
        · rw [h''] at hr; exact absurd hr hC.2
        · omega

/-- the whole defect region for `RandomKXOR`: beyond `sys.maxsize` variables every request with `m` above the
number of compatible parities fails with OverflowError instead of ValueError -/
theorem randomKXOR_huge_too_many_overflow (σ : Int → List Draw) (k n m : Nat) (seed : Option Int)
    (planted : List (List Int)) (hT : ∀ a ∈ planted, TotalOn n a) (rng : List Draw)
    (full : List Parity) (hfull : allGoodParities k n planted = .ok full)
    (hB : sysMaxsize < n) (hk : k ≤ n) (hm : full.length < m) (hL : Legal (usedStream σ seed rng))
    (hC : Completed (randomKXORSys σ k n m seed planted rng)) :
    randomKXORSys σ k n m seed planted rng = .error (.py .overflowError) := by
  rw [randomKXORSys_eq] at hC ⊢
  have hk' : ¬ n < k := by omega
  simp only [hk', if_false] at hC ⊢
  cases hr : sampleParities k n m planted (usedStream σ seed rng) with
  | ok p =>
    obtain ⟨sys, rest⟩ := p
    obtain ⟨⟨hn, hmem, _⟩, hlen, _, _⟩ := sampleParities_ok hT hfull hL hr
    obtain ⟨full', h1, h2, _⟩ := allGoodParities_total (k := k) hT
    rw [hfull] at h1; cases h1
    have := length_le_of_nodup_subset hn (fun p hp => (h2 p).2 (hmem p hp))
    omega
  | error e =>
    rcases sampleParities_error hT hfull hL hr with ⟨_, h''⟩ | ⟨h'', _⟩ | h'' | ⟨h'', _⟩
    · rcases h'' with h'' | ⟨_, h''⟩ <;> omega
    · rw [h''] at hr; exact absurd hr hC.1
    · rw [h''] at hr; exact absurd hr hC.2
    · rw [h'']

/-- for ALL `n`: a ValueError of `RandomKXOR` is never spurious -/
theorem randomKXOR_valueError_only_if (σ : Int → List Draw) (k n m : Nat) (seed : Option Int)
    (planted : List (List Int)) (hT : ∀ a ∈ planted, TotalOn n a) (rng : List Draw)
    (full : List Parity) (hfull : allGoodParities k n planted = .ok full)
    (hL : Legal (usedStream σ seed rng))
    (h : randomKXORSys σ k n m seed planted rng = .error (.py .valueError)) : n < k ∨ full.length < m := by
  rw [randomKXORSys_eq] at h
  by_cases hk : n < k
  · exact Or.inl hk
  · simp only [hk, if_false] at h
    rcases sampleParities_error hT hfull hL h with ⟨_, h''⟩ | ⟨h'', _⟩ | h'' | ⟨h'', _⟩
    · rcases h'' with h'' | ⟨h'', _⟩
      · exact Or.inl h''
      · exact Or.inr h''
    · cases h''
    · cases h''
    · cases h''

/-- "enough" for k-XOR up to `sys.maxsize` variables: `10·m·2 + 1` legal draws never run out -/
theorem randomKXOR_enough_draws (σ : Int → List Draw) (k n m : Nat) (seed : Option Int)
    (planted : List (List Int)) (hT : ∀ a ∈ planted, TotalOn n a) (rng : List Draw) (hS : n ≤ sysMaxsize)
    (hL : Legal (usedStream σ seed rng)) (hlen : drawBudgetX m ≤ (usedStream σ seed rng).length) :
    randomKXORSys σ k n m seed planted rng ≠ .error .outOfDraws := by
  intro h
  rw [randomKXORSys_eq] at h
  by_cases hk : n < k
  · simp [hk] at h
  · simp only [hk, if_false] at h
    obtain ⟨full, hfull, _, _⟩ := allGoodParities_total (k := k) hT
    rcases sampleParities_error hT hfull hL h with ⟨h'', _⟩ | ⟨_, h''⟩ | h'' | ⟨h'', _⟩
    · cases h''
    · have := h'' hS; omega
    · cases h''
    · cases h''

/-- completing legal draw lists exist for every k-XOR input with total planted assignments -/
theorem randomKXOR_completing_draws_exist (σ : Int → List Draw) (k n m : Nat) (planted : List (List Int))
    (hT : ∀ a ∈ planted, TotalOn n a) :
    ∃ rng, Legal rng ∧ (rng.length ≤ drawBudget k m + retryBudget m ∧ (n ≤ sysMaxsize → rng.length ≤ drawBudgetX m)) ∧
      Completed (randomKXORSys σ k n m none planted rng) := by
  by_cases hk : n < k
  · refine ⟨[], Legal.nil, by simp, ?_⟩
    rw [randomKXORSys_eq]; simp only [hk, if_true]
    exact ⟨by simp, by simp⟩
  · have hk' : k ≤ n := by omega
    obtain ⟨full, hfull, _, _⟩ := allGoodParities_total (k := k) hT
    refine ⟨witnessDrawsX k n m full, witnessDrawsX_legal hk' m full, witnessDrawsX_length k n m full, ?_⟩
    rw [randomKXORSys_eq]; simp only [hk, if_false, usedStream]
    exact sampleParities_witness hT hk' m hfull

/-! ## the `--plant` option of the command line -/

/-- `cnfgen randkcnf -p k n m`: whenever a formula comes out it has `n` variables, `m` clauses and is
satisfiable (by the planted assignment) -/
theorem cli_randkcnf_planted_satisfiable (k n m : Nat) (draws rest : List Draw) (F : Formula)
    (hL : Legal draws) (h : cliRandKCNF true k n m draws = .ok (F, rest)) :
    F.toCNF.nvars = n ∧ F.toCNF.clauses.length = m ∧ ∃ α, F.toCNF.holds α = true := by
  rw [cliRandKCNF_eq] at h
  simp only [if_true] at h
  cases hp : plantAssignment n draws with
  | error e => rw [hp] at h; cases h
  | ok p =>
    obtain ⟨a, ds'⟩ := p
    rw [hp] at h
    obtain ⟨_, hc, hL'⟩ := plantAssignment_ok hL hp
    obtain ⟨h1, h2, _⟩ := randomKCNF_shape _ k n m none [a] ds' rest F hL' h
    exact ⟨h1, h2, asg a, randomKCNF_planted_satisfies _ k n m none [a] ds' rest F hL' h a (by simp) hc⟩

/-- `cnfgen randkxor -p k n m`: the parity system has `m` equations and a solution -/
theorem cli_randkxor_planted_satisfiable (k n m : Nat) (draws rest : List Draw) (sys : List Parity)
    (hL : Legal draws) (h : cliRandKXORSys true k n m draws = .ok (sys, rest)) :
    sys.length = m ∧ ∃ α : Assign, ∀ p ∈ sys, ((count α p.1 : Nat) : Int) % 2 = p.2 := by
  rw [cliRandKXORSys_eq] at h
  simp only [if_true] at h
  cases hp : plantAssignment n draws with
  | error e => rw [hp] at h; cases h
  | ok p =>
    obtain ⟨a, ds'⟩ := p
    rw [hp] at h
    obtain ⟨ht, _, hL'⟩ := plantAssignment_ok hL hp
    have hT : ∀ a' ∈ [a], TotalOn n a' := by intro a' ha'; simp at ha'; rw [ha']; exact ht
    obtain ⟨h1, _, h3⟩ := randomKXOR_shape _ k n m none [a] hT ds' rest sys hL' h
    exact ⟨h1, asg a, fun p hp' => (h3 p hp').2.2 a (by simp)⟩

/-! ## C07 (library part): a `seed=` argument makes the result independent of the prior generator state -/

/-- `RandomKCNF(k,n,m,seed=s,…)` reseeds before its first draw: formula AND final generator state are
the same whatever the state of the generator was before the call -/
theorem seeded_independent_of_state (σ : Int → List Draw) (k n m : Nat) (s : Int) (planted : List (List Int))
    (rng₀ rng₀' : List Draw) :
    randomKCNF σ k n m (some s) planted rng₀ = randomKCNF σ k n m (some s) planted rng₀' := by
  rw [randomKCNF_eq, randomKCNF_eq]; rfl

/-- the same for arbitrary integer arguments (the `non_negative_int` checks draw nothing) -/
theorem seeded_independent_of_state_int (σ : Int → List Draw) (k n m : Int) (s : Int)
    (planted : List (List Int)) (rng₀ rng₀' : List Draw) :
    randomKCNFInt σ k n m (some s) planted rng₀ = randomKCNFInt σ k n m (some s) planted rng₀' := by
  unfold randomKCNFInt
  split
  · rfl
  · exact seeded_independent_of_state σ _ _ _ s planted rng₀ rng₀'

/-- `RandomKXOR(k,n,m,seed=s,…)` likewise -/
theorem seeded_independent_of_state_kxor (σ : Int → List Draw) (k n m : Nat) (s : Int)
    (planted : List (List Int)) (rng₀ rng₀' : List Draw) :
    randomKXOR σ k n m (some s) planted rng₀ = randomKXOR σ k n m (some s) planted rng₀' := by
  rw [randomKXOR_eq, randomKXOR_eq, randomKXORSys_eq, randomKXORSys_eq]; rfl

/-- with a seed the run is the unseeded run started in the state `σ s` -/
theorem seeded_eq_unseeded_from (σ : Int → List Draw) (k n m : Nat) (s : Int) (planted : List (List Int))
    (rng₀ : List Draw) :
    randomKCNF σ k n m (some s) planted rng₀ = randomKCNF σ k n m none planted (σ s) := by
  rw [randomKCNF_eq, randomKCNF_eq]; rfl

/-- without a seed the prior state matters (so the hypothesis `some s` above is not decoration) -/
example : (randomKCNF (fun _ => []) 1 1 1 none [] [.sample 1 1 [0], .choice 2 0]).toOption.map
      (fun r => r.1.toCNF.clauses) ≠
    (randomKCNF (fun _ => []) 1 1 1 none [] [.sample 1 1 [0], .choice 2 1]).toOption.map
      (fun r => r.1.toCNF.clauses) := by decide

end Cnfgen.C13
