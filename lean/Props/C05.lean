/-
C05 — Substitution, lifting and compression compose the formula with the gadget.
Property theorems only; helper lemmas are in `Lemmas/Subst.lean`, `Lemmas/SubstGadgets.lean`,
`Lemmas/Header.lean`.  The model is `CnfgenModel/Trans/Subst.lean` (+ `Trans/Header.lean`).

Reading guide
* `Composes F G M ind` : `G` has exactly `M` variables, is well formed, and an assignment `β` of the
  new variables satisfies `G` iff the induced assignment `ind β` of the original variables satisfies `F`.
* `blockCount k β v`   : how many of the new variables `(v-1)k+1 … vk` (the block of the original
  variable `v`) are true under `β`  (`blockCount_eq`).
* every theorem is about the FAITHFUL function (argument checks, `substitutions[lit]` indexing,
  `add_clause(check=True)` variable counting), not about a closed form.
-/
import Lemmas.Subst
import Lemmas.SubstGadgets
import Lemmas.Header
namespace Cnfgen.C05
open Cnfgen Subst

structure Composes (F G : CNF) (M : Nat) (ind : Assign → Assign) : Prop where
  nvars : G.nvars = M
  wf : G.WF
  holds : ∀ β, G.holds β = F.holds (ind β)

/-- number of true variables in the block of the original variable `v` -/
def blockCount (k : Nat) (β : Assign) (v : Nat) : Nat := count β (blockLits k v)

/-- the block of `v` is the new variables `(v-1)k+1 … vk` -/
theorem blockCount_eq (k : Nat) (β : Assign) (v : Nat) :
    blockCount k β v = (List.range k).countP (fun i => β ((v - 1) * k + (i + 1))) :=
  count_blockLits β k v

theorem holds_iff (β : Assign) (G : CNF) :
    G.holds β = true ↔ ∀ c ∈ G.clauses, clauseHolds β c = true := by
  simp [CNF.holds, List.all_eq_true]

/-! ### T-C05.0 the general composition theorem -/

/-- T-C05.0.  For ANY per-literal encoder `enc` that, under the side condition established by the
clauses `pre` added beforehand, means `g β v` on the positive literal of `v` and `¬ g β v` on the
negative one, and whose clauses stay within `M` variables: the faithful engine raises no exception
on a well-formed `F` (empty clauses, unused variables, repeated and opposite literals included),
produces exactly `M` variables, the clauses `pre ++ substClauses enc F.clauses`, and the result holds
under `β` iff the side condition holds and `F` holds under the induced assignment `g β`. -/
theorem subst_composes (F : CNF) (M : Nat) (pre : List Clause) (enc : Int → List Clause)
    (side : Assign → Prop) (g : Assign → Assign)
    (hF : F.WF) (hpre : Bounded M pre) (hB : EncB F.nvars M enc)
    (hside : ∀ β, (∀ c ∈ pre, clauseHolds β c = true) ↔ side β)
    (hpos : ∀ β, side β → ∀ v : Nat, 1 ≤ v → v ≤ F.nvars →
      ((∀ c ∈ enc (v : Int), clauseHolds β c = true) ↔ g β v = true))
    (hneg : ∀ β, side β → ∀ v : Nat, 1 ≤ v → v ≤ F.nvars →
      ((∀ c ∈ enc (-(v : Int)), clauseHolds β c = true) ↔ g β v = false)) :
    ∃ G, Subst.run ⟨M, pre⟩ F.nvars enc F.clauses = .ok G ∧ G.nvars = M ∧ G.WF ∧
      G.clauses = pre ++ substClauses enc F.clauses ∧
      ∀ β, G.holds β = true ↔ (side β ∧ F.holds (g β) = true) := by
  have hsb := substClauses_bounded F.nvars M enc F.clauses hF hB
  have hmv : maxVar (substClauses enc F.clauses) ≤ M :=
    maxVar_le _ M (fun c hc x hx => (hsb c hc x hx).2)
  refine ⟨⟨M, pre ++ substClauses enc F.clauses⟩, ?_, rfl, ?_, rfl, ?_⟩
  · rw [run_ok ⟨M, pre⟩ F.nvars M enc F.clauses hF hB]
    simp only [Nat.max_eq_left hmv]
  · exact hpre.append hsb
  · intro β
    rw [holds_iff, holds_iff]
    simp only [List.mem_append]
    constructor
    · intro h
      have hs : side β := (hside β).1 (fun c hc => h c (Or.inl hc))
      refine ⟨hs, ?_⟩
      exact (substClauses_holds β (g β) enc F.nvars F.clauses hF (hpos β hs) (hneg β hs)).1
        (fun c hc => h c (Or.inr hc))
    · rintro ⟨hs, hh⟩ c (hc | hc)
      · exact (hside β).2 hs c hc
      · exact (substClauses_holds β (g β) enc F.nvars F.clauses hF (hpos β hs) (hneg β hs)).2 hh c hc

/-- T-C05.0 without side condition: `Composes` -/
theorem subst_composes_plain (F : CNF) (M : Nat) (enc : Int → List Clause) (g : Assign → Assign)
    (hF : F.WF) (hB : EncB F.nvars M enc)
    (hpos : ∀ β (v : Nat), 1 ≤ v → v ≤ F.nvars →
      ((∀ c ∈ enc (v : Int), clauseHolds β c = true) ↔ g β v = true))
    (hneg : ∀ β (v : Nat), 1 ≤ v → v ≤ F.nvars →
      ((∀ c ∈ enc (-(v : Int)), clauseHolds β c = true) ↔ g β v = false)) :
    ∃ G, Subst.run ⟨M, []⟩ F.nvars enc F.clauses = .ok G ∧ Composes F G M g := by
  obtain ⟨G, h1, h2, h3, _, h5⟩ := subst_composes F M [] enc (fun _ => True) g hF
    (by intro c hc; simp at hc) hB (by intro β; simp) (fun β _ => hpos β) (fun β _ => hneg β)
  refine ⟨G, h1, h2, h3, ?_⟩
  intro β
  have := h5 β
  simp only [true_and] at this
  exact Bool.eq_iff_iff.2 this

/-- a formula with an empty clause, an unused top variable, a repeated and an opposite literal -/
def exF : CNF := ⟨4, [[1, -2], [], [2, 2, -2], [3]]⟩
example : exF.WF := by unfold CNF.WF exF; decide

/-- non-vacuity of T-C05.0: the or-gadget of arity 2 is such an encoder -/
example : ∃ G, Subst.run ⟨2 * exF.nvars, []⟩ exF.nvars (orify 2) exF.clauses = .ok G ∧
    Composes exF G (2 * exF.nvars) (fun β v => decide (1 ≤ blockCount 2 β v)) :=
  subst_composes_plain exF _ _ _ (by unfold CNF.WF exF; decide) (orify_bounded _ 2)
    (fun β v hv _ => orify_pos β 2 v hv) (fun β v hv _ => orify_neg β 2 v hv)

/-! ### T-C05.1 / T-C05.3 the arity-`k` gadgets: `k · nvars` variables, gadget applied per block -/

/-- common shape: a gadget that is a function `gad` of the number of true variables of the block -/
theorem kSubst_composes (F : CNF) (k : Nat) (hk : 1 ≤ k) (hF : F.WF)
    (enc : Nat → Int → List Clause) (gad : Nat → Bool)
    (hB : EncB F.nvars (k * F.nvars) (enc k))
    (hpos : ∀ β (v : Nat), 1 ≤ v → ((∀ c ∈ enc k (v : Int), clauseHolds β c = true) ↔
      gad (count β (blockLits k v)) = true))
    (hneg : ∀ β (v : Nat), 1 ≤ v → ((∀ c ∈ enc k (-(v : Int)), clauseHolds β c = true) ↔
      gad (count β (blockLits k v)) = false)) :
    ∃ G, kSubst F (k : Int) enc = .ok G ∧
      Composes F G (k * F.nvars) (fun β v => gad (blockCount k β v)) := by
  have h1 : ¬ ((k : Int) < 1) := by omega
  simp only [kSubst, h1, if_false, Int.toNat_natCast]
  exact subst_composes_plain F (k * F.nvars) (enc k) _ hF hB
    (fun β v hv _ => hpos β v hv) (fun β v hv _ => hneg β v hv)

/-- every arity-`k` transformation rejects `k < 1` (`positive_int`) -/
theorem kSubst_rejects (F : CNF) (k : Int) (hk : k < 1) (enc : Nat → Int → List Clause) :
    kSubst F k enc = .error .valueError := by simp [kSubst, hk]

example : xorSubst exF 0 = .error .valueError := kSubst_rejects exF 0 (by omega) _

theorem xor_composes (F : CNF) (k : Nat) (hk : 1 ≤ k) (hF : F.WF) :
    ∃ G, xorSubst F k = .ok G ∧
      Composes F G (k * F.nvars) (fun β v => decide (blockCount k β v % 2 = 1)) :=
  kSubst_composes F k hk hF xorify (fun n => decide (n % 2 = 1)) (xorify_bounded _ k)
    (fun β v hv => xorify_pos β k v hv) (fun β v hv => xorify_neg β k v hv)

example : xorSubst ⟨2, [[1, -2]]⟩ 2 =
    .ok ⟨4, [[1, 2, 3, -4], [1, 2, -3, 4], [-1, -2, 3, -4], [-1, -2, -3, 4]]⟩ := by rfl
example : ∃ G, xorSubst exF 3 = .ok G ∧ G.nvars = 12 := by
  obtain ⟨G, h, c⟩ := xor_composes exF 3 (by omega) (by unfold CNF.WF exF; decide)
  exact ⟨G, h, c.nvars⟩

theorem or_composes (F : CNF) (k : Nat) (hk : 1 ≤ k) (hF : F.WF) :
    ∃ G, orSubst F k = .ok G ∧
      Composes F G (k * F.nvars) (fun β v => decide (1 ≤ blockCount k β v)) :=
  kSubst_composes F k hk hF orify (fun n => decide (1 ≤ n)) (orify_bounded _ k)
    (fun β v hv => orify_pos β k v hv) (fun β v hv => orify_neg β k v hv)

example : orSubst ⟨2, [[1, -2]]⟩ 2 = .ok ⟨4, [[1, 2, -3], [1, 2, -4]]⟩ := by rfl

/-- majority is the loose one of the documentation: `X(1)+…+X(k) ≥ k/2` -/
theorem maj_composes (F : CNF) (k : Nat) (hk : 1 ≤ k) (hF : F.WF) :
    ∃ G, majSubst F k = .ok G ∧
      Composes F G (k * F.nvars) (fun β v => decide (k ≤ 2 * blockCount k β v)) :=
  kSubst_composes F k hk hF majorify (fun n => decide (k ≤ 2 * n)) (majorify_bounded _ k)
    (fun β v hv => majorify_pos β k v hv) (fun β v hv => majorify_neg β k v hv)

example : majSubst ⟨1, [[1], [-1]]⟩ 2 = .ok ⟨2, [[1, 2], [-1], [-2]]⟩ := by rfl

theorem allEqual_composes (F : CNF) (k : Nat) (hk : 1 ≤ k) (hF : F.WF) :
    ∃ G, allEqual F k = .ok G ∧
      Composes F G (k * F.nvars)
        (fun β v => decide (blockCount k β v = 0 ∨ blockCount k β v = k)) :=
  kSubst_composes F k hk hF (aesubst false) (fun n => decide (n = 0 ∨ n = k))
    (aesubst_bounded false _ k hk)
    (fun β v hv => alleq_pos β k v hk hv) (fun β v hv => alleq_neg β k v hv)

example : allEqual ⟨1, [[1]]⟩ 3 = .ok ⟨3, [[1, -3], [-1, 2], [-2, 3]]⟩ := by rfl

theorem notAllEqual_composes (F : CNF) (k : Nat) (hk : 1 ≤ k) (hF : F.WF) :
    ∃ G, notAllEqual F k = .ok G ∧
      Composes F G (k * F.nvars)
        (fun β v => !decide (blockCount k β v = 0 ∨ blockCount k β v = k)) := by
  have h1 : ¬ ((k : Int) < 1) := by omega
  simp only [notAllEqual, h1, if_false]
  exact kSubst_composes F k hk hF (aesubst true) (fun n => !decide (n = 0 ∨ n = k))
    (aesubst_bounded true _ k hk)
    (fun β v hv => notalleq_pos β k v hv) (fun β v hv => notalleq_neg β k v hk hv)

example : notAllEqual ⟨1, [[1]]⟩ 3 = .ok ⟨3, [[1, 2, 3], [-1, -2, -3]]⟩ := by rfl

theorem exactlyOne_composes (F : CNF) (k : Nat) (hk : 1 ≤ k) (hF : F.WF) :
    ∃ G, exactlyOne F k = .ok G ∧
      Composes F G (k * F.nvars) (fun β v => decide (blockCount k β v = 1)) :=
  kSubst_composes F k hk hF oneify (fun n => decide (n = 1)) (oneify_bounded _ k)
    (fun β v hv => oneify_pos β k v hv) (fun β v hv => oneify_neg β k v hv)

example : exactlyOne ⟨1, [[-1]]⟩ 3 = .ok ⟨3, [[-1, 2, 3], [1, -2, 3], [1, 2, -3]]⟩ := by rfl

/-- `LinearSubstitution(F, k, op, C)` for every operator and every integer constant (negative,
larger than `k`): the block count compared with `C` -/
theorem linear_composes (F : CNF) (k : Nat) (o : Op) (C : Int) (hk : 1 ≤ k) (hF : F.WF) :
    ∃ G, linearSubst F k o C = .ok G ∧
      Composes F G (k * F.nvars) (fun β v => o.denote (blockCount k β v) C) :=
  kSubst_composes F k hk hF (linear o C) (fun n => o.denote n C) (linear_bounded _ k o C)
    (fun β v hv => linear_pos β o C k v hv) (fun β v hv => linear_neg β o C k v hv)

example : linearSubst ⟨1, [[1]]⟩ 3 .lt 1 = .ok ⟨3, [[-1], [-2], [-3]]⟩ := by rfl

/-- the operator used on negative literals is the complement (`opchoices[-i-1]`) -/
theorem negop_complement (o : Op) (a b : Int) : (negop o).denote a b = !(o.denote a b) :=
  negop_denote o a b

theorem atLeast_composes (F : CNF) (k : Nat) (C : Int) (hk : 1 ≤ k) (hF : F.WF) :
    ∃ G, atLeast F k C = .ok G ∧
      Composes F G (k * F.nvars) (fun β v => decide ((blockCount k β v : Int) ≥ C)) :=
  linear_composes F k .ge C hk hF

theorem atMost_composes (F : CNF) (k : Nat) (C : Int) (hk : 1 ≤ k) (hF : F.WF) :
    ∃ G, atMost F k C = .ok G ∧
      Composes F G (k * F.nvars) (fun β v => decide ((blockCount k β v : Int) ≤ C)) :=
  linear_composes F k .le C hk hF

theorem exactly_composes (F : CNF) (k : Nat) (C : Int) (hk : 1 ≤ k) (hF : F.WF) :
    ∃ G, exactly F k C = .ok G ∧
      Composes F G (k * F.nvars) (fun β v => decide ((blockCount k β v : Int) = C)) :=
  linear_composes F k .eq C hk hF

theorem anythingBut_composes (F : CNF) (k : Nat) (C : Int) (hk : 1 ≤ k) (hF : F.WF) :
    ∃ G, anythingBut F k C = .ok G ∧
      Composes F G (k * F.nvars) (fun β v => decide ((blockCount k β v : Int) ≠ C)) :=
  linear_composes F k .ne C hk hF

example : ∃ G, anythingBut exF 3 (-1) = .ok G ∧ G.nvars = 12 := by
  obtain ⟨G, h, c⟩ := anythingBut_composes exF 3 (-1) (by omega) (by unfold CNF.WF exF; decide)
  exact ⟨G, h, c.nvars⟩

/-! ### if-then-else: `3 · nvars` variables, layout `v, N+v, 2N+v` -/

theorem ite_composes (F : CNF) (hF : F.WF) :
    ∃ G, ifThenElse F = .ok G ∧
      Composes F G (3 * F.nvars)
        (fun β v => if β v then β (F.nvars + v) else β (2 * F.nvars + v)) :=
  subst_composes_plain F (3 * F.nvars) (ite F.nvars) _ hF (ite_bounded F.nvars)
    (fun β v hv _ => ite_pos β F.nvars v hv) (fun β v hv _ => ite_neg β F.nvars v hv)

example : ifThenElse ⟨2, [[1, -2]]⟩ =
    .ok ⟨6, [[-1, 3, -2, -4], [-1, 3, 2, -6], [1, 5, -2, -4], [1, 5, 2, -6]]⟩ := by rfl

/-! ### T-C05.2 lifting: `2k · nvars` variables -/

/-- number of true selectors `Y_{v,1..k}` of the original variable `v` -/
def selectorCount (k : Nat) (β : Assign) (v : Nat) : Nat := count β (yLits k v)

theorem selectorCount_eq (k : Nat) (β : Assign) (v : Nat) :
    selectorCount k β v = (List.range k).countP (fun i => β ((v - 1) * 2 * k + k + (i + 1))) :=
  count_yLits β k v

/-- the assignment induced by lifting: some copy `X_{v,i}` whose selector `Y_{v,i}` is true, is true -/
def liftAssign (k : Nat) (β : Assign) (v : Nat) : Bool :=
  (List.range k).any (fun i => β (yVar k v i) && β (xVar k v i))

/-- with exactly one true selector, `liftAssign` is the value of the selected copy -/
theorem liftAssign_selected (k : Nat) (β : Assign) (v s : Nat) (hs : s < k)
    (h1 : selectorCount k β v = 1) (hy : β (yVar k v s) = true) :
    liftAssign k β v = β (xVar k v s) := by
  unfold selectorCount at h1
  rw [count_yLits] at h1
  obtain ⟨t, ht, hyt, hu⟩ := countP_eq_one _ _ h1
  simp only [List.mem_range] at ht hu
  have est : s = t := hu s hs hy
  subst est
  unfold liftAssign
  cases hx : β (xVar k v s)
  · simp only [List.any_eq_false, List.mem_range, Bool.and_eq_true, not_and, Bool.not_eq_true]
    intro i hi hyi
    have := hu i hi hyi
    subst this; exact hx
  · simp only [List.any_eq_true, List.mem_range, Bool.and_eq_true]
    exact ⟨s, hs, hy, hx⟩

example : liftAssign 2 (fun n => n == 2 || n == 4) 1 = true := by decide   -- selector Y_{1,2} = 4, copy X_{1,2} = 2

/-- T-C05.2 -/
theorem lifting_composes (F : CNF) (k : Nat) (hk : 1 ≤ k) (hF : F.WF) :
    ∃ G, lifting F k = .ok G ∧ G.nvars = 2 * k * F.nvars ∧ G.WF ∧
      ∀ β, G.holds β = true ↔
        ((∀ v, 1 ≤ v → v ≤ F.nvars → selectorCount k β v = 1) ∧ F.holds (liftAssign k β) = true) := by
  have h1 : ¬ ((k : Int) < 1) := by omega
  simp only [lifting, h1, if_false, Int.toNat_natCast]
  obtain ⟨G, h1, h2, h3, _, h5⟩ := subst_composes F (2 * k * F.nvars) (selectors k F.nvars) (lift k)
    (fun β => ∀ v, 1 ≤ v → v ≤ F.nvars → selectorCount k β v = 1) (liftAssign k) hF
    (selectors_bounded k F.nvars hk) (lift_bounded F.nvars k)
    (fun β => selectors_holds β k F.nvars hk)
    (fun β hs v hv hN => lift_pos β k v hv (hs v hv hN))
    (fun β _ v hv _ => lift_neg β k v hv)
  exact ⟨G, h1, h2, h3, h5⟩

example : lifting ⟨1, [[1]]⟩ 2 = .ok ⟨4, [[-3, -4], [3, 4], [-3, 1], [-4, 2]]⟩ := by rfl
example : ∃ G, lifting exF 2 = .ok G ∧ G.nvars = 16 := by
  obtain ⟨G, h, n, _⟩ := lifting_composes exF 2 (by omega) (by unfold CNF.WF exF; decide)
  exact ⟨G, h, n⟩

theorem lifting_rejects (F : CNF) (k : Int) (hk : k < 1) : lifting F k = .error .valueError := by
  simp [lifting, hk]

/-! ### polarity flip -/

/-- flip composes with negation, keeps the number of variables of the input (T-C05.3, at full
strength since the repair of D5), and negates every literal in place -/
theorem flip_composes (F : CNF) (hF : F.WF) :
    ∃ G, flip F = .ok G ∧ Composes F G F.nvars (fun β v => !β v) ∧
      G.clauses = F.clauses.map (fun c => c.map (fun l => -l)) := by
  obtain ⟨G, h1, h2, h3, h4, h5⟩ := subst_composes F F.nvars [] flipLit (fun _ => True)
    (fun β v => !β v) hF (by intro c hc; simp at hc) (flip_bounded F.nvars) (by intro β; simp)
    (fun β _ v hv _ => flip_pos β v hv) (fun β _ v hv _ => flip_neg β v hv)
  refine ⟨G, h1, ⟨h2, h3, ?_⟩, ?_⟩
  · intro β
    have := h5 β
    simp only [true_and] at this
    exact Bool.eq_iff_iff.2 this
  · rw [h4, List.nil_append, substClauses_flip]

example : flip ⟨2, [[1, -2], [], [2, 2]]⟩ = .ok ⟨2, [[-1, 2], [], [-2, -2]]⟩ := by rfl
/-- the former D5 witness: unused top variables are kept -/
example : flip ⟨5, [[1, -2]]⟩ = .ok ⟨5, [[-1, 2]]⟩ := by rfl

/-! ### variable compression through a bipartite graph: `|R|` variables -/

/-- number of true new variables among the right neighbours of the left vertex `v` -/
def nbCount (B : BipG) (β : Assign) (v : Nat) : Nat := count β (nbLits B v)

theorem nbCount_eq (B : BipG) (hB : BipWF B) (β : Assign) (v : Nat) :
    nbCount B β v = (B.rnbrs v).countP (fun x => β x) :=
  count_map_pos β (B.rnbrs v) (fun x => x) (fun x hx => (hB v x hx).1)

theorem xorCompression_composes (F : CNF) (B : BipG) (hB : BipWF B) (hL : B.l = F.nvars) (hF : F.WF) :
    ∃ G, compress F B 0 = .ok G ∧
      Composes F G B.r (fun β v => decide (nbCount B β v % 2 = 1)) := by
  simp only [compress, hL]
  simp only [ne_eq, not_true_eq_false, false_and, if_false, if_true]
  exact subst_composes_plain F B.r (applyxor B) _ hF (applyxor_bounded B hB _)
    (fun β v hv _ => applyxor_pos β B hB v hv) (fun β v hv _ => applyxor_neg β B hB v hv)

theorem majCompression_composes (F : CNF) (B : BipG) (hB : BipWF B) (hL : B.l = F.nvars) (hF : F.WF) :
    ∃ G, compress F B 1 = .ok G ∧
      Composes F G B.r (fun β v => decide ((B.rnbrs v).length ≤ 2 * nbCount B β v)) := by
  simp only [compress, hL]
  have h10 : ¬ ((1 : Int) = 0) := by omega
  simp only [ne_eq, not_true_eq_false, and_false, if_false, h10]
  exact subst_composes_plain F B.r (applymaj B) _ hF (applymaj_bounded B hB _)
    (fun β v hv _ => applymaj_pos β B hB v hv) (fun β v hv _ => applymaj_neg β B hB v hv)

/-- every graph built through the graph API (here: the driver's graph literal) is well formed,
so the hypothesis `BipWF` of the two theorems above is not a restriction -/
theorem compression_graphs_wf (l r : Nat) (es : List (Nat × Nat)) (B : BipG)
    (h : BipG.ofEdges l r es = .ok B) : BipWF B := BipWF.ofEdges l r es B h

example : (BipG.ofEdges 2 3 [(1, 3), (1, 1), (2, 2)]).bind (fun B => compress ⟨2, [[1, -2]]⟩ B 0) =
    .ok ⟨3, [[1, 3, -2], [-1, -3, -2]]⟩ := by rfl

/-- non-vacuity: a graph literal with an isolated-free left side, used on `[[1,-2]]` -/
example : ∃ B G, BipG.ofEdges 2 3 [(1, 3), (1, 1), (2, 2)] = .ok B ∧ BipWF B ∧
    compress ⟨2, [[1, -2]]⟩ B 1 = .ok G ∧ G.nvars = 3 := by
  refine ⟨_, _, rfl, BipWF.ofEdges 2 3 [(1, 3), (1, 1), (2, 2)] _ rfl, rfl, rfl⟩

/-- wrong left side or unknown function: `ValueError` -/
theorem compress_rejects (F : CNF) (B : BipG) (fn : Int) (h : (fn ≠ 0 ∧ fn ≠ 1) ∨ B.l ≠ F.nvars) :
    compress F B fn = .error .valueError := by
  unfold compress
  rcases h with h | h
  · simp [h]
  · by_cases h' : fn ≠ 0 ∧ fn ≠ 1
    · simp [h']
    · simp [h', h]

example : compress exF (BipG.init 3 2) 0 = .error .valueError :=
  compress_rejects exF _ 0 (Or.inr (by decide))

/-! ### header provenance (used by C19) -/

/-- the header of the result of a transformation is the input header, entries and order kept,
plus exactly one new entry `transformation i` where `i ≥ 1` is the first number not yet used;
every key already present (e.g. `description`) keeps its value -/
theorem header_provenance (h : Header.Hdr) (t : Header.T) :
    Header.transform h t = h ++ [(.trans (Header.freeIndex h), Header.descr t)] ∧
    Header.hasKey h (.trans (Header.freeIndex h)) = false ∧ 1 ≤ Header.freeIndex h ∧
    (∀ j, 1 ≤ j → j < Header.freeIndex h → Header.hasKey h (.trans j) = true) ∧
    (∀ k, Header.hasKey h k = true → Header.get? (Header.transform h t) k = Header.get? h k) := by
  obtain ⟨h1, h2, h3⟩ := Header.freeIndex_spec h
  have e := Header.addDescription_eq h (Header.descr t)
  refine ⟨e, h1, h2, h3, ?_⟩
  intro k hk
  unfold Header.transform
  rw [e]
  exact Header.get?_append_of_hasKey _ _ _ hk

example : Header.transform [(.other [100], "php"), (.trans 1, "a"), (.trans 3, "c")] (.xor 2) =
    [(.other [100], "php"), (.trans 1, "a"), (.trans 3, "c"), (.trans 2, "Substitution with XOR of arity 2")] := by
  decide

/-- a chain of transformations (`-T … -T …`): the input header is a prefix of the result, followed by
one `transformation i` entry per transformation, in order, carrying its text -/
theorem header_chain (h : Header.Hdr) (ts : List Header.T) :
    ∃ suf : Header.Hdr, Header.transformAll h ts = h ++ suf ∧
      suf.map (·.2) = ts.map Header.descr ∧ ∀ e ∈ suf, ∃ i, 1 ≤ i ∧ e.1 = Header.Key.trans i :=
  Header.transformAll_eq h ts

example : Header.transformAll [(.other [100], "php")] [.flip, .lift 2] =
    [(.other [100], "php"), (.trans 1, "All polarities have been flipped"),
     (.trans 2, "Lifting with selectors over 2 values")] := by decide

/-! ### outside the property's domain: the failure modes of the engine on a malformed formula
(literal 0, literals beyond `nvars`, added with `check=False`) are part of the model and are
compared with the code by the harness; recorded here as evaluations, not claimed as a property -/
example : flip ⟨2, [[1, 0]]⟩ = .error .typeError := by rfl       -- `substitutions[0]` is `None`
example : flip ⟨2, [[5]]⟩ = .error .indexError := by rfl         -- list index out of range
example : flip ⟨2, [[-5]]⟩ = .error .typeError := by rfl         -- `substitutions[-5]` is entry 0
example : flip ⟨2, [[3]]⟩ = .ok ⟨2, [[2]]⟩ := by rfl              -- wraps around to the entry of `-2`

end Cnfgen.C05
