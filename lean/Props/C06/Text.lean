/-
C06 at CHARACTER level (writer → reader): the text `to_dimacs_file` writes, character by
character (`renderDimacsText`: `str(lit)+" "` … `"0\n"`, `p cnf n m`, comment lines), is lexed
(`readlines()`, `split()`, `int()`) into exactly the token rows the theorems of `Props/C06.lean`
speak about, and hence read back as the formula.  Helper lemmas: `Lemmas/IOText*.lean`.
-/
import Props.C06
import Lemmas.IOTextDimacs
namespace Cnfgen.C06
open Cnfgen Cnfgen.IO

/-- the two numbers of the problem line have at most `maxStrDigits` (= 4300) decimal digits:
beyond that CPython refuses both `str(n)` and `int(s)` (`sys.get_int_max_str_digits`).
For a well-formed formula every literal is then printable too. -/
def Printable (F : CNF) : Prop := F.nvars < 10 ^ maxStrDigits ∧ F.clauses.length < 10 ^ maxStrDigits

/-- the lexer inverts the printer: lexing the written characters gives the token rows of the
token-level writer — for every formula whose numbers are printable, every header dictionary and
every label list, in text-mode (`u = true`: universal newlines) and in `StringIO` mode -/
theorem dimacs_text_lex (u : Bool) (F : CNF) (hdr : Option Header) (names : Option (List Str))
    (hF : F.WF) (hp : Printable F) :
    lex u (renderDimacsText F hdr names) = renderDimacs u F hdr names :=
  lex_renderDimacsText u F hdr names (dimacsPrintable_of_wf F hF hp.1 hp.2)

/-- T-C06.1 at character level: reading back the characters the writer wrote gives the same
formula — for every well-formed formula (all sizes up to the digit limit of CPython itself),
with or without header and variable names, whatever characters (line breaks, `c`/`p` at line
start, digits, blanks of any kind, non-ASCII) the header fields, values and labels contain. -/
theorem dimacs_text_roundtrip (u : Bool) (F : CNF) (hdr : Option Header) (names : Option (List Str))
    (hF : F.WF) (hp : Printable F) :
    readDimacsText u (renderDimacsText F hdr names) = .ok F := by
  unfold readDimacsText
  rw [dimacs_text_lex u F hdr names hF hp]
  exact roundtrip u F hdr names hF

/-- the written text, as a text, denotes the formula (`Denotes` is the format's definition) -/
theorem dimacs_text_denotes (u : Bool) (F : CNF) (hdr : Option Header) (names : Option (List Str))
    (hF : F.WF) (hp : Printable F) :
    Denotes (lex u (renderDimacsText F hdr names)) F :=
  reader_sound _ F (dimacs_text_roundtrip u F hdr names hF hp)

/-- the bound is necessary: when one of the two counts has more than `maxStrDigits` digits, the
reader rejects the digits the model's writer lays out (real CPython already raises ValueError
inside the writer, at `"p cnf {0} {1}".format(n, m)`) -/
theorem dimacs_text_limit (u : Bool) (F : CNF) (hdr : Option Header) (names : Option (List Str))
    (hp : ¬ Printable F) :
    readDimacsText u (renderDimacsText F hdr names) = .error .valueError := by
  have hbig : 10 ^ maxStrDigits ≤ F.nvars ∨ 10 ^ maxStrDigits ≤ F.clauses.length := by
    unfold Printable at hp; omega
  obtain ⟨a, b, hab, hrow⟩ := lexLine_dimacsSpec_big F.nvars F.clauses.length hbig
  rw [cnf_lit] at hrow
  have hskip : ∀ r ∈ dimacsCommentRows u hdr names, Skip r := by
    intro r hr
    obtain ⟨rest, rfl⟩ := dimacsCommentRows_c u hdr names r hr
    right; simp [Row.cls]
  have hspec : parseSpec [Tok.word ['p'], Tok.word ['c', 'n', 'f'], a, b] = .error .valueError := by
    rcases hab with ⟨w, rfl⟩ | ⟨w, rfl⟩
    · simp [parseSpec]
    · cases a <;> simp [parseSpec]
  have hstep : rowStep PState.init [Tok.word ['p'], Tok.word ['c', 'n', 'f'], a, b] = .error .valueError := by
    simp [rowStep, Row.cls, PState.init, hspec]
  unfold readDimacsText parseDimacs runGenerator
  rw [lex_renderDimacsText_lines, hrow, List.foldlM_append, rows_skip PState.init _ hskip]
  simp only [except_bind_ok, List.foldlM_cons, hstep, except_bind_error]

/-- the round trip without the digit bound, as a statement … -/
def TextRoundtripUnbounded : Prop :=
  ∀ (u : Bool) (F : CNF) (hdr : Option Header) (names : Option (List Str)),
    F.WF → readDimacsText u (renderDimacsText F hdr names) = .ok F

/-- … is false of the model (and of CPython): the empty formula over `10^4300` variables -/
theorem text_roundtrip_unbounded_false : ¬ TextRoundtripUnbounded := by
  intro h
  have hwf : (CNF.mk (10 ^ maxStrDigits) []).WF := by intro c hc; simp at hc
  have h1 := h false ⟨10 ^ maxStrDigits, []⟩ none none hwf
  have h2 := dimacs_text_limit false ⟨10 ^ maxStrDigits, []⟩ none none
    (by intro hp; exact Nat.lt_irrefl _ hp.1)
  rw [h2] at h1
  cases h1

/-! ### non-vacuity -/

/-- a printable well-formed formula -/
example : (CNF.mk 5 [[1, -2], [], [3, 3, -1]]).WF ∧ Printable (CNF.mk 5 [[1, -2], [], [3, 3, -1]]) :=
  ⟨by unfold CNF.WF; decide, lt_limit_of_le (by decide), lt_limit_of_le (by decide)⟩

/-- the characters written for it with a multi-line header value whose second line starts with `p`
and a label containing a line break (the D14 witnesses), and what the reader makes of them -/
example : renderDimacsText ⟨2, [[1, -2], []]⟩ (some [("d".toList, "g\np cnf 9 9".toList)]) (some ["x\ny".toList, "b".toList]) =
    "c d: g\nc p cnf 9 9\nc\nc varname 1 x y\nc varname 2 b\nc\np cnf 2 2\n1 -2 0\n0\n".toList := by decide

example : readDimacsText true
    "c d: g\nc p cnf 9 9\nc\nc varname 1 x y\nc varname 2 b\nc\np cnf 2 2\n1 -2 0\n0\n".toList =
    .ok ⟨2, [[1, -2], []]⟩ := by decide

/-- `int(str(z)) == z` on a concrete number, by the general lemma -/
example : pyInt? (intStr (-1234567890123456789)) = some (-1234567890123456789) :=
  pyInt_intStr _ (lt_limit_of_lt_pow 19 (by decide) (by decide))

end Cnfgen.C06
