/-
C14 — Graph files round-trip in every supported format; bad files are rejected.
Property theorems only; helper lemmas are in `Lemmas/GraphIO*.lean` (and, for the object
invariants, `Lemmas/GraphInv.lean`, `Lemmas/GraphNx.lean` of C16).

Model: `CnfgenModel/IO/GraphFmt.lean` (readers / writers over rows), lexer
`CnfgenModel/IO/GraphLex.lean` (compared with Python by the harness, not proven).
The graph objects are `SimpleG / DiG / BipG`; the hypothesis `InvAny G` is the representation
invariant of `Lemmas/GraphInv.lean` (adjacency tables sorted and consistent with the edge set),
which C16 proves for every reachable object.
-/
import Lemmas.GraphIOKth
import Lemmas.GraphIODimacs
import Lemmas.GraphIOBip
import Lemmas.GraphIORelabel
import Lemmas.GraphIORead
namespace Cnfgen.C14
open Cnfgen GraphFmt GraphLex

/-- the representation invariant of the object, whatever its class -/
def InvAny : AnyG → Prop
  | .simple G => SimpleG.Inv G
  | .di G => DiG.Inv G
  | .bip G => BipG.Inv G

/-- the object is of the class `readGraph` / `writeGraph` use for the graph type; a graph
written as `'dag'` is acyclic in cnfgen's sense (`is_dag()`) -/
def HasType : GType → AnyG → Prop
  | .simple, .simple _ => True
  | .digraph, .di _ => True
  | .dag, .di G => G.stillDag = true
  | .bipartite, .bip _ => True
  | _, _ => False

/-- equal in everything a caller can observe: class, order (and left/right split), edge
counter, every adjacency table (hence numbering, neighbour views and the edge listing), the
`is_dag` flag, and the edge set as a set (Python's `set` has no order) -/
def SameAny : AnyG → AnyG → Prop
  | .simple G, .simple G' => SimpleG.Same G G'
  | .di G, .di G' => DiG.Same G G'
  | .bip G, .bip G' => BipG.Same G G'
  | _, _ => False

/-- the formats implemented in cnfgen itself (gml and dot go through networkx / pydot) -/
def InHouse (fmt : Fmt) : Prop := fmt = .kthlist ∨ fmt = .dimacs ∨ fmt = .matrix

/-! ## T-C14.1 round trip -/

/-- T-C14.1 Writing a graph of any of the four types in any in-house format supported for the
type and reading the rows back returns the same graph: same order / split, same numbering,
same edges (every adjacency table is identical), isolated vertices and empty sides included,
no bound on the number of vertices. -/
theorem roundtrip (name : Str) (ty : GType) (fmt : Fmt) (G : AnyG) (hin : InHouse fmt) (hsup : fmt ∈ supported ty)
    (hty : HasType ty G) (hinv : InvAny G) :
    ∃ rows G', writeGraph name ty fmt G = .ok rows ∧ readGraph ty rows = .ok G' ∧ SameAny G G' := by
  have hc : checkArgs ty fmt = .ok () := by
    unfold checkArgs
    rw [if_pos (List.contains_iff_mem.2 hsup)]
  cases G with
  | simple g =>
    cases ty <;> simp only [HasType] at hty
    rcases hin with rfl | rfl | rfl
    · obtain ⟨g', h1, h2⟩ := roundtrip_kth_simple (nameLines name).length hinv
      exact ⟨.kth (writeKthSimple (nameLines name).length g), .simple g', by simp [writeGraph, hc], by simp [readGraph, Rows.fmt, hc, h1, Except.map], h2⟩
    · obtain ⟨g', h1, h2⟩ := roundtrip_dimacs_simple (nameLines name).length hinv
      exact ⟨.dimacs (writeDimacsSimple (nameLines name).length g), .simple g', by simp [writeGraph, hc], by simp [readGraph, Rows.fmt, hc, h1, Except.map], h2⟩
    · simp [supported] at hsup
  | di g =>
    cases ty <;> simp only [HasType] at hty
    · -- digraph
      rcases hin with rfl | rfl | rfl
      · obtain ⟨g', h1, h2⟩ := roundtrip_kth_di (nameLines name).length hinv
        exact ⟨.kth (writeKthDi (nameLines name).length g), .di g', by simp [writeGraph, hc], by simp [readGraph, Rows.fmt, hc, h1, Except.map], h2⟩
      · obtain ⟨g', h1, h2⟩ := roundtrip_dimacs_di (nameLines name).length hinv
        exact ⟨.dimacs (writeDimacsDi (nameLines name).length g), .di g', by simp [writeGraph, hc], by simp [readGraph, Rows.fmt, hc, h1, Except.map], h2⟩
      · simp [supported] at hsup
    · -- dag
      rcases hin with rfl | rfl | rfl
      · obtain ⟨g', h1, h2⟩ := roundtrip_kth_di (nameLines name).length hinv
        have hd : g'.stillDag = true := by rw [h2.stillDag]; exact hty
        exact ⟨.kth (writeKthDi (nameLines name).length g), .di g', by simp [writeGraph, hc], by simp [readGraph, Rows.fmt, hc, h1, hd], h2⟩
      · obtain ⟨g', h1, h2⟩ := roundtrip_dimacs_di (nameLines name).length hinv
        have hd : g'.stillDag = true := by rw [h2.stillDag]; exact hty
        exact ⟨.dimacs (writeDimacsDi (nameLines name).length g), .di g', by simp [writeGraph, hc], by simp [readGraph, Rows.fmt, hc, h1, hd], h2⟩
      · simp [supported] at hsup
  | bip g =>
    cases ty <;> simp only [HasType] at hty
    rcases hin with rfl | rfl | rfl
    · obtain ⟨g', h1, h2⟩ := roundtrip_kth_bip (nameLines name).length hinv
      exact ⟨.kth (writeKthBip (nameLines name).length g), .bip g', by simp [writeGraph, hc], by simp [readGraph, Rows.fmt, hc, h1, Except.map], h2⟩
    · simp [supported] at hsup
    · obtain ⟨g', h1, h2⟩ := roundtrip_matrix hinv
      exact ⟨.matrix (writeMatrix g), .bip g', by simp [writeGraph, hc], by simp [readGraph, Rows.fmt, hc, h1, Except.map], h2⟩


/-- what `SameAny` means for the views, spelled out for simple graphs: same order, same
`number_of_edges()`, same `edges()` listing, same `neighbors(u)` for every `u`, same `has_edge` -/
theorem same_simple_views {G G' : SimpleG} (h : SameAny (.simple G) (.simple G')) :
    G'.n = G.n ∧ G'.m = G.m ∧ G'.edges = G.edges ∧ (∀ u, G'.nbrs u = G.nbrs u) ∧
      ∀ u v : Int, G'.hasEdge u v = G.hasEdge u v := by
  have h : SimpleG.Same G G' := h
  refine ⟨h.n, h.m, h.edges, fun u => by simp [SimpleG.nbrs, h.adj], fun u v => ?_⟩
  rw [Bool.eq_iff_iff, SimpleG.hasEdge_iff, SimpleG.hasEdge_iff, h.edgeset]

/-- … for directed graphs (and DAGs: the `is_dag` flag too) -/
theorem same_di_views {G G' : DiG} (h : SameAny (.di G) (.di G')) :
    G'.n = G.n ∧ G'.m = G.m ∧ G'.edges = G.edges ∧ G'.stillDag = G.stillDag ∧
      (∀ u, G'.preds u = G.preds u) ∧ (∀ u, G'.succs u = G.succs u) := by
  have h : DiG.Same G G' := h
  exact ⟨h.n, h.m, h.edges, h.stillDag, fun u => by simp [DiG.preds, h.pred], fun u => by simp [DiG.succs, h.succ]⟩

/-- … for bipartite graphs: the left/right split, the edge listing, both neighbour views -/
theorem same_bip_views {G G' : BipG} (h : SameAny (.bip G) (.bip G')) :
    G'.l = G.l ∧ G'.r = G.r ∧ G'.edges = G.edges ∧ G'.numberOfEdges = G.numberOfEdges ∧
      (∀ u, G'.rnbrs u = G.rnbrs u) ∧ (∀ v, G'.lnbrs v = G.lnbrs v) := by
  have h : BipG.Same G G' := h
  exact ⟨h.l, h.r, h.edges, h.card, fun u => by simp [BipG.rnbrs, h.ladj], fun v => by simp [BipG.lnbrs, h.radj]⟩

/-- non-vacuity: a 12-vertex simple graph with isolated vertices and two-digit vertex numbers,
a 11-vertex DAG, a bipartite graph with an isolated left vertex, one with an empty side -/
example : ∃ G, SimpleG.ofEdges 12 [(1, 2), (10, 11), (3, 12), (12, 1)] = .ok G ∧ InvAny (.simple G) ∧
    HasType .simple (.simple G) ∧ G.n = 12 := by
  obtain ⟨G, h1, h2, h3, _⟩ := SimpleG.ofEdges_spec (n := 12) (es := [(1, 2), (10, 11), (3, 12), (12, 1)]) (by decide)
  exact ⟨G, h1, h2, trivial, h3⟩
example : ∃ G, DiG.ofEdges 11 [(1, 10), (10, 11), (2, 3)] = .ok G ∧ InvAny (.di G) ∧ HasType .dag (.di G) := by
  obtain ⟨G, h1, h2, _, h4⟩ := DiG.ofEdges_spec (n := 11) (es := [(1, 10), (10, 11), (2, 3)]) (by decide)
  refine ⟨G, h1, h2, h2.dag.2 (fun e he => ?_)⟩
  have hm := (h4 e).1 he
  clear he
  revert hm; revert e; decide
example : ∃ G, BipG.ofEdges 3 11 [(1, 10), (3, 1), (3, 11)] = .ok G ∧ InvAny (.bip G) ∧ HasType .bipartite (.bip G) := by
  obtain ⟨G, h1, h2, _⟩ := BipG.ofEdges_spec (l := 3) (r := 11) (es := [(1, 10), (3, 1), (3, 11)]) (by decide)
  exact ⟨G, h1, h2, trivial⟩
example : InvAny (.bip (BipG.init 4 0)) ∧ InvAny (.bip (BipG.init 0 0)) ∧ InvAny (.simple (SimpleG.init 0)) :=
  ⟨BipG.inv_init 4 0, BipG.inv_init 0 0, SimpleG.inv_init 0⟩
example : Fmt.kthlist ∈ supported .dag ∧ Fmt.dimacs ∈ supported .dag ∧ Fmt.matrix ∈ supported .bipartite := by decide

/-! ## T-C14.2 reader contract -/

/-- T-C14.2a Reading ANY rows either succeeds or raises ValueError — no other exception.
(Full strength since the fixes 97bcab4, ea21017 of /repo: an empty kthlist file used to raise
StopIteration, a blank line in a DIMACS file IndexError.) -/
theorem reader_raises_only_valueError (ty : GType) (rows : Rows) (e : Err)
    (h : readGraph ty rows = .error e) : e = .valueError := by
  unfold readGraph at h
  cases hc : checkArgs ty rows.fmt with
  | error x =>
    rw [hc] at h
    unfold checkArgs at hc
    split at hc
    · cases hc
    · cases hc; cases h; rfl
  | ok u =>
    rw [hc] at h
    simp only at h
    cases ty <;> cases rows <;> simp only [Rows.fmt] at hc h
    · rename_i r
      cases hr : readKth simpleClass r with
      | error x => rw [hr] at h; cases h; exact (readKth_contract simpleSem r).1 _ hr
      | ok g => rw [hr] at h; cases h
    · rename_i r
      cases hr : readDimacs simpleClass r with
      | error x => rw [hr] at h; cases h; exact (readDimacs_contract simpleSem r).1 _ hr
      | ok g => rw [hr] at h; cases h
    · simp [checkArgs, supported] at hc
    · rename_i r
      cases hr : readKth diClass r with
      | error x => rw [hr] at h; cases h; exact (readKth_contract diSem r).1 _ hr
      | ok g => rw [hr] at h; cases h
    · rename_i r
      cases hr : readDimacs diClass r with
      | error x => rw [hr] at h; cases h; exact (readDimacs_contract diSem r).1 _ hr
      | ok g => rw [hr] at h; cases h
    · simp [checkArgs, supported] at hc
    · rename_i r
      cases hr : readKth diClass r with
      | error x => rw [hr] at h; cases h; exact (readKth_contract diSem r).1 _ hr
      | ok g =>
        rw [hr] at h
        simp only at h
        split at h
        · cases h
        · cases h; rfl
    · rename_i r
      cases hr : readDimacs diClass r with
      | error x => rw [hr] at h; cases h; exact (readDimacs_contract diSem r).1 _ hr
      | ok g =>
        rw [hr] at h
        simp only at h
        split at h
        · cases h
        · cases h; rfl
    · simp [checkArgs, supported] at hc
    · rename_i r
      cases hr : readBipKth r with
      | error x => rw [hr] at h; cases h; exact (readBipKth_contract r).1 _ hr
      | ok g => rw [hr] at h; cases h
    · simp [checkArgs, supported] at hc
    · rename_i r
      cases hr : readMatrix r with
      | error x => rw [hr] at h; cases h; exact (readMatrix_contract r).1 _ hr
      | ok g => rw [hr] at h; cases h


/-! T-C14.2b an accepted text yields a graph consistent with the text: the declared order, and
exactly the edges its edge rows state (`kthPairs`, `dimacsPairs`: the integer pairs of the
well-formed edge rows; `kthSize`, `dimacsProbs`: the declarations).  One theorem per reader. -/

/-- kthlist read as a simple graph: `n` is the declared size, every stated pair is a legal edge
of an `n`-vertex simple graph, and `{a, b}` is an edge iff some line states it (in either list,
the liberal reading of www/graphformats.org) -/
theorem kthlist_simple_consistent (rows : List KRow) (G : AnyG) (h : readGraph .simple (.kth rows) = .ok G) :
    ∃ g, G = .simple g ∧ SimpleG.Inv g ∧ kthSize rows = some (g.n : Int) ∧
      (∀ x ∈ kthPairs rows, 1 ≤ x.1 ∧ x.1 ≤ g.n ∧ 1 ≤ x.2 ∧ x.2 ≤ g.n ∧ x.1 ≠ x.2) ∧
      ∀ a b : Nat, (a, b) ∈ g.edgeset ↔
        (((a : Int), (b : Int)) ∈ kthPairs rows ∨ ((b : Int), (a : Int)) ∈ kthPairs rows) := by
  obtain ⟨g, rfl, hr⟩ := readGraph_simple_kth h
  obtain ⟨hi, hs, hv, hm⟩ := (readKth_contract simpleSem rows).2 g hr
  refine ⟨g, rfl, hi, hs, hv, fun a b => ?_⟩
  refine Iff.trans (hm (a, b)) ?_
  constructor
  · rintro ⟨x, hx, hc⟩
    have := hv x hx
    have hx' : x = (x.1, x.2) := rfl
    simp only [simpleSem, Prod.mk.injEq] at hc this
    unfold SimpleG.Valid at this
    rcases hc with ⟨h1, h2⟩ | ⟨h1, h2⟩
    · left; rw [h1, h2, Int.toNat_of_nonneg (by omega), Int.toNat_of_nonneg (by omega)]; exact hx
    · right; rw [h1, h2, Int.toNat_of_nonneg (by omega), Int.toNat_of_nonneg (by omega)]; exact hx
  · rintro (hx | hx)
    · exact ⟨_, hx, Or.inl (by simp)⟩
    · exact ⟨_, hx, Or.inr (by simp)⟩

/-- kthlist read as a directed graph (`digraph` or `dag`): `a → b` is an edge iff the line of
`b` lists `a` as a predecessor -/
theorem kthlist_directed_consistent (ty : GType) (hty : ty = .digraph ∨ ty = .dag) (rows : List KRow) (G : AnyG)
    (h : readGraph ty (.kth rows) = .ok G) :
    ∃ g, G = .di g ∧ DiG.Inv g ∧ kthSize rows = some (g.n : Int) ∧
      (∀ x ∈ kthPairs rows, 1 ≤ x.1 ∧ x.1 ≤ g.n ∧ 1 ≤ x.2 ∧ x.2 ≤ g.n) ∧
      ∀ a b : Nat, (a, b) ∈ g.edgeset ↔ ((a : Int), (b : Int)) ∈ kthPairs rows := by
  have : ∃ g, G = .di g ∧ readKth diClass rows = .ok g := by
    rcases hty with rfl | rfl
    · exact readGraph_digraph_kth h
    · obtain ⟨g, h1, h2, _⟩ := readGraph_dag_kth h; exact ⟨g, h1, h2⟩
  obtain ⟨g, rfl, hr⟩ := this
  obtain ⟨hi, hs, hv, hm⟩ := (readKth_contract diSem rows).2 g hr
  refine ⟨g, rfl, hi, hs, hv, fun a b => ?_⟩
  refine Iff.trans (hm (a, b)) ?_
  constructor
  · rintro ⟨x, hx, hc⟩
    have := hv x hx
    simp only [diSem, Prod.mk.injEq] at hc this
    unfold DiG.Valid at this
    obtain ⟨h1, h2⟩ := hc
    rw [h1, h2, Int.toNat_of_nonneg (by omega), Int.toNat_of_nonneg (by omega)]; exact hx
  · intro hx
    exact ⟨_, hx, by simp [diSem]⟩

/-- kthlist read as a bipartite graph: the text declares `l + r` vertices, lists only left
vertices (`≤ l`; `l` itself is listed unless `l = 0`), names only right vertices (`> l`) as
neighbours, and `(a, b)` is an edge iff some line of `a` names `b + l`.  (Before fix db71920 a
repeated left vertex made the reader drop the earlier list: the statement was false.) -/
theorem kthlist_bipartite_consistent (rows : List KRow) (G : AnyG) (h : readGraph .bipartite (.kth rows) = .ok G) :
    ∃ g, G = .bip g ∧ BipG.Inv g ∧ kthSize rows = some ((g.l + g.r : Nat) : Int) ∧
      (∀ x ∈ kthLefts rows, 1 ≤ x ∧ x ≤ (g.l : Int)) ∧ (g.l = 0 ∨ (g.l : Int) ∈ kthLefts rows) ∧
      (∀ x ∈ kthPairs rows, (g.l : Int) + 1 ≤ x.1 ∧ x.1 ≤ ((g.l + g.r : Nat) : Int)) ∧
      ∀ a b : Nat, (a, b) ∈ g.edgeset ↔ (((b + g.l : Nat) : Int), (a : Int)) ∈ kthPairs rows := by
  obtain ⟨g, rfl, hr⟩ := readGraph_bipartite_kth h
  exact ⟨g, rfl, (readBipKth_contract rows).2 g hr⟩

/-- DIMACS read as a simple graph: exactly one problem line `p edge n m`, `m` is the number of
edge lines, every stated pair is a legal edge, `{a, b}` is an edge iff some edge line states it -/
theorem dimacs_simple_consistent (rows : List DRow) (G : AnyG) (h : readGraph .simple (.dimacs rows) = .ok G) :
    ∃ g, G = .simple g ∧ SimpleG.Inv g ∧
      dimacsProbs rows = [some ((g.n : Int), ((dimacsEdges rows).length : Int))] ∧
      (∀ x ∈ dimacsPairs rows, 1 ≤ x.1 ∧ x.1 ≤ g.n ∧ 1 ≤ x.2 ∧ x.2 ≤ g.n ∧ x.1 ≠ x.2) ∧
      ∀ a b : Nat, (a, b) ∈ g.edgeset ↔
        (((a : Int), (b : Int)) ∈ dimacsPairs rows ∨ ((b : Int), (a : Int)) ∈ dimacsPairs rows) := by
  obtain ⟨g, rfl, hr⟩ := readGraph_simple_dimacs h
  obtain ⟨n, hn, hp, hi, ho, hv, hm⟩ := (readDimacs_contract simpleSem rows).2 g hr
  have ho' : g.n = n.toNat := ho
  have hn' : (g.n : Int) = n := by omega
  refine ⟨g, rfl, hi, by rw [hp, hn'], ?_, fun a b => ?_⟩
  · intro x hx; have := hv x hx; rw [← ho'] at this; exact this
  refine Iff.trans (hm (a, b)) ?_
  constructor
  · rintro ⟨x, hx, hc⟩
    have := hv x hx
    simp only [simpleSem, Prod.mk.injEq] at hc this
    unfold SimpleG.Valid at this
    rcases hc with ⟨h1, h2⟩ | ⟨h1, h2⟩
    · left; rw [h1, h2, Int.toNat_of_nonneg (by omega), Int.toNat_of_nonneg (by omega)]; exact hx
    · right; rw [h1, h2, Int.toNat_of_nonneg (by omega), Int.toNat_of_nonneg (by omega)]; exact hx
  · rintro (hx | hx)
    · exact ⟨_, hx, Or.inl (by simp)⟩
    · exact ⟨_, hx, Or.inr (by simp)⟩

/-- DIMACS read as a directed graph (`digraph` or `dag`) -/
theorem dimacs_directed_consistent (ty : GType) (hty : ty = .digraph ∨ ty = .dag) (rows : List DRow) (G : AnyG)
    (h : readGraph ty (.dimacs rows) = .ok G) :
    ∃ g, G = .di g ∧ DiG.Inv g ∧
      dimacsProbs rows = [some ((g.n : Int), ((dimacsEdges rows).length : Int))] ∧
      (∀ x ∈ dimacsPairs rows, 1 ≤ x.1 ∧ x.1 ≤ g.n ∧ 1 ≤ x.2 ∧ x.2 ≤ g.n) ∧
      ∀ a b : Nat, (a, b) ∈ g.edgeset ↔ ((a : Int), (b : Int)) ∈ dimacsPairs rows := by
  have : ∃ g, G = .di g ∧ readDimacs diClass rows = .ok g := by
    rcases hty with rfl | rfl
    · exact readGraph_digraph_dimacs h
    · obtain ⟨g, h1, h2, _⟩ := readGraph_dag_dimacs h; exact ⟨g, h1, h2⟩
  obtain ⟨g, rfl, hr⟩ := this
  obtain ⟨n, hn, hp, hi, ho, hv, hm⟩ := (readDimacs_contract diSem rows).2 g hr
  have ho' : g.n = n.toNat := ho
  have hn' : (g.n : Int) = n := by omega
  refine ⟨g, rfl, hi, by rw [hp, hn'], ?_, fun a b => ?_⟩
  · intro x hx; have := hv x hx; rw [← ho'] at this; exact this
  refine Iff.trans (hm (a, b)) ?_
  constructor
  · rintro ⟨x, hx, hc⟩
    have := hv x hx
    simp only [diSem, Prod.mk.injEq] at hc this
    unfold DiG.Valid at this
    obtain ⟨h1, h2⟩ := hc
    rw [h1, h2, Int.toNat_of_nonneg (by omega), Int.toNat_of_nonneg (by omega)]; exact hx
  · intro hx
    exact ⟨_, hx, by simp [diSem]⟩

/-- matrix: the numbers of the text are `l`, `r` and exactly `l·r` entries, each 0 or 1, and
`(i, j)` is an edge iff the entry of row `i`, column `j` is 1 -/
theorem matrix_consistent (rows : List MRow) (G : AnyG) (h : readGraph .bipartite (.matrix rows) = .ok G) :
    ∃ g bits, G = .bip g ∧ BipG.Inv g ∧
      matrixStream rows = (((g.l : Int) :: (g.r : Int) :: bits).map some) ∧ bits.length = g.l * g.r ∧
      (∀ b ∈ bits, b = 0 ∨ b = 1) ∧
      ∀ p, p ∈ g.edgeset ↔ (p, (1 : Int)) ∈ (matrixCells g.l g.r).zip bits := by
  obtain ⟨g, rfl, hr⟩ := readGraph_bipartite_matrix h
  obtain ⟨bits, h1, h2, h3, h4, h5⟩ := (readMatrix_contract rows).2 g hr
  exact ⟨g, bits, rfl, h4, h1, h2, h3, h5⟩

/-- non-vacuity of the reader contract: a text with comment, blank line, 12 vertices -/
example : ∃ G, readGraph .bipartite (.kth [.comment, .spec (some 12), .blank,
    .adj (some (1, [11, 12, 0])), .adj (some (3, [10, 0]))]) = .ok G := ⟨_, rfl⟩
example : ∃ G, readGraph .dag (.dimacs [.comment, .prob (some (12, 2)), .blank, .edge (some (1, 12)),
    .other, .edge (some (10, 11))]) = .ok G := ⟨_, rfl⟩
/-- the former defects, on the model of the current code: ValueError, ValueError, skipped, rejected -/
example : readGraph .simple (.kth []) = .error .valueError := rfl
example : readGraph .bipartite (.kth [.comment]) = .error .valueError := rfl
example : ∃ G, readGraph .simple (.dimacs [.prob (some (2, 1)), .blank, .edge (some (1, 2))]) = .ok G := ⟨_, rfl⟩
example : readGraph .bipartite (.kth [.spec (some 4), .adj (some (1, [3, 0])), .adj (some (1, [4, 0]))])
    = .error .valueError := rfl
example : readGraph .bipartite (.kth [.spec (some 4), .adj (some (2, [3, 0])), .adj (some (1, [4, 0]))])
    = .error .valueError := rfl

/-! ## T-C14.3 a file declared acyclic is accepted only if every edge goes upward -/

/-- T-C14.3 the object returned for `'dag'` has only increasing edges -/
theorem dag_edges_increasing (rows : Rows) (G : AnyG) (h : readGraph .dag rows = .ok G) :
    ∃ g, G = .di g ∧ DiG.Inv g ∧ g.stillDag = true ∧ ∀ e ∈ g.edges, e.1 < e.2 := by
  cases rows with
  | kth r =>
    obtain ⟨g, rfl, hr, hd⟩ := readGraph_dag_kth h
    have hi := ((readKth_contract diSem r).2 g hr).1
    exact ⟨g, rfl, hi, hd, fun e he => (hi.dag.1 hd) e (hi.mem_edges.1 he)⟩
  | dimacs r =>
    obtain ⟨g, rfl, hr, hd⟩ := readGraph_dag_dimacs h
    obtain ⟨n, _, _, hi, _⟩ := (readDimacs_contract diSem r).2 g hr
    exact ⟨g, rfl, hi, hd, fun e he => (hi.dag.1 hd) e (hi.mem_edges.1 he)⟩
  | matrix r =>
    simp [readGraph, Rows.fmt, checkArgs, supported] at h

/-- T-C14.3 on the text: a kthlist file is accepted as a `'dag'` only if every stated
predecessor is smaller than its vertex -/
theorem dag_kthlist_only_increasing (rows : List KRow) (G : AnyG) (h : readGraph .dag (.kth rows) = .ok G) :
    ∀ x ∈ kthPairs rows, x.1 < x.2 := by
  obtain ⟨g, hG, hi, _, hv, hm⟩ := kthlist_directed_consistent .dag (Or.inr rfl) rows G h
  obtain ⟨g', hG', _, hd, _⟩ := dag_edges_increasing (.kth rows) G h
  have : g' = g := by rw [hG] at hG'; cases hG'; rfl
  subst this
  intro x hx
  have hr := hv x hx
  have hmem : (x.1.toNat, x.2.toNat) ∈ g'.edgeset := by
    rw [hm, Int.toNat_of_nonneg (by omega), Int.toNat_of_nonneg (by omega)]; exact hx
  have := (hi.dag.1 hd) _ hmem
  simp only at this
  omega

/-- … and a DIMACS file only if every edge line `e u v` has `u < v` -/
theorem dag_dimacs_only_increasing (rows : List DRow) (G : AnyG) (h : readGraph .dag (.dimacs rows) = .ok G) :
    ∀ x ∈ dimacsPairs rows, x.1 < x.2 := by
  obtain ⟨g, hG, hi, _, hv, hm⟩ := dimacs_directed_consistent .dag (Or.inr rfl) rows G h
  obtain ⟨g', hG', _, hd, _⟩ := dag_edges_increasing (.dimacs rows) G h
  have : g' = g := by rw [hG] at hG'; cases hG'; rfl
  subst this
  intro x hx
  have hr := hv x hx
  have hmem : (x.1.toNat, x.2.toNat) ∈ g'.edgeset := by
    rw [hm, Int.toNat_of_nonneg (by omega), Int.toNat_of_nonneg (by omega)]; exact hx
  have := (hi.dag.1 hd) _ hmem
  simp only at this
  omega

/-- a backward edge and a self-loop are rejected, the same files are fine as `'digraph'` -/
example : readGraph .dag (.kth [.spec (some 3), .adj (some (1, [2, 0]))]) = .error .valueError := rfl
example : readGraph .dag (.dimacs [.prob (some (3, 1)), .edge (some (2, 2))]) = .error .valueError := rfl
example : ∃ G, readGraph .digraph (.kth [.spec (some 3), .adj (some (1, [2, 0]))]) = .ok G := ⟨_, rfl⟩

/-! ## T-C14.4 gml / dot: the relabelling after the third-party parser -/

/-- T-C14.4a labels that compare numerically, listed in increasing order (gml: the ids `0..n-1`
that `write_gml` assigns in the order `1..n`; any networkx graph with nodes `1..n`): the `i`-th
node becomes vertex `i + 1`, i.e. the numbering is preserved -/
theorem relabel_numeric (nodes : List Int) (edges : List (Int × Int)) (h : nodes.Pairwise (· < ·)) :
    relabelInts nodes edges =
      (nodes.length, edges.map (fun e => (nodes.idxOf e.1 + 1, nodes.idxOf e.2 + 1))) :=
  relabelInts_increasing nodes edges h

/-- T-C14.4b gml round trip, modulo the third-party writer/parser (ids `v - 1` in order, edges
as pairs of ids): `normalize` + `from_networkx` + the dag test give back the same graph -/
theorem gml_relabel_roundtrip_simple {G : SimpleG} (h : SimpleG.Inv G) :
    ∃ G', readNx .simple (relabelInts (consecutive 0 G.n)
        (G.edges.map (fun e => ((e.1 : Int) - 1, (e.2 : Int) - 1)))) = .ok (.simple G') ∧
      SameAny (.simple G) (.simple G') := by
  rw [relabelInts_gml G.n G.edges (fun e he => by
    have := h.edges_range (u := e.1) (v := e.2) he; omega)]
  obtain ⟨G', h1, h2, h3, _, _, h6⟩ := SimpleG.fromNx_toNx h
  exact ⟨G', by simp only [readNx, simpleOfNx]; rw [show SimpleG.ofEdges G.n G.edges = .ok G' from h1]; rfl,
    SimpleG.same_of_inv h h2 h3 h6⟩

theorem gml_relabel_roundtrip_directed (ty : GType) (hty : ty = .digraph ∨ ty = .dag) {G : DiG} (h : DiG.Inv G)
    (hd : ty = .dag → G.stillDag = true) :
    ∃ G', readNx ty (relabelInts (consecutive 0 G.n)
        (G.edges.map (fun e => ((e.1 : Int) - 1, (e.2 : Int) - 1)))) = .ok (.di G') ∧
      SameAny (.di G) (.di G') := by
  rw [relabelInts_gml G.n G.edges (fun e he => by
    have := h.range e.1 e.2 (h.mem_edges.1 he); omega)]
  obtain ⟨G', h1, h2, h3, _, _, _, h7, h8⟩ := DiG.fromNx_toNx h
  have h1' : DiG.ofEdges G.n G.edges = .ok G' := h1
  refine ⟨G', ?_, DiG.same_of_inv h h2 h3 h8⟩
  rcases hty with rfl | rfl
  · simp only [readNx, diOfNx, h1']; rfl
  · have : G'.stillDag = true := by rw [h7]; exact hd rfl
    simp only [readNx, diOfNx, h1', this, if_true]

/-- T-C14.4b' bipartite graphs, gml and dot (modulo the third-party writer/parser, which must
keep the node order, the `bipartite` attribute and the edges): `BipartiteGraph.from_networkx` does
NOT sort labels, it numbers each side in node order, and gives back the same graph — also
for ten or more vertices -/
theorem bipartite_nx_roundtrip {G : BipG} (h : BipG.Inv G) :
    ∃ G', bipOfNx (bipToNx G).1 (bipToNx G).2 = .ok G' ∧ SameAny (.bip G) (.bip G') :=
  bipOfNx_bipToNx h

/-- T-C14.4c dot: pydot returns the node names as decimal STRINGS.  Since fix 8f27729 the dot
branch of `readGraph` turns all-digit names into integers before `normalize` (`relabelDot`), and
the relabelling of the names `"1", …, "n"` is the identity for EVERY `n` (full strength; with the
old code, which sorted the strings, this held only up to `n = 9`: former defect D15). -/
theorem dot_relabel_identity (n : Nat) (edges : List (Nat × Nat))
    (h : ∀ e ∈ edges, (1 ≤ e.1 ∧ e.1 ≤ n) ∧ 1 ≤ e.2 ∧ e.2 ≤ n) :
    relabelDot (decLabels n) (edges.map (fun e => (natStr e.1, natStr e.2))) = (n, edges) :=
  relabelDot_decLabels n edges h

/-- T-C14.4c' dot round trip, modulo the third-party writer/parser (names `str(v)` in order, edges
as pairs of names): the same graph comes back, the dag test included, for any number of vertices -/
theorem dot_relabel_roundtrip_simple {G : SimpleG} (h : SimpleG.Inv G) :
    ∃ G', readNx .simple (relabelDot (decLabels G.n)
        (G.edges.map (fun e => (natStr e.1, natStr e.2)))) = .ok (.simple G') ∧
      SameAny (.simple G) (.simple G') := by
  rw [relabelDot_decLabels G.n G.edges (fun e he => by
    have := h.edges_range (u := e.1) (v := e.2) he; omega)]
  obtain ⟨G', h1, h2, h3, _, _, h6⟩ := SimpleG.fromNx_toNx h
  exact ⟨G', by simp only [readNx, simpleOfNx]; rw [show SimpleG.ofEdges G.n G.edges = .ok G' from h1]; rfl,
    SimpleG.same_of_inv h h2 h3 h6⟩

theorem dot_relabel_roundtrip_directed (ty : GType) (hty : ty = .digraph ∨ ty = .dag) {G : DiG} (h : DiG.Inv G)
    (hd : ty = .dag → G.stillDag = true) :
    ∃ G', readNx ty (relabelDot (decLabels G.n)
        (G.edges.map (fun e => (natStr e.1, natStr e.2)))) = .ok (.di G') ∧
      SameAny (.di G) (.di G') := by
  rw [relabelDot_decLabels G.n G.edges (fun e he => by
    have := h.range e.1 e.2 (h.mem_edges.1 he); omega)]
  obtain ⟨G', h1, h2, h3, _, _, _, h7, h8⟩ := DiG.fromNx_toNx h
  have h1' : DiG.ofEdges G.n G.edges = .ok G' := h1
  refine ⟨G', ?_, DiG.same_of_inv h h2 h3 h8⟩
  rcases hty with rfl | rfl
  · simp only [readNx, diOfNx, h1']; rfl
  · have : G'.stillDag = true := by rw [h7]; exact hd rfl
    simp only [readNx, diOfNx, h1', this, if_true]

/-- regression examples about the OLD behaviour (labels sorted as strings, `relabelStrs`): the
sort is the identity only up to nine labels; with ten, "10" lands before "2"; an 11-vertex path
read as `'dag'` was rejected.  `relabelDot` on the same inputs is the identity. -/
example : ∀ n, n ≤ 9 → ∀ u, u < n → rank (sortBy strLe (decLabels n)) (natStr (u + 1)) = u + 1 := by decide
example : relabelStrs (decLabels 10) [(natStr 1, natStr 2), (natStr 9, natStr 10)] = (10, [(1, 3), (10, 2)]) := by
  decide
example : readNx .dag (relabelStrs (decLabels 11)
    ((List.range 10).map (fun i => (natStr (i + 1), natStr (i + 2))))) = .error .valueError := rfl
example : relabelDot (decLabels 10) [(natStr 1, natStr 2), (natStr 9, natStr 10)] = (10, [(1, 2), (9, 10)]) := by
  decide
/-- names that are not all digits are still sorted as strings; `"01"` and `"1"` are merged -/
example : relabelDot [['b'], ['1', '0'], ['a']] [(['b'], ['a'])] = (3, [(3, 2)]) := by decide
example : relabelDot [['0', '1'], ['1'], ['2']] [(['0', '1'], ['2'])] = (2, [(1, 2)]) := by decide

end Cnfgen.C14
