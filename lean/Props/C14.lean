import CnfgenModel.IO.GraphFmt
namespace Cnfgen.C14
theorem placeholder : True := trivial
end Cnfgen.C14
