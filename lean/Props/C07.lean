/-
C07 — output is a function of the command line and the seed only.

Layer 1 (this file): the generator-state flow of `cli()`.
  * `Cli/PhaseTable.lean` interprets the phase table that tools/extract_phases.py regenerates from the CURRENT
    source of cnfgen / pbgen / cnfshuffle (`Generated/Phases.lean`): order of parse / random.seed (with its guard) /
    build / transformations / header / output, what the `--seed` action does, where something can draw.
  * `table_run_deterministic`: for EVERY table accepted by the decidable analysis `sound`, every abstract generator,
    every number of draws in every phase: with a seed on the command line what the output is computed from does not
    depend on the hidden inputs of the process.  `current_tables_sound` (`decide +kernel` over the generated table)
    says the current source is accepted — moving `random.seed` behind a draw, seeding from anything but the seed,
    dropping the seeding action while graph arguments draw during parsing all break that proof.
  * the hand-written `Variant` of `Cli/Phases.lean` is now COMPUTED from the table (`variantOf`, `sourceVariant`);
    `source_variant_is_current` ties the asserted `current = ⟨true,true,true⟩` to the source (re-adding
    `if args.seed:` or removing the re-seeding before the build breaks it), and the three original theorems are
    re-proved for the computed variant.
Layer 2: `Props/C07/Sites.lean` (call sites of `random`, seeded library generators), `Props/C07/Hazards.lean`
  (reviewed list of static process-dependence hazards), `Props/C07/Run.lean` (`cliRun`: whole output text of the
  random sub-commands as a function of argv and seed).
Observed only (harness): byte identity across fresh processes with different PYTHONHASHSEED / cwd.
-/
import CnfgenModel.Cli.Phases
import CnfgenModel.Cli.PhaseTable
import Lemmas.PhaseTable
namespace Cnfgen.C07
open Cnfgen.Cli Cnfgen.GenPh

/-! ## the table-driven model -/

/-- T-C07.1 (general) a table accepted by the analysis makes everything the output is computed from independent
of the hidden inputs of the process: for every abstract generator, every seed (0 included), every number of draws
while parsing graph arguments, building, transforming, shuffling -/
theorem table_run_deterministic {S : Type} (g : Gen S) (t : ToolPhases) (ht : sound t = true) (c : RunCmd)
    (s : Int) (hs : c.seed = some s) (hobj : c.printsObject = false) (h₁ h₂ : Hidden S) :
    runEvents g t c h₁ = runEvents g t c h₂ := by
  simp only [sound, Bool.and_eq_true] at ht
  exact runFrom_rel g t c s hs h₁ h₂ t.events false _ _ (init_rel c hobj h₁ h₂) ht.2

/-- the tables regenerated from the CURRENT source of the three tools are accepted -/
theorem current_tables_sound :
    ∀ tool ∈ ["cnfgen", "pbgen", "cnfshuffle"], (phasesOf tool).any sound = true := by
  decide +kernel

/-- T-C07.1 for the current source of cnfgen, pbgen and cnfshuffle -/
theorem tool_run_deterministic {S : Type} (g : Gen S) (tool : String) (htool : tool ∈ ["cnfgen", "pbgen", "cnfshuffle"])
    (t : ToolPhases) (ht : phasesOf tool = some t) (c : RunCmd) (s : Int) (hs : c.seed = some s)
    (hobj : c.printsObject = false) (h₁ h₂ : Hidden S) : runEvents g t c h₁ = runEvents g t c h₂ := by
  have hsound := current_tables_sound tool htool
  rw [ht] at hsound
  exact table_run_deterministic g t (by simpa using hsound) c s hs hobj h₁ h₂

/-- two command lines with the same seed and the same draw counts are observed alike, whatever the processes -/
theorem table_run_function_of_seed {S : Type} (g : Gen S) (t : ToolPhases) (ht : sound t = true) (c₁ c₂ : RunCmd)
    (s : Int) (h₁ : c₁.seed = some s) (hc : c₁ = c₂) (ho : c₁.printsObject = false) (e₁ e₂ : Hidden S) :
    runEvents g t c₁ e₁ = runEvents g t c₂ e₂ := by
  subst hc
  exact table_run_deterministic g t ht c₁ s h₁ ho e₁ e₂

/-- T-C07.2 (general) a table that writes `header['random seed'] = args.seed` under `is not None` before the
output records the seed exactly when one was given -/
theorem table_header_records_seed {S : Type} (g : Gen S) (t : ToolPhases) (ht : headerRecordsSeed t = true)
    (c : RunCmd) (h : Hidden S) : (runEvents g t c h).headerSeed = c.seed := by
  simp only [headerRecordsSeed, Bool.and_eq_true, beq_iff_eq] at ht
  obtain ⟨hstores, hfilter⟩ := ht
  have hf : (t.events.takeWhile (fun e => !isOutput e)).filter isHeaderSeed =
      [.headerSeed .isNotNone "args.seed"] := hfilter
  have hargs : argsSeed t c.seed = c.seed := by
    cases hso : t.seedOpt with
    | none => simp [hso] at hstores
    | some o => simp only [hso] at hstores; simp [argsSeed, hso, hstores]
  simp only [runEvents]
  rw [runFrom_hdr, foldl_hdr_filter, hf]
  simp only [List.foldl_cons, List.foldl_nil, hdrStep, hargs, St.init, guardFires]
  cases c.seed <;> simp

theorem current_tables_record_seed :
    ∀ tool ∈ ["cnfgen", "pbgen"], (phasesOf tool).any headerRecordsSeed = true := by
  decide +kernel

/-- T-C07.2 for the current source of cnfgen and pbgen -/
theorem tool_header_records_seed {S : Type} (g : Gen S) (tool : String) (htool : tool ∈ ["cnfgen", "pbgen"])
    (t : ToolPhases) (ht : phasesOf tool = some t) (c : RunCmd) (h : Hidden S) :
    (runEvents g t c h).headerSeed = c.seed := by
  have hh := current_tables_record_seed tool htool
  rw [ht] at hh
  exact table_header_records_seed g t (by simpa using hh) c h

/-! ## the `Variant` of the hand-written model is the one the source has -/

/-- the variant computed from the regenerated table of cnfgen is the asserted `current`: `--seed` seeds while
parsing, the re-seeding is guarded by `is not None`, and it stands before `build_formula` -/
theorem source_variant_is_current : sourceVariant = current := by decide +kernel

/-- pbgen has the same flow -/
theorem pbgen_variant_is_current : (phasesOf "pbgen").map variantOf = some current := by
  decide +kernel

/-- a variant that seeds while parsing is deterministic (whatever its other two switches) -/
theorem variant_run_deterministic {S : Type} (g : Gen S) (v : Variant) (hv : v.seedAtParse = true) (c : Cmd)
    (s : Int) (hs : c.seed = some s) (hobj : c.printsObject = false) (env₁ env₂ : Env S) :
    run g v c env₁ = run g v c env₂ := by
  simp [run, hs, hobj, hv]

/-- T-C07.1 on the hand-written phase model, for the variant computed from the source -/
theorem run_deterministic {S : Type} (g : Gen S) (c : Cmd) (s : Int) (hs : c.seed = some s)
    (hobj : c.printsObject = false) (env₁ env₂ : Env S) :
    run g sourceVariant c env₁ = run g sourceVariant c env₂ :=
  variant_run_deterministic g sourceVariant (by rw [source_variant_is_current]; rfl) c s hs hobj env₁ env₂

/-- the seed is recorded in the header exactly when one was given -/
theorem header_records_seed {S : Type} (g : Gen S) (c : Cmd) (env : Env S) :
    (run g sourceVariant c env).headerSeed = c.seed := by
  rw [source_variant_is_current]
  cases h : c.seed <;> simp [run, current, effective, h]

/-- without printing objects and with a seed, the observation is a function of (seed, draw counts) -/
theorem run_function_of_seed {S : Type} (g : Gen S) (c₁ c₂ : Cmd) (s : Int)
    (h₁ : c₁.seed = some s) (h₂ : c₂.seed = some s) (hp : c₁.parseDraws = c₂.parseDraws)
    (hb : c₁.buildDraws = c₂.buildDraws) (ho₁ : c₁.printsObject = false) (ho₂ : c₂.printsObject = false)
    (env₁ env₂ : Env S) : run g sourceVariant c₁ env₁ = run g sourceVariant c₂ env₂ := by
  rw [source_variant_is_current]
  simp [run, current, h₁, h₂, hp, hb, ho₁, ho₂, effective]

/-! ## regression witnesses: the historical defects and two mutations of the order, as tables and as variants
(a generator whose state is a counter makes the dependence on the hidden state visible) -/

def counterGen : Gen Nat := ⟨fun s => s.natAbs * 1000, fun st => (st + 1, st)⟩

/-- D2 as a table: `--seed` stored by the default action while graph arguments draw during parsing — rejected by
the analysis, and the parse-time draws leak the initial state -/
theorem tableD2_unsound : sound tableD2 = false := by decide +kernel
theorem tableD2_leaks :
    runEvents counterGen tableD2 ⟨some 5, 2, 1, 0, 0, false⟩ ⟨7, 0, 0, 0⟩ ≠
    runEvents counterGen tableD2 ⟨some 5, 2, 1, 0, 0, false⟩ ⟨9, 0, 0, 0⟩ := by decide +kernel

/-- D1 as a table: `if args.seed:` — rejected, and seed 0 leaks the initial state into the formula -/
theorem tableD1_unsound : sound tableD1 = false := by decide +kernel
theorem tableD1_leaks :
    runEvents counterGen tableD1 ⟨some 0, 0, 2, 0, 0, false⟩ ⟨7, 0, 0, 0⟩ ≠
    runEvents counterGen tableD1 ⟨some 0, 0, 2, 0, 0, false⟩ ⟨9, 0, 0, 0⟩ := by decide +kernel

/-- `random.seed` moved behind `build_formula` (and no seeding action) — rejected, and the build leaks -/
theorem tableLate_unsound : sound tableLate = false := by decide +kernel
theorem tableLate_leaks :
    runEvents counterGen tableLate ⟨some 5, 0, 2, 0, 0, false⟩ ⟨7, 0, 0, 0⟩ ≠
    runEvents counterGen tableLate ⟨some 5, 0, 2, 0, 0, false⟩ ⟨9, 0, 0, 0⟩ := by decide +kernel

/-- D2 on the hand-written model (seed applied after the graph arguments were drawn) -/
theorem seed_after_parse_leaks :
    run counterGen ⟨false, true, true⟩ ⟨some 5, 2, 1, false⟩ ⟨7, 0, 0⟩ ≠
    run counterGen ⟨false, true, true⟩ ⟨some 5, 2, 1, false⟩ ⟨9, 0, 0⟩ := by decide

/-- D1 (`if args.seed:`): seed 0 is ignored and `rng₀` leaks into the formula -/
theorem seed_zero_ignored_leaks :
    run counterGen ⟨false, false, true⟩ ⟨some 0, 0, 2, false⟩ ⟨7, 0, 0⟩ ≠
    run counterGen ⟨false, false, true⟩ ⟨some 0, 0, 2, false⟩ ⟨9, 0, 0⟩ := by decide

/-- D3 (an object printed by address in the header) leaks the environment even with a seed -/
theorem printed_object_leaks :
    run counterGen sourceVariant ⟨some 5, 0, 0, true⟩ ⟨7, 1, 0⟩ ≠
    run counterGen sourceVariant ⟨some 5, 0, 0, true⟩ ⟨7, 2, 0⟩ := by decide +kernel

/-- the same on the table-driven model: `printsObject = false` is a necessary hypothesis of T-C07.1 -/
theorem printed_object_leaks_table :
    (phasesOf "cnfgen").map (fun t => runEvents counterGen t ⟨some 5, 0, 0, 0, 0, true⟩ ⟨7, 0, 1, 0⟩) ≠
    (phasesOf "cnfgen").map (fun t => runEvents counterGen t ⟨some 5, 0, 0, 0, 0, true⟩ ⟨7, 0, 2, 0⟩) := by
  decide +kernel

/-! non-vacuity: the hypotheses of the theorems are met by concrete, non-trivial runs -/

example :
    (phasesOf "cnfgen").map (fun t => runEvents counterGen t ⟨some 0, 2, 2, 1, 0, false⟩ ⟨7, 3, 1, 3⟩) =
    (phasesOf "cnfgen").map (fun t => runEvents counterGen t ⟨some 0, 2, 2, 1, 0, false⟩ ⟨9, 4, 2, 4⟩) ∧
    ((phasesOf "cnfgen").map (fun t => (runEvents counterGen t ⟨some 0, 2, 2, 1, 0, false⟩ ⟨7, 3, 1, 3⟩).laterVals.length))
      = some 3 := by decide +kernel

example :
    (phasesOf "cnfshuffle").map (fun t => runEvents counterGen t ⟨some 0, 0, 0, 0, 3, false⟩ ⟨7, 3, 1, 3⟩) =
    (phasesOf "cnfshuffle").map (fun t => runEvents counterGen t ⟨some 0, 0, 0, 0, 3, false⟩ ⟨9, 4, 2, 4⟩) ∧
    (phasesOf "cnfshuffle").isSome := by decide +kernel

example : run counterGen sourceVariant ⟨some 0, 2, 2, false⟩ ⟨7, 1, 3⟩ =
    run counterGen sourceVariant ⟨some 0, 2, 2, false⟩ ⟨9, 2, 4⟩ := by decide +kernel

end Cnfgen.C07
