/-
C07 — output is a function of the command line and the seed only.
Proven here on the model of the generator-state flow of `cli()`; byte identity across real
processes (hash randomisation, addresses, working directory) is observed by the harness (partial).
The library half (`seed=` arguments reseed before the first draw) is proved per sampler in
Props/C13.lean (`seeded_independent_of_state`).
-/
import CnfgenModel.Cli.Phases
namespace Cnfgen.C07
open Cnfgen.Cli

/-- T-C07.1 with a seed on the command line (any integer, including 0) everything the output is
computed from is independent of the hidden inputs of the process — for every abstract generator,
every number of draws made while parsing graph arguments and while building, as long as no
object is printed by address -/
theorem run_deterministic {S : Type} (g : Gen S) (c : Cmd) (s : Int) (hs : c.seed = some s)
    (hobj : c.printsObject = false) (env₁ env₂ : Env S) :
    run g current c env₁ = run g current c env₂ := by
  simp [run, current, hs, hobj, effective]

/-- the seed is recorded in the header exactly when one was given -/
theorem header_records_seed {S : Type} (g : Gen S) (c : Cmd) (env : Env S) :
    (run g current c env).headerSeed = c.seed := by
  cases h : c.seed <;> simp [run, current, effective, h]

/-- without printing objects and with a seed, the observation is a function of (seed, draw counts) -/
theorem run_function_of_seed {S : Type} (g : Gen S) (c₁ c₂ : Cmd) (s : Int)
    (h₁ : c₁.seed = some s) (h₂ : c₂.seed = some s) (hp : c₁.parseDraws = c₂.parseDraws)
    (hb : c₁.buildDraws = c₂.buildDraws) (ho₁ : c₁.printsObject = false) (ho₂ : c₂.printsObject = false)
    (env₁ env₂ : Env S) : run g current c₁ env₁ = run g current c₂ env₂ := by
  simp [run, current, h₁, h₂, hp, hb, ho₁, ho₂, effective]

/-! regression witnesses: the two historical defects break the statement (a counter-generator
whose state is a counter makes the dependence on `rng₀` visible) -/

def counterGen : Gen Nat := ⟨fun s => s.natAbs * 1000, fun st => (st + 1, st)⟩

/-- D2 (seed applied after the graph arguments were drawn): the parse-time draws leak `rng₀` -/
theorem seed_after_parse_leaks :
    run counterGen ⟨false, true, true⟩ ⟨some 5, 2, 1, false⟩ ⟨7, 0, 0⟩ ≠
    run counterGen ⟨false, true, true⟩ ⟨some 5, 2, 1, false⟩ ⟨9, 0, 0⟩ := by decide

/-- D1 (`if args.seed:`): seed 0 is ignored and `rng₀` leaks into the formula -/
theorem seed_zero_ignored_leaks :
    run counterGen ⟨false, false, true⟩ ⟨some 0, 0, 2, false⟩ ⟨7, 0, 0⟩ ≠
    run counterGen ⟨false, false, true⟩ ⟨some 0, 0, 2, false⟩ ⟨9, 0, 0⟩ := by decide

/-- D3 (an object printed by address in the header) leaks the environment even with a seed -/
theorem printed_object_leaks :
    run counterGen current ⟨some 5, 0, 0, true⟩ ⟨7, 1, 0⟩ ≠
    run counterGen current ⟨some 5, 0, 0, true⟩ ⟨7, 2, 0⟩ := by decide

/-- non-vacuity of `run_deterministic` on the same commands with the repaired flow -/
example : run counterGen current ⟨some 0, 2, 2, false⟩ ⟨7, 1, 3⟩ =
    run counterGen current ⟨some 0, 2, 2, false⟩ ⟨9, 2, 4⟩ := by decide

end Cnfgen.C07
