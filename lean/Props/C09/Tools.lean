/-
C09 for the TOOL `cnfshuffle`, end to end (text in, text out): the composition of
  * the character-level DIMACS reader and writer (C06: `reader_iff`, `dimacs_text_roundtrip`),
  * the argparse model of the tool's parser on every token list (Cli/ToolArgs.lean),
  * the shuffle theorems of Props/C09.lean (`tool_call`, `holds_iff`, `model_count_eq`, …),
through the process model `cnfshuffleRun` (Cli/Tools.lean; outcome theorems in Props/C18/Tools.lean).

`cnfshuffle_end_to_end`        the formula DENOTED BY THE WRITTEN CHARACTERS is the shuffle — by the flips /
                               permutations the recorded draws determine — of the formula DENOTED BY THE INPUT TEXT:
                               same counts, same widths, same number of models, one signed renaming;
`cnfshuffle_switches_identity` with all of -p -v -c (in any spelling the parser accepts) it is the input formula itself,
                               whatever the draws;
`switch_token_*`               each switch token at the head of ANY command line sets exactly its own component.
-/
import Props.C18.Tools
namespace Cnfgen.C09
open Cnfgen Cnfgen.IO Cnfgen.Shuffle Cnfgen.Cli.ToolArgs Cnfgen.Cli.Tools Cnfgen.ToolsL

/-- T-C09.5 `cnfshuffle`, text to text.  For every argv, environment and legal draws: if the process ends with exit
status 0 having written the characters `t`, then the input text `s` (stdin, or the file `-i` names) denotes a formula
`F`, the written characters denote a formula `G` (whichever way the newlines are read back), and `G` is
`Shuffle(F, fl, vp, cp)` for the valid arguments the draws determine: same number of variables and clauses, the clauses
of `F` mapped literal by literal by ONE signed bijection `σ` and reordered, same multiset of widths, same number of
satisfying assignments; a switched-off component is the identity. -/
theorem cnfshuffle_end_to_end (env : Env) (argv : List String) (ds : List Draw) (d : Dest) (t : IO.Str)
    (h : cnfshuffleRun env argv ds = .ok d t) (hl : C18.AllLegal env argv ds) (u' : Bool) :
    ∃ st s u n F G fl vp cp,
      parse shuffleSpec (act env) argv {} = .ok st ∧ inputOf env st = (.text s, u, n) ∧
      C06.Denotes (lex u s) F ∧ C06.Denotes (lex u' t) G ∧
      C18.LegalDraws st F ds fl vp cp ∧ Valid F fl vp cp ∧ shuffle F fl vp cp = .ok G ∧
      G.nvars = F.nvars ∧ G.clauses.length = F.clauses.length ∧
      G.clauses.Perm (F.clauses.map (fun c => c.map (sigma fl vp))) ∧
      (G.clauses.map List.length).Perm (F.clauses.map List.length) ∧
      modelCount G = modelCount F ∧ (∀ α, G.holds α = F.holds (pull fl vp α)) ∧
      (st.noFlips = true → fl = List.replicate F.nvars 1) ∧ (st.noVperm = true → vp = iota 1 F.nvars) ∧
      (st.noCperm = true → cp = iota 0 F.clauses.length) := by
  obtain ⟨st, s, u, n, F, G, fl, vp, cp, hp, hi, hF, hleg, hsh, hV, h1, h2, h3, _, ht, hwf, hG, hGp⟩ :=
    C18.cnfshuffle_ok_spec env argv ds d t h hl
  have hback : readDimacsText u' t = .ok G := by
    rw [ht]; exact (C18.written_text_readable G _ hG hGp u').1
  exact ⟨st, s, u, n, F, G, fl, vp, cp, hp, hi, C06.reader_sound _ F hF, C06.reader_sound _ G hback, hleg, hV, hsh,
    nvars_eq hwf hsh, clauses_length_eq hwf hsh, clauses_perm hwf hsh, widths_perm hwf hsh, model_count_eq hwf hsh,
    holds_iff hwf hsh, h1, h2, h3⟩

/-- with all three components switched off nothing is drawn and the formula read is written unchanged -/
theorem shuffleBody_all_off (env : Env) (st : Args) (ds : List Draw) (s : IO.Str) (u : Bool) (n : String) (F : CNF)
    (hin : inputOf env st = (.text s, u, n)) (hF : readDimacsText u s = .ok F)
    (hp : st.noFlips = true) (hv : st.noVperm = true) (hc : st.noCperm = true) :
    shuffleBody env st ds = writeOut st F (C18.shuffleHdr env n) := by
  have hwf := (C18.read_wf_printable u s F hF).1
  unfold shuffleBody
  rw [hin]
  simp only [hF, hp, hv, hc, Cli.Tools.toolArg, if_true]
  rw [run_all_fixed, all_fixed_identity F hwf]
  rfl

/-- T-C09.6 `cnfshuffle -p -v -c` (the three switches given in ANY way the parser accepts: short, long, abbreviated,
clustered `-pvc`, mixed with other options): whatever the draws, the written characters are the rendering of the
formula the input text denotes, and read back as exactly that formula -/
theorem cnfshuffle_switches_identity (env : Env) (argv : List String) (ds : List Draw) (d : Dest) (t : IO.Str)
    (h : cnfshuffleRun env argv ds = .ok d t) (st : Args) (hst : parse shuffleSpec (act env) argv {} = .ok st)
    (hp : st.noFlips = true) (hv : st.noVperm = true) (hc : st.noCperm = true) (u' : Bool) :
    ∃ s u n F, inputOf env st = (.text s, u, n) ∧ C06.Denotes (lex u s) F ∧
      t = renderDimacsText F (if st.verbose then some (toIOHeader (C18.shuffleHdr env n)) else none) none ∧
      readDimacsText u' t = .ok F := by
  unfold cnfshuffleRun at h
  rw [hst] at h
  simp only at h
  rcases C18.shuffleBody_cases env st ds with ⟨u, n, _, hb⟩ | ⟨u, n, _, hb⟩ | ⟨s, u, n, _, _, hb⟩ | ⟨s, u, n, F, hi, hF, _⟩
  · rw [hb] at h; cases h
  · rw [hb] at h; cases h
  · rw [hb] at h; cases h
  · rw [shuffleBody_all_off env st ds s u n F hi hF hp hv hc, writeOut_eq] at h
    cases h
    obtain ⟨hwf, hpr⟩ := C18.read_wf_printable u s F hF
    exact ⟨s, u, n, F, hi, C06.reader_sound _ F hF, rfl, (C18.written_text_readable F _ hwf hpr u').1⟩

/-! ### each switch token does exactly its own assignment (for every rest of the command line) -/

/-- the process started from a namespace `st0` (`cnfshuffleRun` is `… {}`) -/
def runFrom (env : Env) (st0 : Args) (argv : List String) (ds : List Draw) : Cli.Tools.Outcome :=
  match parse shuffleSpec (act env) argv st0 with
  | .error .help => .help
  | .error .error => .cliError .parser "c "
  | .error (.sub _ _ _ _) => .cliError .parser "c "
  | .ok st => shuffleBody env st ds

theorem run_eq_runFrom (env : Env) (argv : List String) (ds : List Draw) :
    cnfshuffleRun env argv ds = runFrom env {} argv ds := rfl

theorem flag_head (env : Env) (t : String) (o : Opt) (c : Char) (r : List Char) (ht : t.toList = c :: r)
    (hc : c = '-') (hne : t ≠ "--") (hf : shuffleSpec.find t.toList = some o) (hk : o.kind = .flag) (st0 st1 : Args)
    (ha : act env st0 o .flag = some st1) (argv : List String) (ds : List Draw) :
    runFrom env st0 (t :: argv) ds = runFrom env st1 argv ds := by
  unfold runFrom
  rw [parse_flag_head shuffleSpec (act env) t o c r ht hc hne hf hk argv st0, ha]

/-- `-p` / `--no-polarity-flips` first: the rest of the line is processed as it would be alone, with flips off -/
theorem switch_token_p (env : Env) (st0 : Args) (argv : List String) (ds : List Draw) :
    runFrom env st0 ("-p" :: argv) ds = runFrom env { st0 with noFlips := true } argv ds ∧
    runFrom env st0 ("--no-polarity-flips" :: argv) ds = runFrom env { st0 with noFlips := true } argv ds :=
  ⟨flag_head env "-p" ⟨"no_polarity_flips", ["--no-polarity-flips", "-p"], .flag⟩ '-' ['p'] rfl rfl (by decide)
      (by decide +kernel) rfl st0 _ rfl argv ds,
   flag_head env "--no-polarity-flips" ⟨"no_polarity_flips", ["--no-polarity-flips", "-p"], .flag⟩ '-'
      "-no-polarity-flips".toList rfl rfl (by decide) (by decide +kernel) rfl st0 _ rfl argv ds⟩

theorem switch_token_v (env : Env) (st0 : Args) (argv : List String) (ds : List Draw) :
    runFrom env st0 ("-v" :: argv) ds = runFrom env { st0 with noVperm := true } argv ds ∧
    runFrom env st0 ("--no-variables-permutation" :: argv) ds = runFrom env { st0 with noVperm := true } argv ds :=
  ⟨flag_head env "-v" ⟨"no_variables_permutation", ["--no-variables-permutation", "-v"], .flag⟩ '-' ['v'] rfl rfl
      (by decide) (by decide +kernel) rfl st0 _ rfl argv ds,
   flag_head env "--no-variables-permutation" ⟨"no_variables_permutation", ["--no-variables-permutation", "-v"], .flag⟩
      '-' "-no-variables-permutation".toList rfl rfl (by decide) (by decide +kernel) rfl st0 _ rfl argv ds⟩

theorem switch_token_c (env : Env) (st0 : Args) (argv : List String) (ds : List Draw) :
    runFrom env st0 ("-c" :: argv) ds = runFrom env { st0 with noCperm := true } argv ds ∧
    runFrom env st0 ("--no-clauses-permutation" :: argv) ds = runFrom env { st0 with noCperm := true } argv ds :=
  ⟨flag_head env "-c" ⟨"no_clauses_permutation", ["--no-clauses-permutation", "-c"], .flag⟩ '-' ['c'] rfl rfl
      (by decide) (by decide +kernel) rfl st0 _ rfl argv ds,
   flag_head env "--no-clauses-permutation" ⟨"no_clauses_permutation", ["--no-clauses-permutation", "-c"], .flag⟩
      '-' "-no-clauses-permutation".toList rfl rfl (by decide) (by decide +kernel) rfl st0 _ rfl argv ds⟩

/-- `-q` / `--quiet` first: only `verbose` changes -/
theorem switch_token_q (env : Env) (st0 : Args) (argv : List String) (ds : List Draw) :
    runFrom env st0 ("-q" :: argv) ds = runFrom env { st0 with verbose := false } argv ds ∧
    runFrom env st0 ("--quiet" :: argv) ds = runFrom env { st0 with verbose := false } argv ds :=
  ⟨flag_head env "-q" ⟨"verbose", ["--quiet", "-q"], .flag⟩ '-' ['q'] rfl rfl (by decide) (by decide +kernel) rfl st0 _ rfl
      argv ds,
   flag_head env "--quiet" ⟨"verbose", ["--quiet", "-q"], .flag⟩ '-' "-quiet".toList rfl rfl (by decide)
      (by decide +kernel) rfl st0 _ rfl argv ds⟩

/-- `cnfshuffle -p -v -c` on ANY standard input: the formula the text denotes comes back with the header of the tool;
a text that denotes no formula is reported — for every environment, text and draw list -/
theorem cnfshuffle_pvc (env : Env) (s : IO.Str) (hs : env.stdin = .text s) (ds : List Draw) :
    cnfshuffleRun env ["-p", "-v", "-c"] ds =
      match readDimacsText env.stdinUniversal s with
      | .ok F => .ok .stdout (renderDimacsText F (some (toIOHeader (C18.shuffleHdr env env.stdinName))) none)
      | .error _ => .cliError .reader "c " := by
  rw [run_eq_runFrom, (switch_token_p env _ _ ds).1, (switch_token_v env _ _ ds).1, (switch_token_c env _ _ ds).1]
  have hparse : parse shuffleSpec (act env) [] ({ noFlips := true, noVperm := true, noCperm := true } : Args) =
      .ok { noFlips := true, noVperm := true, noCperm := true } := rfl
  unfold runFrom
  rw [hparse]
  simp only
  have hin : inputOf env ({ noFlips := true, noVperm := true, noCperm := true } : Args) =
      (.text s, env.stdinUniversal, env.stdinName) := by simp [inputOf, hs]
  cases hF : readDimacsText env.stdinUniversal s with
  | ok F =>
    rw [shuffleBody_all_off env _ ds s _ _ F hin hF rfl rfl rfl]
    rfl
  | error e =>
    have := C18.read_error_is_valueError _ _ e hF
    subst this
    unfold shuffleBody
    rw [hin]
    simp [hF, errOutcome]

/-! non-vacuity -/

/-- legal draws for a concrete run: `-v` off, flips and clause order drawn -/
example : C18.LegalDraws { noVperm := true } ⟨3, [[1, -2], [3]]⟩
    [.choice (-1), .choice 1, .choice 1, .shuffled [1, 0]] [-1, 1, 1] (iota 1 3) [1, 0] := by
  refine ⟨[.choice (-1), .choice 1, .choice 1], [], [.shuffled [1, 0]], rfl, ⟨rfl, rfl, by decide⟩,
    ⟨rfl, rfl⟩, ⟨rfl, ?_⟩⟩
  unfold ValidPerm; decide

example : cnfshuffleRun (C18.demoEnv (.text "p cnf 2 2\n1 0 -2\n-1 0\n".toList)) ["-q", "--no-p", "-vc"] [] =
    .ok .stdout "p cnf 2 2\n1 0\n-2 -1 0\n".toList := by decide +kernel

end Cnfgen.C09
