/-
C09 — Shuffling is a signed renaming of the variables plus a reordering of the clauses.
Property theorems only; model in `CnfgenModel/Trans/Shuffle.lean`, helper lemmas in
`Lemmas/Shuffle.lean` and `Lemmas/ShuffleCount.lean`.

Vocabulary (defined in `Lemmas/Shuffle.lean`):
  `Valid F fl vp cp`   fl ∈ {-1,+1}^N,  vp a permutation of [1..N],  cp a permutation of [0..M-1]
  `sigma fl vp l`      = sign(l) · fl[|l|-1] · vp[|l|-1]            (the literal map of the substitution table)
  `LitIn N l`          l is a literal of a variable in 1..N
  `pull fl vp α`       the assignment v ↦ value of the literal σ(v) under α;  `push` its inverse
  `run F pa va ca ds`  the general call (each argument 'fixed' | 'shuffle' | explicit) on the values `ds`
                       returned by `random.choice` / `random.shuffle`;  `Resolves … ds fl vp cp`: `ds` is a
                       legal outcome of the generator and determines the arguments `fl vp cp`
  `modelCount F`       number of satisfying assignments of the variables 1..F.nvars
-/
import Lemmas.Shuffle
import Lemmas.ShuffleCount
namespace Cnfgen.C09
open Cnfgen Cnfgen.Shuffle

/-! ## T-C09.1  explicit arguments: accepted iff valid, otherwise `ValueError` -/

/-- `Valid` is exactly what the three validation blocks of the code test -/
theorem valid_iff_checks (F : CNF) (fl vp cp : List Int) :
    Valid F fl vp cp ↔
      (checkFlips F.nvars fl = .ok () ∧ checkPerm 1 F.nvars vp = .ok () ∧
        checkPerm 0 F.clauses.length cp = .ok ()) := by
  unfold Valid
  rw [checkFlips_ok_iff, checkPerm_ok_iff, checkPerm_ok_iff]

/-- … and `ValidPerm` is "sorted(p) == [base, …, base+n-1]" (with the right length) -/
theorem validPerm_iff_sorted (base : Int) (n : Nat) (p : List Int) :
    ValidPerm base n p ↔ sortInt p = iota base n := (sortInt_eq_iota_iff base n p).symm

/-- invalid explicit arguments are rejected with `ValueError`, whatever the formula -/
theorem invalid_rejected (F : CNF) (fl vp cp : List Int) (h : ¬ Valid F fl vp cp) :
    shuffle F fl vp cp = .error .valueError := shuffle_invalid F fl vp cp h

/-- on a well-formed formula the call returns a formula iff the arguments are valid -/
theorem accepted_iff_valid (F : CNF) (hwf : F.WF) (fl vp cp : List Int) :
    (∃ G, shuffle F fl vp cp = .ok G) ↔ Valid F fl vp cp := by
  constructor
  · rintro ⟨G, hG⟩
    apply Classical.byContradiction
    intro hn
    rw [shuffle_invalid F fl vp cp hn] at hG
    cases hG
  · intro h; exact ⟨_, shuffle_ok F hwf fl vp cp h⟩

/-- non-vacuity: 3 variables, 4 clauses (one empty), all three components non-trivial -/
example : Valid ⟨3, [[1, -2], [2, 3], [-1], []]⟩ [1, -1, 1] [2, 3, 1] [3, 0, 1, 2] := by
  refine ⟨⟨rfl, by decide⟩, ?_, ?_⟩ <;> unfold ValidPerm <;> decide

example : CNF.WF ⟨3, [[1, -2], [2, 3], [-1], []]⟩ := by
  unfold CNF.WF; simp

example : ¬ Valid ⟨3, [[1, -2]]⟩ [1, 1, 2] [1, 2, 3] [0] := by
  intro h; have := h.1.2 2 (by simp); omega

/-! ## T-C09.2  the result of an accepted call -/

section accepted
variable {F G : CNF} {fl vp cp : List Int}

theorem result_shape (hwf : F.WF) (hG : shuffle F fl vp cp = .ok G) :
    Valid F fl vp cp ∧ G = ⟨F.nvars, resultClauses F fl vp (sortedMapping cp)⟩ := by
  have hV := (accepted_iff_valid F hwf fl vp cp).1 ⟨G, hG⟩
  rw [shuffle_ok F hwf fl vp cp hV] at hG
  exact ⟨hV, (Except.ok.inj hG).symm⟩

/-- same number of variables -/
theorem nvars_eq (hwf : F.WF) (hG : shuffle F fl vp cp = .ok G) : G.nvars = F.nvars := by
  rw [(result_shape hwf hG).2]

/-- same number of clauses -/
theorem clauses_length_eq (hwf : F.WF) (hG : shuffle F fl vp cp = .ok G) :
    G.clauses.length = F.clauses.length := by
  obtain ⟨hV, rfl⟩ := result_shape hwf hG
  exact resultClauses_length F fl vp cp hV.2.2

/-- clause `i` of the input is found at position `cp[i]` of the output, every literal mapped by `σ`
(one map for all occurrences), literal order kept -/
theorem clause_placement (hwf : F.WF) (hG : shuffle F fl vp cp = .ok G)
    (i : Nat) (hi : i < F.clauses.length) :
    ∃ j : Nat, cp[i]? = some (j : Int) ∧ j < F.clauses.length ∧
      G.clauses[j]? = some (F.clauses[i].map (sigma fl vp)) := by
  obtain ⟨hV, rfl⟩ := result_shape hwf hG
  exact resultClauses_at F fl vp cp hV.2.2 i hi

/-- the output is the `σ`-image of the input up to the order of the clauses -/
theorem clauses_perm (hwf : F.WF) (hG : shuffle F fl vp cp = .ok G) :
    G.clauses.Perm (F.clauses.map (fun c => c.map (sigma fl vp))) := by
  obtain ⟨hV, rfl⟩ := result_shape hwf hG
  exact resultClauses_perm F fl vp cp hV.2.2

/-- same multiset of clause widths -/
theorem widths_perm (hwf : F.WF) (hG : shuffle F fl vp cp = .ok G) :
    (G.clauses.map List.length).Perm (F.clauses.map List.length) := by
  obtain ⟨hV, rfl⟩ := result_shape hwf hG
  exact resultClauses_widths F fl vp cp hV.2.2

/-- the output is well formed again (so shuffles compose) -/
theorem result_wf (hwf : F.WF) (hG : shuffle F fl vp cp = .ok G) : G.WF := by
  obtain ⟨hV, rfl⟩ := result_shape hwf hG
  exact Shuffle.result_wf F hwf fl vp cp hV

/-- `α` satisfies the output iff `pull α` satisfies the input -/
theorem holds_iff (hwf : F.WF) (hG : shuffle F fl vp cp = .ok G) (α : Assign) :
    G.holds α = F.holds (pull fl vp α) := by
  obtain ⟨hV, rfl⟩ := result_shape hwf hG
  exact result_holds F hwf fl vp cp hV α

/-- same number of satisfying assignments -/
theorem model_count_eq (hwf : F.WF) (hG : shuffle F fl vp cp = .ok G) :
    modelCount G = modelCount F := by
  obtain ⟨hV, rfl⟩ := result_shape hwf hG
  exact modelCount_result F hwf fl vp cp hV

end accepted

/-- `σ` is a bijection of the literals over `1..N` commuting with negation:
it maps them into themselves, has the two-sided inverse `sigmaInv`, and `σ(-l) = -σ(l)` -/
theorem sigma_signed_bijection {N : Nat} {fl vp : List Int} (hf : ValidFlips N fl)
    (hv : ValidPerm 1 N vp) :
    (∀ l, LitIn N l → LitIn N (sigma fl vp l)) ∧
    (∀ m, LitIn N m → LitIn N (sigmaInv fl vp m)) ∧
    (∀ l, LitIn N l → sigmaInv fl vp (sigma fl vp l) = l) ∧
    (∀ m, LitIn N m → sigma fl vp (sigmaInv fl vp m) = m) ∧
    (∀ l, sigma fl vp (-l) = -sigma fl vp l) :=
  ⟨fun _ h => sigma_litIn hf hv h, fun _ h => sigmaInv_litIn hf hv h,
   fun _ h => sigmaInv_sigma hf hv h, fun _ h => sigma_sigmaInv hf hv h, sigma_neg fl vp⟩

/-- hence distinct literals stay distinct (one bijection of the variables, one polarity each) -/
theorem sigma_injective {N : Nat} {fl vp : List Int} (hf : ValidFlips N fl) (hv : ValidPerm 1 N vp)
    {l l' : Int} (hl : LitIn N l) (hl' : LitIn N l') (h : sigma fl vp l = sigma fl vp l') : l = l' :=
  Shuffle.sigma_injective hf hv hl hl' h

/-- `|σ(l)| = vp[|l|-1]` and the sign of `σ(l)` is `sign(l)·fl[|l|-1]`: the variable bijection is `vp`,
the polarity choice is `fl` -/
theorem sigma_components {N : Nat} {fl vp : List Int} (hf : ValidFlips N fl) (hv : ValidPerm 1 N vp)
    (l : Int) (hl : LitIn N l) :
    ((sigma fl vp l).natAbs : Int) = vp.getD (l.natAbs - 1) 0 ∧
    (sigma fl vp l).sign = l.sign * fl.getD (l.natAbs - 1) 0 := by
  obtain ⟨h0, hN⟩ := hl
  have hi : l.natAbs - 1 < N := by omega
  have h1 := getD_flip hf _ hi
  have h2 := getD_perm hv _ hi
  rcases Int.lt_or_gt_of_ne h0 with hneg | hpos
  · rw [sigma_of_neg fl vp l hneg, Int.sign_eq_neg_one_of_neg hneg]
    rcases h1 with h1 | h1 <;> rw [h1]
    · refine ⟨by omega, ?_⟩; rw [Int.sign_eq_neg_one_of_neg (by omega)]; omega
    · refine ⟨by omega, ?_⟩; rw [Int.sign_eq_one_of_pos (by omega)]; omega
  · rw [sigma_pos fl vp l hpos, Int.sign_eq_one_of_pos hpos]
    rcases h1 with h1 | h1 <;> rw [h1]
    · refine ⟨by omega, ?_⟩; rw [Int.sign_eq_one_of_pos (by omega)]; omega
    · refine ⟨by omega, ?_⟩; rw [Int.sign_eq_neg_one_of_neg (by omega)]; omega

/-- `α ↦ pull α` is a bijection of the assignments of the variables `1..N` (inverse `push`) -/
theorem pull_bijection {N : Nat} {fl vp : List Int} (hf : ValidFlips N fl) (hv : ValidPerm 1 N vp) :
    (∀ β v, 1 ≤ v → v ≤ N → pull fl vp (push fl vp β) v = β v) ∧
    (∀ α w, 1 ≤ w → w ≤ N → push fl vp (pull fl vp α) w = α w) ∧
    (∀ α α', (∀ v, 1 ≤ v → v ≤ N → α v = α' v) → ∀ v, 1 ≤ v → v ≤ N → pull fl vp α v = pull fl vp α' v) ∧
    (∀ β β', (∀ v, 1 ≤ v → v ≤ N → β v = β' v) → ∀ v, 1 ≤ v → v ≤ N → push fl vp β v = push fl vp β' v) :=
  ⟨fun β v => pull_push hf hv β v, fun α w => push_pull hf hv α w,
   fun α α' h v => pull_congr hf hv α α' h v, fun β β' h v => push_congr hf hv β β' h v⟩

/-! ## T-C09.3  switched-off components, random components, the tools -/

/-- `'fixed'` flips: no literal changes polarity -/
theorem fixed_flips_sign {N : Nat} {vp : List Int} (hv : ValidPerm 1 N vp) (l : Int) (hl : LitIn N l) :
    (sigma (List.replicate N 1) vp l).sign = l.sign := by
  have := (sigma_components (validFlips_replicate N) hv l hl).2
  rw [this]
  have hi : l.natAbs - 1 < N := by have := hl.1; have := hl.2; omega
  simp [List.getD_eq_getElem?_getD, hi]

/-- `'fixed'` variables: every literal keeps its variable -/
theorem fixed_vperm_var {N : Nat} {fl : List Int} (hf : ValidFlips N fl) (l : Int) (hl : LitIn N l) :
    (sigma fl (iota 1 N) l).natAbs = l.natAbs := by
  have := (sigma_components hf (validPerm_iota 1 N) l hl).1
  have hi : l.natAbs - 1 < N := by have := hl.1; have := hl.2; omega
  rw [iota_getD 1 N _ hi] at this
  have := hl.1
  omega

/-- `'fixed'` clauses: the clause order is unchanged -/
theorem fixed_cperm_order (F : CNF) (fl vp : List Int) :
    resultClauses F fl vp (sortedMapping (iota 0 F.clauses.length)) =
      F.clauses.map (fun c => c.map (sigma fl vp)) := by
  rw [sortedMapping_iota]
  apply List.ext_getElem
  · simp [resultClauses]
  · intro i h1 h2
    have : i < F.clauses.length := by simpa [resultClauses] using h1
    simp [resultClauses, List.getD_eq_getElem?_getD, List.getElem?_eq_getElem this]

/-- all three switched off: the formula comes back unchanged, and nothing is drawn -/
theorem all_fixed_identity (F : CNF) (hwf : F.WF) :
    run F .fixed .fixed .fixed [] = some (.ok F, []) := by
  have hR : Resolves F .fixed .fixed .fixed [] (List.replicate F.nvars 1) (iota 1 F.nvars)
      (iota 0 F.clauses.length) := ⟨[], [], [], rfl, ⟨rfl, rfl⟩, ⟨rfl, rfl⟩, ⟨rfl, rfl⟩⟩
  have hV : Valid F (List.replicate F.nvars 1) (iota 1 F.nvars) (iota 0 F.clauses.length) :=
    ⟨validFlips_replicate _, validPerm_iota _ _, validPerm_iota _ _⟩
  rw [run_valid F _ _ _ _ _ _ _ hR hV, shuffle_ok F hwf _ _ _ hV, fixed_cperm_order]
  have hid : ∀ c ∈ F.clauses, c.map (sigma (List.replicate F.nvars 1) (iota 1 F.nvars)) = c := by
    intro c hc
    conv => rhs; rw [← List.map_id c]
    apply List.map_congr_left
    intro l hl
    have hL : LitIn F.nvars l := hwf c hc l hl
    have hi : l.natAbs - 1 < F.nvars := by have := hL.1; have := hL.2; omega
    have h0 := hL.1
    simp only [sigma, iota_getD 1 F.nvars _ hi, List.getD_eq_getElem?_getD, List.getElem?_replicate, hi,
      ↓reduceIte, Option.getD_some, Int.one_mul, id]
    rcases Int.lt_or_gt_of_ne h0 with hneg | hpos
    · rw [Int.sign_eq_neg_one_of_neg hneg]; omega
    · rw [Int.sign_eq_one_of_pos hpos]; omega
  have : F.clauses.map (fun c => c.map (sigma (List.replicate F.nvars 1) (iota 1 F.nvars))) = F.clauses := by
    conv => rhs; rw [← List.map_id F.clauses]
    exact List.map_congr_left (fun c hc => by simpa using hid c hc)
  rw [this]

/-- the general call — any mix of `'fixed'`, `'shuffle'` and explicit sequences — is the explicit call on
the arguments the (legal) draws resolve to: explicit ones exactly as given, `'fixed'` ones the identity,
`'shuffle'` ones the drawn values.  Includes the rejection of invalid explicit arguments. -/
theorem general_call (F : CNF) (pa va ca : Arg) (ds : List Draw) (fl vp cp : List Int)
    (h : Resolves F pa va ca ds fl vp cp) :
    (run F pa va ca ds).map Prod.fst = some (shuffle F fl vp cp) := run_fst F pa va ca ds fl vp cp h

/-- the arguments a legal draw stream resolves to are valid as soon as the explicit ones are -/
theorem resolved_valid (F : CNF) (pa va ca : Arg) (ds : List Draw) (fl vp cp : List Int)
    (h : Resolves F pa va ca ds fl vp cp)
    (hp : ∀ l, pa = .explicit l → ValidFlips F.nvars l)
    (hv : ∀ l, va = .explicit l → ValidPerm 1 F.nvars l)
    (hc : ∀ l, ca = .explicit l → ValidPerm 0 F.clauses.length l) : Valid F fl vp cp := by
  obtain ⟨d1, d2, d3, _, h1, h2, h3⟩ := h
  refine ⟨?_, ?_, ?_⟩
  · cases pa with
    | fixed => rw [h1.2]; exact validFlips_replicate _
    | shuffle => exact h1.2
    | explicit l => rw [h1.2]; exact hp l rfl
  · cases va with
    | fixed => rw [h2.2]; exact validPerm_iota _ _
    | shuffle => exact h2.2
    | explicit l => rw [h2.2]; exact hv l rfl
  · cases ca with
    | fixed => rw [h3.2]; exact validPerm_iota _ _
    | shuffle => exact h3.2
    | explicit l => rw [h3.2]; exact hc l rfl

/-- the two command-line tools pass `'fixed'` for a set switch and `'shuffle'` otherwise -/
def toolArg (off : Bool) : Arg := if off then .fixed else .shuffle

/-- `cnfshuffle [-p] [-v] [-c]` and `-T shuffle [-p] [-v] [-c]`: for every switch combination and every legal
outcome of the random generator the call returns a formula `G`, all draws are consumed, `G` is the explicit
shuffle by the drawn signed permutation (so every theorem of T-C09.2 applies to it), and a switched-off
component is the identity. -/
theorem tool_call (F : CNF) (hwf : F.WF) (p v c : Bool) (ds : List Draw) (fl vp cp : List Int)
    (h : Resolves F (toolArg p) (toolArg v) (toolArg c) ds fl vp cp) :
    ∃ G, run F (toolArg p) (toolArg v) (toolArg c) ds = some (.ok G, []) ∧
      shuffle F fl vp cp = .ok G ∧ Valid F fl vp cp ∧
      (p = true → fl = List.replicate F.nvars 1) ∧ (v = true → vp = iota 1 F.nvars) ∧
      (c = true → cp = iota 0 F.clauses.length) := by
  have hV : Valid F fl vp cp := by
    apply resolved_valid F _ _ _ ds fl vp cp h <;> intro l hl <;> cases p <;> cases v <;> cases c <;>
      simp [toolArg] at hl
  refine ⟨_, ?_, shuffle_ok F hwf fl vp cp hV, hV, ?_, ?_, ?_⟩
  · rw [run_valid F _ _ _ _ _ _ _ h hV, shuffle_ok F hwf fl vp cp hV]
  · intro hp; subst hp; obtain ⟨_, _, _, _, h1, _, _⟩ := h; exact h1.2
  · intro hv; subst hv; obtain ⟨_, _, _, _, _, h2, _⟩ := h; exact h2.2
  · intro hc; subst hc; obtain ⟨_, _, _, _, _, _, h3⟩ := h; exact h3.2

/-- non-vacuity: a legal draw stream for `cnfshuffle -v` on a 3-variable, 2-clause formula -/
example : Resolves ⟨3, [[1, -2], [3]]⟩ (toolArg false) (toolArg true) (toolArg false)
    [.choice (-1), .choice 1, .choice 1, .shuffled [1, 0]] [-1, 1, 1] (iota 1 3) [1, 0] := by
  refine ⟨[.choice (-1), .choice 1, .choice 1], [], [.shuffled [1, 0]], rfl, ⟨rfl, rfl, by decide⟩,
    ⟨rfl, rfl⟩, ⟨rfl, ?_⟩⟩
  unfold ValidPerm; decide

/-! ## header -/

/-- the header of the result: old entries in order (description suffixed), then one new entry
`transformation i ↦ "Formula reshuffling"` where `i ≥ 1` is the first index whose key is free -/
theorem header_entry (h : Header) :
    ∃ i, 1 ≤ i ∧
      shuffleHeader h =
        h.map (fun p => if p.1 == "description" then (p.1, p.2 ++ " (reshuffled)") else p) ++
          [(tkey i, "Formula reshuffling")] ∧
      hasKey h (tkey i) = false ∧ ∀ j, 1 ≤ j → j < i → hasKey h (tkey j) = true := by
  refine ⟨firstFree (h.map (fun p => if p.1 == "description" then (p.1, p.2 ++ " (reshuffled)") else p)), ?_⟩
  obtain ⟨a, b, c⟩ := firstFree_spec (h.map (fun p => if p.1 == "description" then (p.1, p.2 ++ " (reshuffled)") else p))
  refine ⟨a, rfl, ?_, ?_⟩
  · rw [← hasKey_suffix]; exact b
  · intro j h1 h2; rw [← hasKey_suffix]; exact c j h1 h2

end Cnfgen.C09
