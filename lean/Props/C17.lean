/-
C17 — a command line builds the same formula as the library call it stands for.
Theorems over the tables regenerated from the current source on every run
(CnfgenModel/Generated/Tables.lean) and over the model of the `-T` chain.
-/
import CnfgenModel.Cli.TableChecks
import CnfgenModel.Cli.Chain
import CnfgenModel.Cli.Phases
namespace Cnfgen.C17
open Cnfgen.Cli Cnfgen.Gen

/-- T-C17.3 every formula helper forwards the formula class to every generator that takes one
(so `pbgen <family>` builds a pseudo-Boolean formula and `cnfgen <family>` a CNF) -/
theorem every_helper_forwards_class : helpers.all helperForwardsClass = true := by decide +kernel

/-- T-C17.1a every attribute a helper reads is defined by one of its options, by a custom action of
its module or by the main parser: no option value can be silently ignored through a name mismatch -/
theorem every_read_is_defined : helpers.all helperReadsDefined = true := by decide +kernel

/-- T-C17.1b every option a helper declares is read when it builds / transforms the formula -/
theorem every_option_is_used : helpers.all helperDestsUsed = true := by decide +kernel

/-- T-C17.1c every option of the four tools' own parsers is read by the tool -/
theorem every_tool_option_is_used : tools.all toolDestsUsed = true := by decide +kernel

/-- non-vacuity: the tables are not empty and contain the sub-commands the documentation lists -/
theorem tables_nonempty :
    40 ≤ helpers.length ∧ tools.length = 4 ∧
    (["php", "tseitin", "iso", "parity", "kcolor", "peb"].all
      (fun n => helpers.any (fun h => h.name == n && h.kind == "formula"))) = true ∧
    (["xor", "shuffle", "lift", "flip"].all
      (fun n => helpers.any (fun h => h.name == n && h.kind == "transformation"))) = true := by
  decide +kernel

def counterGen17 : Gen Nat := ⟨fun s => s.natAbs * 1000, fun st => (st + 1, st)⟩

/-! ### `-T` chains -/

/-- T-C17.2a splitting the command line around `-T` loses nothing: re-joining the chunks with `-T`
gives the command line back -/
theorem split_join (argv : List String) : joinT (splitT argv) = argv := splitT_joinT argv

/-- T-C17.2b no chunk contains `-T` -/
theorem split_chunks_clean (argv : List String) : ∀ c ∈ splitT argv, "-T" ∉ c := splitT_clean argv

/-- T-C17.2c the number of transformations applied is the number of `-T` tokens -/
theorem split_length (argv : List String) : (splitT argv).length = argv.count "-T" + 1 :=
  splitT_length argv

/-- T-C17.2d a chain of transformations is applied left to right: the result for `ts ++ [t]` is `t`
applied to the result for `ts` (so it is the left fold of the steps, in command-line order) -/
theorem chain_snoc {F E : Type} (apply : F → String → Except E F) (f : F) (ts : List String) (t : String) :
    applyChain apply f (ts ++ [t]) = (applyChain apply f ts).bind (fun g => apply g t) :=
  applyChain_snoc apply f ts t

/-! ### the graph named on the command line vs the stored graph -/

/-- T-C17.4 with a seed, the random choices of the formula generator and of the transformations do not
depend on how many draws the graph arguments made while the command line was parsed: `cnfgen -S s kcolor 3
gnp 6 .5 save G.gml -T shuffle` and `cnfgen -S s kcolor 3 G.gml -T shuffle` make the same choices (the generator
is re-seeded just before the formula is built) -/
theorem build_choices_independent_of_graph_source {S : Type} (g : Gen S) (s : Int) (p₁ p₂ b : Nat)
    (env₁ env₂ : Env S) :
    (run g current ⟨some s, p₁, b, false⟩ env₁).buildVals = (run g current ⟨some s, p₂, b, false⟩ env₂).buildVals := by
  simp [run, current, effective]

/-- without the second seeding the statement is false: the parse-time draws shift the stream -/
theorem no_reseed_shifts_stream :
    (run counterGen17 ⟨true, true, false⟩ ⟨some 5, 2, 1, false⟩ ⟨7, 0, 0⟩).buildVals ≠
    (run counterGen17 ⟨true, true, false⟩ ⟨some 5, 0, 1, false⟩ ⟨7, 0, 0⟩).buildVals := by decide

example : splitT ["cnfgen", "php", "5", "4", "-T", "shuffle", "-T", "xor", "3"] =
    [["cnfgen", "php", "5", "4"], ["shuffle"], ["xor", "3"]] := by decide

end Cnfgen.C17
