/-
C04 — `CNFLinear.add_linear` of cnfgen/formula/linear.py as TRANSLATED (`Generated/Funcs.lean`): a recursive procedure
on the formula object.  The translation keeps what it does to the object: the clauses it appends with
`add_clause(…, check=False)`, in order (the log), the call `_check_and_update(lits)` as an abstract call that may raise, and the
recursion (bounded by `fuel`; Python's limit is 1000, three levels are used).  The log is the model's `Linear.add`.
-/
import Lemmas.GenLinear
import Props.C04
set_option linter.unusedSimpArgs false
namespace Cnfgen.C04
open Cnfgen Cnfgen.PyGen Cnfgen.GenLinear

/-- the `>=` base case: nothing for `k ≤ 0`, the empty clause for `k > n`, else the `(n-k+1)`-subsets -/
theorem gen_add_linear_geq (fuel : Nat) (log : List (List Int)) (lits : List Int) (k : Int)
    (chk : List Int → Except Err Unit) :
    CNFLinear.add_linear (fuel + 1) ((), log) lits ">=" k false chk = Except.ok ((), log ++ Linear.geq lits k) := by
  unfold CNFLinear.add_linear
  simp (config := { decide := true }) only [if_true, if_false, Py.ok_bind, Py.len_eq, Linear.geq]
  by_cases h0 : k ≤ 0
  · simp [h0]
  · by_cases h1 : k > (lits.length : Int)
    · simp [h0, h1]
    · simp only [h0, h1, if_false, emit_loop]
      have : ((lits.length : Int) - k + 1).toNat = lits.length - k.toNat + 1 := by omega
      rw [Py.itertoolsR_nonneg _ (by omega), Py.ok_bind, this]

/-- `<=`: the literals are negated and the threshold complemented, then `>=` -/
theorem gen_add_linear_leq (fuel : Nat) (log : List (List Int)) (lits : List Int) (k : Int)
    (chk : List Int → Except Err Unit) :
    CNFLinear.add_linear (fuel + 2) ((), log) lits "<=" k false chk = Except.ok ((), log ++ Linear.leq lits k) := by
  unfold CNFLinear.add_linear
  simp (config := { decide := true }) only [if_true, if_false, Py.ok_bind, Py.len_eq, Linear.leq]
  rw [gen_add_linear_geq]
  simp

/-- `!=`: for every `k`-subset of positions (in `combinations` order) the literals at those positions are negated in
place, the list is emitted, and the positions are negated back — the model's `neqClauses` -/
theorem gen_add_linear_neq (fuel : Nat) (log : List (List Int)) (lits : List Int) (k : Int)
    (chk : List Int → Except Err Unit) :
    CNFLinear.add_linear (fuel + 1) ((), log) lits "!=" k false chk = Except.ok ((), log ++ Linear.neq lits k) := by
  unfold CNFLinear.add_linear
  simp (config := { decide := true }) only [if_true, if_false, Py.ok_bind, Py.len_eq, Linear.neq]
  by_cases hk : k < 0 ∨ k > (lits.length : Int)
  · simp [hk]
  · rw [if_neg hk, if_neg hk, Py.itertoolsR_nonneg _ (by omega), Py.ok_bind]
    rw [Py.foldlM_ext _ neqStepM (by intro s a; rfl)]
    have hl : combos (Py.Range.toList (Py.Range.mk 0 (lits.length : Int))) k.toNat =
        (combos (List.range lits.length) k.toNat).map (fun f => f.map (fun (i : Nat) => (i : Int))) := by
      rw [Py.range_zero_toList, GenVars.combos_map]
      rfl
    rw [hl, neq_loop lits k.toNat _ (fun f hf => hf), Py.ok_bind, map_flipSeq_combos]

theorem gen_add_linear_nocheck (fuel : Nat) (log : List (List Int)) (lits : List Int) (op : Op) (k : Int)
    (chk : List Int → Except Err Unit) :
    CNFLinear.add_linear (fuel + 3) ((), log) lits op.str k false chk =
      Except.ok ((), log ++ Linear.add lits op k) := by
  cases op
  · exact gen_add_linear_leq (fuel + 1) log lits k chk
  · exact gen_add_linear_geq (fuel + 2) log lits k chk
  · -- <
    unfold CNFLinear.add_linear
    simp (config := { decide := true }) only [Op.str, if_true, if_false, Py.ok_bind, Linear.add]
    rw [gen_add_linear_leq fuel]
    rfl
  · -- >
    unfold CNFLinear.add_linear
    simp (config := { decide := true }) only [Op.str, if_true, if_false, Py.ok_bind, Linear.add]
    rw [gen_add_linear_geq (fuel + 1)]
    rfl
  · -- ==
    unfold CNFLinear.add_linear
    simp (config := { decide := true }) only [Op.str, if_true, if_false, Py.ok_bind, Linear.add]
    rw [gen_add_linear_leq fuel, Py.ok_bind, gen_add_linear_geq (fuel + 1), Py.ok_bind, List.append_assoc]
  · exact gen_add_linear_neq (fuel + 2) log lits k chk

/-- the validation, the `_check_and_update` call, then — whatever the operator — the model's clauses appended to
the formula; three levels of recursion suffice (`==` → `<=` → `>=`) -/
theorem gen_add_linear_eq_model (fuel : Nat) (log : List (List Int)) (lits : List Int) (op : Op) (k : Int)
    (check : Bool) (chk : List Int → Except Err Unit) :
    CNFLinear.add_linear (fuel + 3) ((), log) lits op.str k check chk =
      (if check = true then chk lits else Except.ok ()) >>= fun _ => Except.ok ((), log ++ Linear.add lits op k) := by
  cases check
  · rw [gen_add_linear_nocheck]; rfl
  · have h := gen_add_linear_nocheck fuel log lits op k chk
    have hmem : op.str ∈ ["<=", ">=", "<", ">", "==", "!="] := by cases op <;> decide
    rw [CNFLinear.add_linear] at h ⊢
    simp only [hmem, not_true_eq_false, if_false, if_true, Bool.false_eq_true, Py.ok_bind] at h ⊢
    cases hc : chk lits with
    | error e => rfl
    | ok u =>
      simp only [Py.ok_bind]
      exact h

/-- an operator that is not one of the six is refused before anything else happens -/
theorem gen_add_linear_bad_operator (fuel : Nat) (s : Unit × List (List Int)) (lits : List Int) (op : String) (k : Int)
    (check : Bool) (chk : List Int → Except Err Unit) (h : op ∉ ["<=", ">=", "<", ">", "==", "!="]) :
    CNFLinear.add_linear (fuel + 1) s lits op k check chk = Except.error Err.valueError := by
  rw [CNFLinear.add_linear]
  simp only [h, not_false_eq_true, if_true]

/-- **`add_linear` on the translated source** (the model only in the vocabulary `clauseHolds` / `count`): with Python's
recursion limit as fuel, on a formula holding the clauses `log`, for non-zero literals and any of the six operators the
call succeeds, keeps the old clauses, and the clauses it appends hold under an assignment exactly when the number of true
literal positions satisfies `op k` — repeated and opposite literals, any integer `k` -/
theorem gen_add_linear_spec (log : List (List Int)) (lits : List Int) (op : Op) (k : Int) (h : NonZero lits) :
    ∃ new : List (List Int),
      CNFLinear.add_linear 1000 ((), log) lits op.str k false (fun _ => Except.ok ()) = Except.ok ((), log ++ new) ∧
      ∀ α : Assign, (∀ c ∈ new, clauseHolds α c = true) ↔ op.denote (count α lits) k = true :=
  ⟨Linear.add lits op k, by simpa using gen_add_linear_eq_model 997 log lits op k false _,
    fun α => linear_holds α lits op k h⟩

/-- non-vacuity: the docstring's examples -/
example : CNFLinear.add_linear 1000 ((), []) [-1, 2, -3] "<" 2 true (fun _ => Except.ok ()) =
    Except.ok ((), [[1, -2], [1, 3], [-2, 3]]) := by decide
example : CNFLinear.add_linear 1000 ((), []) [1, 2, 3] "<=" (-1) true (fun _ => Except.ok ()) =
    Except.ok ((), [[]]) := by decide
example : CNFLinear.add_linear 1000 ((), []) [1, 2] "!=" 1 true (fun _ => Except.ok ()) =
    Except.ok ((), [[-1, 2], [1, -2]]) := by decide

end Cnfgen.C04
