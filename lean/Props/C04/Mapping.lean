/-
C04 (mapping part, T-C04.6) — `force_{complete,functional,surjective,injective,nondecreasing}_mapping`
of unary (`new_mapping`), sparse (`new_sparse_mapping`) and binary (`new_binary_mapping`) mappings
constrain to exactly the functional condition they are named after, for the clause encoding (class
CNF) and the pseudo-Boolean encoding (class OPB) alike; `forbid(i, j)` is false exactly when the
bits of `i` encode `j`.
Model: `CnfgenModel/Vars/Mapping.lean`.  Property theorems only; lemmas in `Lemmas/VarsMapping.lean`,
`Lemmas/VarsBinary.lean`.

`Means α cons P` : the constraint list `cons` (what the code adds, in order) holds under `α` iff `P`
— as arithmetic, as the clauses stored by the CNF class, as the constraints stored by the OPB class.
`atom α G s u v` : the variable `f(u,v)` of a mapping with admissible pairs `G` and first identifier `s`.
`binVal α s bits i` : the value `Σ_b 2^b·⟦v(i,b)⟧` encoded by the bits of `i`.
Unary mappings `new_mapping(n, m)` are the case `G = BipG.complete n m` (`BipG.wf_complete`).
-/
import Lemmas.VarsMapping
namespace Cnfgen.C04
open Cnfgen Cnfgen.Vars

/-- complete ↔ every `u` of the domain is mapped to some admissible `v` -/
theorem mapping_unary_complete (α : Assign) {G : BipG} (h : G.WF) {s : Nat} (hs : 1 ≤ s) :
    ∃ cons, forceComplete (.unary s G) = .ok cons ∧
      Means α cons (∀ u, 1 ≤ u → u ≤ G.l → ∃ v ∈ G.rnbrs u, atom α G s u v) := by
  obtain ⟨cons, hc, hm⟩ := unary_complete α h hs
  exact ⟨cons, hc, means_of hs ((unary_lits h hs).1 cons hc) hm⟩

/-- functional ↔ every `u` is mapped to at most one `v` -/
theorem mapping_unary_functional (α : Assign) {G : BipG} (h : G.WF) {s : Nat} (hs : 1 ≤ s) :
    ∃ cons, forceFunctional (.unary s G) = .ok cons ∧
      Means α cons (∀ u, 1 ≤ u → u ≤ G.l → ∀ v ∈ G.rnbrs u, ∀ v' ∈ G.rnbrs u,
        atom α G s u v → atom α G s u v' → v = v') := by
  obtain ⟨cons, hc, hm⟩ := unary_functional α h hs
  exact ⟨cons, hc, means_of hs ((unary_lits h hs).2.1 cons hc) hm⟩

/-- surjective ↔ every `v` of the range has some admissible `u` mapped to it -/
theorem mapping_unary_surjective (α : Assign) {G : BipG} (h : G.WF) {s : Nat} (hs : 1 ≤ s) :
    ∃ cons, forceSurjective (.unary s G) = .ok cons ∧
      Means α cons (∀ v, 1 ≤ v → v ≤ G.r → ∃ u ∈ G.lnbrs v, atom α G s u v) := by
  obtain ⟨cons, hc, hm⟩ := unary_surjective α h hs
  exact ⟨cons, hc, means_of hs ((unary_lits h hs).2.2.1 cons hc) hm⟩

/-- injective ↔ every `v` has at most one `u` mapped to it -/
theorem mapping_unary_injective (α : Assign) {G : BipG} (h : G.WF) {s : Nat} (hs : 1 ≤ s) :
    ∃ cons, forceInjective (.unary s G) = .ok cons ∧
      Means α cons (∀ v, 1 ≤ v → v ≤ G.r → ∀ u ∈ G.lnbrs v, ∀ u' ∈ G.lnbrs v,
        atom α G s u v → atom α G s u' v → u = u') := by
  obtain ⟨cons, hc, hm⟩ := unary_injective α h hs
  exact ⟨cons, hc, means_of hs ((unary_lits h hs).2.2.2.1 cons hc) hm⟩

/-- non-decreasing ↔ no `u₁ < u₂` mapped to `v₁ > v₂` -/
theorem mapping_unary_nondecreasing (α : Assign) {G : BipG} (h : G.WF) {s : Nat} (hs : 1 ≤ s) :
    ∃ cons, forceNondecreasing (.unary s G) = .ok cons ∧
      Means α cons (∀ u₁ u₂, 1 ≤ u₁ → u₁ < u₂ → u₂ ≤ G.l → ∀ v₁ ∈ G.rnbrs u₁, ∀ v₂ ∈ G.rnbrs u₂,
        v₂ < v₁ → ¬ (atom α G s u₁ v₁ ∧ atom α G s u₂ v₂)) := by
  obtain ⟨cons, hc, hm⟩ := unary_nondecreasing α h hs
  exact ⟨cons, hc, means_of hs ((unary_lits h hs).2.2.2.2 cons hc) hm⟩

/-- non-vacuity: a sparse mapping with an isolated domain element, and `new_mapping(3, 2)` -/
example : ∀ G, BipG.ofEdges 3 3 [(1, 2), (1, 3), (3, 1)] = .ok G → G.WF :=
  fun _ h => (BipG.wf_ofEdges h).1
example : (BipG.ofEdges 3 3 [(1, 2), (1, 3), (3, 1)]).isOk = true := by decide
example : (BipG.complete 3 2).WF := BipG.wf_complete 3 2

/-- `forbid(i, j)`, `0 ≤ j < 2^bits`: a clause of non-zero literals that is false exactly when the
bits of `i` encode `j`; for `j ≥ 2^bits` the code raises ValueError -/
theorem mapping_forbid (α : Assign) {s bits i j : Nat} (hs : 1 ≤ s) (hi : 1 ≤ i) :
    (j < 2 ^ bits → ∃ c, forbid s bits i j = .ok c ∧ (∀ l ∈ c, l ≠ 0) ∧
      (clauseHolds α c = false ↔ binVal α s bits i = j)) ∧
    (2 ^ bits ≤ j → forbid s bits i j = .error .valueError) :=
  ⟨fun hj => forbid_spec α hs hi hj, fun hj => forbid_error hj⟩

/-- binary complete ↔ every element encodes a value of the range `0 … m-1` -/
theorem mapping_binary_complete (α : Assign) {s n m : Nat} (hs : 1 ≤ s) :
    ∃ cons, forceComplete (.binary s n m) = .ok cons ∧
      Means α cons (∀ i, 1 ≤ i → i ≤ n → binVal α s (clog2 m) i < m) := by
  obtain ⟨cons, hc, hm⟩ := binary_complete α (n := n) (m := m) hs
  exact ⟨cons, hc, means_of hs (fun c hcm l hl => ((binary_lits hs).1 cons hc c hcm l hl).2) hm⟩

/-- binary functional: nothing is added (a bit string encodes exactly one value) -/
theorem mapping_binary_functional (s n m : Nat) : forceFunctional (.binary s n m) = .ok [] :=
  binary_functional s n m

/-- binary surjective: not offered by the code ("works only for unary") — ValueError -/
theorem mapping_binary_surjective (s n m : Nat) : forceSurjective (.binary s n m) = .error .valueError :=
  binary_surjective s n m

/-- binary injective ↔ no two elements encode the same value of the range -/
theorem mapping_binary_injective (α : Assign) {s n m : Nat} (hs : 1 ≤ s) :
    ∃ cons, forceInjective (.binary s n m) = .ok cons ∧
      Means α cons (∀ i j, 1 ≤ i → i < j → j ≤ n → ∀ y, y < m →
        ¬ (binVal α s (clog2 m) i = y ∧ binVal α s (clog2 m) j = y)) := by
  obtain ⟨cons, hc, hm⟩ := binary_injective α (n := n) (m := m) hs
  exact ⟨cons, hc, means_of hs (fun c hcm l hl => ((binary_lits hs).2.1 cons hc c hcm l hl).2) hm⟩

/-- binary non-decreasing ↔ no `i < j` encoding values of the range in decreasing order -/
theorem mapping_binary_nondecreasing (α : Assign) {s n m : Nat} (hs : 1 ≤ s) :
    ∃ cons, forceNondecreasing (.binary s n m) = .ok cons ∧
      Means α cons (∀ i j, 1 ≤ i → i < j → j ≤ n → ∀ v₁ v₂, v₁ < v₂ → v₂ < m →
        ¬ (binVal α s (clog2 m) i = v₂ ∧ binVal α s (clog2 m) j = v₁)) := by
  obtain ⟨cons, hc, hm⟩ := binary_nondecreasing α (n := n) (m := m) hs
  exact ⟨cons, hc, means_of hs (fun c hcm l hl => ((binary_lits hs).2.2 cons hc c hcm l hl).2) hm⟩

/-- together with completeness the last two are the plain conditions on `binVal` -/
theorem mapping_binary_total_injective (α : Assign) {s n m : Nat}
    (hc : ∀ i, 1 ≤ i → i ≤ n → binVal α s (clog2 m) i < m) :
    (∀ i j, 1 ≤ i → i < j → j ≤ n → ∀ y, y < m →
        ¬ (binVal α s (clog2 m) i = y ∧ binVal α s (clog2 m) j = y)) ↔
    (∀ i j, 1 ≤ i → i < j → j ≤ n → binVal α s (clog2 m) i ≠ binVal α s (clog2 m) j) := by
  constructor
  · intro h i j h1 h2 h3 he
    exact h i j h1 h2 h3 _ (hc i h1 (by omega)) ⟨rfl, he.symm⟩
  · intro h i j h1 h2 h3 y _ ⟨e1, e2⟩
    exact h i j h1 h2 h3 (e1.trans e2.symm)

theorem mapping_binary_total_nondecreasing (α : Assign) {s n m : Nat}
    (hc : ∀ i, 1 ≤ i → i ≤ n → binVal α s (clog2 m) i < m) :
    (∀ i j, 1 ≤ i → i < j → j ≤ n → ∀ v₁ v₂, v₁ < v₂ → v₂ < m →
        ¬ (binVal α s (clog2 m) i = v₂ ∧ binVal α s (clog2 m) j = v₁)) ↔
    (∀ i j, 1 ≤ i → i < j → j ≤ n → binVal α s (clog2 m) i ≤ binVal α s (clog2 m) j) := by
  constructor
  · intro h i j h1 h2 h3
    by_contra hlt
    exact h i j h1 h2 h3 _ _ (Nat.lt_of_not_le hlt) (hc i h1 (by omega)) ⟨rfl, rfl⟩
  · intro h i j h1 h2 h3 v₁ v₂ hv _ ⟨e1, e2⟩
    have := h i j h1 h2 h3
    omega

example : forbid 1 3 2 0 = .ok [4, 5, 6] := by decide

end Cnfgen.C04
