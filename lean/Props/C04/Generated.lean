/-
C04 — `normalize_opb` of cnfgen/formula/baseopb.py as TRANSLATED (`Generated/Funcs.lean`, regenerated from the source
on every run) computes the hand-written model's `PB.normalize` — for every constraint.  Hence `normalize_sem`,
`normalize_form`, `normalize_pos` of `Props/C04.lean` speak about what the source says now.
-/
import Lemmas.GenOpb
import Lemmas.OPB
import Props.C04
set_option linter.unusedSimpArgs false
namespace Cnfgen.C04
open Cnfgen Cnfgen.PyGen Cnfgen.GenOpb

/-- the index loop + final filter of the translated function, on any terms and degree -/
theorem gen_normalize_opb_tail (ts : List (Int × Int)) (op : String) (v : Int) :
    ((List.foldlM step (v, ts) (Py.Range.toList (Py.Range.mk 0 (Py.len ts)))) >>= fun st18 =>
      Except.ok (List.map (fun (z : Int × Int) => (z.1, z.2)) (List.filter (fun (z : Int × Int) => decide (z.1 ≠ 0)) st18.2),
        op, st18.1)) =
    Except.ok ((PB.normTerms ts v).1, op, (PB.normTerms ts v).2) := by
  have hr : Py.Range.toList (Py.Range.mk 0 (Py.len ts)) =
      (List.range ts.length).map (fun i => ((([] : List (Int × Int)).length + i : Nat) : Int)) := by
    simp only [Py.Range.toList, rangeI, Py.len_eq, List.length_nil]
    have : ((ts.length : Int) - 0).toNat = ts.length := by omega
    rw [this]
    apply List.map_congr_left
    intro i _
    simp
  have := loop_eq ts [] v
  rw [List.nil_append] at this
  rw [hr, this, Py.ok_bind, normTerms_eq]
  simp

/-- **`normalize_opb` of the source is `PB.normalize` of the model** (operators as their Python strings) -/
theorem gen_normalize_opb_eq_model (c : PBC) :
    normalize_opb (c.terms, c.op.str, c.rhs) =
      Except.ok ((PB.normalize c).terms, (PB.normalize c).op.str, (PB.normalize c).rhs) := by
  obtain ⟨ts, op, v⟩ := c
  unfold normalize_opb
  cases op <;>
    simp (config := { decide := true }) only [Op.str, PB.normalize, if_true, if_false] <;>
    exact gen_normalize_opb_tail _ _ _

/-- **normalisation on the translated source**, the model only in the vocabulary (`PBC.holds` = the arithmetic meaning
of a constraint): `normalize_opb` never raises; what it returns has the same satisfying assignments (all six
operators, any integer coefficients, literals non-zero), strictly positive coefficients only, and — for the five
operators `add_constraint` documents — the operator `>=` or `==` -/
theorem gen_normalize_opb_spec (c : PBC) :
    ∃ c' : PBC, normalize_opb (c.terms, c.op.str, c.rhs) = Except.ok (c'.terms, c'.op.str, c'.rhs) ∧
      (∀ α, NonZeroTerms c.terms → c'.holds α = c.holds α) ∧
      (∀ t ∈ c'.terms, 0 < t.1) ∧
      (c.op ≠ .ne → c'.op = .ge ∨ c'.op = .eq) :=
  ⟨PB.normalize c, gen_normalize_opb_eq_model c, fun α h => normalize_sem c α h, normalize_pos c,
    fun h => (normalize_form c h).1⟩

/-- non-vacuity: the docstring's examples -/
example : normalize_opb ([(1, 3), (-2, 2), (1, 4)], ">", 3) = Except.ok ([(1, 3), (2, -2), (1, 4)], ">=", 6) := by decide
example : normalize_opb ([(2, -3)], "<", 1) = Except.ok ([(2, 3)], ">=", 2) := by decide

end Cnfgen.C04
