/-
C11 — Variable groups map indices to identifiers bijectively, with names aligned.
Property theorems only; helper lemmas are in `Lemmas/Vars*.lean`.

Model: `CnfgenModel/Vars/{Groups,Patterns,Labels,Manager}.lean` (every group class of
cnfgen/formula/variables.py, `VariablesManager`, `all_variable_labels`).
`Group.WF` is what every group handed out by the manager satisfies (`reachable_groups_wf`).
-/
import Lemmas.VarsCall
import Lemmas.VarsLabels
namespace Cnfgen.C11
open Cnfgen Cnfgen.Vars

/-! ## All group classes at once (single variable, block, words, edges, mappings) -/

/-- Every group occupies a contiguous range of identifiers and `indices()` enumerates its legal
indices in identifier order: the k-th index has identifier `start + k`. -/
theorem ids_contiguous {g : Group} (h : g.WF) :
    ∃ idxs, g.indices [] = .ok idxs ∧ idxs.length = g.len ∧
      idxs.map g.unsafeId = List.range' g.start g.len := by
  obtain ⟨idxs, h1, h2⟩ := Group.indices_nil h
  exact ⟨idxs, h1, Group.length_indices h h1, h2⟩

/-- index → identifier → index without loss, for the positive and the negative literal -/
theorem index_id_index {g : Group} (h : g.WF) {idxs : List (List Nat)} (hi : g.indices [] = .ok idxs)
    {idx : List Nat} (hm : idx ∈ idxs) :
    g.toIndex (g.unsafeId idx : Int) = .ok idx ∧ g.toIndex (-(g.unsafeId idx : Int)) = .ok idx :=
  Group.toIndex_unsafeId h hi hm

/-- identifier → index → identifier: every literal of the group converts to a legal index whose
identifier is the variable of the literal -/
theorem id_index_id {g : Group} (h : g.WF) {lit : Int}
    (hr : g.start ≤ lit.natAbs ∧ lit.natAbs < g.start + g.len) :
    ∃ idxs idx, g.indices [] = .ok idxs ∧ idx ∈ idxs ∧ g.toIndex lit = .ok idx ∧ g.unsafeId idx = lit.natAbs :=
  Group.toIndex_ok h hr

/-- literals outside the group's range are rejected with ValueError (also `0`) -/
theorem foreign_literal_rejected {g : Group} (h : g.WF) {lit : Int}
    (hr : ¬ (g.start ≤ lit.natAbs ∧ lit.natAbs < g.start + g.len)) :
    g.toIndex lit = .error .valueError :=
  Group.toIndex_reject h hr

/-- a projection pattern (no argument, or some `None`) yields the identifiers of the indices it
selects, in the order of `indices(*pattern)` — for every class using `BaseVariableGroup.__call__` -/
theorem call_projection {g : Group} {pat : Pattern} (hp : isProjection pat = true) :
    g.baseCall pat = (g.indices pat).map (fun L => Res.many (L.map g.unsafeId)) :=
  baseCall_of_projection hp

/-- non-vacuity: a 2×0×3 block (empty), a sparse mapping, a digraph sorted by successors -/
example : (Group.block 4 [2, 0, 3] "X({},{},{})").WF := by simp [Group.WF]
example : (Group.single 1 none).WF := by simp [Group.WF]

/-! ## T-C11.1 blocks: mixed-radix indices, any arity, any ranges (0 included) -/

/-- the legal indices of a block are the tuples `1 ≤ iⱼ ≤ rangesⱼ`, enumerated by `indices()` in
lexicographic order, with consecutive identifiers from `start` -/
theorem block_contiguous (s : Nat) (ranges : List Nat) (f : String) :
    (Group.block s ranges f).indices [] = .ok (blockAll ranges) ∧
    (∀ idx, idx ∈ blockAll ranges ↔ LegalIdx ranges idx) ∧
    (blockAll ranges).map (blockId s ranges) = List.range' s (blockSize ranges) :=
  ⟨by simp [Group.indices, blockIndices_nil], fun _ => mem_blockAll, blockAll_ids s ranges⟩

/-- `to_index(±p(idx)) = idx` for every legal index -/
theorem block_index_id_index (s : Nat) {ranges idx : List Nat} (h : LegalIdx ranges idx) :
    blockIndex s ranges (blockId s ranges idx : Int) = .ok idx ∧
    blockIndex s ranges (-(blockId s ranges idx : Int)) = .ok idx :=
  blockIndex_blockId s h

/-- `p(to_index(±v)) = v` for every variable of the block, and the index is legal -/
theorem block_id_index_id {s : Nat} {ranges idx : List Nat} {lit : Int}
    (h : blockIndex s ranges lit = .ok idx) : LegalIdx ranges idx ∧ blockId s ranges idx = lit.natAbs :=
  blockId_blockIndex h

/-- a full index: its identifier if it is legal, ValueError if not (wrong arity, 0, above the range) -/
theorem block_call (s : Nat) (ranges : List Nat) (f : String) {idx : List Nat} (hne : idx ≠ []) :
    (LegalIdx ranges idx → (Group.block s ranges f).call (natPat idx) = .ok (.one (blockId s ranges idx))) ∧
    (¬ LegalIdx ranges idx → (Group.block s ranges f).call (natPat idx) = .error .valueError) :=
  block_call_full s ranges f hne

/-- wildcard patterns: a pattern of the right arity whose fixed entries are within their ranges
enumerates exactly the matching indices, in identifier order; every other pattern is a ValueError -/
theorem block_pattern (s : Nat) {ranges : List Nat} (f : String) {pat : Pattern} (hp : pat ≠ []) :
    (LegalPat ranges pat →
      (Group.block s ranges f).indices pat = .ok ((blockAll ranges).filter (patMatches pat)) ∧
      (((blockAll ranges).filter (patMatches pat)).map (blockId s ranges)).Pairwise (· < ·)) ∧
    (¬ LegalPat ranges pat → (Group.block s ranges f).indices pat = .error .valueError) :=
  ⟨fun hl => ⟨(blockIndices_pattern hp).1 hl, blockAll_filter_ids_sorted s ranges _⟩,
   fun hl => (blockIndices_pattern hp).2 hl⟩

example : LegalIdx [3, 5, 4, 3] [3, 5, 4, 2] := by simp [LegalIdx]
example : LegalPat [3, 5] [none, some 5] := by simp [LegalPat]

/-! ## T-C11.2 words: combinations, combinations with replacement, permutations, words -/

/-- the four enumerations are duplicate-free … -/
theorem words_nodup (n k : Nat) :
    (combosSeqs n k).Nodup ∧ (combosReplSeqs n k).Nodup ∧ (permsSeqs n k).Nodup ∧ (wordsSeqs n k).Nodup :=
  ⟨combosSeqs_nodup n k, combosReplSeqs_nodup n k, permsSeqs_nodup n k, wordsSeqs_nodup n k⟩

/-- … and their members are the documented index sets (strictly increasing / non-decreasing /
injective / arbitrary `k`-tuples over `1..n`) -/
theorem words_indices {n k : Nat} {w : List Nat} :
    (w ∈ combosSeqs n k ↔ w.length = k ∧ w.Pairwise (· < ·) ∧ ∀ x ∈ w, 1 ≤ x ∧ x ≤ n) ∧
    (w ∈ combosReplSeqs n k ↔ w.length = k ∧ w.Pairwise (· ≤ ·) ∧ ∀ x ∈ w, 1 ≤ x ∧ x ≤ n) ∧
    (w ∈ permsSeqs n k ↔ w.length = k ∧ w.Nodup ∧ ∀ x ∈ w, 1 ≤ x ∧ x ≤ n) ∧
    (w ∈ wordsSeqs n k ↔ w.length = k ∧ ∀ x ∈ w, 1 ≤ x ∧ x ≤ n) :=
  ⟨mem_combosSeqs, mem_combosReplSeqs, mem_permsSeqs, mem_wordsSeqs⟩

/-- hence `seq2vid` (a dictionary filled in enumeration order) and `vid2seq` are inverse, and the
identifiers are contiguous in enumeration order -/
theorem word_bijection {seqs : List (List Nat)} (h : seqs.Nodup) (s : Nat) :
    seqs.map (fun w => (seq2vid s seqs w).getD 0) = List.range' s seqs.length ∧
    (∀ w v, seq2vid s seqs w = some v →
      wordIndex s seqs (v : Int) = .ok w ∧ wordIndex s seqs (-(v : Int)) = .ok w) ∧
    (∀ lit w, wordIndex s seqs lit = .ok w → w ∈ seqs ∧ seq2vid s seqs w = some lit.natAbs) :=
  ⟨word_ids h s, fun _ _ hv => (wordIndex_seq2vid h s hv).2.2, fun _ _ hw => seq2vid_wordIndex h hw⟩

/-- a full index: its identifier if it is one of the enumerated words, ValueError if not; a
pattern with `None` is never accepted (word groups only support "all") -/
theorem word_call {s : Nat} {seqs : List (List Nat)} (f : String) (hnd : seqs.Nodup) (w : List Nat) (hne : w ≠ []) :
    (w ∈ seqs → (Group.word s seqs f).call (natPat w) = .ok (.one (s + seqs.idxOf w))) ∧
    (w ∉ seqs → (Group.word s seqs f).call (natPat w) = .error .valueError) :=
  word_call_full f hnd w hne

example : [1, 3, 4] ∈ combosSeqs 5 3 := by decide
example : (Group.word 1 (combosReplSeqs 3 2) "p_{{{}}}").WF := ⟨by omega, combosReplSeqs_nodup 3 2⟩

/-! ## T-C11.3 edges of bipartite, simple and directed graphs -/

/-- offsets are prefix sums of the right degrees -/
theorem bip_offsets_prefix_sums (G : BipG) (s : Nat) :
    bipOffsets G s = 0 :: (List.range G.l).map (fun i => s + degSum G i) :=
  bipOffsets_eq G s

/-- bipartite edges (also unary and sparse mappings): the edges in the order of `indices()` get
consecutive identifiers; `to_index` (through `bisect_right`) inverts `__call__` on both
polarities and never raises IndexError / AssertionError; and conversely -/
theorem bip_bijection {G : BipG} (h : G.WF) (s : Nat) :
    G.edges.map (fun e => bipId G s e.1 e.2) = List.range' s G.numberOfEdges ∧
    (∀ u v, (u, v) ∈ G.edgeset →
      bipIndex G s (bipId G s u v : Int) = .ok (u, v) ∧ bipIndex G s (-(bipId G s u v : Int)) = .ok (u, v)) ∧
    (∀ lit u v, bipIndex G s lit = .ok (u, v) → (u, v) ∈ G.edgeset ∧ bipId G s u v = lit.natAbs) ∧
    (∀ lit e, bipIndex G s lit = .error e → e = .valueError) :=
  ⟨bip_ids h s, fun _ _ he => bipIndex_bipId h s he, fun _ _ _ hi => bipId_bipIndex h hi,
   fun _ _ he => bipIndex_error h he⟩

/-- patterns `(u, None)`, `(None, v)`, `(u, v)`: the matching edges in identifier order, ValueError
for a vertex outside the graph, a non-edge, or a wrong number of arguments -/
theorem bip_patterns {G : BipG} (h : G.WF) (s : Nat) (u v : Int) :
    bipIndices G [some u, none] =
      (if 1 ≤ u ∧ u ≤ G.l then .ok (G.edges.filter (edgeMatches [some u, none])) else .error .valueError) ∧
    bipIndices G [none, some v] =
      (if 1 ≤ v ∧ v ≤ G.r then .ok (G.edges.filter (edgeMatches [none, some v])) else .error .valueError) ∧
    bipIndices G [some u, some v] =
      (if 0 ≤ u ∧ 0 ≤ v ∧ (u.toNat, v.toNat) ∈ G.edgeset then .ok [(u.toNat, v.toNat)] else .error .valueError) ∧
    (∀ pat : Pattern, pat.length ≠ 0 ∧ pat.length ≠ 2 → bipIndices G pat = .error .valueError) ∧
    (∀ p, ((G.edges.filter p).map (fun e => bipId G s e.1 e.2)).Pairwise (· < ·)) :=
  ⟨bipIndices_row h u, bipIndices_col h v, bipIndices_edge h u v, fun _ hp => bipIndices_arity G hp,
   fun p => bip_filter_ids_sorted h s p⟩

/-- simple graphs: whatever the representation of `G`, the auxiliary graph is a well-formed
bipartite graph on `V × V` holding each edge once as `(min, max)`; the group is then a bipartite
edge group (all of the above applies), pairs are unordered, and a single vertex selects the edges
containing it in identifier order -/
theorem graph_edges {G : SimpleG} {B : BipG} (h : graphAux G = .ok B) (s : Nat) (f : String) :
    (Group.graph s B f).WF ↔ 1 ≤ s := by
  have hs := graphAux_spec h
  simp only [Group.WF]
  constructor
  · exact fun hh => hh.1
  · exact fun h1 => ⟨h1, hs.1, by rw [hs.2.1, hs.2.2.1], graphAux_le h⟩

theorem graph_patterns {G : SimpleG} {B : BipG} (h : graphAux G = .ok B) (s : Nat) (f : String) (u v w : Int) :
    (Group.graph s B f).call [some u, some v] = (Group.graph s B f).call [some v, some u] ∧
    graphIndices B [some w, none] =
      (if 1 ≤ w ∧ w ≤ B.l then .ok (B.edges.filter (graphMatches [some w, none])) else .error .valueError) ∧
    graphIndices B [none, some w] = graphIndices B [some w, none] := by
  have hs := graphAux_spec h
  have := graphIndices_one hs.1 (by rw [hs.2.1, hs.2.2.1]) (graphAux_le h) w
  exact ⟨(graph_call_sym s B f u v).1, this.1, this.2⟩

/-- directed graphs, both `sortby`: the auxiliary graph holds `(u,v)` (pred) resp. `(v,u)` (succ)
for every edge `(u,v)`; the group is well formed, so contiguity and both round trips hold -/
theorem digraph_edges {D : DiG} {succ : Bool} {B : BipG} (h : digraphAux D succ = .ok B) (s : Nat) (f : String)
    (hs : 1 ≤ s) :
    (Group.digraph s B succ f).WF ∧
    (∀ a b, (a, b) ∈ B.edgeset ↔ (if succ then (b, a) else (a, b)) ∈ D.edges) :=
  ⟨⟨hs, (digraphAux_spec h).1⟩, (digraphAux_spec h).2.2.2⟩

/-- patterns of a directed-edge group: as for the auxiliary bipartite graph with `sortby='pred'`;
with `sortby='succ'` the pattern is read in reverse and the resulting pairs are swapped back -/
theorem digraph_patterns (B : BipG) (pat : Pattern) :
    digraphIndices B false pat = bipIndices B pat ∧
    digraphIndices B true pat = (bipIndices B pat.reverse).map (fun l => l.map (fun e => (e.2, e.1))) :=
  ⟨digraphIndices_pred B pat, digraphIndices_succ B pat⟩

example : (BipG.ofEdges 2 3 [(2, 1), (1, 3), (2, 2)]).isOk = true := by decide

/-! ## T-C11.4 binary mappings: `(i, b) ↔ start - 1 + i·bits − b` -/

theorem binary_bijection {s : Nat} (hs : 1 ≤ s) (n bits : Nat) :
    (binAll n bits).map (fun p => binId s bits p.1 p.2) = List.range' s (n * bits) ∧
    (∀ i b, 1 ≤ i ∧ i ≤ n → b < bits →
      binIndex s n bits (binId s bits i b : Int) = .ok (i, b) ∧
      binIndex s n bits (-(binId s bits i b : Int)) = .ok (i, b)) ∧
    (∀ lit i b, binIndex s n bits lit = .ok (i, b) →
      (1 ≤ i ∧ i ≤ n) ∧ b < bits ∧ binId s bits i b = lit.natAbs) :=
  ⟨binAll_ids hs n bits, fun _ _ hi hb => binIndex_binId hs hi hb, fun _ _ _ h => binId_binIndex hs h⟩

/-- the number of bits is the least `b` with `m ≤ 2^b` -/
theorem binary_bits (m : Nat) : m ≤ 2 ^ clog2 m ∧ ∀ b, m ≤ 2 ^ b → clog2 m ≤ b := clog2_spec m

/-- patterns `(i, None)`, `(None, b)`, `(i, b)`, `()`: the matching pairs in identifier order
(`i` ascending, bits from the most significant); ValueError outside `1..n × 0..bits-1` -/
theorem binary_pattern (n bits : Nat) (pat : Pattern) :
    (BinLegalPat n bits pat → binIndices n bits pat = .ok ((binAll n bits).filter (pairMatches pat))) ∧
    (¬ BinLegalPat n bits pat → binIndices n bits pat = .error .valueError) :=
  binIndices_pattern n bits pat

example : binId 1 3 2 0 = 6 := by decide

/-! ## T-C11.5 names aligned, for every manager history -/

/-- every group of a state reached by any history (from the empty formula) is well formed, and the
groups are disjoint, increasing and inside `1 … numvar` -/
theorem reachable_groups_wf (ops : List MOp) (hw : ∀ op ∈ ops, OpWF op) :
    SInv (run MState.init ops) :=
  run_sinv sinv_init hw

/-- **names aligned**: for every history interleaving group creation (every kind, also failing
ones), clause insertion and raises of the variable count, `all_variable_labels` reports exactly
`numvar` names and the i-th is the name of variable i: the label of its index in the group that
owns it (the default name for a single variable created without a name), the default name if no
group owns it. -/
theorem labels_aligned (ops : List MOp) (hw : ∀ op ∈ ops, OpWF op) (dfmt : String)
    {names : List (Option String)} (h : allLabels (run MState.init ops) dfmt = .ok names) :
    names.length = (run MState.init ops).numvar ∧
    ∀ i (hi : i < names.length), varName (run MState.init ops).groups dfmt (i + 1) = .ok names[i] :=
  allLabels_aligned (run_sinv sinv_init hw) h

/-- … and it does report them: on every reachable state, `all_variable_labels` succeeds as soon as
every variable has a name (its label / the default name can be formatted); in particular the
`assert varid == end+1` at its end never fires -/
theorem labels_defined (ops : List MOp) (hw : ∀ op ∈ ops, OpWF op) (dfmt : String)
    (hn : ∀ v, 1 ≤ v → v ≤ (run MState.init ops).numvar →
      ∃ n, varName (run MState.init ops).groups dfmt v = .ok n) :
    ∃ names, allLabels (run MState.init ops) dfmt = .ok names :=
  allLabels_defined (run_sinv sinv_init hw) hn

/-- non-vacuity, and the two histories on which the code used to be wrong (D23, fixed): a single
variable after anonymous variables, an unnamed variable -/
example : allLabels (run MState.init [.updateVarNum 3, .newGroup (.variable (some "X"))]) =
    .ok [some "x1", some "x2", some "x3", some "X"] := by decide
example : allLabels (run MState.init [.newGroup (.variable none),
    .newGroup (.block [2, 2] none), .addClause [9] true]) =
    .ok [some "x1", some "X(1,1)", some "X(1,2)", some "X(2,1)", some "X(2,2)",
         some "x6", some "x7", some "x8", some "x9"] := by decide

end Cnfgen.C11
