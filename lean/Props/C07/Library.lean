/-
C07, library half — "library generators called twice with the same seed argument return the same formula or graph".

The functions with a `seed` parameter are found by the translator (`seededGenerators`; `seeded_generators_seed_first`
in Props/C07/Sites.lean: they are the eight reviewed ones and each runs `if seed is not None: random.seed(seed)`
before anything that can draw).  `RandomKCNF` / `RandomKXOR`: Props/C13 (`seeded_independent_of_state…`).  Here the
six graph generators (`Rand/Seeded.lean`), for EVERY sampler body, every `σ`, every pair of generator states.
-/
import CnfgenModel.Rand.Seeded
namespace Cnfgen.C07
open Cnfgen Cnfgen.GRand

/-- a sampler that re-seeds first does not see the state the generator was in: same seed ⇒ same outcome (the graph,
or the exception), same remaining state -/
theorem seeded_independent_of_state {α} (σ : Int → List Draw) (s : Int) (body : RM α) (ds₁ ds₂ : List Draw) :
    seeded σ (some s) body ds₁ = seeded σ (some s) body ds₂ := rfl

/-- it is the body run on the state the seed installs; without a seed it is the body itself -/
theorem seeded_eq_body_on_seeded_state {α} (σ : Int → List Draw) (s : Int) (body : RM α) (ds : List Draw) :
    seeded σ (some s) body ds = body (σ s) := rfl

theorem unseeded_is_body {α} (σ : Int → List Draw) (body : RM α) : seeded σ none body = body := rfl

theorem bipartite_random_left_regular_same_seed (σ : Int → List Draw) (l r d s : Int) (ds₁ ds₂ : List Draw) :
    bipartiteRandomLeftRegular σ l r d (some s) ds₁ = bipartiteRandomLeftRegular σ l r d (some s) ds₂ := rfl

theorem bipartite_random_m_edges_same_seed (σ : Int → List Draw) (L R m s : Int) (ds₁ ds₂ : List Draw) :
    bipartiteRandomMEdges σ L R m (some s) ds₁ = bipartiteRandomMEdges σ L R m (some s) ds₂ := rfl

theorem bipartite_random_same_seed (σ : Int → List Draw) (L R pn : Int) (pd : Nat) (s : Int) (ds₁ ds₂ : List Draw) :
    bipartiteRandom σ L R pn pd (some s) ds₁ = bipartiteRandom σ L R pn pd (some s) ds₂ := rfl

/-- including every restart of the sampler: the restarts continue from the state reached, they do not re-seed -/
theorem bipartite_random_regular_same_seed (σ : Int → List Draw) (l r d : Int) (fuel : Nat) (s : Int)
    (ds₁ ds₂ : List Draw) :
    bipartiteRandomRegular σ l r d fuel (some s) ds₁ = bipartiteRandomRegular σ l r d fuel (some s) ds₂ := rfl

theorem add_random_missing_edges_same_seed (σ : Int → List Draw) (G : SimpleG) (B : BipG) (m s : Int)
    (ds₁ ds₂ : List Draw) :
    addRandomMissingEdgesSimple σ G m (some s) ds₁ = addRandomMissingEdgesSimple σ G m (some s) ds₂ ∧
    addRandomMissingEdgesBip σ B m (some s) ds₁ = addRandomMissingEdgesBip σ B m (some s) ds₂ := ⟨rfl, rfl⟩

theorem split_random_edges_same_seed (σ : Int → List Draw) (G : SimpleG) (k s : Int) (ds₁ ds₂ : List Draw) :
    splitRandomEdges σ G k (some s) ds₁ = splitRandomEdges σ G k (some s) ds₂ := rfl

/-- the hypothesis "a seed is given" is necessary: without one the graph depends on the state found -/
theorem unseeded_depends_on_state :
    (match bipartiteRandomLeftRegular (fun _ => []) 1 2 1 none [.sample [1]] with | .ok G _ => some G.edges | _ => none) ≠
    (match bipartiteRandomLeftRegular (fun _ => []) 1 2 1 none [.sample [2]] with | .ok G _ => some G.edges | _ => none) := by
  decide

/-- non-vacuity: a seeded call that succeeds, from two different states -/
example :
    (match bipartiteRandomLeftRegular (fun _ => [.sample [2]]) 1 2 1 (some 7) [.sample [1]] with
      | .ok G _ => some G.edges | _ => none) = some [(1, 2)] ∧
    (match bipartiteRandomLeftRegular (fun _ => [.sample [2]]) 1 2 1 (some 7) [] with
      | .ok G _ => some G.edges | _ => none) = some [(1, 2)] := by decide

end Cnfgen.C07
