/-
C07 — the whole output of a run of `cnfshuffle` as a function of the command line, the input and the seed
(`Cli/RunShuffle.lean`).  The seed of cnfshuffle is a TOKEN (`type=str`); its guard is the truthiness of the token.
-/
import CnfgenModel.Cli.RunShuffle
namespace Cnfgen.C07
open Cnfgen.Cli Cnfgen.CliRun Cnfgen.GenPh

/-- the shape of a table under which a non-empty seed token makes the run independent of the initial state: parsing
(which cannot draw) comes first, then `random.seed(args.seed)` under a guard that fires for every non-empty token, and
nothing in between -/
def seedsRightAfterParsing (t : ToolPhases) : Bool :=
  match t.events with
  | .parse _ :: .seed gd .argsSeed :: _ => (gd == .truthy && seedTy t == "str") || gd == .isNotNone || gd == .always
  | _ => false

theorem tokGuardFires_nonempty (ty : String) (gd : Guard)
    (h : ((gd == .truthy && ty == "str") || gd == .isNotNone || gd == .always) = true)
    (s : String) (hs : s ≠ "") : tokGuardFires ty gd (some s) = true := by
  cases gd <;> simp_all [tokGuardFires]

theorem shParse_ok (w : ShWorld) (argv : List String) (top : ShTop) (h : shParse w argv = .ok top) :
    parseShTop (argv.length + 1) argv.tail {} = .ok top := by
  unfold shParse at h
  cases hp : parseShTop (argv.length + 1) argv.tail {} with
  | error o => simp [hp] at h
  | ok top' =>
    simp only [hp] at h
    split at h
    · split at h
      · cases h
      · cases h; rfl
    · cases h; rfl

/-- T-C07.5 (general) for every such table: with a NON-EMPTY seed token on the command line the whole outcome of the
run (text or failure kind, number of answers consumed) does not depend on the state the generator had at start —
for every `σ`, every input text, every command line -/
theorem shuffleRunTable_deterministic (σ : String → List Shuffle.Draw) (w : ShWorld) (t : ToolPhases)
    (ht : seedsRightAfterParsing t = true) (argv : List String) (stdin : String) (s : String)
    (hs : shSeedOf argv = some s) (hne : s ≠ "") (r₁ r₂ : List Shuffle.Draw) :
    shuffleRunTable σ w t argv stdin r₁ = shuffleRunTable σ w t argv stdin r₂ := by
  unfold seedsRightAfterParsing at ht
  unfold shuffleRunTable
  cases hev : t.events with
  | nil => simp [hev] at ht
  | cons e es =>
    cases e with
    | parse c =>
      cases es with
      | nil => simp [hev] at ht
      | cons e2 es2 =>
        cases e2 with
        | seed gd a =>
          cases a with
          | argsSeed =>
            simp only [hev] at ht
            unfold shSeedOf at hs
            simp only [shRunFrom, isOutput, Bool.false_eq_true, if_false, shStep]
            cases hp : shParse w argv with
            | error o => rfl
            | ok top =>
              rw [shParse_ok w argv top hp] at hs
              simp only at hs
              simp only [hs, tokGuardFires_nonempty (seedTy t) gd ht s hne, if_true]
          | _ => simp [hev] at ht
        | _ => simp [hev] at ht
    | _ => simp [hev] at ht

theorem cnfshuffle_seeds_right_after_parsing : (phasesOf "cnfshuffle").any seedsRightAfterParsing = true := by
  decide +kernel

/-- T-C07.5 for the CURRENT source of cnfshuffle -/
theorem shuffleRun_deterministic (σ : String → List Shuffle.Draw) (w : ShWorld) (argv : List String) (stdin : String)
    (s : String) (hs : shSeedOf argv = some s) (hne : s ≠ "") (r₁ r₂ : List Shuffle.Draw) :
    shuffleRun σ w argv stdin r₁ = shuffleRun σ w argv stdin r₂ := by
  unfold shuffleRun
  have h := cnfshuffle_seeds_right_after_parsing
  cases ht : phasesOf "cnfshuffle" with
  | none => rfl
  | some t =>
    rw [ht] at h
    exact shuffleRunTable_deterministic σ w t (by simpa using h) argv stdin s hs hne r₁ r₂

/-- every integer seed is a non-empty token -/
theorem decimal_token_nonempty (v : String) (h : (decimal? v).isSome = true) : v ≠ "" := by
  intro hv
  subst hv
  simp [decimal?, isDigitStr] at h

/-! witnesses -/

def shWorld : ShWorld := { inputName := "<stdin>", baseHeader := [("generator", "CNFgen")] }

/-- a world with one file: `in.cnf` -/
def shFileWorld : ShWorld :=
  { shWorld with files := fun tok => if tok == "in.cnf" then some "p cnf 2 1\n1 0\n" else none }

/-- the EMPTY seed token is ignored by `if args.seed:` — the output then depends on the initial state.  Not a
violation of the property (the empty string is not an integer seed); recorded as an observation. -/
theorem empty_seed_token_is_ignored :
    (shuffleRun (fun _ => [.shuffled [1, 2]]) shWorld ["cnfshuffle", "--seed", "", "-p", "-c"] "p cnf 2 1\n1 0\n"
      [.shuffled [1, 2]]).1 ≠
    (shuffleRun (fun _ => [.shuffled [1, 2]]) shWorld ["cnfshuffle", "--seed", "", "-p", "-c"] "p cnf 2 1\n1 0\n"
      [.shuffled [2, 1]]).1 := by decide +kernel

/-- seed `0` is honoured (the token `"0"` is truthy): non-vacuity of T-C07.5 with the seed the old cnfgen ignored;
the state installed by the seed decides the output, the initial state does not -/
example :
    shuffleRun (fun _ => [.shuffled [2, 1]]) shWorld ["cnfshuffle", "-q", "--seed", "0", "-p", "-c"] "p cnf 2 1\n1 0\n"
      [.shuffled [1, 2]] = (.text "p cnf 2 1\n2 0\n", 1, []) ∧
    shSeedOf ["cnfshuffle", "-q", "--seed", "0", "-p", "-c"] = some "0" := by decide +kernel

/-- T-C07.5 with `-i` / `-o`: the text written to the OUTPUT FILE (and the empty stdout) is independent of the initial
generator state too — `shuffleRun_deterministic` is about the whole result, this is its projection -/
theorem shuffleRun_file_output_deterministic (σ : String → List Shuffle.Draw) (w : ShWorld) (argv : List String)
    (stdin : String) (s : String) (hs : shSeedOf argv = some s) (hne : s ≠ "") (r₁ r₂ : List Shuffle.Draw) :
    (shuffleRun σ w argv stdin r₁).2.2 = (shuffleRun σ w argv stdin r₂).2.2 := by
  rw [shuffleRun_deterministic σ w argv stdin s hs hne r₁ r₂]

/-- with `-i` the text on stdin is not read: the run is a function of the FILE's content (the environment) -/
theorem shuffleRun_input_file_ignores_stdin :
    shuffleRun (fun _ => [.shuffled [2, 1]]) shFileWorld ["cnfshuffle", "--seed", "5", "-p", "-c", "-i", "in.cnf"] "garbage" [] =
    shuffleRun (fun _ => [.shuffled [2, 1]]) shFileWorld ["cnfshuffle", "--seed", "5", "-p", "-c", "-i", "in.cnf"] "" [] := by
  decide +kernel

/-- recorded shape of `cnfshuffle -q --seed 5 -p -c -i in.cnf -o out.cnf`: nothing on stdout, the formula in the file;
a missing input file is an argparse error -/
example :
    shuffleRun (fun _ => [.shuffled [2, 1]]) shFileWorld ["cnfshuffle", "-q", "--seed", "5", "-p", "-c", "-i", "in.cnf", "-o", "out.cnf"]
      "ignored" [.shuffled [1, 2]] = (.text "", 1, [("out.cnf", "p cnf 2 1\n2 0\n")]) ∧
    shuffleRun (fun _ => []) shFileWorld ["cnfshuffle", "--seed", "5", "-i", "missing.cnf"] "" [] = (.cliError, 0, []) ∧
    shSeedOf ["cnfshuffle", "-q", "--seed", "5", "-p", "-c", "-i", "in.cnf", "-o", "out.cnf"] = some "5" := by decide +kernel

end Cnfgen.C07
