/-
C07 — where the generator is consulted: theorems over the call-site tables regenerated from the current source
(`Generated/Phases.lean`: every call of a function of `random` / of a networkx generator drawing from the
module-level generator, with the roots it is reachable from in an over-approximating call graph).
-/
import CnfgenModel.Cli.PhaseTable
import CnfgenModel.Cli.HazardReview
namespace Cnfgen.C07
open Cnfgen.Cli Cnfgen.GenPh

/-- every draw happens in a phase that the phase tables order AFTER a seeding: inside the argparse action of a
sub-command's argument (`action`), inside `build_formula` (`build`) or inside `transform_cnf` (`transform`) —
never at import time, never while the parsers are set up, never inside the action of an option of the main
parser (which could precede `--seed` on the command line), never in `cli()` itself -/
theorem draws_only_in_seeded_phases :
    ∀ s ∈ randomSites, s.draws = true → ∀ r ∈ s.roots, r ∈ ["action", "build", "transform"] := by
  decide +kernel

/-- the calls of `random.seed` are exactly: `cli()` of the three tools (events of the phase tables), the `--seed`
actions of cnfgen / pbgen, and the library generators with a `seed` parameter -/
theorem seed_calls_accounted :
    ∀ s ∈ randomSites, s.callee = "random.seed" →
      s.fn = "cli" ∨ s.roots = ["topaction"] ∨ (s.file, s.fn) ∈ reviewedSeededGenerators := by
  decide +kernel

/-- graph arguments are materialised by argparse actions of the SUB-COMMANDS (never by an option of the main
parser), and every action argument of a helper uses a known action class -/
theorem graph_arguments_materialised_while_parsing :
    (∀ a ∈ actionClasses, a.2.2.1 = true → a.2.2.2.1 = false ∧ a.2.2.2.2 = true) ∧
    (∀ a ∈ actionArguments, a.2.2.2 ∈ actionClasses.map (·.1)) := by
  decide +kernel

/-- a tool whose sub-command arguments can draw while parsing, and that has a `--seed` option, seeds inside the
option's action (D2) -/
theorem parse_time_draws_are_seeded :
    ∀ t ∈ toolPhases, parseMayDraw t = true → ∀ o, t.seedOpt = some o → o.seeds = true ∧ o.stores = true := by
  decide +kernel

/-- parsing CAN draw in cnfgen and pbgen (so the previous theorem is not vacuous), and cannot in cnfshuffle -/
theorem parse_may_draw_table :
    toolPhases.map (fun t => (t.tool, parseMayDraw t)) =
      [("cnfgen", true), ("pbgen", true), ("cnfshuffle", false), ("kthlist2pebbling", true)] := by
  decide +kernel

/-- library half: the functions with a `seed` parameter are the reviewed ones; each of them can draw, and each
runs `if seed is not None: random.seed(seed)` before anything that can draw -/
theorem seeded_generators_seed_first :
    seededGenerators.map (fun s => (s.file, s.fn)) = reviewedSeededGenerators ∧
    ∀ s ∈ seededGenerators, s.guard = .isNotNone ∧ s.arg = .argsSeed ∧ s.seedFirst = true ∧ s.draws = true := by
  decide +kernel

/-- non-vacuity: the site table is populated -/
example : (randomSites.filter (·.draws)).length ≥ 30 ∧
    (randomSites.filter (fun s => s.draws && s.roots.contains "action")).length ≥ 10 := by decide +kernel

end Cnfgen.C07
