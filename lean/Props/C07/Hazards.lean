/-
C07 — static hazards: the list of process-dependence sources regenerated from the current source equals the
reviewed list (`Cli/HazardReview.lean`, one justification per entry).
-/
import CnfgenModel.Cli.HazardReview
namespace Cnfgen.C07
open Cnfgen.Cli Cnfgen.GenPh

/-- every static hazard of the current source has been reviewed, and every reviewed one still exists -/
theorem hazards_are_reviewed : hazards = reviewedHazards := by decide +kernel

/-- in particular: nowhere in the package is a set / frozenset iterated, `id(`/`hash(` called, the clock, the working
directory, the process id, the host, a directory listing, OS entropy, a private `random.Random()` or
`random.seed()` without argument used -/
theorem no_hash_or_address_dependence : ∀ h ∈ hazards, h.kind ∉ hashKinds := by decide +kernel

/-- the only default-repr formatting of an object is the error text of `_process_graph_io_arguments` -/
theorem objects_in_format_strings :
    (hazards.filter (fun h => h.kind == "objectInFormat")).map (fun h => (h.file, h.fn)) =
      [("graphs.py", "_process_graph_io_arguments")] := by decide +kernel

/-- non-vacuity: the table is not empty (the translator found the hazards it is expected to find) -/
example : hazards.length = 20 ∧ (hazards.filter (fun h => h.kind == "dictView")).length = 6 := by decide +kernel

end Cnfgen.C07
