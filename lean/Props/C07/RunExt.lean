/-
C07 — the extended fragment of the whole-run model (`Cli/Run.lean`): graph arguments `gnm` / `gnd` (networkx's generators as
functions of the draws, Rand/NxDraws.lean), the bipartite samplers, `tseitin` with random charges, `php` over a bipartite
graph, `domset`, `kclique`, and `-T` chains with random transformations.  The determinism theorems of `Props/C07/Run.lean`
(`toolRun_deterministic`, `toolRun_function_of_seeded_state`) are statements about `toolRun` and hence about this whole
fragment; here: their corollaries for the parts of the result, and recorded real runs reproduced byte for byte by the kernel.
-/
import Props.C07.Run
namespace Cnfgen.C07
open Cnfgen.Cli Cnfgen.CliRun Cnfgen.GenPh

/-- the world of the recorded runs: numerals read by `int`, `.5` is 1/2, the base header of the installation the runs were
recorded on -/
def realWorld : World :=
  { witnessWorld with
    gw := { witnessWorld.gw with fuel := 40 }
    baseHeader := [("generator", "CNFgen (41a4c01)"),
                   ("copyright", "(C) 2012-2022 Massimo Lauria <massimo.lauria@uniroma1.it>"),
                   ("url", "https://massimolauria.net/cnfgen")] }

/-- T-C07.3 for every part of the result: with a seed on the command line the text written to stdout, the number of answers
consumed in each phase and the files written by `save` (path token and text, in order) do not depend on the state the
generator had when the process started — for every graph argument, family and `-T` chain of the fragment -/
theorem toolRun_parts_deterministic (tool : String) (htool : tool ∈ ["cnfgen", "pbgen"]) (σ : Int → Rng) (w : World)
    (argv : List String) (s : Int) (hs : seedOf argv = some s) (r₁ r₂ : Rng) :
    (toolRun tool σ w argv r₁).out = (toolRun tool σ w argv r₂).out ∧
    (toolRun tool σ w argv r₁).written = (toolRun tool σ w argv r₂).written ∧
    (toolRun tool σ w argv r₁).usedParse = (toolRun tool σ w argv r₂).usedParse ∧
    (toolRun tool σ w argv r₁).usedLater = (toolRun tool σ w argv r₂).usedLater := by
  rw [toolRun_deterministic tool htool σ w argv s hs r₁ r₂]
  exact ⟨rfl, rfl, rfl, rfl⟩

/-- recorded run of `cnfgen --seed 5 tseitin random gnd 4 2` (CPython 3.12, networkx 3.6.1): the model asks for exactly the recorded answers (2 while the
command line is parsed, 4 afterwards) and writes the same text, byte for byte -/
example :
    toolRun "cnfgen" (fun _ => ⟨[.nx (.shuffle [0, 1, 2, 3, 0, 1, 2, 3] [2, 3, 1, 0, 3, 2, 1, 0]), .nx (.shuffle [2, 3, 0, 1] [3, 0, 1, 2])],
        [.f (.randint 0 1 1), .f (.randint 0 1 1), .f (.randint 0 1 0), .f (.randint 0 1 1)]⟩)
      realWorld ["cnfgen", "--seed", "5", "tseitin", "random", "gnd", "4", "2"] ⟨[], []⟩ =
    ⟨.text ("c description: Tseitin formula on Random 2-regular graph of 4 vertices, with odd charge\n" ++
            "c generator: CNFgen (41a4c01)\n" ++
            "c copyright: (C) 2012-2022 Massimo Lauria <massimo.lauria@uniroma1.it>\n" ++
            "c url: https://massimolauria.net/cnfgen\nc random seed: 5\n" ++
            "c command line: cnfgen --seed 5 tseitin random gnd 4 2\nc\np cnf 4 8\n1 2 0\n-1 -2 0\n1 3 0\n-1 -3 0\n" ++
            "3 -4 0\n-3 4 0\n2 4 0\n-2 -4 0\n"),
     2, 4, []⟩ := by
  decide +kernel

/-- recorded run of `cnfgen -q --seed 11 kclique 2 gnm 4 3 addedges 1` (CPython 3.12, networkx 3.6.1): the model asks for exactly the recorded answers (12 while the
command line is parsed, 0 afterwards) and writes the same text, byte for byte -/
example :
    toolRun "cnfgen" (fun _ => ⟨[.nx (.choice 3), .nx (.choice 3), .nx (.choice 3), .nx (.choice 1), .nx (.choice 1), .nx (.choice 3), .nx (.choice 1), .nx (.choice 0), .nx (.choice 3), .nx (.choice 2), .g (.sample [2, 1]), .g (.sample [1, 3])],
        []⟩)
      realWorld ["cnfgen", "-q", "--seed", "11", "kclique", "2", "gnm", "4", "3", "addedges", "1"] ⟨[], []⟩ =
    ⟨.text ("p cnf 8 26\n1 2 3 4 0\n5 6 7 8 0\n-1 -2 0\n-1 -3 0\n-1 -4 0\n-2 -3 0\n-2 -4 0\n-3 -4 0\n-5 -6 0\n-5 -7 0\n" ++
            "-5 -8 0\n-6 -7 0\n-6 -8 0\n-7 -8 0\n-1 -5 0\n-2 -6 0\n-3 -7 0\n-4 -8 0\n-2 -5 0\n-3 -5 0\n-3 -6 0\n" ++
            "-4 -5 0\n-4 -6 0\n-4 -7 0\n-1 -8 0\n-2 -7 0\n"),
     12, 0, []⟩ := by
  decide +kernel

/-- recorded run of `cnfgen -q --seed 3 php glrd 1 2 1 -T shuffle` (CPython 3.12, networkx 3.6.1): the model asks for exactly the recorded answers (1 while the
command line is parsed, 3 afterwards) and writes the same text, byte for byte -/
example :
    toolRun "cnfgen" (fun _ => ⟨[.g (.sample [1])],
        [.sh (.choice (-1)), .sh (.shuffled [1]), .sh (.shuffled [0])]⟩)
      realWorld ["cnfgen", "-q", "--seed", "3", "php", "glrd", "1", "2", "1", "-T", "shuffle"] ⟨[], []⟩ =
    ⟨.text ("p cnf 1 1\n-1 0\n"),
     1, 3, []⟩ := by
  decide +kernel

/-- recorded run of `cnfgen --seed 2 randkcnf 2 2 1 -T xorcomp 2 1 -T shuffle -T majcomp 3 2` (CPython 3.12, networkx 3.6.1): the model asks for exactly the recorded answers (0 while the
command line is parsed, 11 afterwards) and writes the same text, byte for byte -/
example :
    toolRun "cnfgen" (fun _ => ⟨[],
        [.f (.sample 2 2 [0, 1]), .f (.choice 2 0), .f (.choice 2 1), .g (.sample [1]), .g (.sample [2]), .sh (.choice (1)), .sh (.choice (-1)), .sh (.shuffled [2, 1]), .sh (.shuffled [0]), .g (.sample [3, 1]), .g (.sample [2, 3])]⟩)
      realWorld ["cnfgen", "--seed", "2", "randkcnf", "2", "2", "1", "-T", "xorcomp", "2", "1", "-T", "shuffle", "-T", "majcomp", "3", "2"] ⟨[], []⟩ =
    ⟨.text ("c description: Random 2-CNF over 2 variables and 1 clauses (reshuffled)\n" ++
            "c generator: CNFgen (41a4c01)\n" ++
            "c copyright: (C) 2012-2022 Massimo Lauria <massimo.lauria@uniroma1.it>\n" ++
            "c url: https://massimolauria.net/cnfgen\n" ++
            "c transformation 1: Variable xor-compression from 2 to 2 variables\n" ++
            "c transformation 2: Formula reshuffling\n" ++
            "c transformation 3: Variable maj-compression from 2 to 3 variables\nc random seed: 2\n" ++
            "c command line: cnfgen --seed 2 randkcnf 2 2 1 -T xorcomp 2 1 -T shuffle -T majcomp 3 2\nc\n" ++
            "p cnf 3 1\n2 3 1 3 0\n"),
     0, 11, []⟩ := by
  decide +kernel

/-- recorded run of `pbgen -q --seed 4 domset 1 gnm 3 2` (CPython 3.12, networkx 3.6.1): the model asks for exactly the recorded answers (4 while the
command line is parsed, 0 afterwards) and writes the same text, byte for byte -/
example :
    toolRun "pbgen" (fun _ => ⟨[.nx (.choice 0), .nx (.choice 1), .nx (.choice 0), .nx (.choice 2)],
        []⟩)
      realWorld ["pbgen", "-q", "--seed", "4", "domset", "1", "gnm", "3", "2"] ⟨[], []⟩ =
    ⟨.text ("* #variable= 6 #constraint= 10\n+1 ~x4 +1 ~x5 +1 ~x6 >= 2\n+1 ~x4 +1 x1 >= 1\n+1 ~x5 +1 x2 >= 1\n" ++
            "+1 ~x6 +1 x3 >= 1\n+1 ~x1 +1 x4 >= 1\n+1 ~x2 +1 x5 >= 1\n+1 ~x3 +1 x6 >= 1\n+1 x1 +1 x2 >= 1\n" ++
            "+1 x1 +1 x2 +1 x3 >= 1\n+1 x1 +1 x3 >= 1\n"),
     4, 0, []⟩ := by
  decide +kernel

/-- recorded run of `cnfgen -q --seed 9 tseitin 4 2` (CPython 3.12, networkx 3.6.1): the model asks for exactly the recorded answers (0 while the
command line is parsed, 4 afterwards) and writes the same text, byte for byte -/
example :
    toolRun "cnfgen" (fun _ => ⟨[],
        [.nx (.shuffle [0, 1, 2, 3, 0, 1, 2, 3] [3, 2, 0, 1, 1, 2, 0, 3]), .f (.randint 0 1 1), .f (.randint 0 1 1), .f (.randint 0 1 0)]⟩)
      realWorld ["cnfgen", "-q", "--seed", "9", "tseitin", "4", "2"] ⟨[], []⟩ =
    ⟨.text ("p cnf 4 8\n1 2 0\n-1 -2 0\n1 3 0\n-1 -3 0\n3 -4 0\n-3 4 0\n2 4 0\n-2 -4 0\n"),
     0, 4, []⟩ := by
  decide +kernel

/-- recorded run of `cnfgen -q --seed 6 php --functional regular 2 2 1 plantbiclique 1 1` (CPython 3.12, networkx 3.6.1): the model asks for exactly the recorded answers (6 while the
command line is parsed, 0 afterwards) and writes the same text, byte for byte -/
example :
    toolRun "cnfgen" (fun _ => ⟨[.g (.randint 0), .g (.randint 1), .g (.randint 1), .g (.randint 1), .g (.sample [1]), .g (.sample [1])],
        []⟩)
      realWorld ["cnfgen", "-q", "--seed", "6", "php", "--functional", "regular", "2", "2", "1", "plantbiclique", "1", "1"] ⟨[], []⟩ =
    ⟨.text ("p cnf 3 4\n1 2 0\n3 0\n-1 -3 0\n-1 -2 0\n"),
     6, 0, []⟩ := by
  decide +kernel


end Cnfgen.C07
